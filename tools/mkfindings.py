#!/usr/bin/env python3
"""Rewrites the findings table in DESIGN.md (between FINDINGS markers) from KNOWN_FINDINGS.txt."""
import os, re
V = os.path.dirname(os.path.dirname(os.path.abspath(__file__)))
rows = []
for line in open(os.path.join(V, "KNOWN_FINDINGS.txt")):
    line = line.strip()
    m = re.match(r"fixed: property=(\S+) (\S+) (.*)", line)
    if m:
        rows.append("| %s | fixed `%s` | %s |" % (m.group(1), m.group(2), m.group(3).replace("|", "/")))
        continue
    m = re.match(r"known: property=(\S+) match=(\S+) (.*)", line)
    if m:
        rows.append("| %s | **known** (match `%s`) | %s |" % (m.group(1), m.group(2).replace("|", "/"), m.group(3).replace("|", "/")))
rows.sort(key=lambda r: r.split("|")[1])
table = "| property | status | what failed on the pinned tree |\n|---|---|---|\n" + "\n".join(rows)
p = os.path.join(V, "DESIGN.md")
s = open(p).read()
b, e = "<!-- FINDINGS BEGIN -->", "<!-- FINDINGS END -->"
s = s[: s.index(b) + len(b)] + "\n" + table + "\n" + s[s.index(e):]
open(p, "w").write(s)
print("findings:", len(rows))

#!/usr/bin/env python3
"""Rewrites the per-property as-built section of DESIGN.md (between ASBUILT markers) from tools/claims.py."""
import os, sys, glob
V = os.path.dirname(os.path.dirname(os.path.abspath(__file__)))
sys.path.insert(0, os.path.join(V, "tools"))
from claims import CLAIMS
out = []
for pid in sorted(CLAIMS):
    c = CLAIMS[pid]
    specs = sorted({os.path.basename(f) for f in glob.glob(os.path.join(V, "spec", "*.tla"))})
    out.append("**%s** — %s\n\n*Technique.* %s\n\n*Assumed / not covered.* %s\n" % (pid, c["text"], c["technique"], c["note"]))
p = os.path.join(V, "DESIGN.md")
s = open(p).read()
b, e = "<!-- ASBUILT BEGIN -->", "<!-- ASBUILT END -->"
s = s[: s.index(b) + len(b)] + "\n" + "\n".join(out) + "\n" + s[s.index(e):]
open(p, "w").write(s)
print("as-built entries:", len(out))

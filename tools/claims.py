"""What MANIFEST.json claims per property (tools/mkmanifest.py turns this into the manifest)."""
CLAIMS = {
 "C10": dict(
  text="RefCache.tla models TTLCache/LRUCache/refCounter with one action per critical section (incl. the timer goroutine that fired and "
       "evicts by key). TLC checks AtMostOnce, NotWhileHeld, NoLeak, DoubleReleaseHarmless, AddExistingReturnsCached exhaustively on small "
       "constants, with a negative control per guard. Binding: every edge of the generation state graphs is replayed on the real caches "
       "(in-package driver, real timer closures), and free-running goroutine executions are recorded at the hooks under c.mu; all recorded "
       "traces are validated by TLC against the spec and the C10 formulas are evaluated on the recorded implementation states (monitor).",
  design_ref="DESIGN.md 3 (C10), 2.4, 2.5",
  note="Bounded: exhaustive configs 2-3 keys, <=4 values, <=5 handles; trace validation covers only executions the drivers produce. "
       "Wall-clock timer scheduling is abstracted to fire/evict steps. Trusted: TLC, the projection code in harness/util/cacheutil.",
  technique="TLA+ spec + TLC exhaustive check; edge-cover replay of TLC state graph into Go; TLC trace validation + property monitor of recorded traces"),
 "C11": dict(
  text="ChunkCache.tla models cache.directoryCache at the granularity at which other goroutines can observe it (wip file, buffer from the pool, "
       "publish to the buffer LRU, persist-write, rename, fd LRU, readers over buffer/fd/file, Close() clearing both LRUs and removing the directory), assuming the LRU contract of C10. TLC checks "
       "HitIsCommitted / ReadsAreCommitted / NoRecycleWhileReferenced / FinalFilesComplete exhaustively (2 keys, 2-3 writers, 2 readers, capacities 1) "
       "with negative controls (recycle regardless of holders, rename before write, reader not holding). Binding: every edge of the generation graphs "
       "(memory+fd+file layers, direct mode, sync and async persistence) is stepped through a real directoryCache with the persistence goroutine held at "
       "verifhook gates, the recorded events are validated by TLC against the spec; free-running goroutines on all option combinations (and the memory "
       "cache) are recorded and the C11 formulas evaluated by the TLC monitor on every recorded read result; -race on throughout.",
  design_ref="DESIGN.md 3 (C11), 2.4, 2.5",
  note="Bounded models; free-running executions are decided by the monitor only (no conformance spec for their interleavings); bytes are abstracted "
       "to (writer, number of pieces); disk I/O errors only as a failing shard-directory creation under fs/reader.cacheData (reader-fault stage); misuse of a Writer (Commit twice, Write after Commit) is out of scope; Close racing with a persistence goroutine is not followed. Trusted: TLC, the projection in harness/cache.",
  technique="TLA+ spec + TLC exhaustive check; gated edge-cover replay of the TLC state graph into Go; TLC trace validation + property monitor (also on free-running -race executions)"),
 "C06": dict(
  text="Blob.tla models fs/remote blob.ReadAt/Cache with one action per critical section (cache probe + bytesWriter set-up, single-flight join/lead, "
       "httpFetcher request per mode incl. 400->single-range and 403->refresh retries, per-chunk receive = cache commit + region add + copy through a "
       "transcription of bytesWriter.Write under every split into Write calls, all-seen check, leader done, shared copy / retry with the same writers, "
       "adjustBufferSize, cache loss, failing commit) against 12 honest-but-awkward registry personalities; RegionSet.tla is a line-by-line transcription "
       "of regionSet.add checked exhaustively against set union. TLC checks ReadExact, ErrOrExact, RegionSetIsUnion, FetchedSize = distinct committed bytes, "
       "<= size and monotone, with negative controls (all-seen check off, two writer off-by-ones, region-contains branch off). Binding: every edge of two "
       "sequential generation graphs is replayed on a real blob (real httpFetcher, scripted in-memory RoundTripper, recording cache with drop/commit-failure, "
       "1-byte-per-Read bodies) and the recorded requests/results/FetchedSize/region slice/cache content are validated by TLC against the spec; "
       "free-running goroutines (directory cache with tiny LRU or memory cache, prefetch splitting, random personalities, chunk drops, -race) are judged by "
       "the TLC monitor on every recorded result.",
  design_ref="DESIGN.md 3 (C06), 2.4, 2.5",
  note="Bounded: exhaustive sizes 0..5 (arith 0..7), chunk 1..3, <=2 calls, <=3 requests, 2 concurrent callers at size 3/chunk 2. Concurrent executions are "
       "decided by the monitor only (no conformance spec, single-flight roles not observed); prefetch splitting only in free runs; Prepare and Fetch are single "
       "spec steps; a registry that lies about Content-Range is out of scope; the walkChunks alignment check turned out not to be property-bearing. "
       "Trusted: TLC, the projection in harness/fs/remote.",
  technique="TLA+ spec + TLC exhaustive check; edge-cover replay of the TLC state graph into Go; TLC trace validation + property monitor (also on free-running -race executions)"),
 "C14": dict(
  text="Sort.tla transcribes importTar / moveRec / sortEntries / divideEntries and the stream decision of appendTar over a 12-entry universe (spellings ./x /x, "
       "hard links, duplicates, implicit parents, pre-existing landmarks); the C14 formulas (ExactlyOneLandmark, EachAtMostOnce, NothingLostOrDuplicated, "
       "PrioritizedFirstInOrder, ParentsAndTargetsBefore, RestKeepsRelativeOrder, MissingAbortsOrIsReported, LandmarkStartsOwnStream, PrioritizedDataBeforeLandmark, "
       "NoOtherDataBefore) are written declaratively and checked by TLC over every tar of <=3-4 entries x every prioritized list of <=2 paths x allow-not-found, with 11 "
       "negative controls. Binding: every enumerated case (about 10^4 in quick) is materialised as a real tar and built with the real estargz.Build (gzip, zstd:chunked, "
       "external TOC; chunk sizes, min-chunk-size, 1-3 workers); an independent reader written from docs/estargz.md records entry order, stream layout, TOC offsets, "
       "missed list / error; TLC validates each record against the spec and the monitor evaluates the formulas on the recorded layout alone. Found and fixed: listed "
       "file under a directory without tar entry was 'not found' (6d65344).",
  design_ref="DESIGN.md 3 (C14), 2.4, 2.5",
  note="Covered since the second round: input landmarks in ./x, /x and plain spellings, hard links two directory levels deep sharing an ancestor with their target. Not covered: symlinks/devices/xattrs/PAX long names, hard-link cycles (C04), the GOMAXPROCS default worker count; "
       "compressed sizes are not modelled (min-chunk decisions bound from the observation); quick draws one option set per case by seed. Trusted: TLC, the independent layout reader.",
  technique="TLA+ transcription + TLC exhaustive enumeration with negative controls; every case replayed through the real builder; TLC trace validation + formula-only monitor on the recorded layout"),
 "C03": dict(
  text="Writer.tla transcribes the appendTar header/chunk loop (flush, new-stream-or-innerOffset decision, Offset/InnerOffset/ChunkSize rules), divideEntries, the parallel "
       "sub-writers and closeWithCombine rebasing, and the lossless tail; formulas TocAddressesRightBytes (incl. chunk and file digests), ChunksTileFile, "
       "OffsetsUniquePerStreamStart, EntriesPreserved, DiffIDIsHashOfDecompressed, TocDigestIsHashOfTocJSON, LosslessIdentity; 5 negative controls. Binding: TLC-enumerated "
       "inputs (<=3 entries with sizes around the chunk size, plus fixed 5-entry inputs) x Build with 1-3 workers / NewWriter+AppendTar / AppendTarLossLess x gzip, zstd:chunked, "
       "external TOC x min-chunk sizes are built by the real code; an independent reader (footer -> TOC; one gzip member / zstd frame at a time; archive/tar) records the observed "
       "layout with SHA-256 content ids; TLC validates it as a behaviour of Writer.tla (compressed sizes bound from the observation) and the monitor evaluates the formulas on the record alone.",
  design_ref="DESIGN.md 3 (C03), 2.4, 2.5",
  note="Quick replays ~1000 fixed combinations (all special families: repeated names with different metadata, nested files named like the reserved TOC/landmark entries, PAX global headers in lossless mode, mtimes before the epoch and beyond year 2262) plus a seeded sample of the rest; RFC validity of members = the standard decoders accept them; not covered: repeated AppendTar calls on one "
       "writer, already-eStargz or zstd-compressed input, xattrs/symlinks/devices; the offset of EMPTY files is not constrained by any C03 formula (a mutant there is spec drift, exit 2).",
  technique="TLA+ transcription + TLC; builder outputs parsed by an independent reader; TLC trace validation + formula-only monitor on the recorded layout"),
 "C18": dict(
  text="Creds.tla models the CRI keychain (Pull records the auth before the backend call, Remove deletes, Query by exact reference, ParseAuth incl. docker.io aliases, "
       "first-non-empty-wins composition); Fetcher.tla models newHTTPFetcher / fetch / check / refreshURL, the 401 retry and a registry personality script (direct, redirect, "
       "locations expiring with 403, 401 challenge) with the (url, header) pair guarded by urlMu. TLC checks OnlyLatestPullOfExactRef, ServerAddressMustMatch, GoneAfterRemove, "
       "FirstNonEmptyWins, ConfinedHeaders, ConfinedAuth exhaustively with one negative control per guard. Binding: every edge of the generation graphs is replayed on the real "
       "code - request sequences against cri.NewCRIKeychain with a stub backend; interleavings forced on real goroutines through verifhook gates around the read of f.url and a "
       "blocking in-memory registry - plus seeded random sequences and free-running -race executions; Hosts.tla models RegistryHostsFromConfig (mirrors with/without headers + the implicit "
       "origin) and the fall-through of newHTTPFetcher over that list (HostHeadersOwn, SentHeadersOwn; every config run through the real code against loopback servers recording each request); "
       "Fetcher.tla also models a registry that answers 403 once so a directly resolved fetcher can refresh into a redirect; every http.Request (host, headers, Authorization) and every credential answer "
       "is validated by TLC against the spec and the formulas are evaluated by the monitor. The torn read of (url, header) was reproduced on the pinned code and fixed (8be7b8b).",
  design_ref="DESIGN.md 3 (C18), 2.4, 2.5, 7 item 6",
  note="Bounded: 2 refs, <=3 pulls, 12 auth forms; 2 workers x <=2 operations, <=3 personality changes, 2 locations, one registry host. Creds requests are sequential. The 400 "
       "fallback, multipart bodies and retryablehttp are not modelled; Authorization exercised with the docker authorizer in Basic mode only. Trusted: TLC, the drivers' projection.",
  technique="TLA+ specs + TLC exhaustive check; edge-cover replay into Go (gated for interleavings); TLC trace validation + property monitor of replayed and free-running -race executions"),
 "C20": dict(
  text="Labels.tla transcribes the pull-side label writers (AppendDefaultLabelsHandlerWrapper, AppendExtraLabelsHandler over containerd's CRI labels, appendWithValidation with the "
       "4096-byte limit exactly as checked) and the readers (FromDefaultLabels, sourceFromCRILabels, the sources chain) over abstract manifests (string lengths as integers); TLC "
       "checks AllLabelsValid, RoundTrip, NeighbourUrlsPositional, PrefetchSizeRoundTrips, MalformedMandatoryRejected for every manifest of <=3-4 entries, a 55..60-layer family "
       "crossing the limit, both flavours, every layer child and label removal/emptying/corruption, with 7 negative controls. Binding: every generated case is materialised as real "
       "descriptors, run through the real handlers, labels.Validate and readers; TLC validates each recorded result against the spec and the monitor evaluates the formulas on the "
       "recorded values alone. Found and fixed: urls.<i> indexed by child position instead of layer position (0e33758).",
  design_ref="DESIGN.md 3 (C20), 2.4, 2.5",
  note="Strings abstracted to (length, token ids) except six concrete reference shapes that round-trip byte for byte and seven malformed spellings; URL lists landing exactly on the 4094..4097-byte boundary and descriptors with pre-set remote/* annotations are in the edge family; every single removal/emptying of urls / urls.<i> (i<=3) is generated (UrlsOwnOrNone); every case reads the same label map twice (ReaderLeavesLabels, RoundTripSecondRead); one long-family pattern has mixed sha256/sha512 digest lengths; no ',' in URLs/refs; on the pinned code manifests whose layer descriptors pre-set remote/urls* or prefetch make RoundTrip / PrefetchSizeRoundTrips false for the extra (CRI-labels) flavour (known finding :fl=extra:preset; the exhaustive runs check the repaired design, the pinned design is a negative control); an absent URL list read back as [\"\"] is treated as "
       "no URL (only ipfs:// prefixes are consumed downstream); fs.Mount observed at the GetSources boundary. Trusted: TLC, the driver's materialisation.",
  technique="TLA+ transcription + TLC exhaustive enumeration with negative controls; every case replayed through the real handlers/readers; TLC conformance + formula-only monitor"),
 "C17": dict(
  text="FuseMgr.tla models fusemanager.Server with one atomic action per RPC (Init with failure sites bad config / ConfigFunc / NewFileSystem and restore in key order stopping "
       "at the first failure, Mount, Check, Unmount, Close), manager restart on the kept store file and crash points between the filesystem effect and the durable write. TLC checks "
       "RecordEqualsServing, NoSecondMount, MapMatchesLive, ServedByCreator, NewMountsUseNewConfig, RestartRemountsRecordedWithLabels, UnknownUnmountOK, BeforeInitFails, NoPanic "
       "exhaustively with a negative control for each of 10 guards. Binding: every edge of the generation graphs plus seeded random histories beyond the bounds is executed on the real "
       "Server RPC methods with a real bolt store file; recording filesystems are injected through a verifhook seam after service.NewFileSystem; every recorded history is validated by TLC "
       "against the spec and the C17 formulas are evaluated on the recorded states. Found and fixed: Mount after a failed first Init dereferenced a nil filesystem (291c12c).",
  design_ref="DESIGN.md 3 (C17), 2.4, 2.5, 7 item 10",
  note="Histories only (no concurrent RPCs); recorded labels are compared with the labels served (RecordedLabelsServed: live mount's or last acknowledged request's); bolt commits assumed atomic; no foreign kernel mounts; no requests after Close; gRPC transport and client.go not exercised; "
       "'restoration failed' is read as recorded-but-unserved when the last Init reported an error. Trusted: TLC, the projection in harness/fusemanager.",
  technique="TLA+ spec + TLC exhaustive check with negative controls; edge-cover replay of the TLC state graphs into Go; TLC trace validation + property monitor of the recorded histories"),
 "C16": dict(
  text="Store.tla models the additional-layer store's LayerManager with one action per call (getLayer incl. memoised resolution of all layers of the image and caching by the "
       "actual TOC digest, use, release with the drop-at-zero bookkeeping) and the fs.go handlers (layernode.Lookup diff|blob|info, Create 'use', refnode.Rmdir) as thin wrappers, "
       "registry failures as action arguments. TLC checks CountNonNegative, NeverDoneWhileUsed, HandlesMatchLayers, UnknownDigestFails, LookupSucceedsIffTocInImage, "
       "LastReleaseDropsBookkeeping, NextLookupResolvesAgain exhaustively with 5 negative controls (each one statement of release/resolve switched off). Binding: every edge of four "
       "generation graphs is executed on a real LayerManager (real layer.Resolver over an in-memory remote.Handler, pre-seeded refPool) and through the go-fuse raw bridge into the "
       "rootnode/refnode/layernode handlers; racing lookups on one image run under -race; every recorded call/result/projection (the three maps read under r.mu, Done counts) is "
       "validated by TLC against the spec and the formulas are evaluated by the monitor. Found and fixed: release deleting from the wrong map (c08d15a); data race on layer.r (6ec7362).",
  design_ref="DESIGN.md 3 (C16), 2.4, 2.5, 7 item 3",
  note="Calls are atomic in the spec (interleavings inside calls only in the racing-lookup runs, decided by outcome/quiescent-state checks); a lookup whose caller cancels while resolution is pending is modelled (negative control ResolveDetached); loadRef/network, TTLs and time-outs "
       "not modelled; remembered registry errors stay until the image's last release and never-used sibling layers stay cached after it (by design of the code; not claimed). "
       "Two images only in thorough and race runs. Trusted: TLC, the projection in harness/store.",
  technique="TLA+ spec + TLC exhaustive check with negative controls; edge-cover replay of the TLC state graphs into Go (manager and FUSE-handler level); TLC trace validation + property monitor; racing lookups under -race"),
 "C08": dict(
  text="Snapshotter.tla models snapshot/snapshot.go for one caller with one action per observable step between durable effects (createSnapshot MkTemp/Rename/Commit/Fail, Prepare's backend "
       "Mount ok|fail and internal commit ok|AlreadyExists, fallback, availability check over the parent chain with the failing set as argument, View, Commit, Remove txn + orphan scan, "
       "cleanupSnapshotDirectory Unmount-then-RemoveAll with EBUSY semantics, Cleanup, Close, Update, Walk/Stat). TLC checks PrepareTargetOutcome, NoMountsIfRemoteUnavailable, "
       "LowerDirsNearestFirst, UnmountOnlyAfterRemovedOrClosing, UnmountBeforeRmdir/ReclaimedDirIsGone, AfterCleanupDirsAreLive, AckedStayUntilRemoved, LabelsStable exhaustively (as action "
       "properties on every transition) with 5 negative controls. Binding: walks over every edge of the generation graphs plus simulated deeper behaviours are replayed on a real "
       "snapshot.NewSnapshotter with a recording backend that mounts a real tmpfs (EBUSY on deletion, kernel table checkable); every hook/backend event is recorded with the projected bolt "
       "metadata, snapshots/ directory, backend table and /proc/self/mountinfo; TLC validates the traces and the monitor evaluates the formulas on the recorded states.",
  design_ref="DESIGN.md 3 (C08), 2.4, 2.5, 2.8",
  note="Bounded: <=2 keys, 2 committed names, 3 ids, 3-4 calls, all fault assignments; one caller in Snapshotter.tla; a focused TWO-caller stage (Snapshotter2.tla: createSnapshot vs Cleanup/Close with the bolt write lock, negative control CleanupScanExcludesWriters) is replayed with goroutines gated at the existing hooks; other caller pairs not modelled; key and target names disjoint; Update touches a user "
       "label only; backend is a tmpfs-mounting fake, not FUSE; -race off in the replay (single caller). Quick replays a ranked subset of walks of the larger graphs (thorough: every edge). "
       "Trusted: TLC, the projection in harness/snapshot.",
  technique="TLA+ spec + TLC exhaustive check with negative controls; edge-cover + simulation walks replayed into Go with fault injection; TLC trace validation + property monitor"),
 "C09": dict(
  text="The same Snapshotter.tla plus Crash(backend survives?) enabled between any two steps and Restart decomposed into force-unmount of leftovers / walk / mkdir / Mount(ok|fail) with "
       "allow_invalid_mounts_on_restart and no-restore. TLC checks RestartSucceedsOrPrescribed, RemountedExactly, RestoredWithStoredLabels, NoRestoreKeepsMounts, RestartPreservesSnapshots, "
       "OneCleanupRemovesHalfMade, MetaHasDirs with 5 negative controls. Binding: verifhook.CrashPoint markers between the durable effects of snapshot.go; at the n-th marker/backend event "
       "the walk names, the handler copies the root directory synchronously (= crash image), the old instance is abandoned, leftover kernel mounts are re-created on the copy and "
       "NewSnapshotter runs on it with a fresh (or surviving) recording backend whose restore-time Mount results come from the walk; Walk/Stat/Mounts/Remove/Cleanup afterwards are recorded; "
       "TLC trace validation + monitor decide. One known finding (Cleanup on a never-written metadata DB returns NotFound before scanning).",
  design_ref="DESIGN.md 3 (C09), 2.4, 2.5",
  note="bolt commit and rename(2) assumed atomic (no torn writes inside them); a crash during restore or Close only with a dying backend; Close followed by a no-restore start not modelled; "
       "one caller; every crash class (call, program counter, backend survives?) gets a deterministic crash->Restart->Cleanup walk in quick, on an empty root and on a root with a committed remote snapshot (call budget leaves some second-call crash points of the empty-root graphs uncovered); a remote snapshot directory has three states (absent / present without fs / complete) with tearing crashes inside Close's removal and between the two mkdirs of restore, constructed in the crash image. Trusted: TLC, the projection and crash-image copy in harness/snapshot.",
  technique="TLA+ spec with Crash/Restart actions + TLC exhaustive check; crash-point replay (root directory copied at the marker, restart on the copy); TLC trace validation + property monitor"),
 "C13": dict(
  text="TaskMgr.tla follows task.go step by step: the atomic counter of prioritized tasks, the notify channel replaced under notifyMu (epoch), the delayed-decrement goroutines that "
       "implement the silence period (sleep / lock-free add / broadcast as separate steps), the semaphore, the re-check under the lock (Decide), the select on done/notify, the retry loop; "
       "body executions may finish arbitrarily late after cancellation. TLC checks StartOnlyWhenQuiet (action property), Bounded, NoSelfOverlap, NoneRunningAtReturn exhaustively and "
       "CancelOnPrioritized / EventuallyCompletes under fairness in separate configs, with 6 negative controls (incl. WaitBodyOnCancel = the pinned code). Binding: G - edge covers of the "
       "generation graphs are replayed through verifhook gates on a real manager (one spec action = the segment between two gates); T - free-running seeded runs under -race with bodies "
       "reacting late to cancellation, ordered by hook calls, plus one saturated scenario (the only slot held by a body that reacts to cancellation 5.5 s late, a second invocation queued in Acquire, a prioritized task lasting 6.5 s: a body that begins more than 5 s into the prioritized task is the driver verdict LateStart, formula MonNoLateStart); both validated by TLC against the spec and by the monitor. The pinned defect (cancelled body not awaited) was found by the "
       "check itself and fixed.",
  design_ref="DESIGN.md 3 (C13), 2.4, 2.5, 7 item 1",
  note="the ctx timeout is modelled as an environment action (Timeout) with a negative control; Acquire queuing and a timeout hitting a queued invocation are modelled (negative control AcquireIgnoresTimeout); caller discipline (Do/Done balance) is checked for fs.Check only; semaphore FIFO abstracted to any waiter; the wait loop's lock-free reads are not compared with the model; walks behind two-armed selects may be "
       "abandoned after 5 retries (exhaustive reported false); liveness on the implementation side is bounded-wait only (30 s return, 5 s cancel); the late-start verdict assumes no goroutine stalls for 5 s between its start decision and the spawn of its body; callers in fs/layer, fs, store not exercised. "
       "Trusted: TLC, the gate scheduler and projection in harness/task.",
  technique="TLA+ spec + TLC exhaustive safety and fair liveness checks with negative controls; gated edge-cover replay into Go; TLC trace validation + property monitor of gated and free-running -race traces"),
 "C01": dict(
  text="Verify.tla models the verification chain of fs/reader and fs/layer: prefetch workers (one readAndCache call = Probe / ReadSrc / Decide under the RLock with the prohibit flag and "
       "lastVerifyErr / Commit), VerifyTOC as Lock-set-prohibit-load / Unlock / compare-and-finish, SkipVerify, layer.Verify / SkipVerify on a cached layer object, on-demand reads "
       "(cache hit unverified by design, miss = fetch -> verify -> cache -> return), passthrough merge, and source alterations at any time (valid-but-different stream, broken stream, "
       "altered TOC). TLC checks MountImpliesToc, ServedAreGood, NoBadStaysCached, FailedReadLeavesNothing exhaustively with 5 negative controls (decision outside the lock, no abort when "
       "prohibited, cache before verify, passthrough without verify, no re-check on a cached layer). Binding: every edge of four generation graphs is replayed through verifhook gates on "
       "real VerifiableReader / layer objects over real gzip and zstd:chunked eStargz blobs whose alterations are produced by a concretiser (CRC-corrected payload substitution in stored "
       "gzip members, bit flips, truncation, member swaps, re-serialised TOC with fresh footer); recorded outcomes, served values and cache probes are validated by TLC against the spec and "
       "the formulas evaluated by the monitor; a free-running -race mode and an alteration sweep are decided by the monitor. Found and fixed: layer.Verify no-op after SkipVerify/Verify.",
  design_ref="DESIGN.md 3 (C01), 2.4, 2.5, 7 item 5",
  note="Bounded: 2 chunks of one file, <=2 workers, <=2 reads, <=2 alterations, <=3 Verify calls. The db store runs the one-worker gated graph, free runs and the sweep (the two-worker graph and layer histories stay on the memory store); external-TOC blobs only with payload alterations; a retried VerifyTOC after a failed one is generated (MaxVerify=2); Clone is covered by sweep histories (monitor only); the Mount label decision of fs.go (TOC-digest label / skip label x allow_no_verification x disable_verification) is modelled (Mount action, negative control TocLabelFirst) and driven through a real NewFilesystem + FUSE mount; disable_verification mounts are not counted as pinned; tampering with uncompressed cache files at rest is out of scope (hits are unverified by design); concurrent Mounts racing on one layer object not modelled; "
       "'valid different payload' substitution only for stored gzip; a wrong-digest-field mutant fails closed and shows as exit 2. Trusted: TLC, the concretiser and projection in harness/fs/reader.",
  technique="TLA+ spec + TLC exhaustive check with negative controls; gated edge-cover replay of the TLC state graphs into Go over really altered blobs; TLC trace validation + property monitor; monitor-only free run and alteration sweep"),
 "C02": dict(
  text="ReadPath.tla transcribes the lazy read path (file.ReadAt with the lower/upperDiscard arithmetic and expectedSize, ChunkEntryForOffset, fileReader.ReadAt with the pre-reader "
       "caching sibling chunks of a shared compression stream, VerifiableReader.Cache as prefetch/background fetch, evictions) over layouts taken from the real TOC of really built blobs; "
       "TarMeta.tla states what a tar describes (last duplicate wins, implicit parents 0755, hard links share an inode and count in nlink, symlink size, rdev) and transcribes "
       "initFields/entryToAttr/fileModeToSystemMode/node.Lookup with the memoised listing. TLC checks ReadEqualsSource, CacheHoldsOnlySourceBytes, MetaEqualsTar exhaustively with 9 "
       "negative controls. Binding: every edge of the generation graphs is replayed on layers built by estargz.Build (gzip, zstd:chunked, min-chunk-size shared streams, prioritized files) "
       "and served through BOTH metadata stores (memory; bolt db via the cmd module), reader.Reader and the node layer, with memory / tiny-LRU directory caches behind a drop wrapper; TLC "
       "validates the recorded events and evaluates the formulas on the recorded results; concurrent readers with evictions and fills run under -race, judged by the monitor. Found and "
       "fixed: db store listed a file's chunks of a shared stream several times (b6c08c8).",
  design_ref="DESIGN.md 3 (C02), 2.4, 2.5",
  note="Bounded: <=3 files of <=9 bytes, chunk size 2-3, 3-6 option sets, 2-3 tar shapes of <=9 entries. Not covered here: remote blob / fetch failures (C06), chunk verification (C01), "
       "real FUSE mount and passthrough, './' root entries (C05/C15), whiteouts (C07). Covered since the second round: external-TOC blobs, 2-4 build workers, directory link counts, device numbers within the 32-bit FUSE rdev (boundaries at 8, 12, 20 bits). Concurrent runs monitor-only. "
       "Trusted: TLC, the projection in harness/fs/layer/verif_readpath.go.",
  technique="TLA+ transcriptions + TLC exhaustive check with negative controls; edge-cover replay into Go on both metadata stores; TLC trace validation + property monitor (also on free-running -race executions)"),
 "C07": dict(
  text="Node.tla models one served directory of fs/layer/node.go with one action per call (readdir memoisation, the order of Lookup's tests, in-memory go-fuse children, Forget, opaque "
       "xattrs per mode, the state directory and stat file); TLC checks ListingIsTranslation, ListedIffLookup, InodesUniqueStable, OpaqueXattr, StateFileJSON, StateDirHidden exhaustively "
       "(as invariants and action properties) for every directory content of <=3-4 names out of 7-8 (whiteouts, opaque marker, landmarks, TOC entry, names beginning with .wh.), root and "
       "sub-directory, the 3 opaque modes and every call order, with 9 negative controls. Overlay.tla defines Translate, ApplyOCI, OverlayMerge; TLC checks OverlayMerge(Served(stack)) = "
       "ApplyOCI(stack) for all stacks of <=3 small layers. Binding: every edge of the Node graph (+ random walks, every sequence of <=4 state-file calls, every sequence of <=3 "
       "Readdir/Lookup/Forget calls) is replayed on real nodes of real eStargz layers over the memory and bolt-db stores; recorded results are validated by TLC and the formulas evaluated "
       "by the monitor; the trees served for 96-480 model layers in all 3 modes on both stores are recorded and TLC merges stacks of them with OverlayMerge and compares with ApplyOCI. "
       "Found and fixed: three defects (e394a06, 7be4fbc, eeb783d).",
  design_ref="DESIGN.md 3 (C07), 2.4, 2.5, 7 item 4",
  note="Bounded universes (10-14 names incl. hard links, real char devices 1:3 and 0:0, block device, fifo, symlink; depth two, <=3 layers; sampled pairs/triples in the monitor). No kernel: overlayfs is the operator OverlayMerge and the go-fuse bridge "
       "bookkeeping is emulated. Layers with the opaque marker on the layer root are outside the stack comparison. Not modelled: a real entry named .stargz-snapshotter, a whiteout together with a real device of the same name, "
       "concurrent Readdir/Lookup, the choice of opaque mode in service.go. Trusted: TLC, the projection in harness/fs/layer/verif_node.go.",
  technique="TLA+ specs + TLC exhaustive check with negative controls; edge-cover and exhaustive short-sequence replay into Go on both metadata stores; TLC trace validation + property monitor; TLC evaluation of OverlayMerge on recorded served trees"),
 "C05": dict(
  text="Toc.tla defines a TLC-enumerated space of small spec-conforming TOCs (paths with ./ ../ and trailing-slash spellings, all entry types, chunk layouts incl. inner-offset and "
       "shared streams, digest profiles, empty-valued xattrs, repeated directory entries, directory entries after their children, hard links before their target and link-to-link, "
       "trailing whitespace after the TOC JSON) and the REFERENCE SEMANTICS as operators (tree, node identity, attributes, link counts, chunk table and ChunkEntryForOffset for every "
       "offset, bytes, GetOffset, accept/reject, TOC digest); TLC checks the reference's sanity invariants with negative controls. Binding (3-way differential): every enumerated TOC is "
       "materialised as a real blob, opened by memory.NewReader and db.NewReader (cmd module), the complete metadata.Reader API is walked and recorded per store; TocTrace validates each "
       "store's record against the reference and TocMonitor evaluates StoresAgree (accept, digest, tree, attrs, links, chunks, bytes, offsets, clone) on the two records; layers opened "
       "concurrently in one bolt DB under -race are compared with their solo records. Ten genuine differences/defects were found and fixed; one is listed as known.",
  design_ref="DESIGN.md 3 (C05), 2.4, 2.5, 7 items 8-9",
  note="Bounded: <=3 entries (4 thorough) over 6 paths, plus fixed families: files of 3-12 chunks with chunk offsets crossing the varint byte-order boundaries, names with inner and trailing dot elements, modtime profiles outside the int64-nanosecond range / with zone offsets / sub-second precision, and a clone taken immediately after NewReader of a 6000-entry TOC (EarlyCloneAgree); hand-made payload streams; builder-made blobs and the zstd / external-TOC formats are exercised by C02/C03, not here; "
       "GetAttr(root) before the db parser finishes is timing dependent and not recorded; the one-database stage is decided by the monitor only. Trusted: TLC, the blob concretiser and walk in harness/metadata.",
  technique="TLA+ reference semantics + TLC enumeration with negative controls; 3-way differential replay (reference / memory store / db store) on real blobs; TLC trace validation + StoresAgree monitor; concurrent one-DB runs under -race"),
 "C04": dict(
  text="TocHostile.tla and Footer.tla define a structured adversarial input space that TLC enumerates: hostile TOCs of <=3 entries (4 thorough) with all types plus an unknown one, "
       "hard-link cycles, links to directories and to the own parent, duplicate/empty/dot names, one entry with deviating numbers from {-1,0,1,S,P,2^62} or empty/malformed digests; 327 footer "
       "cases (four footer kinds x blob-length classes x field mutations x offsets x WithTOCOffset); 267 hostile tars for the builder; the reference says which outcomes are allowed (ok or "
       "error; plain TOCs and valid footers must be accepted, short blobs rejected). Binding: every case is concretised to real bytes and driven IN CHILD PROCESSES (per-case deadline, 64 MiB "
       "stack, address-space cap; a dying or silent child is attributed to the case in flight and re-run alone) through estargz.Open + walk/read/verify, the four ParseFooter, OpenFooter, "
       "Build, memory.NewReader and db.NewReader + full metadata.Reader walk, VerifiableReader.Cache and fs/reader ReadAt; the monitor formula NoCrashNoHang decides on the recorded outcomes "
       "(ok | error | panic | fatal | timeout). All crashes known from DESIGN 7 item 2 were re-found by the check; 15 defects fixed, two listed as known (whole-chunk buffers sized from the TOC).",
  design_ref="DESIGN.md 3 (C04), 2.5, 7 item 2",
  note="Only the structured space within the stated bounds (incl. zstd:chunked LENGTH extremes with offset+length overflow, every footer case opened through both stores with the zstd decompressor) - not unstructured byte fuzzing; registry replies (Content-Range / multipart) and the FUSE node layer are not covered; in quick the db "
       "store runs a seeded subset of the 3-entry structures; compressed-stream internals are the decoders' business. Trusted: TLC, the concretiser, the child-process runner.",
  technique="TLA+ structured input-space model + TLC enumeration; every case replayed through the real parsers/stores in crash-isolated child processes; TLC conformance to the allowed-outcome reference + NoCrashNoHang monitor"),
 "C12": dict(
  text="Layer.tla models layer.Resolver.Resolve / resolveBlob as a per-caller program with one action per critical section (resolve lock, layerCache / blobCache Get / Check / evicting "
       "release / Remove / Add with the discard-the-new-one branch, new cache directories, registry and metadata failures), Done / Close / repeated Close, Refresh, connectivity breaks and TTL "
       "expiry of either cache; the two caches follow the refcount contract of C10. TLC checks HeldLayerServes, ReturnedIsCached + NoDuplicateCreation (one instance per name), "
       "AllReleasedAndEvictedFreesEverything, ClosedMeansGone, NoOpenFilesAfterClose, FailedResolveLeaksNothing, ResolveAgainWorks exhaustively with 7 negative controls. Binding: every edge of "
       "the generation graphs is executed on a real Resolver with Resolve goroutines stepped between 14 verifhook gates (in-memory remote.Handler, real directory caches, wrapped metadata reader, "
       "open files read from /proc/self/fd); TLC validates the recorded projections and the monitor evaluates the formulas; free-running goroutines (burst resolves, Done/Close/expiry/faults) "
       "run under -race and are decided by the monitor. Found and fixed: directoryCache.Close left its fd LRU open (2d84805).",
  design_ref="DESIGN.md 3 (C12), 2.4, 2.5",
  note="Bounded models (1 name x 3 holders x 4 resolves x 2 faults; 2 names x 2 holders x 3 resolves); expiry is driven through TTLCache.Remove, not real timers (C10's subject); blob.Check's valid interval is modelled (Tick, fresh/bad bits, formula CheckNotFooled, negative control StampOnlyOnSuccess); the Done/close cascade is "
       "one atomic step in the model; two concurrent Resolve calls of one name without the lock are exercised only by the free-running burst phase; not covered: memory cache type, db metadata store, "
       "prefetch/background fetch (C15), passthrough, mkdir/Close errors. Trusted: TLC, the projection (reflection on cacheutil/remote/reader fields) in harness/fs/layer/verif_layerlife_test.go.",
  technique="TLA+ spec + TLC exhaustive check with negative controls; gated edge-cover replay of the TLC state graph into Go; TLC trace validation + property monitor (also on free-running -race executions)"),
 "C19": dict(
  text="Convert.tla models one converter instance (eStargz, zstd:chunked, external-TOC lossy and lossless) running N conversions: option append, Build, OpenStream (writer ref, Truncate, lossless "
       "DiffID check), CommitBlob (AlreadyExists keeps labels), Interrupt, Annotate, the shared esgzDigest2TOC map write (begin/end) and Finalize, over a content store and a catalogue of sources "
       "(plain, gzip, zstd, already-converted; OCI and Docker media types). TLC checks DescDescribesBlob (digest, size, TOC digest verifies, uncompressed size, store label = DiffID, media type, zstd "
       "manifest info), TocImageMapsEveryLayer, LosslessKeepsDiffID, NoConversionPanics, MapWritesMutuallyExclusive exhaustively with 6 negative controls. Binding: every edge-cover schedule is imposed "
       "on real ConvertFunc goroutines parked at verifhook gates and at writer calls of a wrapping plugins/content/local store; free runs put 2-4 conversions in parallel under -race; every value the "
       "formulas use is recomputed independently from the bytes read back from the store (sha256, full decompression, estargz.Open + VerifyTOC + every chunk verifier, hand-parsed zstd:chunked footer); "
       "TLC trace validation + monitor decide. Found and fixed: five defects (three shared-slice/map races, a wrong media type, a nil-buffer panic).",
  design_ref="DESIGN.md 3 (C19), 2.4, 2.5, 7 item 7",
  note="N=2 conversions per gated walk (N=3 thorough) over a catalogue of 12 source layers (plain/gzip/zstd/already converted x OCI, OCI non-distributable, Docker, Docker foreign media types), every source converted in every mode in every run; tiny layers; per-layer-option APIs only in a few free runs; a deviating lossless writer exists only in the design model; interruption and "
       "stale ingests exercised but not studied separately; the packages' own tests need the network and are outside the baseline. Trusted: TLC, the independent recomputation in the driver.",
  technique="TLA+ spec + TLC exhaustive check with negative controls; gated edge-cover replay of schedules into real conversions; TLC trace validation + property monitor; parallel conversions under -race"),
 "C15": dict(
  text="Prefetch.tla models Layer.Prefetch / WaitForPrefetchCompletion / BackgroundFetch over a scenario record (layer layout measured from really built layers: file offsets, registry chunk "
       "spans, landmark kind and offset, blob size; configured size, async threshold, caller counts): PrefetchCall with the Once, Range (no-prefetch | landmark offset | configured size capped at "
       "the blob size), AsyncThreshold, BlobCache ok|fail|stall, ReaderCache, PrefetchEnd (waiter closed also on failure), Wait / WaitReturn / WaitTimeout, BackgroundFetch suspended by "
       "prioritized tasks, reads, registry off/on. TLC checks AfterPrefetchPrioritizedReadsAreLocal, NoPrefetchLandmarkNoTraffic, ConfiguredSizeCapped, PrefetchTrafficConfined, "
       "AfterBackgroundFetchOfflineReadable, WaiterClosedAtEnd, WaitNeverStuck exhaustively and WaitReturns under fairness, with 6 negative controls. Binding: TLC walks are replayed at verifhook "
       "gates on real layers (estargz.Build with prioritized lists, incl. tars with a './' root entry) resolved by layer.Resolver over a recording remote.Handler with a scripted fail/stall/off "
       "switch, on BOTH metadata stores; request-log deltas, read results and wait outcomes are validated by TLC against the spec and the formulas (plus MonCompletes, MonWaitBounded) evaluated "
       "by the monitor; free-running concurrent calls under -race are decided by the monitor. The db-store './' defect (prefetch never completing) was re-found by this check (fixed under C05).",
  design_ref="DESIGN.md 3 (C15), 2.4, 2.5, 7 item 8",
  note="Quick replays 16 walks per scenario (exhaustive false; thorough covers every edge); chunk cache = directory cache with SyncAdd (with asynchronous persistence a miss in the window is allowed by "
       "C11); reads go through reader.Reader.OpenFile, not a kernel mount; files are the unit of caching in the spec, with partial reads (ReadPart) of multi-chunk files and a 2.7 MB layer because the readers peek up to 2 MiB; the async-threshold decision is tied to the effective range (WaitNilOnlyIfEndedOrAsync); a failing chunk-cache Add is injected as an environment choice (SuccessMeansCached: a step that reports ok has cached what it covers); the task manager is abstract (C13); wait timing checked with 3 s slack; "
       "cfg = 0 and a closed layer not exercised. Trusted: TLC, the recording registry and projection in harness/fs/layer/verif_prefetch.go.",
  technique="TLA+ spec + TLC exhaustive safety and fair liveness checks with negative controls; gated replay of TLC walks on real layers over both metadata stores; TLC trace validation + property monitor; free-running -race runs"),
}
NOT_APPLICABLE = {}

"""What MANIFEST.json claims per property (tools/mkmanifest.py turns this into the manifest)."""
CLAIMS = {
 "C10": dict(
  text="RefCache.tla models TTLCache/LRUCache/refCounter with one action per critical section (incl. the timer goroutine that fired and "
       "evicts by key). TLC checks AtMostOnce, NotWhileHeld, NoLeak, DoubleReleaseHarmless, AddExistingReturnsCached exhaustively on small "
       "constants, with a negative control per guard. Binding: every edge of the generation state graphs is replayed on the real caches "
       "(in-package driver, real timer closures), and free-running goroutine executions are recorded at the hooks under c.mu; all recorded "
       "traces are validated by TLC against the spec and the C10 formulas are evaluated on the recorded implementation states (monitor).",
  design_ref="DESIGN.md 3 (C10), 2.4, 2.5",
  note="Bounded: exhaustive configs 2-3 keys, <=4 values, <=5 handles; trace validation covers only executions the drivers produce. "
       "Wall-clock timer scheduling is abstracted to fire/evict steps. Trusted: TLC, the projection code in harness/util/cacheutil.",
  technique="TLA+ spec + TLC exhaustive check; edge-cover replay of TLC state graph into Go; TLC trace validation + property monitor of recorded traces"),
}
NOT_APPLICABLE = {}

"""What MANIFEST.json claims per property (tools/mkmanifest.py turns this into the manifest)."""
CLAIMS = {
 "C10": dict(
  text="RefCache.tla models TTLCache/LRUCache/refCounter with one action per critical section (incl. the timer goroutine that fired and "
       "evicts by key). TLC checks AtMostOnce, NotWhileHeld, NoLeak, DoubleReleaseHarmless, AddExistingReturnsCached exhaustively on small "
       "constants, with a negative control per guard. Binding: every edge of the generation state graphs is replayed on the real caches "
       "(in-package driver, real timer closures), and free-running goroutine executions are recorded at the hooks under c.mu; all recorded "
       "traces are validated by TLC against the spec and the C10 formulas are evaluated on the recorded implementation states (monitor).",
  design_ref="DESIGN.md 3 (C10), 2.4, 2.5",
  note="Bounded: exhaustive configs 2-3 keys, <=4 values, <=5 handles; trace validation covers only executions the drivers produce. "
       "Wall-clock timer scheduling is abstracted to fire/evict steps. Trusted: TLC, the projection code in harness/util/cacheutil.",
  technique="TLA+ spec + TLC exhaustive check; edge-cover replay of TLC state graph into Go; TLC trace validation + property monitor of recorded traces"),
 "C11": dict(
  text="ChunkCache.tla models cache.directoryCache at the granularity at which other goroutines can observe it (wip file, buffer from the pool, "
       "publish to the buffer LRU, persist-write, rename, fd LRU, readers over buffer/fd/file), assuming the LRU contract of C10. TLC checks "
       "HitIsCommitted / ReadsAreCommitted / NoRecycleWhileReferenced / FinalFilesComplete exhaustively (2 keys, 2-3 writers, 2 readers, capacities 1) "
       "with negative controls (recycle regardless of holders, rename before write, reader not holding). Binding: every edge of the generation graphs "
       "(memory+fd+file layers, direct mode, sync and async persistence) is stepped through a real directoryCache with the persistence goroutine held at "
       "verifhook gates, the recorded events are validated by TLC against the spec; free-running goroutines on all option combinations (and the memory "
       "cache) are recorded and the C11 formulas evaluated by the TLC monitor on every recorded read result; -race on throughout.",
  design_ref="DESIGN.md 3 (C11), 2.4, 2.5",
  note="Bounded models; free-running executions are decided by the monitor only (no conformance spec for their interleavings); bytes are abstracted "
       "to (writer, number of pieces); disk I/O errors and misuse of a Writer (Commit twice, Write after Commit) are out of scope. Trusted: TLC, the projection in harness/cache.",
  technique="TLA+ spec + TLC exhaustive check; gated edge-cover replay of the TLC state graph into Go; TLC trace validation + property monitor (also on free-running -race executions)"),
}
NOT_APPLICABLE = {}

#!/usr/bin/env python3
"""Shared part of the C08 and C09 checks: both are decided on the one specification spec/Snapshotter.tla."""
import os, sys, json, re, threading
from concurrent.futures import ThreadPoolExecutor
sys.path.insert(0, os.path.dirname(os.path.abspath(__file__)))
from vlib import *

OVERLAY = {"snapshot/verif_snapshotter_test.go": "snapshot/verif_snapshotter_test.go"}
INTERNAL = ("TypeOK", "IdsUnique", "MountsSorted", "ParentsCommitted")

C08_FORMULAS = ["KernelAgrees", "PrepareTargetOutcome", "RejectedCreateReportsError", "NoMountsIfRemoteUnavailable", "UnavailableOnlyIfCheckFailed",
                "LowerDirsNearestFirst", "UnmountOnlyAfterRemovedOrClosing", "UnmountBeforeRmdir", "ReclaimedDirIsGone", "AfterCleanupDirsAreLive",
                "AfterSyncRemoveDirsAreLive", "MetaHasDirs", "AckedStayUntilRemoved", "LabelsStable", "RemoveOfLeafSucceeds"]
C09_FORMULAS = ["RestartSucceedsOrPrescribed", "RemountedExactly", "RestoredWithStoredLabels", "NoRestoreKeepsMounts",
                "RestartPreservesSnapshots", "StartedMountsServed", "MetaHasDirs", "AfterCleanupDirsAreLive", "OneCleanupRemovesHalfMade", "RemoveOfLeafSucceeds", "LabelsStable",
                "AckedStayUntilRemoved"]

NEGCTL = {
    "C08": [("LabelOnlyIfMounted", ["A_PrepareTargetOutcome"]),
            ("CheckWholeChain", ["A_NoMountsIfRemoteUnavailable"]),
            ("UnmountFirst", ["A_AfterSyncRemoveDirsAreLive", "A_AfterCleanupDirsAreLive"]),
            ("NearestFirst", ["A_LowerDirsNearestFirst"]),
            ("CleanupScansTemps", ["A_AfterSyncRemoveDirsAreLive", "A_AfterCleanupDirsAreLive"])],
    "C09": [("RestoreMkdir", ["A_MetaHasDirs", "A_RemountedExactly", "A_RestartSucceedsOrPrescribed"]),
            ("RestoreStoredLabels", ["A_RestoredWithStoredLabels"]),
            ("HonourAllowInvalid", ["A_RestartSucceedsOrPrescribed"]),
            ("RenameBeforeCommit", ["A_MetaHasDirs"]),
            ("CleanupScansTemps", ["A_AfterSyncRemoveDirsAreLive", "A_AfterCleanupDirsAreLive"]),
            ("RestoreMkdirOnlyIfParentMissing", ["A_MetaHasDirs", "A_RemountedExactly", "A_RestartSucceedsOrPrescribed"], "TRUE")],
}
K1 = '{"k1"}'


def parallel(run, thunks, width=4):
    """run TLC jobs concurrently (vlib's _prep numbers scratch dirs: serialise that part)"""
    lock = threading.Lock()
    orig = run._prep

    def prep(files, extra=None):
        with lock:
            return orig(files, extra)
    run._prep = prep
    try:
        with ThreadPoolExecutor(width) as ex:
            futs = [ex.submit(t) for t in thunks]
            return [f.result() for f in futs]
    finally:
        run._prep = orig


def restart_walk(w):
    return any(s.get("act") in ("Crash", "Restart") for s in w)


def strip(w):
    return [{k: v for k, v in s.items() if k != "post"} for s in w]


def interest(w):
    sc = 0
    for s in w:
        a = s.get("act")
        if a in ("FsMount", "Crash", "Restart"):
            sc += 2
        elif a == "FsUnmount" and s.get("hit"):
            sc += 2
        elif a == "Call" and s.get("op") == "Close":
            sc += 3
        elif a == "Return" and len(s.get("lower") or []) >= 2:
            sc += 6
        elif a == "Return" and s.get("bad"):
            sc += 2
        elif a == "Hook":
            sc += 0.1
    return sc


def crash_class_walks(inits, edges):
    """Deterministic part of the C09 selection: for EVERY crash point of the graph (the call in flight, its program
    counter = the CrashPoint marker / backend event just passed, the directory under cleanup, and whether the backend
    survives) one walk  init -> ... -> op -> Crash there -> Restart -> ... -> Started -> Cleanup -> Return."""
    out = collections.defaultdict(list)
    for e in edges:
        out[canon(e["from"])].append(e)
    # shortest path from the initial state to every node
    start = canon(inits[0])
    prev = {start: None}
    dq = collections.deque([start])
    while dq:
        n = dq.popleft()
        for e in out.get(n, ()):
            t = canon(e["to"])
            if t not in prev:
                prev[t] = (n, e)
                dq.append(t)

    def path_to(n):
        p = []
        while prev[n] is not None:
            n, e = prev[n]
            p.append(e)
        return list(reversed(p))

    def to_cleanup_return(src):
        # shortest continuation that ends with the Return of a Cleanup
        pv = {src: None}
        q = collections.deque([src])
        while q:
            n = q.popleft()
            for e in out.get(n, ()):
                t = canon(e["to"])
                if e["last"].get("act") == "Return" and e["last"].get("op") == "Cleanup":
                    p = [e]
                    while pv[n] is not None:
                        n, e2 = pv[n]
                        p.append(e2)
                    return list(reversed(p))
                if t not in pv:
                    pv[t] = (n, e)
                    q.append(t)
        return None

    classes = {}
    for e in edges:
        if e["last"].get("act") != "Crash":
            continue
        f = canon(e["from"])
        if f not in prev:
            continue
        o = e["from"]["op"]
        key = (o["name"], o["pc"], o["tgt"] != "", o["p"] != "", o["cur"] >= 0, len(o["tasks"]), bool(e["last"].get("bs")),
               e["last"].get("d", 0) != 0)      # ... and whether the kill tears a directory (left without fs)
        classes.setdefault(key, []).append(e)
    walks, missing = [], []
    for key in sorted(classes, key=str):
        best = None
        for e in sorted(classes[key], key=lambda e: len(path_to(canon(e["from"]))))[:6]:
            tail = to_cleanup_return(canon(e["to"]))
            if tail is None:
                continue
            w = path_to(canon(e["from"])) + [e] + tail
            if best is None or len(w) < len(best):
                best = w
        if best is None:
            missing.append(key)
        else:
            walks.append([dict(x["last"], post=x["to"]) for x in best])
    return walks, {"crash_classes": len(classes), "covered_classes": len(walks), "no_cleanup_budget": len(missing)}


def gen_thunks(run, configs):
    def gen(c):
        label, ov, asyn, sim, maxlen, extra, maxw = c
        args = ()
        if sim:
            args = ("-simulate", "num=%d" % sim[0], "-depth", str(sim[1]), "-seed", str(run.seed))
        return run.tlc_edges("SnapshotterGen", "Snapshotter_gen.cfg", ov, timeout=1500, args=args, workers=1 if sim else 2)
    return [lambda c=c: gen(c) for c in configs]


def make_jobs(run, pid, configs, graphs):
    """configs: list of (label, cfg overrides, async, simulate (num, depth) or None, maxlen, extra walks, max walks)"""
    jobs = []
    for (label, ov, asyn, sim, maxlen, extra, maxw), (inits, edges) in zip(configs, graphs):
        walks, st = edge_cover(inits, edges, maxlen=maxlen, rng=run.rng, extra_walks=extra)
        # C09 is about behaviours with a crash or a restart; the others are C08's
        keep = [w for w in walks if restart_walk(w) == (pid == "C09")]
        truncated = False
        if maxw and len(keep) > maxw:
            # quick tier: keep the walks that exercise most (backend calls, crashes, restarts, Close, long parent chains);
            # the walks dropped differ from kept ones mainly in calls that are rejected right away
            keep = sorted(keep, key=interest, reverse=True)[:maxw]
            truncated = True
        if pid == "C09" and not sim:
            # always, in every run: one crash -> restart -> Cleanup behaviour per crash point
            cw, cst = crash_class_walks(inits, edges)
            keep = cw + keep
            st = dict(st, **cst)
        st = dict(st, label=label, kept=len(keep), simulate=bool(sim))
        log("[walks] %s: %s" % (label, st))
        out = os.path.join(run.scratch, "replay_%s.ndjson" % label)
        jobs.append({"label": label, "async": asyn, "seeded": ov.get("InitCommitted") == "TRUE",
                     "names": ["c1", "c2", "c3", "k1", "k2", "k3"], "out": out,
                     "walks": [strip(w) for w in keep], "exhaustive": (not sim) and st["covered"] == st["edges"] and not truncated})
        run.cov["stages"].append(dict(stage="edge-cover", **st))
    return jobs


def shard(jobs, n):
    """split the walks over n driver processes"""
    res = [[] for _ in range(n)]
    for j in jobs:
        for i in range(n):
            ws = j["walks"][i::n]
            if ws:
                res[i].append(dict(j, walks=ws, out="%s.%d" % (j["out"], i)))
    return [r for r in res if r]


def drive(run, jobs, nproc=4):
    shards = shard(jobs, nproc)

    def one(i, sh):
        inp = os.path.join(run.scratch, "walks%d.json" % i)
        write_json(inp, sh)
        return run.go_driver("", "./snapshot/", OVERLAY, "^TestVerifSnapshotterReplay$", env={"VERIF_IN": inp}, race=False, timeout=2400)
    lock = threading.Lock()
    # vlib.go_test numbers overlay files with run.nrun: build once first so the shards only run
    rc, out = one(0, shards[0])
    rest = []
    if len(shards) > 1:
        with ThreadPoolExecutor(len(shards) - 1) as ex:
            futs = []
            for i, sh in enumerate(shards[1:], 1):
                with lock:
                    run.nrun += 100
                futs.append(ex.submit(one, i, sh))
            rest = [f.result() for f in futs]
    for j in jobs:
        with open(j["out"], "w") as fh:
            for i in range(nproc):
                p = "%s.%d" % (j["out"], i)
                if os.path.exists(p):
                    fh.write(open(p).read())
    return [(rc, out)] + rest


def warm_build(run):
    """compile the driver while TLC runs (result ignored: the real driver run reports build failures)"""
    import subprocess
    ovp = os.path.join(run.scratch, "overlay_warm.json")
    json.dump({"Replace": {os.path.join(REPO, d): os.path.join(HARNESS, s) for d, s in OVERLAY.items()}}, open(ovp, "w"))
    e = dict(os.environ)
    e.update(GOENV)
    e.pop("GOSUMDB", None) if e.get("GOSUMDB") == "off" else None
    subprocess.run(["go", "test", "-tags", "verif", "-overlay", ovp, "-count=1", "-vet=off", "-run", "^TestVerifNone$", "./snapshot/"],
                   cwd=REPO, env=e, stdout=subprocess.PIPE, stderr=subprocess.STDOUT, text=True)
    return None


def locate(traces, line):
    tr = [t for t in traces if t[0] <= line]
    return tr[-1] if tr else traces[0]


def signature_of(tr, idx):
    """specific to the failing history: the calls made and the event at which the formula turned false"""
    calls = []
    for e in tr[:idx + 1]:
        if e.get("ev") == "Call":
            calls.append("%s%s(%s)" % ((e["who"] + ".") if e.get("who") else "", e["op"], ",".join(x for x in (e.get("k"), e.get("p"), e.get("tgt")) if x)))
        elif e.get("ev") == "Blocked":
            calls.append(e.get("who", "") + ".blocked")
        elif e.get("ev") in ("Crash", "Restart", "Started", "StartFailed"):
            calls.append(e["ev"] + ("+bs" if e.get("bs") else "") + ("+ai" if e.get("ai") else "") + ("+nr" if e.get("nr") else ""))
    e = tr[idx]
    at = e.get("ev") + (":" + e.get("name") if e.get("name") else "") + (":" + e.get("op") if e.get("op") and e.get("ev") != "Call" else "") + \
        (":" + e.get("err") if e.get("err") else "")
    return at, ">".join(calls[-4:])


def validate(run, pid, job, formulas):
    path, label = job["out"], job["label"]
    events = read_ndjson(path)
    if not events:
        return 0
    traces = split_traces(events)
    if job.get("two"):
        ov = None
        res = run.tlc_trace("Snapshotter2Trace", "Snapshotter2Trace.cfg", path, ov, timeout=1200)
        viol, mr = run.tlc_monitor("Snapshotter2Trace", "Snapshotter2Monitor.cfg", path, ov, timeout=1200)
    else:
        ov = {"Async": "TRUE" if job["async"] else "FALSE", "Keys": '{"k1", "k2", "k3"}', "CNames": '{"c1", "c2", "c3"}',
              "InitCommitted": "TRUE" if job.get("seeded") else "FALSE"}
        res = run.tlc_trace("SnapshotterTrace", "SnapshotterTrace.cfg", path, ov, timeout=2400)
        viol, mr = run.tlc_monitor("SnapshotterMonitor", "SnapshotterMonitor.cfg", path, ov, timeout=2400)
    if viol:
        raise Inconclusive("monitor stopped: %s" % viol)
    with VLOCK:
        return _judge(run, pid, job, formulas, events, traces, res, mr)


VLOCK = threading.Lock()


def _judge(run, pid, job, formulas, events, traces, res, mr):
    path, label = job["out"], job["label"]
    found = [(x.split()[0], int(x.split()[1])) for x in mr.lines("VVIOL")]
    mine = [(f, ln) for f, ln in found if f in formulas]
    other = sorted({f for f, ln in found if f not in formulas})
    log("[trace] %-12s %d traces %d events: conformance %s, monitor %s%s" %
        (label, len(traces), len(events), "accepted" if res["accepted"] else "REJECTED at line %s" % res["consumed"],
         ("%d formula evaluations false: %s" % (len(mine), sorted({f for f, _ in mine}))) if mine else "ok",
         (" (other property: %s)" % other) if other else ""))
    run.cov["evaluations"] += len(events)
    seen = set()
    for f, line in mine:
        start, tr = locate(traces, line)
        idx = max(0, min(line - start, len(tr) - 1))
        at, hist = signature_of(tr, idx)
        key = (f, at)
        if key in seen or len(seen) >= 12:
            continue
        seen.add(key)
        run.violation("monitor:%s:%s:%s" % (f, at, hist),
                      "%s false on the recorded implementation state at event %d (%s) of a replayed behaviour [%s]" % (f, idx + 1, at, hist),
                      {"formula": f, "label": label, "async": job["async"], "event_index": idx + 1, "trace": tr[: idx + 2]})
    if not res["accepted"]:
        line = (res["consumed"] or 0) + 1
        start, tr = locate(traces, line)
        idx = max(0, min(line - start, len(tr) - 1))
        # was a formula of this property false in that very behaviour? then the rejection is the same violation seen from the spec side
        if not any(start <= ln < start + len(tr) for f, ln in mine):
            run.inconclusive.append("SPEC-DRIFT %s: event %d %s not explained by Snapshotter.tla although no %s formula is false in that behaviour; prefix: %s" % (
                label, idx + 1, json.dumps(tr[idx]), pid, json.dumps(tr[max(0, idx - 6): idx])))
        return len(traces)
    bad_traces = {locate(traces, ln)[0] for f, ln in mine}
    run.cov["traces_validated_against_impl"] += len(traces) - len(bad_traces)
    interesting = [t for s, t in traces if any(e.get("ev") in ("FsMount", "Crash") for e in t)]
    run.cov["distinct_nontrivial"] += len({digest(t) for t in interesting})
    return len(traces)


# ---------------------------------------------------------------------------------------------- two callers (C08)
TWO_FORMULAS = ["MetaHasDirs", "PrepareTargetOutcome", "ValidCreateSucceeds", "AfterCleanupDirsAreLive",
                "UnmountOnlyAfterRemovedOrClosing", "ScanExcludesCreate"]


def two_thunks(run):
    """design level of Snapshotter2.tla: exhaustive (every interleaving at gate granularity) + the negative control:
    with the scan under a read transaction each of the three formulas must fail"""
    th = [lambda: run.tlc_mc("Snapshotter2", "Snapshotter2_mc.cfg", None, workers=2, timeout=600, name="Snapshotter2_mc.cfg two callers")]
    for f in ("MetaHasDirs", "PrepareTargetOutcome", "AfterCleanupDirsAreLive"):
        th.append(lambda f=f: run.tlc_negctl("Snapshotter2", "Snapshotter2_neg_%s.cfg" % f, {"CleanupScanExcludesWriters": "FALSE"}, [f], workers=2, timeout=600))
    th.append(lambda: run.tlc_edges("Snapshotter2Gen", "Snapshotter2_gen.cfg", None, timeout=600, workers=2))
    return th


def two_interest(w):
    """walks in which B is called while A is inside its create transaction come first"""
    sc, inside = 0, False
    for s in w:
        if s.get("who") == "A" and s.get("name") in ("create.mktemp", "create.rename"):
            inside = True
        if s.get("who") == "A" and s.get("name") in ("create.commit", "create.failed"):
            inside = False
        if s.get("act") == "Blocked":
            sc += 5
        if s.get("act") == "Call" and s.get("who") == "B" and inside:
            sc += 5
        if s.get("act") in ("FsMount", "FsUnmount"):
            sc += 1
    return sc


def two_job(run, graph, thorough):
    inits, edges = graph
    walks, st = edge_cover(inits, edges, maxlen=60, rng=run.rng)
    # complete every walk to a terminal state (both callers returned): the driver never leaves a goroutine half way
    out = {}
    for e in edges:
        out.setdefault(canon(e["from"]), []).append(e)
    full = []
    for w in walks:
        w = list(w)
        node = canon(w[-1]["post"]) if w else canon(inits[0])
        while out.get(node):
            e = out[node][run.rng.randrange(len(out[node]))]
            w.append(dict(e["last"], post=e["to"]))
            node = canon(e["to"])
        full.append(w)
    keep = sorted(full, key=two_interest, reverse=True)
    cap = None if thorough else 45
    truncated = bool(cap and len(keep) > cap)
    if truncated:
        keep = keep[:cap]
    st = dict(st, label="two-caller", kept=len(keep), simulate=False)
    log("[walks] two-caller: %s" % st)
    run.cov["stages"].append(dict(stage="edge-cover", **st))
    return {"label": "two-caller", "two": True, "async": True, "names": ["c1", "c2", "k1"],
            "out": os.path.join(run.scratch, "replay_two.ndjson"), "walks": [strip(w) for w in keep],
            "exhaustive": st["covered"] == st["edges"] and not truncated}


def drive_two(run, job):
    inp = os.path.join(run.scratch, "walks_two.json")
    write_json(inp, [job])
    # goroutines and gates: run under the race detector
    return run.go_driver("", "./snapshot/", OVERLAY, "^TestVerifSnapshotter2Replay$", env={"VERIF_IN2": inp}, race=True, timeout=1800)


RULES = {
    "C08": "behaviours = walks covering every edge of the TLC state graph of Snapshotter.tla (generation config, both removal modes) plus "
           "simulated deeper behaviours, replayed on snapshot.NewSnapshotter with a recording backend that really mounts tmpfs; "
           "non-trivial = at least one backend mount or crash; distinct by hash of the recorded event list",
    "C09": "behaviours = those walks of the Snapshotter.tla state graph that contain a crash (root copied at a CrashPoint hook / backend call) "
           "or a restart, replayed on snapshot.NewSnapshotter; non-trivial = at least one backend mount or crash; distinct by hash",
}


def check(run, pid):
    thorough = run.tier == "thorough"
    formulas = C08_FORMULAS if pid == "C08" else C09_FORMULAS
    run.cov["rule"] = RULES[pid]
    run.assumptions += [
        "one caller at a time in Snapshotter.tla; two callers only in the focused configuration Snapshotter2.tla (C08: createSnapshot against Cleanup/Close, bolt writer lock)",
        "bolt commits and rename(2) are atomic; a crash is the disk image between two observable steps (hooks, backend calls)",
        "a kill inside os.RemoveAll(<id>) of Close / between the two mkdirs of restore is produced from the image taken at the step before by "
        "removing <id>/fs (resp. creating <id>) in the copy: the partial-RemoveAll / partial-mkdir state is constructed, not caught in the act",
        "the backend is a recording snapshot.FileSystem mounting a real tmpfs (EBUSY semantics of RemoveAll as in production); Check results are imposed per layer",
        "NoRestore is used exactly when the backend survived the crash (cmd/containerd-stargz-grpc/main.go); crashes during restore/Close only with a dying backend",
        "key names and committed/target names are disjoint; Update touches a user label only",
        "TLC bounds: see stages; trace and monitor configs are unbounded",
    ]
    # M: exhaustive, both removal modes (quick: one key name; thorough: two key names, and one more call)
    thunks = []
    mcs = [({"Async": "FALSE", "Keys": K1}, "1 key"), ({"Async": "TRUE", "Keys": K1}, "1 key")]
    if thorough:
        mcs = [({"Async": "FALSE"}, "2 keys"), ({"Async": "TRUE"}, "2 keys"),
               ({"Async": "FALSE", "Keys": K1, "MaxOps": "4", "MaxRestarts": "2"}, "1 key 4 calls 2 restarts"),
               ({"Async": "TRUE", "Keys": K1, "MaxOps": "4", "MaxRestarts": "2"}, "1 key 4 calls 2 restarts")]
    if os.environ.get("VERIF_SNAP_SKIP_M") == "1":
        # development aid (mutant runs): the design-level stage does not depend on the Go code
        mcs = []
        run.inconclusive.append("VERIF_SNAP_SKIP_M=1: design-level model checking skipped")
    for ov, what in mcs:
        thunks.append(lambda ov=ov, what=what: run.tlc_mc("Snapshotter", "Snapshotter_mc.cfg", ov, workers=3, timeout=3000,
                                                          name="Snapshotter_mc.cfg Async=%s %s" % (ov["Async"], what)))
    # vacuity guards: each property-bearing guard of the code switched off must break a formula of this property
    for nc in (NEGCTL[pid] if mcs else []):
        const, expect, val = nc[0], nc[1], (nc[2] if len(nc) > 2 else "FALSE")
        thunks.append(lambda const=const, expect=expect, val=val: run.tlc_negctl("Snapshotter", "Snapshotter_mc.cfg", {const: val, "Keys": K1}, expect,
                                                                        workers=2, timeout=1500, drop=INTERNAL))
    # warm the Go build while TLC runs
    thunks.append(lambda: warm_build(run))

    # R: spec -> code.  C08: graphs without crash/restart (MaxRestarts = 0; Close is terminal); C09: graphs with one restart,
    # only the walks that contain a crash or a restart are replayed
    S, A = {"Async": "FALSE"}, {"Async": "TRUE"}
    if pid == "C08":
        base = {"MaxRestarts": "0"}
        if thorough:
            configs = [("sync", dict(S, **base, MaxOps="3", MaxId="3", Keys=K1), False, None, 40, 300, None),
                       ("async", dict(A, **base, MaxOps="3", MaxId="3", Keys=K1), True, None, 40, 300, None),
                       ("sync2", dict(S, **base), False, None, 40, 100, None),
                       ("sim-sync", dict(S, **base, MaxOps="6", MaxId="5", AnyOrder="TRUE"), False, (100, 60), 70, 0, None),
                       ("sim-async", dict(A, **base, MaxOps="6", MaxId="5", AnyOrder="TRUE"), True, (100, 60), 70, 0, None)]
        else:
            configs = [("sync", dict(S, **base), False, None, 40, 10, None),
                       ("sync3", dict(S, **base, MaxOps="3", MaxId="3", Keys=K1), False, None, 40, 0, 600),
                       ("async", dict(A, **base, Keys=K1), True, None, 40, 10, None),
                       ("sim-sync", dict(S, **base, MaxOps="5", MaxId="4", AnyOrder="TRUE"), False, (10, 50), 60, 0, None)]
    else:
        if thorough:
            SEED = {"InitCommitted": "TRUE", "MaxId": "3", "Keys": K1}
            configs = [("sync", S, False, None, 40, 300, None),
                       ("async", A, True, None, 40, 300, None),
                       ("sync-seeded", dict(S, **SEED), False, None, 40, 100, None),
                       ("async-seeded", dict(A, **SEED), True, None, 40, 100, None),
                       ("sim-sync", dict(S, MaxOps="5", MaxId="4", MaxRestarts="2", AnyOrder="TRUE"), False, (100, 60), 70, 0, None),
                       ("sim-async", dict(A, MaxOps="5", MaxId="4", MaxRestarts="2", AnyOrder="TRUE"), True, (100, 60), 70, 0, None)]
        else:
            SEED = {"InitCommitted": "TRUE", "MaxId": "2", "Keys": K1}
            configs = [("sync", dict(S, Keys=K1), False, None, 40, 0, 450),
                       ("async", dict(A, Keys=K1), True, None, 40, 0, 200),
                       ("sync-seeded", dict(S, **SEED), False, None, 40, 0, 100),
                       ("async-seeded", dict(A, **SEED), True, None, 40, 0, 30),
                       ("sim-sync", dict(S, MaxOps="4", MaxId="3", MaxRestarts="2", AnyOrder="TRUE"), False, (8, 50), 60, 0, None)]
    gts = gen_thunks(run, configs)
    tts = two_thunks(run) if pid == "C08" else []
    res = parallel(run, gts + tts + thunks, 3)   # at most three TLC processes at a time
    jobs = make_jobs(run, pid, configs, res[:len(gts)])
    results = drive(run, jobs, nproc=4)
    if tts:
        # two callers: A = createSnapshot, B = Cleanup/Close, interleaved at the hooks (Snapshotter2.tla)
        tj = two_job(run, res[len(gts) + len(tts) - 1], thorough)
        results.append(drive_two(run, tj))
        jobs.append(tj)
    for rc, out in results:
        if rc != 0:
            run.violation("datarace:snapshot", "data race reported in the snapshot package under the driver", {"log": out[-6000:]})
            return
    exhaustive = True
    parallel(run, [lambda j=j: validate(run, pid, j, TWO_FORMULAS if j.get("two") else formulas) for j in jobs], 3)
    for j in jobs:
        if not j["exhaustive"] and not j["label"].startswith("sim"):
            exhaustive = False
    for j in jobs[:2]:
        evs = read_ndjson(j["out"])
        trs = split_traces(evs)
        pick = [t for s, t in trs if any(e.get("ev") == ("Crash" if pid == "C09" else "FsMount") for e in t)]
        for t in pick[:1]:
            run.add_samples([{"config": j["label"], "events": [{k: v for k, v in e.items() if k in ("ev", "op", "name", "k", "p", "tgt", "err", "d", "ok", "bs", "ai", "nr", "lower", "dirs", "mounts", "kern")} for e in t[:30]]}], limit=3)
    run.cov["exhaustive"] = exhaustive

#!/usr/bin/env python3
"""Runs the repository's pinned suite with the verif tag OFF and compares with /root/.vp/BASELINE.json (stable_pass).
usage: tools/baseline_check.py [outdir]   -> prints missing/failed tests; exit 0 iff every baseline test passed."""
import json, os, subprocess, sys
out = sys.argv[1] if len(sys.argv) > 1 else "/tmp/baseline_check"
os.makedirs(out, exist_ok=True)
base = set(json.load(open("/root/.vp/BASELINE.json"))["stable_pass"])
env = dict(os.environ, GOFLAGS="-mod=mod", GOPROXY="off")
env.pop("GOTOOLCHAIN", None)
passed, failed = set(), set()
for m in (".", "cmd", "estargz", "ipfs"):
    p = subprocess.run("go test -json -vet=off -count=1 -timeout 25m ./...", shell=True, cwd=os.path.join("/repo", m), env=env,
                       stdout=subprocess.PIPE, stderr=subprocess.STDOUT, text=True)
    open(os.path.join(out, m.replace(".", "root") + ".json"), "w").write(p.stdout)
    for line in p.stdout.splitlines():
        try:
            e = json.loads(line)
        except Exception:
            continue
        if e.get("Test") and e.get("Action") in ("pass", "fail"):
            (passed if e["Action"] == "pass" else failed).add("%s::%s" % (e["Package"], e["Test"]))
missing = sorted(base - passed)
print("baseline %d, passed now %d, baseline tests not passing now %d, failing tests %d" % (len(base), len(passed), len(missing), len(failed)))
for t in missing[:40]:
    print("  NOT PASSING:", t, "(failed)" if t in failed else "(not run)")
for t in sorted(failed - base)[:20]:
    print("  failing (not in baseline):", t)
sys.exit(0 if not missing else 1)

#!/usr/bin/env python3
"""C18 - registry credentials and custom headers reach only their own image and host (Creds.tla, Fetcher.tla, Hosts.tla).

Stages (independent TLC runs are started concurrently; vlib itself is unchanged, see Par below):
  M  exhaustive TLC runs of Creds / Fetcher + one negative control per property-bearing guard
  R  edge cover of the generation graphs replayed on the real code:
       Creds   -> request sequences against cri.NewCRIKeychain (stub CRI backend) + resolver.multiCredsFuncs
       Fetcher -> interleavings of newHTTPFetcher / fetch / check / refreshURL steps and registry personality changes,
                  forced on real goroutines through the gates in fs/remote/resolver.go and a blocking in-memory registry
       Hosts   -> mirror configurations through resolver.RegistryHostsFromConfig and a fall-through remote.Resolver.Resolve over
                  loopback HTTP servers that record every request
  T  seeded random request sequences (Creds), free-running goroutines under -race (Fetcher)
  every recorded trace -> <Module>Trace (conformance) and <Module>Monitor (the C18 formulas on what the implementation did)
"""
import os, sys, json, threading
from concurrent.futures import ThreadPoolExecutor
sys.path.insert(0, os.path.dirname(os.path.dirname(os.path.abspath(__file__))))
from vlib import *

CREDS_OVERLAY = {"service/keychain/cri/verif_creds_test.go": "service/keychain/cri/verif_creds_test.go",
                 "service/resolver/verif_export.go": "service/resolver/verif_export.go"}
FETCH_OVERLAY = {"fs/remote/verif_fetcher_test.go": "fs/remote/verif_fetcher_test.go"}
HOSTS_OVERLAY = {"service/resolver/verif_hosts_test.go": "service/resolver/verif_hosts_test.go"}

CREDS_PROPS = ("OnlyLatestPullOfExactRef", "ServerAddressMustMatch", "GoneAfterRemove", "FirstNonEmptyWins")
CREDS_INTERNAL = ("ConfigIsLatest", "NothingBeforeConnect")
FETCH_PROPS = ("ConfinedHeaders", "ConfinedAuth")
FETCH_INTERNAL = ("PairConsistent", "TypeOK", "HostHeadersDelivered")
HOSTS_PROPS = ("HostHeadersOwn", "SentHeadersOwn")
HOSTS_INTERNAL = ("ListShape",)

TORN = ({"HeaderReadUnderLock": "FALSE"}, "HeaderReadUnderLock=FALSE")
ALL_FORMS = ["up", "up@reg", "up@dio", "up@bare", "up@dhub", "tok", "tok@dio", "b64", "b64@reg", "bad64", "empty@reg", "nil"]
DOCKER_IMAGES = ["alpine", "docker.io/library/alpine", "docker.io/library/alpine:latest", "reg.example.com/app:1"]
DOCKER_REFS = ["docker.io/library/alpine:latest", "reg.example.com/app:1"]
TAG_IMAGES = ["reg.example.com/app:1", "reg.example.com/app:2"]
DOCKER_HOSTS = ["reg.example.com", "docker.io", "registry-1.docker.io", "index.docker.io", "mirror.example.com"]


def tset(xs):
    return "{" + ", ".join('"%s"' % x for x in xs) + "}"


class Par:
    """Runs independent stages of one Run concurrently. vlib's Run numbers its scratch directories with an unlocked
    counter, so directory preparation and `go test` invocations are serialised here; the evidence counters that two
    threads could update at the same time are recomputed from the (atomically appended) stage list at the end."""

    def __init__(self, run, n=8):
        self.run, self.pool, self.lock, self.golock = run, ThreadPoolExecutor(n), threading.Lock(), threading.Lock()
        self.leaf = ThreadPoolExecutor(8)   # tasks started by a stage and awaited by it (they never wait themselves)
        self.futs = []
        prep = run._prep

        def locked_prep(*a, **kw):
            with self.lock:
                # go_test bumps the same counter without a lock: never reuse a directory
                while os.path.exists(os.path.join(run.scratch, "tlc%d" % (run.nrun + 1))):
                    run.nrun += 1
                return prep(*a, **kw)
        run._prep = locked_prep

    def go(self, fn, *a, **kw):
        f = self.pool.submit(fn, *a, **kw)
        self.futs.append(f)
        return f

    def go_driver(self, *a, **kw):
        with self.golock:
            return self.run.go_driver(*a, **kw)

    def join(self):
        err = None
        i = 0
        while i < len(self.futs):      # stages may submit further stages
            try:
                self.futs[i].result()
            except Inconclusive as e:
                err = err or e
            i += 1
        self.pool.shutdown()
        self.leaf.shutdown()
        mc = [s for s in self.run.cov["stages"] if s.get("stage") == "mc"]
        self.run.cov["states"] = sum(s["distinct"] for s in mc)
        self.run.cov["transitions"] = sum(s["generated"] for s in mc)
        if err:
            raise err


def failing_line(mr):
    m = re.findall(r"/\\ l = (\d+)", mr.out)
    return int(m[-1]) - 1 if m else 0


def validate(par, what, trace_path, tmod, tcfg, mmod, mcfg, ov, props, nontrivial, sample, results, alt=None):
    """conformance + monitor of one concatenated trace file; results[what] = accepted?
    alt = (overrides, label): on a violation the trace file is also validated against the specification with that guard
    switched off; if it conforms, the signature says so (the implementation behaves like the design without the guard)."""
    run = par.run
    results[what] = False
    group = what
    segs = []     # (first line, label): trace_path may be a list of (label, file) validated in ONE TLC run (fewer JVM starts)
    if isinstance(trace_path, (list, tuple)):
        merged = os.path.join(run.scratch, "merged_%s.ndjson" % what.replace(" ", "_"))
        n = 0
        with open(merged, "w") as fh:
            for label, path in trace_path:
                lines = [x for x in open(path) if x.strip()]
                if not lines:
                    raise Inconclusive("%s: the driver recorded nothing" % label)
                segs.append((n + 1, label))
                fh.writelines(lines)
                n += len(lines)
        trace_path = merged

    def label_of(line):
        c = [lab for first, lab in segs if first <= line]
        return c[-1] if c else group
    events = read_ndjson(trace_path)
    if not events:
        raise Inconclusive("%s: the driver recorded nothing" % what)
    traces = split_traces(events)
    t0 = time.time()
    fm = par.leaf.submit(run.tlc_monitor, mmod, mcfg, trace_path, ov, 1200)
    res = run.tlc_trace(tmod, tcfg, trace_path, ov, timeout=1200)
    viol, mr = fm.result()
    log("[trace] %-26s %d traces %d events: conformance %s, monitor %s (%.0fs)" %
        (what, len(traces), len(events),
         "accepted" if res["accepted"] else "REJECTED at line %s (%s)" % (res["consumed"], res["violated"]), viol or "ok", time.time() - t0))

    def trace_of(line):
        c = [t for t in traces if t[0] <= line]
        return c[-1] if c else traces[0]

    with par.lock:
        run.cov["evaluations"] += len(events)
    if viol:
        line = failing_line(mr)
        what = label_of(line)
        tr = trace_of(line)
        ev = events[line - 1] if 0 < line <= len(events) else {}
        if viol in props:
            key = ":".join(str(ev.get(k)) for k in ("ev", "a", "host", "hdr", "hdrs", "auth", "ref", "chain") if k in ev).replace(" ", "")
            if alt:
                # conformance only: with the guard off the specification itself breaks the formula
                txt = re.sub(r"(?m)^PROPERTIES.*$", "", open(os.path.join(SPEC, tcfg)).read())
                ares = run.tlc_trace(tmod, txt, trace_path, dict(ov or {}, **alt[0]), timeout=1200)
                if ares["accepted"]:
                    key += ":explained-by:" + alt[1]
                    log("[trace] %-26s conforms to %s with %s" % (what, tmod, alt[1]))
            run.violation("monitor:%s:%s:%s" % (viol, what.split()[0], key),
                          "%s is false on what the implementation did: event %d of a %s trace: %s" % (viol, line - tr[0] + 1, what, json.dumps(ev)),
                          {"formula": viol, "mode": what, "event_index": line - tr[0] + 1, "trace": tr[1][: line - tr[0] + 1]})
        else:
            run.inconclusive.append("recording broken (%s) in %s at event %s" % (viol, what, json.dumps(ev)))
        return
    if not res["accepted"]:
        line = (res["consumed"] or 0) + 1
        what = label_of(line)
        tr = trace_of(line)
        if res["violated"] in props:
            run.violation("trace-property:%s:%s" % (res["violated"], what.split()[0]),
                          "%s false while following a recorded %s trace" % (res["violated"], what),
                          {"mode": what, "trace": tr[1][: line - tr[0] + 1]})
        else:
            run.inconclusive.append("SPEC-DRIFT %s: event %d %s is not explained by %s (%s) although no C18 formula is false; prefix: %s" % (
                what, line - tr[0] + 1, json.dumps(events[line - 1]) if line <= len(events) else "<end>", tmod,
                res["violated"] or "no enabled action",
                json.dumps(tr[1][max(0, line - tr[0] - 8): line - tr[0] + 1])))
        return
    nt = [t for s, t in traces if nontrivial(t)]
    with par.lock:
        run.cov["traces_validated_against_impl"] += len(traces)
        run.cov["distinct_nontrivial"] += len({digest(t) for t in nt})
        run.add_samples([{"module": tmod, "mode": what, "events": t[:14]} for t in nt[sample:sample + 1]], limit=3)
    results[group] = True


# ------------------------------------------------------------------------------------------------ Creds
def creds_model(par, thorough):
    run = par.run
    par.go(run.tlc_mc, "Creds", "Creds_mc.cfg", None if thorough else {"MaxPulls": "2"}, 4, 2400,
           "Creds_mc.cfg MaxPulls=%d" % (3 if thorough else 2))
    par.go(run.tlc_mc, "Creds", "Creds_mc_docker.cfg", None if thorough else {"Forms": tset(["up", "up@dio", "up@dhub", "tok@dio", "b64", "nil"])},
           4, 2400, "Creds_mc_docker.cfg" + ("" if thorough else " 6 forms"))
    # vacuity guards: each property-bearing guard switched off must break its formula
    for guard, formula in (("ExactRefKey", "OnlyLatestPullOfExactRef"), ("ServerCheck", "ServerAddressMustMatch"),
                           ("DeleteOnRemove", "GoneAfterRemove"), ("FirstWins", "FirstNonEmptyWins")):
        par.go(run.tlc_negctl, "Creds", "Creds_mc.cfg", {guard: "FALSE", "MaxPulls": "2"}, [formula], 2, 600, CREDS_INTERNAL)


def creds_prepare(par, thorough, results):
    """generation + walks; returns the plan for the (single, shared) go test invocation and what to do afterwards"""
    run = par.run
    # R: every edge of the generation graph replayed on cri.NewCRIKeychain
    ov = {"Forms": tset(["up", "up@reg", "tok@dio", "b64@reg", "nil", "bad64", "up@bare"])} if thorough else \
         {"Chains": tset(["cri", "static+cri"]), "Hosts": tset(["reg.example.com", "docker.io", "registry-1.docker.io"])}
    inits, edges = run.tlc_edges("CredsGen", "Creds_gen.cfg", ov, timeout=1800)
    walks, st = edge_cover(inits, edges, maxlen=24, rng=random.Random(run.seed), extra_walks=300 if thorough else 30)
    log("[walks] creds: %s" % st)
    run.cov["stages"].append(dict(stage="edge-cover", module="Creds", **st))
    results["creds-cover"] = st["covered"] == st["edges"]
    replay_out = os.path.join(run.scratch, "creds_replay.ndjson")
    inp = os.path.join(run.scratch, "creds_walks.json")
    write_json(inp, [{"out": replay_out, "walks": [[{k: v for k, v in s.items() if k not in ("post", "parts")} for s in w] for w in walks]}])
    random_out = os.path.join(run.scratch, "creds_random.ndjson")
    nontriv = lambda t: any(e.get("ev") == "Query" and (e.get("user") or e.get("secret")) for e in t)

    def after(rc, out):
        par.go(validate, par, "creds", [("creds-replay", replay_out), ("creds-random docker.io", random_out)],
               "CredsTrace", "CredsTrace.cfg", "CredsMonitor", "CredsMonitor.cfg",
               {"Images": tset(sorted(set(DOCKER_IMAGES + TAG_IMAGES))), "Hosts": tset(DOCKER_HOSTS)}, CREDS_PROPS, nontriv, 3, results)
    return dict(pkg="./service/keychain/cri/", overlay=CREDS_OVERLAY, tests="TestVerifCreds(Replay|Random)", after=after,
                env={"VERIF_CREDS_IN": inp, "VERIF_CREDS_RANDOM_OUT": random_out,
                     "VERIF_CREDS_RANDOM_TRACES": "400" if thorough else "40",
                     "VERIF_CREDS_IMAGES": json.dumps(DOCKER_IMAGES), "VERIF_CREDS_HOSTS": json.dumps(DOCKER_HOSTS),
                     "VERIF_CREDS_REFS": json.dumps(DOCKER_REFS), "VERIF_CREDS_FORMS": json.dumps(ALL_FORMS)})


# ------------------------------------------------------------------------------------------------ Fetcher
def fetcher_model(par, thorough):
    run = par.run
    q = None if thorough else {"MaxOps": "1", "MaxEnv": "2"}
    par.go(run.tlc_mc, "Fetcher", "Fetcher_mc.cfg", q, 4, 3000,
           "Fetcher_mc.cfg" + ("" if thorough else " MaxOps=1 MaxEnv=2"))
    nq = {"MaxOps": "1", "MaxEnv": "2"}
    par.go(run.tlc_negctl, "Fetcher", "Fetcher_mc.cfg", dict(nq, HeaderReadUnderLock="FALSE"), ["ConfinedHeaders"], 2, 900, FETCH_INTERNAL)
    par.go(run.tlc_negctl, "Fetcher", "Fetcher_mc.cfg", dict(nq, RedirectDropsHeaders="FALSE"), ["ConfinedHeaders"], 2, 900, FETCH_INTERNAL)


def fetcher_graph(par, name, cfg, ov, extra, jobs, results):
    run = par.run
    inits, edges = run.tlc_edges("FetcherGen", cfg, ov, timeout=1800)
    walks, st = edge_cover(inits, edges, maxlen=40, rng=random.Random(run.seed), extra_walks=extra)
    log("[walks] fetcher %s: %s" % (name, st))
    results["fetcher-cover-" + name] = st["covered"] == st["edges"]
    run.cov["stages"].append(dict(stage="edge-cover", module="Fetcher", config=cfg, **st))
    ws = []
    for w in walks:
        steps = []
        for s in w:
            d = {k: v for k, v in s.items() if k != "post"}
            if s["act"] == "Send":
                # the actor's next step is SetBoth: it is parked at the exit of RoundTrip so that others can be scheduled before
                d["hold"] = s["post"]["a"][s["a"]][0] == "setBoth"
            steps.append(d)
        ws.append(steps)
    jobs[name] = {"name": name, "out": os.path.join(run.scratch, "fetcher_replay_%s.ndjson" % name), "walks": ws}


def fetcher_prepare(par, thorough, results):
    run = par.run
    # R/G: every edge of the state graphs with the reads of url and header as separate steps, forced through the gates.
    # quick: the concurrent graph starts from a redirecting registry only; the paths from a directly serving registry (the registry
    # denies once, the refresh turns into a redirect) are in the sequential graph, which explores every initial personality
    jobs = {}
    g1 = par.leaf.submit(fetcher_graph, par, "conc", "Fetcher_gen.cfg", {"MaxEnv": "3"} if thorough else {"Modes": '{"redir"}'},
                         300 if thorough else 20, jobs, results)
    g2 = par.leaf.submit(fetcher_graph, par, "seq", "Fetcher_gen_seq.cfg", None if thorough else {"MaxOps": "1", "MaxEnv": "2"},
                         300 if thorough else 20, jobs, results)
    g1.result(), g2.result()
    jl = [jobs["conc"], jobs["seq"]]
    inp = os.path.join(run.scratch, "fetcher_walks.json")
    write_json(inp, jl)
    free_out = os.path.join(run.scratch, "fetcher_free.ndjson")
    nontriv = lambda t: any(e.get("ev") == "Send" and e.get("host") in ("L1", "L2") for e in t) and \
        any(e.get("ev") == "Send" and e.get("hdr") == "Org" for e in t)

    def replay_summary(j, sm, f):
        try:
            f.result()
        except Inconclusive:
            return          # reported by join()
        log("[replay] fetcher %s: %d walks %d steps executed, %d diverged" % (j["name"], sm["walks"], sm["steps"], len(sm["diverged"] or [])))
        if sm["diverged"] and results.get("fetcher"):
            run.inconclusive.append("SPEC-DRIFT fetcher-replay %s: the implementation could not be driven along %d walk(s), e.g. %s" % (
                j["name"], len(sm["diverged"]), sm["diverged"][0]))
            results["fetcher"] = False

    def after(rc, out):
        try:
            sums = json.load(open(inp + ".summary"))
        except Exception as e:
            raise Inconclusive("replay summary missing: %s" % e)
        f = par.go(validate, par, "fetcher", [("fetcher-replay " + j["name"], j["out"]) for j in jl] + [("fetcher-free", free_out)],
                   "FetcherTrace", "FetcherTrace.cfg", "FetcherMonitor", "FetcherMonitor.cfg", None, FETCH_PROPS, nontriv, 5, results, TORN)
        for j, sm in zip(jl, sums):
            par.go(replay_summary, j, sm, f)
    return dict(pkg="./fs/remote/", overlay=FETCH_OVERLAY, tests="TestVerifFetcher(Replay|Free)", after=after,
                env={"VERIF_FETCHER_IN": inp, "VERIF_FETCHER_FREE_OUT": free_out,
                     "VERIF_FETCHER_FREE_TRACES": "3000" if thorough else "150"})


# ------------------------------------------------------------------------------------------------ Hosts
def hosts_model(par, thorough):
    run = par.run
    par.go(run.tlc_mc, "Hosts", "Hosts_mc.cfg", None, 2, 900, "Hosts_mc.cfg")
    par.go(run.tlc_negctl, "Hosts", "Hosts_mc.cfg", {"HeaderPerEntry": "FALSE"}, list(HOSTS_PROPS), 2, 600, HOSTS_INTERNAL)


def hosts_prepare(par, thorough, results):
    run = par.run
    # R: every config of <= 2 (thorough: 3) mirrors x header yes/no x every set of hosts that have the blob, through the real
    # RegistryHostsFromConfig and remote.Resolver against loopback servers
    ov = {"Mirrors": tset(["m1", "m2", "m3"]), "MaxMirrors": "3"} if thorough else None
    inits, edges = run.tlc_edges("HostsGen", "Hosts_gen.cfg", ov, timeout=900)
    walks, st = edge_cover(inits, edges, maxlen=24, rng=random.Random(run.seed), extra_walks=0)
    log("[walks] hosts: %s" % st)
    run.cov["stages"].append(dict(stage="edge-cover", module="Hosts", **st))
    results["hosts-cover"] = st["covered"] == st["edges"]
    out = os.path.join(run.scratch, "hosts_replay.ndjson")
    inp = os.path.join(run.scratch, "hosts_walks.json")
    write_json(inp, [{"out": out, "walks": [[{k: v for k, v in s.items() if k in ("act", "cfg", "up")} for s in w] for w in walks]}])
    nontriv = lambda t: any(e.get("ev") == "Send" and e.get("hdrs") for e in t) and len({e.get("host") for e in t if e.get("ev") == "Send"}) > 1

    def after(rc, out_text):
        par.go(validate, par, "hosts", [("hosts-replay", out)], "HostsTrace", "HostsTrace.cfg", "HostsMonitor", "HostsMonitor.cfg",
               None, HOSTS_PROPS, nontriv, 4, results)
    return dict(pkg="./service/resolver/", overlay=HOSTS_OVERLAY, tests="TestVerifHostsReplay", after=after, env={"VERIF_HOSTS_IN": inp})


def check(run):
    thorough = run.tier == "thorough"
    run.cov["rule"] = ("behaviours = walks covering every edge of the TLC state graphs of Creds (request sequences against the real CRI "
                       "keychain proxy), Hosts (mirror configurations through RegistryHostsFromConfig + fall-through resolution) and Fetcher (interleavings of resolution/fetch/check/refresh steps and registry personality changes, "
                       "forced on real goroutines through gates), plus seeded random request sequences and free-running goroutine traces; "
                       "non-trivial = a credential was offered (Creds) / a redirect location was contacted and the host headers were sent "
                       "(Fetcher); distinct by hash of the recorded event list")
    run.assumptions += [
        "Creds: only parseable image references / server addresses; secrets are named after the pull request that carried them",
        "Creds: concurrency of the proxy (configMu) is not explored: requests are sequential",
        "Fetcher: one registry host, two redirect locations; locations never challenge with 401; 400/single-range fallback, multipart and "
        "retryablehttp are not modelled; Authorization comes from the real docker authorizer with Basic auth and a credential function that "
        "offers the secret for the registry host only",
        "Hosts: distinct mirror hosts, string-valued headers, loopback HTTP servers (404 = host does not have the blob); one fall-through "
        "resolution + one check per configuration",
        "TLC bounds: see stages; trace configs are unbounded",
    ]
    only = os.environ.get("VERIF_C18_ONLY", "")
    par = Par(run, 6)
    results = {}
    preps = []
    if only in ("", "creds"):
        creds_model(par, thorough)
        preps.append(par.leaf.submit(creds_prepare, par, thorough, results))
    if only in ("", "fetcher"):
        fetcher_model(par, thorough)
        preps.append(par.leaf.submit(fetcher_prepare, par, thorough, results))
    if only in ("", "hosts"):
        hosts_model(par, thorough)
        preps.append(par.leaf.submit(hosts_prepare, par, thorough, results))
    try:
        plans = [p.result() for p in preps]
        # ONE go test invocation for all drivers (packages are built and run in parallel by the go command)
        overlay, env = {}, {}
        for pl in plans:
            overlay.update(pl["overlay"])
            env.update(pl["env"])
        pkgs = [pl["pkg"] for pl in plans]
        rc, out = run.go_driver("", pkgs[-1], overlay, "^(%s)$" % "|".join(pl["tests"] for pl in plans), env=env, timeout=3000,
                                extra_args=pkgs[:-1])
        if rc != 0:
            # unsynchronized access to the (url, header) pair is exactly what lets the headers travel with the wrong url
            m = re.search(r"WARNING: DATA RACE\n(?:.*\n){0,40}?.*?(httpFetcher\)\.\w+)", out)
            if m and "resolver.go" in out:
                run.violation("datarace:httpFetcher:%s" % m.group(1),
                              "data race on httpFetcher state (url/header pair) reported while the driver ran fetch/check/refreshURL concurrently",
                              {"log": out[out.find("WARNING: DATA RACE"):][:6000]})
            else:
                raise Inconclusive("driver failed with a data race outside httpFetcher:\n" + out[-3000:])
        for pl in plans:
            pl["after"](rc, out)
    finally:
        par.join()
    run.cov["exhaustive"] = bool(results) and all(results.values()) and not only


if __name__ == "__main__":
    main(check, "C18")

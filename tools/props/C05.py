#!/usr/bin/env python3
"""C05 - the memory and the db metadata store expose the same filesystem for the same blob (Toc.tla).

M  Toc.tla: the space of small spec-conforming TOCs (AddEntry) with the reference semantics as operators; TLC checks the
   internal sanity of the reference on every TOC of the space (tree, identities, link counts, chunk tables, streams) and two
   negative controls.
R  3-way differential: every TOC TLC enumerates (TocGen, six configs: structure / features of one entry / trailing white
   space / many-chunk files / extreme modtimes / names with inner and trailing dot elements) is materialised as a real blob by harness/metadata/verif_toc.go, opened by memory.NewReader (root module) and
   db.NewReader (cmd module), the whole metadata.Reader API is walked and recorded;
   TocTrace: each store's record against the reference (which store left the reference - finding text, SPEC-DRIFT guard),
   TocMonitor: StoresAgree on the two records of one blob (the C05 formula; TLC -continue reports every line).
T  (thorough and quick) layers opened / walked / closed concurrently in ONE bolt database under -race; the same monitor
   compares each concurrent walk with the solo walk of the same blob (LayersIndependent, CloseRemovesOnlyOwn).
"""
import os, sys, json
sys.path.insert(0, os.path.dirname(os.path.dirname(os.path.abspath(__file__))))
from vlib import *

OVERLAY = {"metadata/verif_toc.go": "metadata/verif_toc.go",
           "metadata/memory/verif_c05_test.go": "metadata/memory/verif_c05_test.go",
           "cmd/containerd-stargz-grpc/db/verif_c05_test.go": "cmd/containerd-stargz-grpc/db/verif_c05_test.go"}
if os.environ.get("VERIF_KNOWN_EXTRA"):      # development aid: proposed known: lines that are not in KNOWN_FINDINGS.txt yet
    import vlib as _v
    _orig = _v.load_known

    def _lk(pid):
        known, fixed = _orig(pid)
        for line in open(os.environ["VERIF_KNOWN_EXTRA"]):
            m = re.match(r"known: property=(\S+) match=(\S+) (.*)", line.strip())
            if m and m.group(1) == pid:
                known.append({"match": m.group(2), "text": m.group(3)})
        return known, fixed
    _v.load_known = _lk
ALLP = '{"/", "/a", "/a/b", "/a/b/c", "/d", "/e"}'
INTERNAL = ()


def c05_vtocs(run, cfg, ov, timeout=3000, workers=4):
    """one TLC run = M (the sanity invariants of the reference on every TOC of the space) + generation (VTOC lines)"""
    r = run.tlc("TocGen", cfg, ov, workers, timeout)
    name = cfg + (" " + " ".join("%s=%s" % kv for kv in sorted(ov.items())) if ov else "")
    log("[mc+gen] %-40s %8d distinct %9d generated depth %2d %5.1fs %s" % (name[:40], r.distinct, r.generated, r.depth, r.wall, "OK" if r.completed else "FAILED"))
    if not r.completed:
        raise Inconclusive("spec TocGen/%s: %s\n%s" % (name, r.violated or r.error, "\n".join(r.out.splitlines()[-30:])))
    tocs = [json.loads(x) for x in r.lines("VTOC")]
    run.cov["states"] += r.distinct
    run.cov["transitions"] += r.generated
    run.cov["stages"].append({"stage": "mc+gen", "config": name, "distinct": r.distinct, "generated": r.generated, "tocs": len(tocs), "wall_s": round(r.wall, 1)})
    if not run.cov["checker_cmd"]:
        run.cov["checker_cmd"] = r.cmd
    return tocs


def c05_default(e):
    return e["sp"] == "plain" and e["at"] == "z" and (e["t"] != "reg" or (e["sz"] == 1 and e["lay"] == "one" and e["dg"] == "both"))


def c05_features(c):
    """features of a case; finding signatures name the features of the smallest failing sub-case: structural ones first"""
    ents, f, g = c["ents"], set(), set()
    anc = lambda p: [] if p == "/" else (["/"] + ["/" + "/".join(p.strip("/").split("/")[:k]) for k in range(1, p.count("/"))])
    for i, e in enumerate(ents):
        if e["p"] == "/":
            f.add("explicit-root")
        if any(x["p"] == e["p"] for x in ents[:i]):
            f.add("dup-dir")
        if e["t"] == "dir" and any(e["p"] in anc(x["p"]) for x in ents[:i]):
            f.add("dir-after-child")
        if e["t"] == "hardlink":
            if not any(x["p"] == e["tgt"] for x in ents[:i]):
                f.add("link-before-target")
            elif any(x["p"] == e["tgt"] and x["t"] == "hardlink" for x in ents[:i]):
                f.add("link-to-link")
            else:
                f.add("hardlink")
        for k, d in (("sp", "plain"), ("at", "z")):
            if e[k] != d:
                g.add("%s=%s" % (k, e[k]))
        if e["t"] == "reg":
            for k, d in (("sz", 1), ("lay", "one"), ("dg", "both")):
                if e[k] != d:
                    g.add("%s=%s" % (k, e[k]))
    if c["ws"]:
        f.add("ws")
    if not ents:
        f.add("empty-toc")
    return "+".join(sorted(f) + sorted(g)) or "plain"


def c05_atoms(a, b):
    """what differs between two observations: set of '<node kind>.<field>' / '<field>:<a>/<b>' (finding text only)"""
    out = set()
    if a.get("open") != b.get("open"):
        return {"open:%s/%s" % (a.get("open"), b.get("open"))}
    for k in ("digest", "clone", "close"):
        if a.get(k) != b.get(k):
            out.add("%s:%s/%s" % (k, a.get(k) or "-", b.get(k) or "-"))
    if a["open"] == "ok" and b["open"] == "ok":
        na, nb = a.get("nodes", {}), b.get("nodes", {})
        for p in set(na) | set(nb):
            if p not in na or p not in nb:
                out.add("path-only-in-%s" % ("first" if p in na else "second"))
                continue
            kind = "root" if p == "/" else (na[p]["ty"] or nb[p]["ty"])
            for fld in na[p]:
                if na[p][fld] != nb[p][fld]:
                    out.add("%s.%s" % (kind, fld))
    return out


def c05_subcases(c):
    ents = c["ents"]
    for i in range(len(ents)):
        yield {"ws": c["ws"], "ents": ents[:i] + ents[i + 1:]}
        e = ents[i]
        if e["t"] not in ("dir", "reg"):
            yield {"ws": c["ws"], "ents": ents[:i] + [dict(e, t="reg", tgt="", sz=1, lay="one", dg="both")] + ents[i + 1:]}
        for k, d in (("sp", "plain"), ("at", "z"), ("sz", 1), ("lay", "one"), ("dg", "both")):
            if e[k] != d and (k in ("sp", "at") or e["t"] == "reg"):
                e2 = dict(e)
                e2[k] = d
                if k == "sz":
                    e2["lay"] = "one" if e2["lay"] != "share" else "share"
                yield {"ws": c["ws"], "ents": ents[:i] + [e2] + ents[i + 1:]}
    if c["ws"]:
        yield {"ws": 0, "ents": ents}


def c05_key(c):
    return canon({"ws": c["ws"], "ents": c["ents"]})


def c05_compare(run, cases, first, second, names, formula, what, conformance=True):
    """monitor (TLC decides) + conformance of both records; names = (label of first, label of second)"""
    scratch = run.scratch
    tr = os.path.join(scratch, "trace_%s.ndjson" % what)
    mo = os.path.join(scratch, "mon_%s.ndjson" % what)
    order = [cid for cid in cases if cid in first and cid in second]
    with open(tr, "w") as f, open(mo, "w") as g:
        for cid in order:
            c = cases[cid]
            for st, o in ((names[0], first[cid]), (names[1], second[cid])):
                f.write(json.dumps({"case": cid, "store": st, "ws": c["ws"], "ents": c["ents"], "obs": o}) + "\n")
            g.write(json.dumps({"case": cid, "mem": first[cid], "db": second[cid]}) + "\n")
    if len(order) != len(cases):
        raise Inconclusive("%s: %d of %d cases have no observation from both sides" % (what, len(cases) - len(order), len(cases)))
    # conformance: every line against the reference
    miss = {}
    r = run.tlc("TocTrace", "TocTrace.cfg", None, 1, 2400, extra={"trace.ndjson": tr}) if conformance else None
    if r is not None and (not r.completed or not r.lines("VDONE")):
        raise Inconclusive("trace validation %s broke: %s\n%s" % (what, r.error or r.violated, "\n".join(r.out.splitlines()[-30:])))
    for x in (r.lines("VMISS") if r is not None else []):
        ln, asp = x.split()
        cid = order[(int(ln) - 1) // 2]
        miss.setdefault(cid, {})[names[(int(ln) - 1) % 2]] = asp.strip(",")
    # monitor: the C05 formula on the two records of each blob
    m = run.tlc("TocMonitor", "TocMonitor.cfg", None, 1, 2400, extra={"trace.ndjson": mo}, args=("-continue",))
    if m.error and not m.violated:
        raise Inconclusive("monitor %s broke: %s\n%s" % (what, m.error, "\n".join(m.out.splitlines()[-30:])))
    nviol = len(re.findall(r"Invariant StoresAgree is violated", m.out))
    dis = {}
    for x in m.lines("VDIS"):
        ln, asp = x.split()
        dis[order[int(ln) - 1]] = asp.strip(",").split(",")
    if (nviol > 0) != bool(dis) or (m.generated and m.distinct != len(order) + 1):
        raise Inconclusive("monitor %s: %d invariant reports but %d VDIS lines, %d states for %d lines" % (what, nviol, len(dis), m.distinct, len(order)))
    log("[monitor] %-10s %d blobs x 2 records: StoresAgree false on %d (TLC: %d reports); conformance misses: %s" % (
        what, len(order), len(dis), nviol,
        {n: sum(1 for v in miss.values() if n in v) for n in names}))
    run.cov["evaluations"] += 2 * len(order)
    run.cov["traces_validated_against_impl"] += sum(1 for cid in order if cid not in miss and cid not in dis) * 2
    run.cov["stages"].append({"stage": "monitor", "what": what, "blobs": len(order), "disagree": len(dis),
                              "conformance_miss": {n: sum(1 for v in miss.values() if n in v) for n in names}})
    # findings: one violation per (aspect, features of the smallest failing sub-case, differing field)
    bykey = {c05_key(cases[cid]): cid for cid in order}
    atoms = {cid: c05_atoms(first[cid], second[cid]) for cid in dis}
    memo = {}

    def minimal(cid, atom):
        if (cid, atom) in memo:
            return memo[(cid, atom)]
        best = cid
        for sub in c05_subcases(cases[cid]):
            sid = bykey.get(c05_key(sub))
            if sid is not None and sid in dis and atom in atoms[sid]:
                best = minimal(sid, atom)
                break
        memo[(cid, atom)] = best
        return best

    groups = {}
    for cid in sorted(dis):
        for atom in sorted(atoms[cid]) or ["(no field differs in the python diff)"]:
            mc = minimal(cid, atom)
            asp = [a for a in dis[mc]]
            sig = "monitor:%s:%s:%s:%s" % (formula, "+".join(asp), c05_features(cases[mc]), atom)
            groups.setdefault(sig, [mc, 0])
            groups[sig][1] += 1
    for sig, (mc, n) in sorted(groups.items()):
        who = miss.get(mc, {})
        arb = "; ".join("%s leaves the reference semantics in [%s]" % (k, v) for k, v in sorted(who.items())) or "both records conform to the reference in the aspects it covers"
        run.violation(sig, "%s false for %d blob(s); smallest: %s ws=%d; %s" % (
            formula, n, json.dumps([[e["p"], e["t"]] + [e[k] for k in ("tgt", "sp", "sz", "lay", "dg", "at")] for e in cases[mc]["ents"]]), cases[mc]["ws"], arb),
            {"case": cases[mc], names[0]: first[mc], names[1]: second[mc], "false_aspects": dis[mc], "conformance": who})
    drift = [cid for cid in miss if cid not in dis]
    if drift and conformance:
        cid = min(drift, key=lambda c: len(json.dumps(cases[c]["ents"])))
        run.inconclusive.append("SPEC-DRIFT %s: %d blob(s) on which the two records agree but differ from Toc.tla's reference, e.g. %s ws=%d: %s" % (
            what, len(drift), json.dumps(cases[cid]["ents"]), cases[cid]["ws"], miss[cid]))
    return dis, miss


def c05_early(run, outp):
    """clone taken immediately after NewReader (BigToc(n) of Toc.tla): the clones of the two stores must show the same (monitor),
    and what the reference says (trace spec)"""
    em = read_ndjson(outp + "_early_memory.ndjson")
    ed = read_ndjson(outp + "_early_db.ndjson")
    if not em or len(em) != len(ed):
        raise Inconclusive("clone-early: %d / %d records" % (len(em), len(ed)))
    mo = os.path.join(run.scratch, "mon_early.ndjson")
    tr = os.path.join(run.scratch, "trace_early.ndjson")
    with open(mo, "w") as g, open(tr, "w") as f:
        for a, b in zip(em, ed):
            g.write(json.dumps({"n": a["n"], "rep": a["rep"], "mem": a["early"], "db": b["early"]}) + "\n")
            f.write(json.dumps(a) + "\n")
            f.write(json.dumps(b) + "\n")
    r = run.tlc("TocTrace", "TocTrace.cfg", None, 1, 600, extra={"trace.ndjson": tr})
    if not r.completed or not r.lines("VDONE"):
        raise Inconclusive("trace validation clone-early broke: %s\n%s" % (r.error or r.violated, "\n".join(r.out.splitlines()[-30:])))
    miss = {}
    for x in r.lines("VMISS"):
        ln = int(x.split()[0])
        miss.setdefault((ln - 1) // 2, []).append(("memory", "db")[(ln - 1) % 2])
    m = run.tlc("TocMonitor", "TocMonitorEarly.cfg", None, 1, 600, extra={"trace.ndjson": mo}, args=("-continue",))
    if m.error and not m.violated:
        raise Inconclusive("monitor clone-early broke: %s\n%s" % (m.error, "\n".join(m.out.splitlines()[-30:])))
    dis = sorted(int(x.split()[0]) - 1 for x in m.lines("VDIS"))
    nviol = len(re.findall(r"Invariant EarlyCloneAgree is violated", m.out))
    if (nviol > 0) != bool(dis):
        raise Inconclusive("monitor clone-early: %d invariant reports but %d VDIS lines" % (nviol, len(dis)))
    log("[monitor] clone-early BigToc(%d) x %d: EarlyCloneAgree false on %d (TLC: %d reports); conformance misses: %s" % (
        em[0]["n"], len(em), len(dis), nviol, miss or "none"))
    run.cov["evaluations"] += 2 * len(em)
    run.cov["traces_validated_against_impl"] += 2 * sum(1 for i in range(len(em)) if i not in miss and i not in dis)
    run.cov["stages"].append({"stage": "clone-early", "n": em[0]["n"], "reps": len(em), "disagree": len(dis), "conformance_miss": len(miss)})
    if dis:
        i = dis[0]
        who = ", ".join(miss.get(i, [])) or "neither"
        run.violation("monitor:EarlyCloneAgree:clone-early:BigToc", "EarlyCloneAgree false in %d of %d repetitions: a clone taken immediately after NewReader of "
                      "BigToc(%d) shows memory=%s db=%s (leaves the reference: %s)" % (len(dis), len(em), em[i]["n"], json.dumps(em[i]["early"]), json.dumps(ed[i]["early"]), who),
                      {"n": em[i]["n"], "memory": em[i]["early"], "db": ed[i]["early"]})
    drift = [i for i in miss if i not in dis]
    if drift:
        run.inconclusive.append("SPEC-DRIFT clone-early: both stores agree but differ from EarlyCloneRef: %s" % json.dumps(em[drift[0]]))


def c05_read_obs(path):
    obs = {}
    for d in read_ndjson(path):
        obs[d["case"]] = d["obs"]
    return obs


def check(run):
    thorough = run.tier == "thorough"
    run.cov["rule"] = ("behaviour = one TOC of the conforming space enumerated by TLC (TocGen), materialised as a real blob, opened by both stores, "
                       "complete metadata.Reader walk recorded per store; counted as validated when both records conform to the reference and "
                       "StoresAgree holds; non-trivial = TOC has at least 2 entries or a non-default feature; distinct by canonical TOC")
    run.assumptions += ["path arithmetic tabulated for the universe {/, /a, /a/b, /a/b/c, /d, /e}; byte offsets abstracted to gzip stream indices",
                        "payload streams are hand-made gzip members of raw chunk bytes (no tar headers inside), TOC JSON marshalled from estargz.JTOC",
                        "Attr.NumLink 0 is read as 1 (documented convention of TOCEntry.NumLink / fs/layer/node.go)",
                        "GetAttr(root) before the bolt store's background parser has finished is not recorded (timing dependent)",
                        "one-database runs are decided by the monitor only (each concurrent record against the solo record of the same blob)"]
    # ---------------------------------------------------------------- M + generation of the TOC space
    tocs = []
    tocs += c05_vtocs(run, "Toc_gen_struct.cfg", {"MaxEntries": "4"} if thorough else None)
    tocs += c05_vtocs(run, "Toc_gen_feat.cfg", None)
    tocs += c05_vtocs(run, "Toc_gen_ws.cfg", None)
    tocs += c05_vtocs(run, "Toc_gen_many.cfg", None)     # files of 3..12 chunks, chunk offsets 40*k and 2100*k (varint key order != numeric order)
    tocs += c05_vtocs(run, "Toc_gen_mtime.cfg", None)    # modtimes outside 1678..2262, +09:00 zone, sub-second, zero time
    tocs += c05_vtocs(run, "Toc_gen_spell.cfg", None)    # names with inner / trailing dot elements: a/.  a/zz/..  a/./b  a//b  a/b/../b
    if thorough:
        tocs += c05_vtocs(run, "Toc_gen_struct.cfg", {"EPaths": ALLP, "MaxEntries": "3", "ETypes": '{"dir", "reg", "hardlink"}'})
        tocs += c05_vtocs(run, "Toc_gen_feat.cfg", {"MaxEntries": "3", "ETypes": '{"dir", "reg", "hardlink"}', "Spells": '{"plain", "dot"}',
                                                   "Attrs": '{"z", "f"}', "Digs": '{"both", "file"}', "Sizes": '{0, 4}', "EPaths": '{"/", "/a", "/d"}'})
    run.tlc_negctl("Toc", "Toc_mc_struct.cfg", {"DupDirCountsTwice": "TRUE"}, ["LinkCountsAddUp"])
    run.tlc_negctl("Toc", "Toc_mc_feat.cfg", {"LastChunkToEnd": "FALSE"}, ["ChunksCover"])
    cases, seen = {}, set()
    for t in tocs:
        k = c05_key(t)
        if k in seen:
            continue
        seen.add(k)
        cid = len(cases) + 1
        cases[cid] = {"id": cid, "ws": t["ws"], "ents": t["ents"]}
    log("[cases] %d distinct TOCs" % len(cases))
    inp = os.path.join(run.scratch, "cases.json")
    write_json(inp, list(cases.values()))
    outp = os.path.join(run.scratch, "obs")
    env = {"VERIF_IN": inp, "VERIF_OUT": outp, "VERIF_C05_BIG": "20000" if thorough else "6000", "VERIF_C05_REPS": "6" if thorough else "3"}
    run.go_driver("", "./metadata/memory/", OVERLAY, "^TestVerifC05(Walk|CloneEarly)$", env=env, race=False, timeout=2400)
    run.go_driver("cmd", "./containerd-stargz-grpc/db/", OVERLAY, "^TestVerifC05(Walk|CloneEarly)$", env=env, race=False, timeout=2400)
    mem = c05_read_obs(outp + "_memory.ndjson")
    db = c05_read_obs(outp + "_db.ndjson")
    c05_compare(run, cases, mem, db, ("memory", "db"), "StoresAgree", "stores")
    run.cov["distinct_nontrivial"] += sum(1 for c in cases.values() if len(c["ents"]) >= 2 or any(not c05_default(e) for e in c["ents"]))
    for cid in list(cases)[len(cases) // 2:][:2]:
        run.add_samples([{"toc": cases[cid], "memory": mem[cid], "db": db[cid]}], limit=2)
    # ---------------------------------------------------------------- clone-early: BigToc(n), Clone immediately after NewReader
    c05_early(run, outp)
    # ---------------------------------------------------------------- T: concurrent layers in one bolt database
    if os.environ.get("VERIF_C05_SKIP_T"):     # development aid (mutant runs): R only
        run.inconclusive.append("T stage skipped by VERIF_C05_SKIP_T") if not run.violations else None
        return
    ids = sorted(cases)
    run.rng.shuffle(ids)
    sub = {cid: cases[cid] for cid in ids[:(1200 if thorough else 160)]}
    inp2 = os.path.join(run.scratch, "cases_conc.json")
    write_json(inp2, list(sub.values()))
    rc, out = run.go_driver("cmd", "./containerd-stargz-grpc/db/", OVERLAY, "^TestVerifC05Concurrent$",
                            env={"VERIF_IN": inp2, "VERIF_OUT": outp + "_conc"}, race=True, timeout=2400)
    if rc != 0:
        mm = re.search(r"WARNING: DATA RACE\n(?:.*\n){0,40}", out)
        run.violation("datarace:db", "data race reported in the db metadata store with layers opened concurrently in one database",
                      {"log": (mm.group(0) if mm else out[-6000:])})
    conc = c05_read_obs(outp + "_conc_db.ndjson")
    c05_compare(run, sub, {cid: db[cid] for cid in sub}, conc, ("db-solo", "db-concurrent"), "LayersIndependent", "one-db", conformance=False)
    run.cov["exhaustive"] = True


if __name__ == "__main__":
    main(check, "C05")

#!/usr/bin/env python3
"""C14 - prioritized files are laid out first, in order, ahead of a single landmark (Sort.tla)."""
import os, sys, json, posixpath
sys.path.insert(0, os.path.dirname(os.path.dirname(os.path.abspath(__file__))))
from vlib import *

OVERLAY = {"estargz/verif_sort_test.go": "estargz/verif_sort_test.go",
           "estargz/verif_layout_test.go": "estargz/verif_layout_test.go"}
INTERNAL = ("ImportIsEff",)
ORDER_F = ["ExactlyOneLandmark", "EachAtMostOnce", "NothingLostOrDuplicated", "PrioritizedFirstInOrder",
           "ParentsAndTargetsBefore", "RestKeepsRelativeOrder", "MissingAbortsOrIsReported"]
LAYOUT_F = ["LandmarkStartsOwnStream", "PrioritizedDataBeforeLandmark", "NoOtherDataBefore", "DataAccountedFor"]
IMPLICIT = "implicit-parent-dir"     # D4 of Sort.tla: the finding of the pinned tree
BIG = 1 << 20

# option sets handed to the real Build (scheme, chunk size, min-chunk-size, workers)
OPTS = [
    dict(scheme="gzip", chunk=3, minchunk=0, workers=1, level=1),
    dict(scheme="gzip", chunk=3, minchunk=0, workers=2, level=9),
    dict(scheme="gzip", chunk=3, minchunk=0, workers=3, level=1),
    dict(scheme="gzip", chunk=3, minchunk=BIG, workers=1, level=1),   # everything shares a stream unless forced
    dict(scheme="gzip", chunk=2, minchunk=150, workers=1, level=1),   # both outcomes of the min-chunk decision
    dict(scheme="zstd", chunk=3, minchunk=0, workers=2, level=0),
    dict(scheme="zstd", chunk=2, minchunk=BIG, workers=1, level=0),
    dict(scheme="external", chunk=3, minchunk=0, workers=2, level=6),
    dict(scheme="gzip", chunk=2, minchunk=60, workers=1, level=0 + 9),
]


def clean(p):
    return posixpath.normpath("/" + p).lstrip("/")


def touches_implicit_parent(case):
    """a listed path (or a hard-link target reached from it) has a non-root ancestor without a tar entry"""
    eff = {}
    for e in case["tar"]:
        n = clean(e["name"])
        if n in (".prefetch.landmark", ".no.prefetch.landmark"):
            continue
        eff[n] = e
    seen = set()

    def walk(n):
        if n == "" or n in seen or n not in eff:
            return False
        seen.add(n)
        a = posixpath.dirname(n)
        while a:
            if a not in eff:
                return True
            a = posixpath.dirname(a)
        e = eff[n]
        return e["type"] == "link" and walk(clean(e["link"]))
    return any(walk(clean(p)) for p in case["prio"])


def event_line(tlc_out):
    m = re.findall(r"/\\ l = (\d+)", tlc_out)
    return int(m[-1]) - 1 if m else 0


def cfg_without(cfg, names):
    txt = Run.cfg_text(cfg)
    for n in names:
        txt = re.sub(r"(?m)^(INVARIANTS\b.*?)\s\b%s\b" % re.escape(n), r"\1", txt)
    return txt


def brief(ev):
    return {k: ev[k] for k in ("case", "tar", "prio", "allow", "opt", "scheme", "minchunk", "err", "errtext", "missed", "order", "lay")}


def validate(run, events, what, implicit_ok):
    """monitor + conformance of one batch; returns number of accepted events"""
    if not events:
        return 0
    path = os.path.join(run.scratch, "trace_%s.ndjson" % what)
    with open(path, "w") as fh:
        for e in events:
            fh.write(json.dumps(e) + "\n")
    run.cov["evaluations"] += len(events)
    viol, mr = run.tlc_monitor("SortMonitor", "SortMonitor.cfg", path, timeout=1500)
    model_implicit = "TRUE"
    trace_cfg = "SortTrace.cfg"
    if viol:
        n = event_line(mr.out)
        ev = events[n - 1] if 0 < n <= len(events) else events[0]
        o = ev["opt"]
        symptom = ev["err"] == "notfound" or len(ev["missed"]) > 0      # an existing path was treated as not found
        if what == IMPLICIT and viol in ("MissingAbortsOrIsReported", "PrioritizedFirstInOrder") and symptom and not implicit_ok:
            sig = "monitor:%s:%s" % (IMPLICIT, viol)
            # the rest of the batch is still checked: against the model of the pinned code and all other formulas
            model_implicit = "FALSE"
            trace_cfg = cfg_without("SortTrace.cfg", ["MissingAbortsOrIsReported", "PrioritizedFirstInOrder"])
        else:
            sig = "monitor:%s:%s:%s/minOn=%s/workers=%d" % (viol, what, ev["scheme"], o["minOn"], o["workers"])
        run.violation(sig, "%s is false on what estargz.Build produced for event %d of batch %s (tar %s, prioritized %s, allow %s)" % (
            viol, n, what, [e["name"] for e in ev["tar"]], ev["prio"], ev["allow"]), {"formula": viol, "event": brief(ev)})
        log("[trace] %-20s %d events: monitor %s at event %d" % (what, len(events), viol, n))
        if model_implicit == "TRUE":
            return 0
    res = run.tlc_trace("SortTrace", trace_cfg, path, {"ImplicitParents": model_implicit}, timeout=1500)
    log("[trace] %-20s %d events: conformance %s (ImplicitParents=%s), monitor %s" % (
        what, len(events), "accepted" if res["accepted"] else "REJECTED at line %s" % res["consumed"], model_implicit, viol or "ok"))
    if not res["accepted"]:
        n = (res["consumed"] or 0) + 1
        ev = events[min(n, len(events)) - 1]
        if res["violated"]:
            o = ev["opt"]
            run.violation("trace-invariant:%s:%s:%s/minOn=%s/workers=%d" % (res["violated"], what, ev["scheme"], o["minOn"], o["workers"]),
                          "%s false while following the recorded builds" % res["violated"], {"formula": res["violated"], "event": brief(ev)})
        else:
            run.inconclusive.append("SPEC-DRIFT batch %s event %d: the recorded result is not what Sort.tla (ImplicitParents=%s) computes although no "
                                    "C14 formula is false: %s" % (what, n, model_implicit, json.dumps(brief(ev))[:3000]))
        return 0
    return len(events)


def check(run):
    thorough = run.tier == "thorough"
    run.cov["rule"] = ("behaviour = one case (input tar x prioritized list x allow-not-found) enumerated by TLC from Sort.tla (generation configs), "
                       "materialised as a real tar and run through the real estargz.Build under an option set (scheme, chunk size, min-chunk-size, "
                       "workers); the recorded result is validated by TLC against the transcribed algorithm (SortTrace) and the C14 formulas are "
                       "evaluated on the recorded order/layout alone (SortMonitor). non-trivial = the prioritized list is non-empty and the build "
                       "succeeded; distinct by hash of (case, option set)")
    run.assumptions += [
        "name cleaning and path.Split are tables over a fixed universe of spellings (D1); hard-link cycles are excluded (D2, C04's finding)",
        "a listed hard link with a dangling target counts as a path that does not exist (D3)",
        "compressed sizes are not modelled: the min-chunk-size decision per chunk is nondeterministic in the model and bound from the observation (D5)",
        "bounds: see stages (MaxTar/MaxPrio per sub-universe); symlinks, devices, xattrs, long names (PAX) are not in the universe",
    ]
    # ---------------------------------------------------------------- M
    mt = {"MaxTar": "4", "MaxPrio": "3"} if thorough else None
    skip_m = os.environ.get("VERIF_SKIP_M") == "1"     # developer aid for mutant runs: binding stages only (evidence says so)
    if skip_m:
        run.assumptions.append("VERIF_SKIP_M=1: exhaustive model checking and negative controls were skipped in this run")
    if not skip_m:
      run.tlc_mc("Sort", "Sort_mc_links.cfg", {"MaxTar": "5", "MaxPrio": "3"} if thorough else None, timeout=3000, workers=4)
      run.tlc_mc("Sort", "Sort_mc_dups.cfg", mt, timeout=3000, workers=4)
      run.tlc_mc("Sort", "Sort_mc_implicit.cfg", mt, timeout=3000, workers=4)
      run.tlc_mc("Sort", "Sort_mc_landmarks.cfg", {"MaxTar": "4", "MaxPrio": "2"} if thorough else None, timeout=3000, workers=4)
      run.tlc_mc("Sort", "Sort_mc_deep.cfg", {"MaxTar": "5", "MaxPrio": "3"} if thorough else None, timeout=3000, workers=4)
      run.tlc_mc("Sort", "Sort_mc_layout.cfg", {"MaxTar": "4"} if thorough else None, timeout=3000, workers=4)
    neg = [
        ("Sort_mc_implicit.cfg", "ImplicitParents", ["MissingAbortsOrIsReported", "PrioritizedFirstInOrder"]),
        ("Sort_mc_links.cfg", "ParentsFirst", ["ParentsAndTargetsBefore", "PrioritizedFirstInOrder"]),
        ("Sort_mc_links.cfg", "TargetFirst", ["ParentsAndTargetsBefore", "PrioritizedFirstInOrder"]),
        ("Sort_mc_links.cfg", "PickedGuard", ["EachAtMostOnce", "NothingLostOrDuplicated"]),
        ("Sort_mc_links.cfg", "SkipPickedInRest", ["EachAtMostOnce", "NothingLostOrDuplicated"]),
        ("Sort_mc_links.cfg", "LandmarkAfterMoves", ["PrioritizedFirstInOrder", "ParentsAndTargetsBefore", "RestKeepsRelativeOrder"]),
        ("Sort_mc_links.cfg", "LandmarkByList", ["ExactlyOneLandmark"]),
        ("Sort_mc_implicit.cfg", "ReportMissing", ["MissingAbortsOrIsReported"]),
        ("Sort_mc_landmarks.cfg", "DropInputLandmarks", ["ExactlyOneLandmark", "EachAtMostOnce"]),
        ("Sort_mc_deep.cfg", "VisitingIsPath", ["MissingAbortsOrIsReported"]),
        ("Sort_mc_dups.cfg", "LastDupWins", ["EachAtMostOnce", "NothingLostOrDuplicated"]),
        ("Sort_mc_layout.cfg", "LandmarkOwnStream", ["LandmarkStartsOwnStream", "PrioritizedDataBeforeLandmark"]),
    ]
    for cfg, guard, expect in ([] if skip_m else neg):
        run.tlc_negctl("Sort", cfg, {guard: "FALSE"}, expect, drop=INTERNAL, workers=4)

    # ---------------------------------------------------------------- R: cases from TLC
    cases, special = [], set()
    # the last two are the special families (input landmarks in ./x and /x spellings; two directory levels with hard links):
    # every one of their cases is replayed in EVERY run under two fixed option sets (Build+gzip and zstd with 2 sub-blobs)
    for cfg, ov, is_special in (
            ("Sort_gen_links.cfg", {"MaxTar": "4"} if thorough else None, False),
            ("Sort_gen_dups.cfg", {"UseEntries": "{2, 3, 5, 8, 12, 16}"} if thorough else None, False),
            ("Sort_gen_implicit.cfg", {"UseEntries": "{1, 2, 3, 4, 5, 11}"} if thorough else None, False),
            ("Sort_gen_landmarks.cfg", {"MaxTar": "3", "MaxPrio": "2"} if thorough else None, True),
            ("Sort_gen_deep.cfg", {"MaxTar": "4", "MaxPrio": "2"} if thorough else None, True)):
        r = run.tlc("SortGen", cfg, ov, workers=1, timeout=3000)
        if not r.completed:
            raise Inconclusive("generation %s failed: %s\n%s" % (cfg, r.error or r.violated, "\n".join(r.out.splitlines()[-30:])))
        got = [json.loads(x) for x in r.lines("VCASE")]
        if not got:
            raise Inconclusive("generation %s printed no case" % cfg)
        log("[gen] %-26s %d cases (%d distinct states) %.1fs" % (cfg, len(got), r.distinct, r.wall))
        run.cov["stages"].append({"stage": "gen", "config": cfg, "cases": len(got), "distinct": r.distinct, "special_family": is_special})
        for c in got:
            c["special"] = is_special
        cases += got
    seen, uniq = set(), []
    for c in cases:
        k = canon([c["tar"], c["prio"], c["allow"]])
        if k not in seen:
            seen.add(k)
            uniq.append({"tar": c["tar"], "prio": c["prio"], "allow": c["allow"]})
            if c["special"]:
                special.add(len(uniq) - 1)
    cases = uniq
    runs = []
    for i, c in enumerate(cases):
        if i in special:
            runs += [[i, 0], [i, 5]]
            if thorough:
                runs.append([i, 3])
        elif thorough:
            runs += [[i, 0], [i, 1 + run.rng.randrange(len(OPTS) - 1)]]
        else:
            runs.append([i, run.rng.randrange(len(OPTS))])     # quick: every case once, option set drawn by the seed
    # thorough builds run under -race: keep every special-family build, sample the rest down to a bounded number
    CAP = 12000
    if thorough and len(runs) > CAP:
        keep = [r for r in runs if r[0] in special]
        rest = [r for r in runs if r[0] not in special]
        if len(keep) > CAP // 2:
            # the special families alone are large in thorough: every special case once with the default option set,
            # the further option sets of the special cases sampled
            first = [r for r in keep if r[1] == 0]
            more = [r for r in keep if r[1] != 0]
            run.rng.shuffle(more)
            if len(first) > CAP // 2:
                run.rng.shuffle(first)
                first = first[: CAP // 2]
            keep = first + more[: max(0, CAP // 2 - len(first))]
        run.rng.shuffle(rest)
        total = len(runs)
        runs = keep + rest[: max(0, CAP - len(keep))]
        run.cov["stages"].append({"stage": "replay-sample", "kept": len(runs), "of": total})
    out = os.path.join(run.scratch, "sort_events.ndjson")
    inp = os.path.join(run.scratch, "sort_in.json")
    write_json(inp, {"cases": cases, "opts": OPTS, "runs": runs, "out": out})
    log("[replay] %d cases, %d builds" % (len(cases), len(runs)))
    rc, gout = run.go_driver("estargz", "./", OVERLAY, "^TestVerifSortReplay$", env={"VERIF_IN": inp}, race=thorough, timeout=3000)
    if rc != 0:
        run.violation("datarace:estargz.Build", "data race reported in estargz.Build under the driver", {"log": gout[-6000:]})
        return
    events = read_ndjson(out)
    if len(events) != len(runs):
        raise Inconclusive("driver recorded %d events for %d builds" % (len(events), len(runs)))
    ABORTS = ("", "notfound", "loop")      # D6 of Sort.tla: a "loop" abort goes to the monitor as an abort
    odd = [e for e in events if e["err"] not in ABORTS]
    for e in odd[:3]:
        run.inconclusive.append("build failed outside C14's vocabulary (%s): %s :: %s" % (e["err"], e["errtext"], json.dumps(brief(e))[:1500]))
    events = [e for e in events if e["err"] in ABORTS]
    batch_a = [e for e in events if not touches_implicit_parent(e)]
    batch_b = [e for e in events if touches_implicit_parent(e)]
    _, fixed = load_known("C14")
    ok = 0
    chunk = 6000
    for k in range(0, len(batch_a), chunk):
        ok += validate(run, batch_a[k:k + chunk], "explicit-dirs-%d" % (k // chunk), True)
    ok += validate(run, batch_b, IMPLICIT, False)
    run.cov["traces_validated_against_impl"] += ok
    nontriv = [e for e in events if e["prio"] and e["err"] == ""]
    run.cov["distinct_nontrivial"] += len({digest([e["tar"], e["prio"], e["allow"], e["opt"], e["scheme"], e["minchunk"]]) for e in nontriv})
    shared = [e for e in nontriv if any(len(s["segs"]) > 1 for s in e["lay"]["streams"])]
    run.cov["stages"].append({"stage": "replay", "cases": len(cases), "builds": len(runs), "implicit_parent_batch": len(batch_b),
                              "builds_with_shared_streams": len(shared), "notfound_aborts": sum(1 for e in events if e["err"] == "notfound"),
                              "special_family_cases": len(special), "loop_aborts": sum(1 for e in events if e["err"] == "loop")})
    run.add_samples([brief(e) for e in (shared[:1] + [e for e in nontriv if e["opt"]["workers"] > 1 and len(e["order"]) > 3][:1])], limit=2)
    run.cov["exhaustive"] = ok == len(events) and not odd and not any(st.get("stage") == "replay-sample" for st in run.cov["stages"])


if __name__ == "__main__":
    main(check, "C14")

#!/usr/bin/env python3
"""C12 - a mounted layer stays usable; a released layer gives back all its resources (Layer.tla)."""
import os, sys, json, threading
from concurrent.futures import ThreadPoolExecutor
sys.path.insert(0, os.path.dirname(os.path.dirname(os.path.abspath(__file__))))
from vlib import *

OVERLAY = {"fs/layer/verif_layerlife_test.go": "fs/layer/verif_layerlife_test.go"}
INTERNAL = ("RefsAccount", "LockOK", "CachedIsLive")
AB = '{"a", "b"}'
# formulas that are checked one after the other: a (known) finding on the first must not hide the others
SEPARATE = ("NoOpenFilesAfterClose",)
VLOCK = threading.Lock()


def par(run, tasks, n=4):
    """run small TLC jobs side by side (each with 1-2 workers, at most n at a time); first exception wins.
    vlib numbers its scratch directories with a plain counter, so _prep is serialised here."""
    if not getattr(run, "_c12_locked", False):
        lock, orig = threading.Lock(), run._prep
        def locked(*a, **k):
            with lock:
                return orig(*a, **k)
        run._prep = locked
        run._c12_locked = True
    with ThreadPoolExecutor(max_workers=n) as ex:
        futs = [ex.submit(t) for t in tasks]
        return [f.result() for f in futs]


def names_of(ov):
    return ["a", "b"] if ov.get("Names") == AB else ["a"]


def monitor_all(run, trace_path, ov, events, what):
    """monitor run(s); every violated formula is reported once per trace file. Returns True if nothing was violated."""
    cfg = Run.cfg_text("LayerMonitor.cfg")
    clean = True
    for _ in range(len(SEPARATE) + 1):
        viol, mr = run.tlc_monitor("LayerMonitor", cfg, trace_path, ov, timeout=1200)
        if not viol:
            break
        clean = False
        m = re.findall(r"/\\ l = (\d+)", mr.out)
        line = int(m[-1]) - 1 if m else 1
        traces = split_traces(events)
        tr = [t for t in traces if t[0] <= line][-1]
        idx = line - tr[0]
        bad = events[line - 1]
        sig = "monitor:%s:%s:%s" % (viol, what.split("-")[0], bad.get("ev"))
        with VLOCK:
            run.violation(sig, "%s false on the recorded implementation state after event %d (%s) of a %s trace" % (viol, idx, bad.get("ev"), what),
                          {"formula": viol, "mode": what, "event_index": idx,
                           "steps": [{k: v for k, v in e.items() if k != "obs"} for e in tr[1][: idx + 1]],
                           "state": bad.get("obs"), "detail": bad.get("detail") or bad.get("readdetail")})
        log("[monitor] %s: %s false at event %d (%s) %s" % (what, viol, idx, bad.get("ev"), bad.get("detail", "")))
        if viol not in SEPARATE:
            break
        cfg = re.sub(r"(?m)^((?:INVARIANTS?|PROPERTIES|PROPERTY)\b.*?)\s\b%s\b" % re.escape(viol), r"\1", cfg)
    return clean


def check(run):
    thorough = run.tier == "thorough"
    run.cov["rule"] = ("replay: walks covering every edge of the TLC state graph of Layer (generation configs), executed on a real layer.Resolver "
                       "(Resolve goroutines stepped gate by gate, Done/Close/Refresh/reads on the returned Layer, expiry through the caches' Remove); "
                       "free run: goroutines resolving/reading/releasing/expiring concurrently under -race; non-trivial = some layer object was closed "
                       "during the trace; distinct by hash of the recorded event list")
    run.assumptions += [
        "TTL expiry is driven through TTLCache.Remove (the evictLocked the timer runs); the time.AfterFunc itself is C10's subject",
        "Done/Close/expiry with the close cascade are one atomic spec action (layer part under layerCache.mu, blob part under blobCache.mu in the code)",
        "registry = in-memory remote.Handler; connectivity = fetcher epochs (BreakConn/Refresh); valid_interval 1 h, elapsed by the driver "
        "(Tick: lastCheck of every blob is moved into the past) instead of by waiting; directory caches with SyncAdd, "
        "memory LRU of 1 chunk; metadata store = memory reader wrapped to observe Close and to make Close report an error (ArmCloseErr); "
        "mkdir errors and errors of the cache directories' own Close not modelled",
        "open files are observed through /proc/self/fd (links below the resolver root)",
        "free-running traces are decided by the monitor only (local samples by the holder, complete projection at quiescent points)",
    ]
    # ---------------------------------------------------------------- M
    skip_mc = os.environ.get("VERIF_C12_BINDING_ONLY") == "1"   # development aid (mutant runs): binding stages only
    if skip_mc:
        run.inconclusive.append("VERIF_C12_BINDING_ONLY=1: model-checking stage skipped, not a complete check")
    elif thorough:
        run.tlc_mc("Layer", "Layer_mc.cfg", None, workers=8, timeout=3000, name="Layer_mc.cfg 1 name 3 holders 4 resolves")
        par(run, [lambda: run.tlc_mc("Layer", "Layer_mc.cfg", {"Names": AB, "NH": "2", "MaxR": "3", "MaxFault": "1"}, workers=3, timeout=3000,
                                     name="Layer_mc.cfg 2 names 2 holders 3 resolves"),
                  lambda: run.tlc_mc("Layer", "Layer_mc.cfg", {"NH": "2", "MaxR": "3", "TrackFiles": "TRUE"}, workers=2, timeout=3000, name="Layer_mc.cfg files")])
    if not skip_mc and not thorough:
        par(run, [lambda: run.tlc_mc("Layer", "Layer_mc.cfg", {"NH": "2", "MaxR": "3", "MaxFault": "1", "MaxBreak": "0"}, workers=1, timeout=900,
                                     name="Layer_mc.cfg 1 name 2 holders 3 resolves 1 failure"),
                  lambda: run.tlc_mc("Layer", "Layer_mc.cfg", {"NH": "2", "MaxR": "2", "MaxFault": "1", "MaxBreak": "1"}, workers=1, timeout=900,
                                     name="Layer_mc.cfg 1 name 2 holders 2 resolves 1 failure 1 break (check interval)"),
                  lambda: run.tlc_mc("Layer", "Layer_mc.cfg", {"Names": AB, "NH": "2", "MaxR": "2", "MaxFault": "0", "MaxBreak": "0"}, workers=1, timeout=900,
                                     name="Layer_mc.cfg 2 names 2 holders 2 resolves"),
                  lambda: run.tlc_mc("Layer", "Layer_mc.cfg", {"NH": "2", "MaxR": "2", "MaxFault": "1", "MaxBreak": "0", "TrackFiles": "TRUE"}, workers=1, timeout=900,
                                     name="Layer_mc.cfg files")])
    small = {"NH": "2", "MaxR": "2"}
    ctl = [(dict(small, **{guard: "FALSE"}), expect) for guard, expect in (
        ("ResolveLock", ["NoDuplicateCreation", "ReturnedIsCached"]),
        ("CloseWaitsForHolders", ["HeldLayerServes", "ReadWorks"]),
        ("LayerKeepsBlobRef", ["HeldLayerServes", "ReadWorks"]),
        ("CleanupOnFailure", ["FailedResolveLeaksNothing", "AllReleasedAndEvictedFreesEverything"]),
        ("IdentityEvict", ["AllReleasedAndEvictedFreesEverything", "UnusedBlobIsGone"]),
        ("CloseReleasesBlob", ["AllReleasedAndEvictedFreesEverything", "UnusedBlobIsGone"]),
        ("StampOnlyOnSuccess", ["CheckNotFooled"]),
        ("BlobReleasedOnCloseError", ["UnusedBlobIsGone", "AllReleasedAndEvictedFreesEverything"]))]
    ctl.append((dict(small, TrackFiles="TRUE", CloseFiles="FALSE"), ["NoOpenFilesAfterClose"]))
    par(run, [] if skip_mc else [(lambda o=o, x=x: run.tlc_negctl("Layer", "Layer_mc.cfg", o, x, workers=1, drop=INTERNAL)) for o, x in ctl])

    # ---------------------------------------------------------------- R
    # (name, overrides of Layer_gen.cfg, walks: None = cover every edge, n = a sample of n covering walks)
    gens = [("faults", {"NH": "2", "MaxR": "2", "MaxFault": "1", "MaxBreak": "0"}, None),
            ("conn1", {"NH": "1", "MaxR": "2", "MaxFault": "0", "MaxBreak": "1"}, None),
            ("extras", {"NH": "1", "MaxR": "2", "MaxFault": "1", "MaxBreak": "0", "Extras": "TRUE"}, None)]
    if thorough:
        gens = [("one3", {"NH": "2", "MaxR": "3", "MaxFault": "1", "MaxBreak": "0"}, None),
                ("one2f", {"NH": "2", "MaxR": "2", "MaxFault": "2", "MaxBreak": "0"}, None),
                ("conn2", {"NH": "2", "MaxR": "2", "MaxFault": "1", "MaxBreak": "1"}, None),
                ("extras", {"NH": "2", "MaxR": "2", "MaxFault": "0", "MaxBreak": "1", "Extras": "TRUE"}, None),
                ("three", {"NH": "3", "MaxR": "3", "MaxFault": "1", "MaxBreak": "1"}, 400),
                ("two", {"Names": AB, "NH": "2", "MaxR": "2", "MaxFault": "0", "MaxBreak": "1"}, 400)]
    jobs = []
    exhaustive = True
    graphs = par(run, [(lambda ov=ov: run.tlc_edges("LayerGen", "Layer_gen.cfg", ov, timeout=2400)) for _, ov, _ in gens])
    for (name, ov, sample), (inits, edges) in zip(gens, graphs):
        walks, st = edge_cover(inits, edges, maxlen=45, rng=run.rng, extra_walks=(100 if thorough else 15) if sample is None else 0,
                               max_walks=sample)
        log("[walks] %s: %s" % (name, st))
        if sample is None:
            exhaustive = exhaustive and st["covered"] == st["edges"]
        else:
            st["sampled"] = True
        out = os.path.join(run.scratch, "replay_%s.ndjson" % name)
        jobs.append({"name": name, "ov": ov, "names": names_of(ov), "nh": int(ov["NH"]), "out": out,
                     "walks": [[{k: s[k] for k in ("act", "h", "n", "arg", "cb")} for s in w] for w in walks]})
        run.cov["stages"].append(dict(stage="edge-cover", graph=name, **st))
    inp = os.path.join(run.scratch, "walks.json")
    write_json(inp, jobs)
    free = os.path.join(run.scratch, "free.ndjson")
    rc, out = run.go_driver("", "./fs/layer/", OVERLAY, "^TestVerifLayer(Replay|Free)$", timeout=3000,
                            env={"VERIF_IN": inp, "VERIF_FREE_OUT": free, "VERIF_PAR": "8",
                                 "VERIF_FREE_TRACES": "150" if thorough else "30", "VERIF_FREE_OPS": "40"})
    if rc != 0:
        # the race detector reported a race on the state the property is about; the traces were still written
        m = re.search(r"WARNING: DATA RACE\n(?:.*\n){0,40}", out)
        run.violation("datarace:fs/layer", "data race reported in package fs/layer under the driver", {"log": (m.group(0) if m else out[-6000:])})
    def validate(j):
        events = read_ndjson(j["out"])
        if any(e.get("hang") for e in events):
            return events, None, None
        ov = {"NH": j["ov"]["NH"]}
        if "Names" in j["ov"]:
            ov["Names"] = j["ov"]["Names"]
        res = run.tlc_trace("LayerTrace", "LayerTrace.cfg", j["out"], ov, timeout=1800)
        clean = monitor_all(run, j["out"], ov, events, "replay-" + j["name"])
        return events, res, clean

    def validate_free():
        events = read_ndjson(free)
        return events, monitor_all(run, free, {"Names": AB, "NH": "1"}, events, "free-run")

    results = par(run, [(lambda j=j: validate(j)) for j in jobs] + [validate_free])
    for j, (events, res, clean) in zip(jobs, results[:-1]):
        traces = split_traces(events)
        hung = [e for e in events if e.get("hang")]
        if hung:
            run.inconclusive.append("replay %s: a step did not finish: %s" % (j["name"], json.dumps({k: v for k, v in hung[0].items() if k != "obs"})))
            continue
        log("[trace] replay %-6s %d traces %d events: conformance %s, monitor %s" %
            (j["name"], len(traces), len(events), "accepted" if res["accepted"] else "REJECTED at line %s" % res["consumed"], "ok" if clean else "VIOLATED"))
        run.cov["evaluations"] += len(events)
        if not res["accepted"]:
            line = (res["consumed"] or 0) + 1
            tr = [t for t in traces if t[0] <= line][-1]
            if res["violated"]:
                run.violation("trace-invariant:%s:replay-%s" % (res["violated"], j["name"]),
                              "%s false while following the recorded trace" % res["violated"],
                              {"steps": [{k: v for k, v in e.items() if k != "obs"} for e in tr[1][: line - tr[0] + 2]]})
            elif clean:
                run.inconclusive.append("SPEC-DRIFT replay %s: event %d %s not explained by Layer.tla although no C12 formula is false; steps: %s" % (
                    j["name"], line - tr[0], json.dumps(events[line - 1]),
                    json.dumps([{k: v for k, v in e.items() if k != "obs"} for e in tr[1][max(0, line - tr[0] - 8): line - tr[0] + 1]])))
            continue
        run.cov["traces_validated_against_impl"] += len(traces)
        run.cov["distinct_nontrivial"] += len({digest(t) for s, t in traces
                                               if any(any(x.get("closed") for x in e.get("obs", {}).get("layers", [])) for e in t)})
        run.add_samples([{"mode": "replay-" + j["name"], "events": [{k: v for k, v in e.items() if k != "obs"} for e in t[:25]]}
                         for s, t in traces[5:6]], limit=2)
    # ---------------------------------------------------------------- T (monitor only)
    events, clean = results[-1]
    traces = split_traces(events)
    nsamp = sum(1 for e in events if e.get("ev") == "Sample")
    log("[trace] free-run: %d traces %d events %d samples: monitor %s" % (len(traces), len(events), nsamp, "ok" if clean else "VIOLATED"))
    run.cov["evaluations"] += len(events)
    if clean:
        run.cov["traces_validated_against_impl"] += len(traces)
        run.cov["distinct_nontrivial"] += len({digest(t) for s, t in traces if any(e.get("ev") == "Sample" for e in t)})
        run.add_samples([{"mode": "free-run", "events": [{k: v for k, v in e.items() if k != "obs"} for e in t[:12]]} for s, t in traces[:1]], limit=3)
    run.cov["exhaustive"] = exhaustive


if __name__ == "__main__":
    main(check, "C12")

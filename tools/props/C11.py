#!/usr/bin/env python3
"""C11 - a chunk-cache hit returns exactly the bytes committed under that key (ChunkCache.tla)."""
import os, sys, json
sys.path.insert(0, os.path.dirname(os.path.dirname(os.path.abspath(__file__))))
from vlib import *

OVERLAY = {"cache/verif_chunkcache_test.go": "cache/verif_chunkcache_test.go"}
FREEKEYS = '{"aa1", "bb2", "cc3", "dd4", "ee5", "ff6"}'


def report_monitor(run, viol, mr, events, what, cfgname):
    m = re.findall(r"/\\ l = (\d+)", mr.out)
    line = int(m[-1]) - 1 if m else 1
    traces = split_traces(events)
    tr = [t for t in traces if t[0] <= line][-1]
    idx = line - tr[0]
    bad = events[line - 1]
    # signature names the formula, the mode and the kind of event that exposed it
    sig = "monitor:%s:%s:%s" % (viol, what, bad.get("ev"))
    run.violation(sig, "%s false on recorded implementation results (%s, %s) at event %d: %s" %
                  (viol, what, tr[1][0].get("cfg", cfgname), idx, json.dumps(bad)),
                  {"formula": viol, "mode": what, "event_index": idx, "trace": tr[1][: idx + 1][-60:]})


def check(run):
    thorough = run.tier == "thorough"
    run.cov["rule"] = ("replay: walks covering every edge of the TLC state graph of ChunkCache (generation configs: memory+fd+file layers, "
                       "direct mode, sync/async persistence), stepped through a real directoryCache with persistence goroutines held at gates; "
                       "free run: goroutines on real caches of all option combinations; non-trivial = trace contains a read hit; distinct by hash")
    run.assumptions += ["cacheutil.LRUCache honours its contract (C10) - modelled as MaybeRecycle/MaybeCloseFd",
                        "bytes abstracted to (writer id, number of 4-byte pieces); disk I/O errors not modelled",
                        "free-running traces are decided by the monitor only (no conformance spec of the goroutine interleaving)",
                        "disk I/O errors: only a failing shard-directory creation under fs/reader.cacheData (reader-fault stage, monitor only)"]
    # M
    run.tlc_mc("ChunkCache", "ChunkCache_mc.cfg", {"NW": "2"}, workers=8, timeout=1500, name="ChunkCache_mc.cfg NW=2")
    run.tlc_mc("ChunkCache", "ChunkCache_mc.cfg", {"NW": "2", "Lens": "{0, 1}", "DirectMode": "TRUE"}, workers=8, timeout=1500, name="ChunkCache_mc.cfg direct, zero-length")
    if thorough:
        run.tlc_mc("ChunkCache", "ChunkCache_mc.cfg", {"NW": "3", "MaxB": "3"}, workers=16, timeout=3000, name="ChunkCache_mc.cfg NW=3")
        run.tlc_mc("ChunkCache", "ChunkCache_mc.cfg", {"NW": "2", "Lens": "{0, 2}", "DataCap": "2", "FdCap": "2", "Keys": '{"aa1", "bb2", "cc3"}'}, workers=16, timeout=3000, name="ChunkCache_mc.cfg 3 keys cap 2")
    internal = ("TypeOK",)
    run.tlc_negctl("ChunkCache", "ChunkCache_mc.cfg", {"HoldWhileShared": "FALSE"}, ["NoRecycleWhileReferenced", "HitIsCommitted", "ReadsAreCommitted", "FinalFilesComplete"], drop=internal)
    run.tlc_negctl("ChunkCache", "ChunkCache_mc.cfg", {"RenameAfterWrite": "FALSE", "NW": "2"}, ["FinalFilesComplete", "HitIsCommitted", "ReadsAreCommitted"], drop=internal)
    run.tlc_negctl("ChunkCache", "ChunkCache_mc.cfg", {"ReadersHold": "FALSE"}, ["NoRecycleWhileReferenced", "HitIsCommitted", "ReadsAreCommitted"], drop=internal)

    # R
    jobs = []
    exhaustive = True
    gens = [("mem", {}, False), ("direct", {"DirectMode": "TRUE", "Lens": "{0, 2}"}, False), ("memsync", {"Lens": "{1}", "NR": "2"} if thorough else {"Lens": "{1}"}, True)]
    if thorough:
        gens.append(("mem3", {"NW": "3", "Lens": "{1}", "MaxB": "2"}, False))
    for name, ov, syncadd in gens:
        inits, edges = run.tlc_edges("ChunkCacheGen", "ChunkCache_gen.cfg", ov, timeout=1500)
        # the 3-writer graph (thorough) has >3*10^5 edges: replay a bounded number of edge-covering walks of it
        walks, st = edge_cover(inits, edges, maxlen=30, rng=run.rng, extra_walks=100 if thorough else 20,
                               max_walks=12000 if name == "mem3" else None)
        log("[walks] %s: %s" % (name, st))
        exhaustive = exhaustive and st["covered"] == st["edges"]
        out = os.path.join(run.scratch, "replay_%s.ndjson" % name)
        jobs.append({"name": name, "ov": ov, "keys": ["aa1", "bb2"], "datacap": 1, "fdcap": 1,
                     "directmode": ov.get("DirectMode") == "TRUE", "syncadd": syncadd, "out": out,
                     "walks": [[{k: v for k, v in s.items() if k != "post"} for s in w] for w in walks]})
        run.cov["stages"].append(dict(stage="edge-cover", graph=name, **st))
    inp = os.path.join(run.scratch, "walks.json")
    write_json(inp, jobs)
    free = os.path.join(run.scratch, "free.ndjson")
    rc, out = run.go_driver("", "./cache/", OVERLAY, "^TestVerif(Replay|Free)$",
                            env={"VERIF_IN": inp, "VERIF_FREE_OUT": free, "VERIF_FREE_TRACES": "170" if thorough else "51"})
    if rc != 0:
        # the race detector reported a race on the state the property is about; the traces were still written
        m = re.search(r"WARNING: DATA RACE\n(?:.*\n){0,40}", out)
        run.violation("datarace:cache", "data race reported in package cache under the driver", {"log": (m.group(0) if m else out[-6000:])})
    for j in jobs:
        events = read_ndjson(j["out"])
        traces = split_traces(events)
        ov = dict(j["ov"])
        ov.setdefault("MaxB", "1000")
        res = run.tlc_trace("ChunkCacheTrace", "ChunkCacheTrace.cfg", j["out"], ov, timeout=600)
        viol, mr = run.tlc_monitor("ChunkCacheMonitor", "ChunkCacheMonitor.cfg", j["out"], ov)
        log("[trace] replay %-8s %d traces %d events: conformance %s, monitor %s" %
            (j["name"], len(traces), len(events), "accepted" if res["accepted"] else "REJECTED at line %s" % res["consumed"], viol or "ok"))
        run.cov["evaluations"] += len(events)
        if viol:
            report_monitor(run, viol, mr, events, "replay-" + j["name"], j["name"])
            continue
        if not res["accepted"]:
            line = (res["consumed"] or 0) + 1
            tr = [t for t in traces if t[0] <= line][-1]
            if res["violated"]:
                run.violation("trace-invariant:%s:replay-%s" % (res["violated"], j["name"]),
                              "%s false while following the recorded trace" % res["violated"], {"trace": tr[1][: line - tr[0] + 2]})
            else:
                run.inconclusive.append("SPEC-DRIFT replay %s: event %d %s not explained by ChunkCache.tla although no C11 formula is false; prefix: %s" % (
                    j["name"], line - tr[0], json.dumps(events[line - 1]), json.dumps(tr[1][max(0, line - tr[0] - 6): line - tr[0] + 1])))
            continue
        run.cov["traces_validated_against_impl"] += len(traces)
        run.cov["distinct_nontrivial"] += len({digest(t) for s, t in traces if any(e.get("ev") == "ReadAt" for e in t)})
        run.add_samples([{"mode": "replay-" + j["name"], "events": t[:14]} for s, t in traces[3:4]], limit=3)
    # fs/reader's use of the cache when persisting fails (monitor only): a hit after a failed Commit is still a committed value
    fault = os.path.join(run.scratch, "fault.ndjson")
    rc2, out2 = run.go_driver("", "./fs/reader/", {"fs/reader/verif_cachefault_test.go": "fs/reader/verif_cachefault_test.go"},
                              "^TestVerifC11CacheFault$", env={"VERIF_FAULT_OUT": fault})
    if rc2 != 0:
        m = re.search(r"WARNING: DATA RACE\n(?:.*\n){0,40}", out2)
        run.violation("datarace:fs/reader:cacheData", "data race reported in fs/reader under the cache-fault driver", {"log": (m.group(0) if m else out2[-4000:])})
    fevents = read_ndjson(fault)
    viol, mr = run.tlc_monitor("ChunkCacheMonitor", "ChunkCacheMonitor.cfg", fault, {"Keys": FREEKEYS, "NW": "200"})
    log("[trace] reader-fault: %d traces %d events %d read hits: monitor %s" % (len(split_traces(fevents)), len(fevents),
        sum(1 for e in fevents if e.get("ev") == "Read"), viol or "ok"))
    run.cov["evaluations"] += len(fevents)
    if viol:
        report_monitor(run, viol, mr, fevents, "reader-fault", "fault")
    else:
        run.cov["traces_validated_against_impl"] += len(split_traces(fevents))
    # T (monitor only)
    events = read_ndjson(free)
    traces = split_traces(events)
    viol, mr = run.tlc_monitor("ChunkCacheMonitor", "ChunkCacheMonitor.cfg", free, {"Keys": FREEKEYS, "NW": "400"})
    nreads = sum(1 for e in events if e.get("ev") == "Read")
    log("[trace] free-run: %d traces %d events %d read hits: monitor %s" % (len(traces), len(events), nreads, viol or "ok"))
    run.cov["evaluations"] += len(events)
    if viol:
        report_monitor(run, viol, mr, events, "free-run", "free")
    else:
        run.cov["traces_validated_against_impl"] += len(traces)
        run.cov["distinct_nontrivial"] += len({digest(t) for s, t in traces if any(e.get("ev") == "Read" for e in t)})
        run.add_samples([{"mode": "free-run", "cfg": t[0].get("cfg"), "events": t[:10]} for s, t in traces[:1]], limit=4)
    run.cov["exhaustive"] = exhaustive


if __name__ == "__main__":
    main(check, "C11")

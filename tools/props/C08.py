#!/usr/bin/env python3
"""C08 - the snapshotter keeps metadata, directories and backend mounts in step (spec/Snapshotter.tla)."""
import os, sys
sys.path.insert(0, os.path.dirname(os.path.dirname(os.path.abspath(__file__))))
from vlib import *
import snapcommon as sc

PID = "C08"


def check(run):
    sc.check(run, PID)


if __name__ == "__main__":
    main(check, PID)

#!/usr/bin/env python3
"""C01 - verified layers never return bytes that do not match the TOC-pinned digests (Verify.tla)."""
import os, sys, json
sys.path.insert(0, os.path.dirname(os.path.dirname(os.path.abspath(__file__))))
from vlib import *

OV_READER = {"fs/reader/verif_verify.go": "fs/reader/verif_verify.go",
             "fs/reader/verif_verify_test.go": "fs/reader/verif_verify_test.go"}
OV_LAYER = {"fs/layer/verif_verifylayer_test.go": "fs/layer/verif_verifylayer_test.go"}
PROPS = ["MountImpliesToc", "ServedAreGood", "NoBadStaysCached", "FailedReadLeavesNothing"]
STAGES = set((os.environ.get("C01_STAGES") or "mc,negctl,replay,layer,free,sweep").split(","))

GEN_READER = {"NRd": "1", "MaxVerify": "1"}
GEN_READER_THOROUGH = {}
GEN_PASS = {"NWk": "1", "NRd": "2", "MaxVerify": "1", "Tocs": '{"D"}', "Args": '{"D"}', "WithPass": "TRUE", "WithTry": "FALSE", "Kinds": '{"s"}'}
GEN_LAYER = {"NWk": "0", "NRd": "2", "MaxAlter": "1", "MaxVerify": "3", "AtomicVerify": "TRUE", "WithSkip": "TRUE", "WithTry": "FALSE"}
GEN_LAYER_THOROUGH = {"NWk": "0", "NRd": "3", "MaxAlter": "2", "MaxVerify": "3", "AtomicVerify": "TRUE", "WithSkip": "TRUE", "WithTry": "FALSE"}


def mon_line(mr):
    m = re.findall(r"/\\ l = (\d+)", mr.out)
    return int(m[-1]) - 1 if m else 1


def report_monitor(run, viol, mr, events, mode):
    line = mon_line(mr)
    traces = split_traces(events)
    tr = [t for t in traces if t[0] <= line][-1]
    idx = line - tr[0]
    bad = events[line - 1]
    cfg = tr[1][0].get("cfg", "")
    # the signature names the formula, the mode, the kind of event that exposed it and the shape of the history before it
    hist = "-".join(e["ev"] + (":" + e["res"] if e.get("ev") in ("VTFinish", "LayerVerify", "Verify") else "")
                    for e in tr[1][: idx + 1] if e.get("ev") in ("LayerSkip", "VTFinish", "LayerVerify", "Verify"))[-80:]
    sig = "monitor:%s:%s:%s:%s" % (viol, mode, bad.get("ev"), hist)
    run.violation(sig, "%s false on what the implementation did (%s; %s) at event %d: %s" %
                  (viol, mode, cfg, idx, json.dumps(bad)),
                  {"formula": viol, "mode": mode, "cfg": cfg, "event_index": idx, "trace": tr[1][: idx + 1][-80:]})


def validate(run, path, mode, trace_ov, mon_ov, conformance=True, nontrivial=("Read", "PassRead")):
    events = read_ndjson(path)
    if not events:
        raise Inconclusive("driver wrote no events for " + mode)
    traces = split_traces(events)
    run.cov["evaluations"] += len(events)
    viol, mr = run.tlc_monitor("VerifyMonitor", "VerifyMonitor.cfg", path, mon_ov, timeout=900)
    res = None
    if conformance and not viol:
        res = run.tlc_trace("VerifyTrace", "VerifyTrace.cfg", path, trace_ov, timeout=900)
    log("[trace] %-22s %5d traces %6d events: monitor %s%s" % (
        mode, len(traces), len(events), viol or "ok",
        "" if res is None else (", conformance accepted" if res["accepted"] else ", conformance REJECTED at line %s" % res["consumed"])))
    if viol:
        report_monitor(run, viol, mr, events, mode)
        return False
    if res is not None and not res["accepted"]:
        line = (res["consumed"] or 0) + 1
        tr = [t for t in traces if t[0] <= line][-1]
        if res["violated"] in PROPS:
            run.violation("trace-invariant:%s:%s" % (res["violated"], mode),
                          "%s false while following the recorded trace" % res["violated"], {"trace": tr[1][: line - tr[0] + 2]})
        else:
            run.inconclusive.append("SPEC-DRIFT %s (%s): event %d %s is not explained by Verify.tla although no C01 formula is false; prefix: %s" % (
                mode, tr[1][0].get("cfg", ""), line - tr[0], json.dumps(events[line - 1]),
                json.dumps(tr[1][max(0, line - tr[0] - 8): line - tr[0] + 1])))
        return False
    run.cov["traces_validated_against_impl"] += len(traces)
    run.cov["distinct_nontrivial"] += len({digest([{k: v for k, v in e.items() if k != "cfg"} for e in t])
                                           for s, t in traces if any(e.get("ev") in nontrivial for e in t)})
    return True


def gen_walks(run, name, ov, maxlen, extra):
    inits, edges = run.tlc_edges("VerifyGen", "Verify_gen.cfg", ov, timeout=1500)
    walks, st = edge_cover(inits, edges, maxlen=maxlen, rng=run.rng, extra_walks=extra)
    log("[walks] %s: %s" % (name, st))
    run.cov["stages"].append(dict(stage="edge-cover", graph=name, **st))
    # the toc of the initial state each walk starts from: replay the walk ends backwards (first step's pre-state is not kept) -> use post.toc
    tocs = [w[0]["post"]["toc"] for w in walks]
    steps = [[{k: v for k, v in s.items() if k in ("act", "w", "r", "c", "k", "d")} for s in w] for w in walks]
    return steps, tocs, st


def check(run):
    thorough = run.tier == "thorough"
    run.cov["rule"] = ("replay: walks covering every edge of the TLC state graph of Verify.tla (generation configs: two readAndCache workers x VerifyTOC x "
                       "reads x one alteration with gates; passthrough with a directory cache; layer-level Verify/SkipVerify histories), stepped through a real "
                       "VerifiableReader / layer over real eStargz blobs (gzip level 0 and 9, zstd:chunked) whose source is patched by the concretiser; "
                       "free run: Cache() x2 + VerifyTOC + 4 readers + alterations under -race; sweep: one history per bit flip / truncation / member substitution / "
                       "member swap / re-serialised TOC; non-trivial = trace contains a read through a verified mount; distinct by hash")
    run.assumptions += [
        "chunk values abstracted to g (bytes the TOC records) / s (other bytes, stream valid) / k (stream broken); reads are whole chunks",
        "the uncompressed chunk cache is not tampered with at rest: a cache hit is served unverified by design (alterations enter through the blob source: registry, mirror, compressed-blob cache)",
        "concurrent Mount calls racing on layer.r / reader.verify of one layer object are not modelled (Verify/SkipVerify calls on one layer are sequential)",
        "free-run and sweep traces are decided by the monitor only (no conformance spec of the free interleaving)",
        "ground truth of the TOC in altered blobs (sweep): 'does not hash to D' only when the driver can extract it and its digest differs",
    ]
    # ------------------------------------------------------------------ M
    if "mc" in STAGES:
        run.tlc_mc("Verify", "Verify_mc.cfg", {"NRd": "1"} if not thorough else None, workers=4 if not thorough else 8, timeout=2400,
                   name="Verify_mc.cfg" + ("" if thorough else " NRd=1"))
        run.tlc_mc("Verify", "Verify_mc_layer.cfg", {"NRd": "2", "NWk": "0"} if not thorough else None, workers=4 if not thorough else 8, timeout=2400,
                   name="Verify_mc_layer.cfg" + ("" if thorough else " NRd=2 NWk=0"))
    if "negctl" in STAGES:
        small = {"NRd": "1"}
        run.tlc_negctl("Verify", "Verify_mc.cfg", dict(small, DecideUnderLock="FALSE"), ["NoBadStaysCached", "ServedAreGood"], drop=("TypeOK",))
        run.tlc_negctl("Verify", "Verify_mc.cfg", dict(small, AbortWhenProhibited="FALSE"), ["NoBadStaysCached", "ServedAreGood"], drop=("TypeOK",))
        run.tlc_negctl("Verify", "Verify_mc.cfg", dict(small, VerifyBeforeCache="FALSE"), ["NoBadStaysCached", "FailedReadLeavesNothing", "ServedAreGood"], drop=("TypeOK",))
        run.tlc_negctl("Verify", "Verify_mc.cfg", dict(small, PassVerifies="FALSE"), ["ServedAreGood", "NoBadStaysCached"], drop=("TypeOK",))
        run.tlc_negctl("Verify", "Verify_mc_layer.cfg", {"RecheckCachedLayer": "FALSE", "NWk": "0", "NRd": "2"},
                       ["MountImpliesToc", "ServedAreGood", "NoBadStaysCached"], drop=("TypeOK",))
    exhaustive = True
    # ------------------------------------------------------------------ R/G reader level
    if "replay" in STAGES:
        jobs = []
        for name, ov, dirc in [("gated", GEN_READER_THOROUGH if thorough else GEN_READER, False), ("pass", GEN_PASS, True)]:
            steps, tocs, st = gen_walks(run, name, ov, 34, 150 if thorough else 30)
            exhaustive = exhaustive and st["covered"] == st["edges"]
            jobs.append({"name": name, "ov": ov, "out": os.path.join(run.scratch, "replay_%s.ndjson" % name), "dircache": dirc,
                         "tocs": tocs, "walks": steps})
        inp = os.path.join(run.scratch, "walks.json")
        write_json(inp, jobs)
        rc, out = run.go_driver("", "./fs/reader/", OV_READER, "^TestVerifC01Replay$", env={"VERIF_IN": inp}, timeout=2400)
        if rc != 0:
            m = re.search(r"WARNING: DATA RACE\n(?:.*\n){0,40}", out)
            run.violation("datarace:fs/reader:replay", "data race reported in fs/reader under the gated driver", {"log": m.group(0) if m else out[-6000:]})
        for j in jobs:
            ok = validate(run, j["out"] + ".memory", "replay-" + j["name"], j["ov"], j["ov"] if "NC" in j["ov"] else None)
            if ok:
                evs = read_ndjson(j["out"] + ".memory")
                trs = [t for s, t in split_traces(evs) if any(e.get("ev") == "Read" and e.get("res") == "verr" for e in t)]
                run.add_samples([{"mode": "replay-" + j["name"], "events": [{k: v for k, v in e.items() if k not in ("pf",)} for e in t[:16]]} for t in trs[:1]], limit=2)
    # ------------------------------------------------------------------ R layer level
    if "layer" in STAGES:
        ov = GEN_LAYER_THOROUGH if thorough else GEN_LAYER
        steps, tocs, st = gen_walks(run, "layer", ov, 30, 100 if thorough else 20)
        exhaustive = exhaustive and st["covered"] == st["edges"]
        out_l = os.path.join(run.scratch, "replay_layer.ndjson")
        inp = os.path.join(run.scratch, "walks_layer.json")
        write_json(inp, [{"name": "layer", "out": out_l, "tocs": tocs, "walks": steps}])
        rc, out = run.go_driver("", "./fs/layer/", OV_LAYER, "^TestVerifC01Layer$", env={"VERIF_IN": inp}, timeout=2400)
        if rc != 0:
            m = re.search(r"WARNING: DATA RACE\n(?:.*\n){0,40}", out)
            run.violation("datarace:fs/layer:replay", "data race reported in fs/layer under the history driver", {"log": m.group(0) if m else out[-6000:]})
        ok = validate(run, out_l, "replay-layer", ov, None)
        if ok:
            evs = read_ndjson(out_l)
            trs = [t for s, t in split_traces(evs) if sum(1 for e in t if e.get("ev") in ("LayerVerify", "LayerSkip")) >= 2]
            run.add_samples([{"mode": "replay-layer", "events": [{k: v for k, v in e.items() if k not in ("pf",)} for e in t[:12]]} for t in trs[:1]], limit=3)
    # ------------------------------------------------------------------ T free run + S sweep (monitor only)
    want = [s for s in ("free", "sweep") if s in STAGES]
    if want:
        free = os.path.join(run.scratch, "free.ndjson")
        sweep = os.path.join(run.scratch, "sweep.ndjson")
        env = {}
        if "free" in want:
            env.update({"VERIF_FREE_OUT": free, "VERIF_FREE_TRACES": "700" if thorough else "140"})
        if "sweep" in want:
            env.update({"VERIF_SWEEP_OUT": sweep, "VERIF_SWEEP_STRIDE": "3" if thorough else "29"})
        rc, out = run.go_driver("", "./fs/reader/", OV_READER, "^TestVerifC01(Free|Sweep)$", env=env, timeout=2400)
        if rc != 0:
            m = re.search(r"WARNING: DATA RACE\n(?:.*\n){0,40}", out)
            run.violation("datarace:fs/reader:free", "data race reported in fs/reader under free-running prefetch / VerifyTOC / reads",
                          {"log": m.group(0) if m else out[-6000:]})
        big = {"NC": "6"}
        if "free" in want:
            if validate(run, free + ".memory", "free-run", None, big, conformance=False):
                evs = read_ndjson(free + ".memory")
                trs = [t for s, t in split_traces(evs) if any(e.get("res") == "verr" for e in t)]
                run.add_samples([{"mode": "free-run", "events": [{k: v for k, v in e.items() if k not in ("pf",)} for e in t[:10]]} for t in trs[:1]], limit=4)
        if "sweep" in want:
            validate(run, sweep + ".memory", "sweep", None, big, conformance=False)
    run.cov["exhaustive"] = exhaustive and {"replay", "layer"} <= STAGES


if __name__ == "__main__":
    main(check, "C01")

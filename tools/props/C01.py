#!/usr/bin/env python3
"""C01 - verified layers never return bytes that do not match the TOC-pinned digests (Verify.tla)."""
import os, sys, json, time
sys.path.insert(0, os.path.dirname(os.path.dirname(os.path.abspath(__file__))))
from vlib import *

OV_READER = {"fs/reader/verif_verify.go": "fs/reader/verif_verify.go",
             "fs/reader/verif_verify_test.go": "fs/reader/verif_verify_test.go"}
OV_LAYER = {"fs/layer/verif_verifylayer_test.go": "fs/layer/verif_verifylayer_test.go",
            "fs/reader/verif_verify.go": "fs/reader/verif_verify.go"}
OV_DB = {"fs/reader/verif_verify.go": "fs/reader/verif_verify.go",
         "cmd/containerd-stargz-grpc/db/verif_c01_test.go": "cmd/containerd-stargz-grpc/db/verif_c01_test.go"}
OV_FS = {"fs/reader/verif_verify.go": "fs/reader/verif_verify.go",
         "fs/verif_mountdecide_test.go": "fs/verif_mountdecide_test.go"}
PROPS = ["MountImpliesToc", "ServedAreGood", "NoBadStaysCached", "FailedReadLeavesNothing"]
STAGES = set((os.environ.get("C01_STAGES") or "mc,negctl,replay,layer,mount,free,sweep,db").split(","))

GEN_READER = {"NRd": "1", "MaxVerify": "2", "Tocs": '{"D"}', "Kinds": '{"s"}', "Args": '{"D"}'}   # MaxVerify=2: a failed VerifyTOC is retried on the same reader
GEN_READER_X = {"NWk": "1", "NRd": "1", "MaxVerify": "2"}      # altered TOC / wrong digest / broken streams, one worker
GEN_READER_X_THOROUGH = {"NWk": "1", "NRd": "2", "MaxVerify": "2", "MaxAlter": "2"}
GEN_READER_THOROUGH = {"NRd": "1", "MaxVerify": "2"}
GEN_PASS = {"NWk": "1", "NRd": "2", "MaxVerify": "1", "Tocs": '{"D"}', "Args": '{"D"}', "WithPass": "TRUE", "WithTry": "FALSE", "Kinds": '{"s"}'}
GEN_LAYER = {"NWk": "0", "NRd": "2", "MaxAlter": "1", "MaxVerify": "3", "AtomicVerify": "TRUE", "WithSkip": "TRUE", "WithTry": "FALSE"}
ALLCFG = '{"--", "a-", "-d", "ad"}'
GEN_MOUNT = {"NWk": "0", "NRd": "1", "MaxAlter": "1", "MaxVerify": "2", "AtomicVerify": "TRUE", "WithTry": "FALSE", "WithMount": "TRUE",
             "FsCfgs": ALLCFG, "Kinds": '{"s"}'}
GEN_MOUNT_THOROUGH = dict(GEN_MOUNT, NRd="2", MaxVerify="3")
GEN_LAYER_THOROUGH = {"NWk": "0", "NRd": "3", "MaxAlter": "2", "MaxVerify": "3", "AtomicVerify": "TRUE", "WithSkip": "TRUE", "WithTry": "FALSE"}


def report_race(run, out, pkg, mode):
    """A race on the state the property is about (reader.go / layer.go) is a violation; a race inside the driver is a driver bug."""
    m = re.search(r"WARNING: DATA RACE\n(?:.*\n){0,60}", out)
    text = m.group(0) if m else out[-6000:]
    frames = re.findall(r"\n      (/\S+?):(\d+)", text)
    in_code = [f for f, _ in frames if ("/fs/reader/" in f or "/fs/layer/" in f or "/cache/" in f) and "verif_" not in os.path.basename(f)]
    if in_code:
        run.violation("datarace:%s:%s:%s" % (pkg, mode, os.path.basename(in_code[0])),
                      "data race reported in %s under the %s driver" % (pkg, mode), {"log": text})
    else:
        raise Inconclusive("data race inside the driver itself (%s, %s):\n%s" % (pkg, mode, text[:3000]))


def mon_line(mr):
    m = re.findall(r"/\\ l = (\d+)", mr.out)
    return int(m[-1]) - 1 if m else 1


def report_monitor(run, viol, line, events, mode):
    traces = split_traces(events)
    tr = [t for t in traces if t[0] <= line][-1]
    idx = line - tr[0]
    bad = events[line - 1]
    cfg = tr[1][0].get("cfg", "")
    # the signature names the formula, the mode, the kind of event that exposed it and the shape of the history before it
    def tag(e):
        if e["ev"] == "Mount":
            return "Mount(toc=%s,skip=%s):%s" % (e.get("tl"), "y" if e.get("sk") else "n", e.get("res"))
        return e["ev"] + (":" + e["res"] if e.get("ev") in ("VTFinish", "LayerVerify", "Verify") else "")
    hist = "-".join(tag(e) for e in tr[1][: idx + 1] if e.get("ev") in ("LayerSkip", "VTFinish", "LayerVerify", "Verify", "Mount"))[-80:]
    if tr[1][0].get("fscfg"):
        hist = "fscfg=" + tr[1][0]["fscfg"] + ":" + hist
    sig = "monitor:%s:%s:%s:%s" % (viol, mode, bad.get("ev"), hist)
    run.violation(sig, "%s false on what the implementation did (%s; %s) at event %d: %s" %
                  (viol, mode, cfg, idx, json.dumps(bad)),
                  {"formula": viol, "mode": mode, "cfg": cfg, "event_index": idx, "trace": tr[1][: idx + 1][-80:]})


def concat(run, paths, name):
    out = os.path.join(run.scratch, name)
    with open(out, "w") as fh:
        for p in paths:
            fh.write(open(p).read())
    return out


def validate_all(run, groups, nontrivial=("Read", "PassRead", "LateRead")):
    """groups: dicts(mode, paths, ov (constants of the generation graph; None = no conformance spec), sample (event predicate)).
    The monitor (property formulas on recorded observations) judges EVERY recorded event of every group, whatever conformance says;
    then each group with a graph is validated against the trace spec."""
    for g in groups:
        g["events"] = [e for p in g["paths"] for e in read_ndjson(p)]
        if not g["events"]:
            raise Inconclusive("driver wrote no events for " + g["mode"])
        g["traces"] = split_traces(g["events"])
        g["viol"] = None
        run.cov["evaluations"] += len(g["events"])
    todo = list(groups)
    for attempt in range(len(groups) + 1):
        if not todo:
            break
        path = concat(run, [p for g in todo for p in g["paths"]], "monitor_all_%d.ndjson" % attempt)
        viol, mr = run.tlc_monitor("VerifyMonitor", "VerifyMonitor.cfg", path, {"NC": "6"}, timeout=1800)
        if not viol:
            break
        line = mon_line(mr)
        off = 0
        for g in todo:
            if line <= off + len(g["events"]):
                g["viol"] = viol
                report_monitor(run, viol, line - off, g["events"], g["mode"])
                todo = todo[todo.index(g) + 1:]     # everything before it was judged fine, go on behind it
                break
            off += len(g["events"])
    for g in groups:
        res = None
        if g["ov"] is not None and not g["viol"]:
            path = g["paths"][0] if len(g["paths"]) == 1 else concat(run, g["paths"], "conf_%s.ndjson" % g["mode"])
            res = run.tlc_trace("VerifyTrace", "VerifyTrace.cfg", path, g["ov"], timeout=1800)
        log("[trace] %-22s %5d traces %6d events: monitor %s%s" % (
            g["mode"], len(g["traces"]), len(g["events"]), g["viol"] or "ok",
            "" if res is None else (", conformance accepted" if res["accepted"] else ", conformance REJECTED at line %s" % res["consumed"])))
        if g["viol"]:
            continue
        events, traces = g["events"], g["traces"]
        if res is not None and not res["accepted"]:
            line = (res["consumed"] or 0) + 1
            tr = [t for t in traces if t[0] <= line][-1]
            if res["violated"] in PROPS:
                run.violation("trace-invariant:%s:%s" % (res["violated"], g["mode"]),
                              "%s false while following the recorded trace" % res["violated"], {"trace": tr[1][: line - tr[0] + 2]})
            else:
                run.inconclusive.append("SPEC-DRIFT %s (%s): event %d %s is not explained by Verify.tla although no C01 formula is false; prefix: %s" % (
                    g["mode"], tr[1][0].get("cfg", ""), line - tr[0], json.dumps(events[line - 1]),
                    json.dumps(tr[1][max(0, line - tr[0] - 8): line - tr[0] + 1])))
            continue
        run.cov["traces_validated_against_impl"] += len(traces)
        run.cov["distinct_nontrivial"] += len({digest([{k: v for k, v in e.items() if k != "cfg"} for e in t])
                                               for s, t in traces if any(e.get("ev") in nontrivial for e in t)})
        if g.get("sample"):
            trs = [t for s, t in traces if g["sample"](t)]
            run.add_samples([{"mode": g["mode"], "events": [{k: v for k, v in e.items() if k not in ("pf", "err", "how")} for e in t[:14]]}
                             for t in trs[:1]], limit=4)


def gen_walks(run, name, ov, maxlen, extra):
    inits, edges = run.tlc_edges("VerifyGen", "Verify_gen.cfg", ov, timeout=1500)
    walks, st = edge_cover(inits, edges, maxlen=maxlen, rng=run.rng, extra_walks=extra)
    log("[walks] %s: %s" % (name, st))
    run.cov["stages"].append(dict(stage="edge-cover", graph=name, **st))
    # the toc of the initial state each walk starts from: replay the walk ends backwards (first step's pre-state is not kept) -> use post.toc
    tocs = [w[0]["post"]["toc"] for w in walks]
    steps = [[{k: v for k, v in s.items() if k in ("act", "w", "r", "c", "k", "d", "tl", "sk")} for s in w] for w in walks]
    gen_walks.fscfgs = [w[0]["post"]["fscfg"] for w in walks]
    return steps, tocs, st


def check(run):
    thorough = run.tier == "thorough"
    run.cov["rule"] = ("replay: walks covering every edge of the TLC state graph of Verify.tla (generation configs: two readAndCache workers x VerifyTOC x "
                       "reads x one alteration with gates; one worker with altered TOC / wrong digest / broken streams; passthrough with a directory cache; "
                       "layer-level Verify/SkipVerify histories; filesystem.Mount with every combination of TOC-digest label {D, wrong, none} x skip-verify label x "
                       "allow_no_verification x disable_verification on the real NewFilesystem with a handler-backed registry and a real FUSE mount), stepped through a real VerifiableReader / layer over real eStargz blobs (gzip level 0 and 9, "
                       "zstd:chunked) whose source is patched by the concretiser; free run: Cache() x2 + VerifyTOC + 4 readers + alterations under -race; "
                       "sweep: one history per bit flip / truncation / member substitution / member swap / re-serialised TOC / TOC with trailing bytes (zstd) / consistent TOC+chunk forgery served after Open (before VerifyTOC, before prefetch, before the background fetch's Clone), incl. an external-TOC blob; "
                       "non-trivial = trace contains a read through a mounted layer; distinct by hash")
    run.assumptions += [
        "chunk values abstracted to g (bytes the TOC records) / s (other bytes, stream valid) / k (stream broken); reads are whole chunks",
        "the uncompressed chunk cache is not tampered with at rest: a cache hit is served unverified by design (alterations enter through the blob source: registry, mirror, compressed-blob cache)",
        "concurrent Mount calls racing on layer.r / reader.verify of one layer object are not modelled (Verify/SkipVerify calls on one layer are sequential)",
        "fs.Mount level: disable_verification is the operator's global switch - a Mount under it is not counted as pinned to its TOC digest label; the source is altered only before the first Mount (the blob layer keeps fetched regions); read errors through the kernel are all EIO",
        "free-run and sweep traces are decided by the monitor only (no conformance spec of the free interleaving)",
        "ground truth of the TOC in altered blobs (sweep): 'does not hash to D' only when the driver can extract it and its digest differs",
        "db metadata store: driven with the one-worker graph (thorough: + passthrough graph), a shorter free run and a coarser sweep; the two-worker gated graph and the layer histories use the memory store",
        "the background fetch's re-parse of the TOC (metadata Clone) is not a model action: it is exercised by the sweep histories 'forgery-after-open' (monitor only)",
    ]
    t0 = time.time()
    # ------------------------------------------------------------------ M
    if "mc" in STAGES:
        run.tlc_mc("Verify", "Verify_mc.cfg", None if thorough else {"NRd": "1"}, workers=8 if thorough else 4, timeout=2400,
                   name="Verify_mc.cfg" + ("" if thorough else " NRd=1"))
        run.tlc_mc("Verify", "Verify_mc_layer.cfg", None if thorough else {"NRd": "2", "NWk": "0"}, workers=8 if thorough else 4, timeout=2400,
                   name="Verify_mc_layer.cfg" + ("" if thorough else " NRd=2 NWk=0"))
        run.tlc_mc("Verify", "Verify_mc_mount.cfg", None if thorough else {"NRd": "2"}, workers=4, timeout=2400, name="Verify_mc_mount.cfg")
    if "negctl" in STAGES:
        small = {"NRd": "1"}
        run.tlc_negctl("Verify", "Verify_mc_mount.cfg", {"TocLabelFirst": "FALSE", "NRd": "2"}, ["MountImpliesToc", "ServedAreGood", "NoBadStaysCached"], drop=("TypeOK",))
        run.tlc_negctl("Verify", "Verify_mc.cfg", dict(small, DecideUnderLock="FALSE"), ["NoBadStaysCached", "ServedAreGood"], drop=("TypeOK",))
        run.tlc_negctl("Verify", "Verify_mc.cfg", dict(small, AbortWhenProhibited="FALSE"), ["NoBadStaysCached", "ServedAreGood"], drop=("TypeOK",))
        run.tlc_negctl("Verify", "Verify_mc.cfg", dict(small, VerifyBeforeCache="FALSE"), ["NoBadStaysCached", "FailedReadLeavesNothing", "ServedAreGood"], drop=("TypeOK",))
        run.tlc_negctl("Verify", "Verify_mc.cfg", dict(small, PassVerifies="FALSE"), ["ServedAreGood", "NoBadStaysCached"], drop=("TypeOK",))
        run.tlc_negctl("Verify", "Verify_mc_layer.cfg", {"RecheckCachedLayer": "FALSE", "NWk": "0", "NRd": "2"},
                       ["MountImpliesToc", "ServedAreGood", "NoBadStaysCached"], drop=("TypeOK",))
    log("[time] model checking done at %.0fs" % (time.time() - t0))
    exhaustive = True
    # ------------------------------------------------------------------ generation
    jobs, ljob = [], None
    if {"replay", "gated", "gated1", "pass"} & STAGES:
        for name, ov, dirc in [("gated", GEN_READER_THOROUGH if thorough else GEN_READER, False),
                               ("gated1", GEN_READER_X_THOROUGH if thorough else GEN_READER_X, False),
                               ("pass", GEN_PASS, True)]:
            if "replay" not in STAGES and name not in STAGES:
                continue
            steps, tocs, st = gen_walks(run, name, ov, 34, 150 if thorough else 10)
            exhaustive = exhaustive and st["covered"] == st["edges"]
            jobs.append({"name": name, "ov": ov, "out": os.path.join(run.scratch, "replay_%s.ndjson" % name), "dircache": dirc,
                         "tocs": tocs, "walks": steps})
    if "layer" in STAGES:
        ov = GEN_LAYER_THOROUGH if thorough else GEN_LAYER
        steps, tocs, st = gen_walks(run, "layer", ov, 30, 100 if thorough else 10)
        exhaustive = exhaustive and st["covered"] == st["edges"]
        ljob = {"name": "layer", "ov": ov, "out": os.path.join(run.scratch, "replay_layer.ndjson"), "tocs": tocs, "walks": steps}
    mjob = None
    if "mount" in STAGES:
        ov = GEN_MOUNT_THOROUGH if thorough else GEN_MOUNT
        steps, tocs, st = gen_walks(run, "mount", ov, 20, 60 if thorough else 10)
        exhaustive = exhaustive and st["covered"] == st["edges"]
        mjob = {"name": "mount", "ov": ov, "out": os.path.join(run.scratch, "replay_mount.ndjson"), "tocs": tocs, "fscfgs": gen_walks.fscfgs, "walks": steps}
    log("[time] generation done at %.0fs" % (time.time() - t0))
    # ------------------------------------------------------------------ the drivers
    free = os.path.join(run.scratch, "free.ndjson")
    sweep = os.path.join(run.scratch, "sweep.ndjson")
    env, tests = {}, []
    if jobs:
        inp = os.path.join(run.scratch, "walks.json")
        write_json(inp, jobs)
        env["VERIF_IN"] = inp
        tests.append("Replay")
    if "free" in STAGES:
        env.update({"VERIF_FREE_OUT": free, "VERIF_FREE_TRACES": "700" if thorough else "60"})
        tests.append("Free")
    if "sweep" in STAGES:
        env.update({"VERIF_SWEEP_OUT": sweep, "VERIF_SWEEP_STRIDE": "3" if thorough else "127"})
        tests.append("Sweep")
    if tests:
        rc, out = run.go_driver("", "./fs/reader/", OV_READER, "^TestVerifC01(%s)$" % "|".join(tests), env=env, timeout=3000)
        if rc != 0:
            report_race(run, out, "fs/reader", "+".join(tests))
    dbjobs = [j for j in jobs if j["name"] in (("gated1", "pass") if thorough else ("gated1",))] if "db" in STAGES else []
    dbtests = [t for t in tests if t != "Replay" or dbjobs] if "db" in STAGES else []
    if dbtests:
        # the same driver body against the bolt metadata store (cmd module): the one-worker and passthrough graphs, a shorter free run and sweep
        denv = dict(env)
        if dbjobs:
            inp = os.path.join(run.scratch, "walks_db.json")
            write_json(inp, dbjobs)
            denv["VERIF_IN"] = inp
        if "VERIF_FREE_TRACES" in denv:
            denv["VERIF_FREE_TRACES"] = "300" if thorough else "24"
        if "VERIF_SWEEP_STRIDE" in denv:
            denv["VERIF_SWEEP_STRIDE"] = "7" if thorough else "509"
        rc, out = run.go_driver("cmd", "./containerd-stargz-grpc/db/", OV_DB, "^TestVerifC01(%s)$" % "|".join(dbtests), env=denv, timeout=3000)
        if rc != 0:
            report_race(run, out, "db", "+".join(dbtests))
    if ljob:
        inp = os.path.join(run.scratch, "walks_layer.json")
        write_json(inp, [ljob])
        rc, out = run.go_driver("", "./fs/layer/", OV_LAYER, "^TestVerifC01Layer$", env={"VERIF_IN": inp}, timeout=2400)
        if rc != 0:
            report_race(run, out, "fs/layer", "layer-histories")
    if mjob:
        inp = os.path.join(run.scratch, "walks_mount.json")
        write_json(inp, [mjob])
        rc, out = run.go_driver("", "./fs/", OV_FS, "^TestVerifC01Mount$", env={"VERIF_IN": inp}, timeout=2400)
        if rc != 0:
            report_race(run, out, "fs", "mount-decision")
    log("[time] drivers done at %.0fs" % (time.time() - t0))
    # ------------------------------------------------------------------ TLC decides
    has_verr = lambda t: any(e.get("res") == "verr" for e in t)
    groups = []
    for j in jobs:
        paths = [j["out"] + ".memory"] + ([j["out"] + ".db"] if j in dbjobs else [])
        groups.append({"mode": "replay-" + j["name"] + ("+db" if j in dbjobs else ""), "paths": paths, "ov": j["ov"], "sample": has_verr})
    if ljob:
        groups.append({"mode": "replay-layer", "paths": [ljob["out"]], "ov": ljob["ov"],
                       "sample": lambda t: sum(1 for e in t if e.get("ev") in ("LayerVerify", "LayerSkip")) >= 2})
    if mjob:
        groups.append({"mode": "replay-mount", "paths": [mjob["out"]], "ov": mjob["ov"],
                       "sample": lambda t: sum(1 for e in t if e.get("ev") == "Mount") >= 2})
    for st, f in (("free", free), ("sweep", sweep)):
        if st in STAGES:
            groups.append({"mode": {"free": "free-run", "sweep": "sweep"}[st] + ("+db" if "db" in STAGES else ""),
                           "paths": [f + ".memory"] + ([f + ".db"] if "db" in STAGES else []), "ov": None,
                           "sample": has_verr if st == "free" else None})
    validate_all(run, groups)
    log("[time] validation done at %.0fs" % (time.time() - t0))
    run.cov["exhaustive"] = exhaustive and {"replay", "layer", "mount"} <= STAGES


if __name__ == "__main__":
    main(check, "C01")

#!/usr/bin/env python3
"""X_Fs - extra module: the filesystem front-end fs/fs.go (Mount / Check / Unmount over the layer map), spec/Fs.tla,
composed end to end with the real snapshotter.  Not one of C01..C20."""
import os, sys, json, subprocess
sys.path.insert(0, os.path.dirname(os.path.dirname(os.path.abspath(__file__))))
from vlib import *

PID = "X_Fs"
OVERLAY = {"fs/verif_fs_test.go": "fs/verif_fs_test.go"}
INTERNAL = ("TypeOK",)
FORMULAS = ["MountedIffInMap", "MountedLayerAlive", "FailedMountLeavesNothing", "NoUnverifiedMountUnlessAllowed", "NoUnverifiedInMap",
            "UnmountReleasesLayer", "CheckReachesOwnLayer", "DoDoneBalanced", "BackgroundFetchOnlyAfterMountReturns", "BackgroundFetchStartsIdle"]
NEGCTL = [("ReleaseOnFail", ["MountedIffInMap", "FailedMountLeavesNothing"]),
          ("EraseOnFail", ["MountedIffInMap", "FailedMountLeavesNothing"]),
          ("VerifyFirst", ["NoUnverifiedInMap", "NoUnverifiedMountUnlessAllowed"]),
          ("UnmountCloses", ["MountedIffInMap", "UnmountReleasesLayer"]),
          ("CheckOwnKey", ["CheckReachesOwnLayer"]),
          ("DoneAlways", ["DoDoneBalanced"])]


def tla_set(xs):
    return "{" + ", ".join('"%s"' % x for x in xs) + "}"


def tla_bool(b):
    return "TRUE" if b else "FALSE"


def strip(w):
    return [{k: v for k, v in s.items() if k != "post"} for s in w]


def event_window(events, line, traces):
    tr = [t for t in traces if t[0] <= line][-1] if traces else (1, events)
    return tr, line - tr[0] + 1


def monitor(run, path, what, sigextra=""):
    """property formulas on the recorded implementation states; returns True if silent"""
    events = read_ndjson(path)
    traces = split_traces(events)
    probs = [e for e in events if e.get("ev") == "Problem"]
    if probs:
        raise Inconclusive("driver problem in %s: %s" % (what, json.dumps(probs[:3])[:1500]))
    viol, mr = run.tlc_monitor("FsMonitor", "FsMonitor.cfg", path)
    run.cov["evaluations"] += len(events)
    if viol:
        m = re.findall(r"/\\ l = (\d+)", mr.out)
        line = int(m[-1]) - 1 if m else 1
        tr, idx = event_window(events, line, traces)
        e = events[line - 1] if 0 < line <= len(events) else {}
        site = "%s:%s:%s" % (e.get("ev", "?"), e.get("op", ""), e.get("err", e.get("lab", "")))
        run.violation("monitor:%s:%s:%s" % (viol, what, site),
                      "%s false on the recorded implementation state at event %d of a %s trace (%s)" % (viol, idx, what, json.dumps({k: v for k, v in e.items() if k != "obs"})),
                      {"formula": viol, "stage": what, "event_index": idx, "trace": tr[1][:idx + 1]})
        log("[monitor] %-14s %d traces %d events: %s at event %d: %s" % (what, len(traces), len(events), viol, idx, json.dumps({k: v for k, v in e.items() if k != "obs"})[:300]))
        return False, traces, events
    log("[monitor] %-14s %d traces %d events: ok" % (what, len(traces), len(events)))
    return True, traces, events


def conformance(run, path, what, ov, traces, events):
    res = run.tlc_trace("FsTrace", "FsTrace.cfg", path, ov, timeout=600)
    if res["accepted"]:
        log("[trace] %-16s %d traces %d events: accepted" % (what, len(traces), len(events)))
        run.cov["traces_validated_against_impl"] += len(traces)
        run.cov["distinct_nontrivial"] += len({digest([{k: v for k, v in e.items() if k != "obs"} for e in t]) for s, t in traces
                                              if any(e.get("ev") in ("Insert", "Delete", "Lookup") for e in t)})
        run.add_samples([{"stage": what, "events": [{k: v for k, v in e.items() if k != "obs"} for e in t[:16]]} for s, t in traces[3:4]], limit=3)
        return
    line = (res["consumed"] or 0) + 1
    tr, idx = event_window(events, line, traces)
    if res["violated"]:
        run.violation("trace-invariant:%s:%s" % (res["violated"], what), "%s false while following the recorded trace" % res["violated"],
                      {"stage": what, "trace": tr[1][:idx + 1]})
    else:
        e = events[line - 1] if line <= len(events) else {}
        run.inconclusive.append("SPEC-DRIFT %s: event %d %s not explained by Fs.tla although no formula of the monitor is false; prefix: %s" % (
            what, idx, json.dumps(e)[:600], json.dumps([{k: v for k, v in x.items() if k != "obs"} for x in tr[1][max(0, idx - 6): idx]])[:1500]))
    log("[trace] %-16s REJECTED at line %s (%s)" % (what, line, res["violated"]))


def cleanup_mounts(prefix):
    try:
        for ln in open("/proc/self/mountinfo"):
            f = ln.split()
            if len(f) > 4 and f[4].startswith(prefix):
                subprocess.run(["umount", "-l", f[4]], stdout=subprocess.DEVNULL, stderr=subprocess.DEVNULL)
    except OSError:
        pass


def check(run):
    thorough = run.tier == "thorough"
    run.cov["rule"] = ("behaviours = walks covering every edge of the TLC state graphs of Fs (generation configs seq, seq3, pf, two) executed "
                       "step by step on the real filesystem (NewFilesystem, in-memory registry, real kernel FUSE mounts), free-running "
                       "traces with prefetch/background fetch/pre-resolution, and call-level walks of Snapshotter.tla through the real "
                       "snapshotter with that filesystem as backend; non-trivial = touches the layer map (Insert/Delete/Lookup); distinct by "
                       "hash of the recorded events without the state projections")
    run.assumptions += [
        "caller contract (Snapshotter.tla): never two calls on one mountpoint in flight, Mount only on a fresh directory (Fs_mc_samemp.cfg shows fs.go alone does not keep MountedIffInMap without it)",
        "Layer.tla/RefCache.tla: handle released at most once, object closed iff evicted and unreferenced; Verify.tla: verification state per object; "
        "Prefetch.tla: waiter released at the end of a prefetch or by the timeout; TaskMgr.tla: bodies start only with counter 0",
        "FUSE is the real kernel (no seam in front of fuse.NewServer); a failing FUSE mount is a missing mountpoint directory",
        "background fetch, pre-resolution and TTL expiry are model-checked (Fs_mc_bg.cfg) but only observed free-running (monitor), not replayed step by step",
        "the 5 s silence period NewFilesystem hard-codes is shortened by reflection in the free-running and end-to-end stages",
    ]
    if not os.path.exists("/dev/fuse"):
        raise Inconclusive("/dev/fuse not available: the Fs driver needs kernel FUSE mounts")

    dev = os.environ.get("XFS_DEV", "")   # development only: restrict the stages (never set by ./check users)
    # ---- M: exhaustive
    if not dev:
        model_stage(run, thorough)
    stages(run, thorough, dev)


def model_stage(run, thorough):
    run.tlc_mc("Fs", "Fs_mc.cfg", workers=4, timeout=1500)
    run.tlc_mc("Fs", "Fs_mc_bg.cfg", workers=4, timeout=1500)
    if thorough:
        run.tlc_mc("Fs", "Fs_mc_full.cfg", workers=8, timeout=3000)
        run.tlc_mc("Fs", "Fs_mc.cfg", {"DisableVerif": "TRUE"}, workers=4, name="Fs_mc.cfg disable_verification")
        run.tlc_mc("Fs", "Fs_mc.cfg", {"AllowNoVerif": "FALSE"}, workers=4, name="Fs_mc.cfg no allow_no_verification")
    for const, expect in NEGCTL:
        run.tlc_negctl("Fs", "Fs_mc_neg.cfg", {const: "FALSE"}, expect, drop=INTERNAL)
    run.tlc_negctl("Fs", "Fs_mc_neg.cfg", {"SkipNeedsAllow": "FALSE", "AllowNoVerif": "FALSE"}, ["NoUnverifiedInMap", "NoUnverifiedMountUnlessAllowed"], drop=INTERNAL)
    run.tlc_negctl("Fs", "Fs_mc_bg.cfg", {"BgRespectsPrio": "FALSE"}, ["BackgroundFetchOnlyAfterMountReturns", "BackgroundFetchStartsIdle"], drop=INTERNAL)
    run.tlc_negctl("Fs", "Fs_mc_samemp.cfg", {}, ["MountedIffInMap", "FailedMountLeavesNothing", "MountedLayerAlive"], drop=INTERNAL)



def stages(run, thorough, dev):
    # ---- R: every edge of the generation graphs, executed step by step
    gens = [("seq", "Fs_gen_seq.cfg", None, dict(NoPrefetch=True, NoBgFetch=True, AllowNoVerif=True), ["m1", "m2"], ["b1"]),
            ("seq3", "Fs_gen_seq3.cfg", None, dict(NoPrefetch=True, NoBgFetch=True, AllowNoVerif=True), ["m1", "m2"], ["b1"]),
            ("pf", "Fs_gen_pf.cfg", None, dict(NoPrefetch=False, NoBgFetch=True, AllowNoVerif=True), ["m1"], ["b1"]),
            ("two", "Fs_gen_two.cfg", None, dict(NoPrefetch=True, NoBgFetch=True, AllowNoVerif=True), ["m1", "m2"], ["b1"])]
    if thorough:
        gens += [("seq-noallow", "Fs_gen_seq.cfg", {"AllowNoVerif": "FALSE"}, dict(NoPrefetch=True, NoBgFetch=True, AllowNoVerif=False), ["m1", "m2"], ["b1"]),
                 ("seq-disable", "Fs_gen_seq.cfg", {"DisableVerif": "TRUE"}, dict(NoPrefetch=True, NoBgFetch=True, AllowNoVerif=True, DisableVerif=True), ["m1", "m2"], ["b1"])]
    if dev:
        gens = [g for g in gens if g[0] in dev.split(",")]
    jobs = []
    exhaustive = True
    for label, cfg, ov, flags, mps, blobs in gens:
        inits, edges = run.tlc_edges("FsGen", cfg, ov, timeout=1200)
        walks, st = edge_cover(inits, edges, maxlen=36, rng=run.rng, extra_walks=60 if thorough else 10)
        cap = int(os.environ.get("XFS_MAXWALKS", "0") or 0) or (0 if thorough else 120)
        if cap and len(walks) > cap:
            # quick tier: a seeded sample of the covering walks (the thorough tier executes all of them)
            walks = run.rng.sample(walks, cap)
            st = dict(st, executed=cap, covered_note="sampled")
            exhaustive = False
        # a walk with a prefetch time-out costs 1 s of wall time: fine, they run in parallel
        log("[walks] %s: %s" % (label, st))
        exhaustive = exhaustive and st["covered"] == st["edges"]
        run.cov["stages"].append(dict(stage="edge-cover", label=label, **st))
        jobs.append({"label": label, "cfg": {"allowNoVerif": flags.get("AllowNoVerif", False), "disableVerif": flags.get("DisableVerif", False),
                                             "noPrefetch": flags["NoPrefetch"], "noBgFetch": flags["NoBgFetch"], "preRes": False},
                     "mps": mps, "blobs": blobs, "out": os.path.join(run.scratch, "replay_%s.ndjson" % label), "walks": [strip(w) for w in walks],
                     "ov": {"MPs": tla_set(mps), "Blobs": tla_set(blobs), "NoPrefetch": tla_bool(flags["NoPrefetch"]), "NoBgFetch": tla_bool(flags["NoBgFetch"]),
                            "AllowNoVerif": tla_bool(flags.get("AllowNoVerif", False)), "DisableVerif": tla_bool(flags.get("DisableVerif", False))}})
    inp = os.path.join(run.scratch, "walks.json")
    write_json(inp, [{k: v for k, v in j.items() if k != "ov"} for j in jobs])
    free = os.path.join(run.scratch, "free.ndjson")
    try:
        rc, out = run.go_driver("", "./fs/", OVERLAY, "^TestVerifFs(Replay|Free)$", timeout=2400,
                                env={"VERIF_IN": inp, "VERIF_FREE_OUT": free, "VERIF_FREE_TRACES": "40" if thorough else "8", "VERIF_PAR": "8"})
    finally:
        cleanup_mounts(run.scratch)
    if rc != 0:
        m = re.search(r"WARNING: DATA RACE\n(?:.*\n){0,40}", out)
        txt = m.group(0) if m else out[-6000:]
        tops = re.findall(r"(?:Write|Read|Previous write|Previous read) at .*\n\s+(\S+)", txt)
        if tops and all(".xfs" in t or "(*xfs" in t for t in tops):
            raise Inconclusive("data race between two accesses of the DRIVER (not of the code under test):\n" + txt[:3000])
        run.violation("datarace:fs:" + ",".join(t.split("/")[-1] for t in tops[:2]), "data race reported under the Fs driver", {"log": txt})
    for j in jobs:
        # the Reset events carry the configuration for the monitor
        evs = read_ndjson(j["out"])
        for e in evs:
            if e.get("ev") == "Reset":
                e["cfg"] = j["cfg"]
        with open(j["out"], "w") as fh:
            for e in evs:
                fh.write(json.dumps(e) + "\n")
        ok, traces, events = monitor(run, j["out"], "replay-" + j["label"])
        if ok:
            conformance(run, j["out"], "replay-" + j["label"], j["ov"], traces, events)
    ok, traces, events = monitor(run, free, "free-run")
    if ok:
        run.cov["traces_validated_against_impl"] += len(traces)
        run.cov["free_bgstarts"] = sum(1 for e in events if e.get("ev") == "BgStart")
        run.add_samples([{"stage": "free-run", "events": [e for e in t if "obs" not in e][:14]} for s, t in traces[:1]], limit=4)

    # ---- end to end through the real snapshotter
    sov = {"Keys": '{"k1"}', "CNames": '{"c1", "c2"}', "MaxId": "3", "MaxOps": "4" if thorough else "3", "MaxRestarts": "0",
           "UnmountFaults": "FALSE", "SurviveModes": "{FALSE}"}
    inits, edges = run.tlc_edges("SnapshotterGen", "Snapshotter_gen.cfg", sov, timeout=1200, workers=2)
    walks, st = edge_cover(inits, edges, maxlen=60, rng=run.rng)
    score = lambda w: sum(3 for s in w if s.get("act") == "FsMount") + sum(1 for s in w if s.get("act") == "Call" and s.get("op") in ("Remove", "Cleanup", "Mounts"))
    keep = sorted([w for w in walks if any(s.get("act") == "FsMount" for s in w)], key=score, reverse=True)[: (150 if thorough else 40)]
    log("[walks] e2e: %s kept %d (walks with a backend mount)" % (st, len(keep)))
    run.cov["stages"].append(dict(stage="edge-cover", label="e2e-snapshotter", kept=len(keep), **st))
    e2ein, e2eout = os.path.join(run.scratch, "e2e.json"), os.path.join(run.scratch, "e2e.ndjson")
    write_json(e2ein, {"out": e2eout, "walks": [strip(w) for w in keep]})
    try:
        rc, out = run.go_driver("", "./fs/", OVERLAY, "^TestVerifFsE2E$", timeout=1200, race=False, env={"VERIF_E2E_IN": e2ein})
    finally:
        cleanup_mounts(run.scratch)
    ok, traces, events = monitor(run, e2eout, "e2e")
    if ok:
        run.cov["traces_validated_against_impl"] += len(traces)
        run.cov["e2e_remote_prepares"] = sum(1 for e in events if e.get("op") == "Prepare" and e.get("tgt"))
        run.cov["e2e_lazy_reads"] = sum(len(e.get("reads", [])) for e in events)
        run.add_samples([{"stage": "e2e", "events": t[:8]} for s, t in traces[:1]], limit=5)
    run.cov["exhaustive"] = exhaustive and not thorough or exhaustive


if __name__ == "__main__":
    main(check, PID)

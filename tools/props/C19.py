#!/usr/bin/env python3
"""C19 - image conversion emits descriptors that describe exactly the blobs it wrote (Convert.tla)."""
import os, sys, json, itertools
sys.path.insert(0, os.path.dirname(os.path.dirname(os.path.abspath(__file__))))
from vlib import *

PKG = "nativeconverter/estargz/externaltoc/verif_convert_test.go"
OVERLAY = {PKG: PKG}
ALLMODES = ("esgz", "zstd", "ext", "extll")
INTERNAL = ("TypeOK", "RefExclusive")
# Catalogue of Convert.tla (index = source id)
CATALOGUE = {
    1: dict(tar=1, comp="none", fam="oci", lbl=False),
    2: dict(tar=1, comp="gzip", fam="oci", lbl=True),
    3: dict(tar=2, comp="gzip", fam="docker", lbl=False),
    4: dict(tar=2, comp="zstd", fam="oci", lbl=True),
    5: dict(tar=2, comp="none", fam="docker", lbl=False),
    6: dict(tar=1, comp="esgz", fam="oci", lbl=False),
}
PROPERTY_FORMULAS = ("DescDigestCommitted", "DescSize", "DescTocVerifies", "DescUncompressedSize", "StoreLabelIsDiffID",
                     "MediaTypeMatches", "ZstdManifestInfo", "DescDescribesBlob", "TocImageMapsEveryLayer", "NoConversionPanics",
                     "LosslessKeepsDiffID", "MapWritesMutuallyExclusive")


def q(s):
    return '"%s"' % s


def tla_set(xs):
    return "{" + ", ".join(str(x) for x in xs) + "}"


def race_signature(out):
    """names the racing functions of the first report: datarace:<fn>|<fn>"""
    m = re.search(r"WARNING: DATA RACE\n(.*?)\n==================", out, re.S)
    block = m.group(1) if m else ""
    fns = []
    for part in re.split(r"\n\n", block)[:2]:
        for line in part.splitlines():
            mm = re.match(r"\s+(github\.com/containerd/stargz-snapshotter/\S+?)\(\)", line)
            if mm:
                fns.append(mm.group(1).replace("github.com/containerd/stargz-snapshotter/", ""))
                break
    return "datarace:" + "|".join(sorted(set(fns)) or ["unknown"]), block


def scenario_of_trace(tr):
    return tr[0].get("name", "?")


def describe_violation(viol, mode, what, tr, idx):
    """signature = formula + mode + kind of run + the sources and the events of the conversions up to the failing event"""
    reset = tr[0]
    srcs = ",".join("%s%d.%s" % (s["src"]["comp"], s["src"]["tar"], s["src"]["fam"]) for s in reset.get("srcs", []))
    hist = ">".join("%s.%s" % (e["ev"], e.get("c", "")) for e in tr[1:idx + 1] if e["ev"] in ("Begin", "Build", "MapWriteBegin", "MapWriteEnd", "Interrupt", "Finalize"))
    return "monitor:%s:%s:%s:%s" % (viol, mode, what, srcs), hist


def validate(run, mode, path, what, nconv, conformance):
    events = read_ndjson(path)
    traces = split_traces(events)
    if not traces:
        raise Inconclusive("driver wrote no events for %s %s" % (mode, what))
    run.cov["evaluations"] += len(events)
    ovm = {"Mode": q(mode), "NConv": str(max(nconv, 1))}
    viol, mr = run.tlc_monitor("ConvertMonitor", "ConvertMonitor.cfg", path, ovm, timeout=900)
    res = None
    if conformance:
        res = run.tlc_trace("ConvertTrace", "ConvertTrace.cfg", path, {"Mode": q(mode), "NConv": str(nconv)}, timeout=900)
    log("[trace] %-6s %-10s %4d traces %6d events: conformance %s, monitor %s" % (
        mode, what, len(traces), len(events),
        "-" if res is None else ("accepted" if res["accepted"] else "REJECTED at line %s" % res["consumed"]), viol or "ok"))
    if viol:
        m = re.findall(r"/\\ l = (\d+)", mr.out)
        line = int(m[-1]) - 1 if m else 1
        tr = [t for t in traces if t[0] <= line][-1]
        idx = line - tr[0]
        sig, hist = describe_violation(viol, mode, what, tr[1], idx)
        run.violation(sig, "%s false on what the %s converter did (%s, scenario %s) after %s: %s" % (
            viol, mode, what, scenario_of_trace(tr[1]), hist or "-", json.dumps(tr[1][idx])[:600]),
            {"formula": viol, "mode": mode, "run": what, "event_index": idx, "trace": tr[1][: idx + 1]})
        return
    if res is not None and not res["accepted"]:
        line = (res["consumed"] or 0) + 1
        tr = [t for t in traces if t[0] <= line][-1]
        if res["violated"] in PROPERTY_FORMULAS:
            run.violation("trace-invariant:%s:%s:%s" % (res["violated"], mode, what),
                          "%s false while following the recorded trace" % res["violated"], {"trace": tr[1][: line - tr[0] + 2]})
        else:
            run.inconclusive.append("SPEC-DRIFT %s %s scenario %s: event %d %s not explained by Convert.tla although no C19 formula is false; prefix: %s" % (
                mode, what, scenario_of_trace(tr[1]), line - tr[0], json.dumps(events[line - 1])[:500],
                json.dumps([{k: v for k, v in e.items() if k not in ("facts", "srcs")} for e in tr[1][max(0, line - tr[0] - 8): line - tr[0] + 1]])[:3000]))
        return
    run.cov["traces_validated_against_impl"] += len(traces)
    nontriv = [t for s, t in traces if any(e.get("ev") == "Return" and e.get("res") == "desc" for e in t)]
    run.cov["distinct_nontrivial"] += len({digest([{k: v for k, v in e.items() if k != "name"} for e in t]) for t in nontriv})
    run.add_samples([{"mode": mode, "run": what, "events": [{k: v for k, v in e.items() if k != "facts"} for e in t[:14]]} for t in nontriv[:1]], limit=4)


def check(run):
    thorough = run.tier == "thorough"
    run.cov["rule"] = ("gated: walks covering every edge of the TLC schedule graph of Convert (2 parallel conversions per converter instance, "
                       "segments Begin/Build/OpenStream/CommitBlob|Interrupt/Annotate/MapWriteBegin/MapWriteEnd/Finalize, all pairs of the chosen "
                       "source layers) imposed on real ConvertFunc goroutines against plugins/content/local; free: 2-4 conversions in parallel under "
                       "-race with barriers at the option append and the map write; every value recomputed from the bytes read back from the store; "
                       "non-trivial = at least one conversion returned a descriptor; distinct by hash of the recorded events")
    run.assumptions += [
        "plugins/content/local (with an in-memory label store) stands for containerd's content store",
        "`opts = append(opts, x)` is modelled as one atomic step; byte sizes and digests are abstract ids in the design model, real ones in the traces",
        "RFC-validity of the compressed members is delegated to compress/gzip and klauspost zstd accepting the whole stream",
        "free-running traces are decided by the monitor only; the lossless writer deviating from its source (MayDeviate) exists only in the design model",
        "source layers: two small tars (dirs, regular files up to 11 KB, several chunks with the 4 KiB chunk option, symlink, empty file) as plain/gzip/zstd/eStargz, OCI and Docker media types",
    ]
    # development knobs (not used by ./check as registered): VERIF_C19_ONLY=ext,zstd restricts the modes, VERIF_C19_SKIPMC=1 skips M
    only = [m for m in os.environ.get("VERIF_C19_ONLY", "").split(",") if m]
    MODES = tuple(m for m in ALLMODES if not only or m in only)
    skipmc = os.environ.get("VERIF_C19_SKIPMC") == "1"
    # ---------------------------------------------------------------- M: design, exhaustive
    for mode in (() if skipmc else MODES):
        run.tlc_mc("Convert", "Convert_mc.cfg", {"Mode": q(mode)}, workers=4, timeout=1500, name="Convert_mc.cfg %s N=2 4 sources" % mode)
    if thorough:
        for mode in MODES:
            run.tlc_mc("Convert", "Convert_mc.cfg", {"Mode": q(mode), "NConv": "3", "SrcIds": "{2, 4, 6}" if mode != "extll" else "{2, 4, 5}", "MaxIntr": "2"},
                       workers=4, timeout=3000, name="Convert_mc.cfg %s N=3" % mode)
    if only or skipmc:
        run.inconclusive.append("development knobs VERIF_C19_ONLY/VERIF_C19_SKIPMC are set: partial run")
    if not skipmc:
      run.tlc_negctl("Convert", "Convert_mc.cfg", {"MapLock": "FALSE"}, ["MapWritesMutuallyExclusive"], drop=INTERNAL)
      run.tlc_negctl("Convert", "Convert_mc.cfg", {"CopyOpts": "FALSE"}, ["NoConversionPanics", "TocImageMapsEveryLayer", "DescDescribesBlob"], drop=INTERNAL)
      run.tlc_negctl("Convert", "Convert_mc.cfg", {"CopyOpts": "FALSE", "Mode": q("zstd")}, ["DescDescribesBlob"], drop=INTERNAL)
      run.tlc_negctl("Convert", "Convert_mc.cfg", {"DiffIDCheck": "FALSE", "Mode": q("extll")}, ["LosslessKeepsDiffID"], drop=INTERNAL)
      run.tlc_negctl("Convert", "Convert_mc.cfg", {"UpdateLabel": "FALSE", "Mode": q("esgz")}, ["DescDescribesBlob"], drop=INTERNAL)
      run.tlc_negctl("Convert", "Convert_mc.cfg", {"MediaTypeFollowsBlob": "FALSE", "Mode": q("esgz")}, ["DescDescribesBlob"], drop=INTERNAL)

    # ---------------------------------------------------------------- R/G: schedules from the graph
    gen_srcs = {"esgz": [1, 4], "zstd": [2, 3], "ext": [2, 5], "extll": [3, 4]}
    if thorough:
        gen_srcs = {"esgz": [1, 4, 6], "zstd": [2, 3, 6], "ext": [2, 5, 4], "extll": [3, 4, 1]}
    jobs = []
    gated = {}
    exhaustive = True
    for mode in MODES:
        inits, edges = run.tlc_edges("ConvertGen", "Convert_gen.cfg", {"Mode": q(mode), "SrcIds": tla_set(gen_srcs[mode])}, timeout=1500)
        walks, st = edge_cover(inits, edges, maxlen=40, rng=run.rng, extra_walks=40 if thorough else 6)
        log("[walks] %s: %s" % (mode, st))
        exhaustive = exhaustive and st["covered"] == st["edges"]
        run.cov["stages"].append(dict(stage="edge-cover", mode=mode, **st))
        scs = []
        for i, w in enumerate(walks):
            src = w[0]["post"]["src"]
            srcs = [dict(tar=s["tar"], comp=s["comp"], fam=s["fam"], lbl=s["lbl"]) for s in src]
            scs.append({"name": "g-%s-%d" % (mode, i), "mode": mode, "sparecap": True, "optset": (i + run.seed) % 2, "perlayer": False,
                        "srcs": srcs, "free": False, "stale": (i + run.seed) % 3 == 0,
                        "walk": [{"act": s["act"], "c": s.get("c", 0)} for s in w]})
        out = os.path.join(run.scratch, "gated_%s.ndjson" % mode)
        gated[mode] = out
        jobs.append({"out": out, "scenarios": scs})
    # ---------------------------------------------------------------- T: free-running parallel conversions
    free = {}
    free_srcs = {"esgz": [1, 2, 3, 4, 5, 6], "zstd": [1, 2, 3, 4, 5, 6], "ext": [1, 2, 3, 4, 5, 6], "extll": [1, 2, 3, 5]}
    reps = 3 if thorough else 1
    for mode in MODES:
        scs = []
        ids = free_srcs[mode]
        combos = list(itertools.combinations(ids, 2)) + [(i, i) for i in ids[:2]]
        run.rng.shuffle(combos)
        combos = combos if thorough else combos[:4]
        k = 0
        for rep in range(reps):
            for a, b in combos:
                k += 1
                scs.append({"name": "f-%s-%d" % (mode, k), "mode": mode, "sparecap": k % 2 == 0, "optset": (k // 2) % 2, "perlayer": k % 5 == 4,
                            "srcs": [CATALOGUE[a], CATALOGUE[b]], "free": True, "stale": k % 3 == 0})
            for n in ((3, 4) if thorough else (3 + run.seed % 2,)):
                pick = [ids[(rep + j * 2 + run.seed) % len(ids)] for j in range(n)]
                if len(set(pick)) < n:
                    pick = ids[:n]
                k += 1
                scs.append({"name": "f-%s-%d" % (mode, k), "mode": mode, "sparecap": True, "optset": k % 2, "perlayer": False,
                            "srcs": [CATALOGUE[x] for x in pick], "free": True, "stale": False})
        out = os.path.join(run.scratch, "free_%s.ndjson" % mode)
        free[mode] = out
        jobs.append({"out": out, "scenarios": scs})
    stages = [x for x in os.environ.get("VERIF_C19_STAGES", "gated,free").split(",") if x]
    if stages != ["gated", "free"]:
        run.inconclusive.append("development knob VERIF_C19_STAGES is set: partial run")
    # gated walks execute one segment at a time (nothing runs concurrently, the race detector has nothing to see): plain build;
    # free-running parallel conversions: -race
    for stage, race in (("gated", False), ("free", True)):
        if stage not in stages:
            continue
        inp = os.path.join(run.scratch, "scenarios_%s.json" % stage)
        write_json(inp, [j for j in jobs if os.path.basename(j["out"]).startswith(stage)])
        rc, out = run.go_test("", "./nativeconverter/estargz/externaltoc/", OVERLAY, "^TestVerifConvert$",
                              env={"VERIF_IN": inp, "VERIF_PAR": "12"}, timeout=2400, race=race)
        if rc != 0:
            if "WARNING: DATA RACE" in out:
                # the race detector reported a race between parallel conversions of one converter instance: the shared state the
                # property quantifies over ("also when layers are converted concurrently")
                sig, block = race_signature(out)
                run.violation(sig, "data race between layer conversions run in parallel by one converter instance", {"log": block[:6000]})
            elif "concurrent map writes" in out or "concurrent map read and map write" in out:
                run.violation("fatal:concurrent-map-writes:externaltoc.layerConvert", "the Go runtime aborted: concurrent map writes on esgzDigest2TOC",
                              {"log": out[-4000:]})
            else:
                raise Inconclusive("driver failed (rc=%d):\n%s" % (rc, "\n".join(out.splitlines()[-60:])))
    for mode in MODES:
        if os.path.exists(gated[mode]):
            validate(run, mode, gated[mode], "gated", 2, True)
        if os.path.exists(free[mode]):
            validate(run, mode, free[mode], "free-run", 4, False)
    run.cov["exhaustive"] = exhaustive


if __name__ == "__main__":
    main(check, "C19")

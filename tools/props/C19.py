#!/usr/bin/env python3
"""C19 - image conversion emits descriptors that describe exactly the blobs it wrote (Convert.tla)."""
import os, sys, json, itertools
sys.path.insert(0, os.path.dirname(os.path.dirname(os.path.abspath(__file__))))
from vlib import *

PKG = "nativeconverter/estargz/externaltoc/verif_convert_test.go"
OVERLAY = {PKG: PKG}
ALLMODES = ("esgz", "zstd", "ext", "extll")
INTERNAL = ("TypeOK", "RefExclusive")
# Catalogue of Convert.tla (index = source id)
CATALOGUE = {
    1: dict(tar=1, comp="none", fam="oci", lbl=False),
    2: dict(tar=1, comp="gzip", fam="oci", lbl=True),
    3: dict(tar=2, comp="gzip", fam="docker", lbl=False),
    4: dict(tar=2, comp="zstd", fam="oci", lbl=True),
    5: dict(tar=2, comp="none", fam="docker", lbl=False),
    6: dict(tar=1, comp="esgz", fam="oci", lbl=False),
    7: dict(tar=1, comp="zstd", fam="docker", lbl=False),
    8: dict(tar=2, comp="gzip", fam="ocind", lbl=False),
    9: dict(tar=1, comp="none", fam="dockerforeign", lbl=False),
    10: dict(tar=2, comp="zstd", fam="ocind", lbl=False),
    11: dict(tar=1, comp="gzip", fam="dockerforeign", lbl=True),
    12: dict(tar=2, comp="none", fam="ocind", lbl=False),
}
# every source of the catalogue is converted by every mode in every run (free stage, whatever the seed)
FIXED_FREE = [[1, 3, 4, 6], [2, 5, 7, 8], [9, 10, 11, 12]]
PROPERTY_FORMULAS = ("DescDigestCommitted", "DescSize", "DescTocVerifies", "DescUncompressedSize", "StoreLabelIsDiffID",
                     "MediaTypeMatches", "ZstdManifestInfo", "DescDescribesBlob", "TocImageMapsEveryLayer", "NoConversionPanics",
                     "LosslessKeepsDiffID", "MapWritesMutuallyExclusive")


def q(s):
    return '"%s"' % s


def tla_set(xs):
    return "{" + ", ".join(str(x) for x in xs) + "}"


def enclosing_func(path, line):
    """name of the top-level function of a repository source file that contains the line"""
    try:
        src = open(path).read().splitlines()
    except OSError:
        return "?"
    for i in range(min(line, len(src)) - 1, -1, -1):
        m = re.match(r"func\s+(?:\([^)]*\)\s*)?([A-Za-z0-9_]+)", src[i])
        if m:
            return m.group(1)
    return "?"


def race_signatures(out):
    """one signature per distinct race: the repository (not harness) source functions of the two racing accesses,
    datarace:<file>:<func>|<file>:<func> - independent of inlining into the driver and of line numbers"""
    res = collections.OrderedDict()
    for block in re.findall(r"WARNING: DATA RACE\n(.*?)\n==================", out, re.S):
        sites = []
        for part in re.split(r"\n\n", block)[:2]:
            site = None
            for mm in re.finditer(r"\n\s+(/\S+\.go):(\d+)", part):
                f, ln = mm.group(1), int(mm.group(2))
                if f.startswith(REPO + "/") and not os.path.basename(f).startswith("verif_"):
                    site = "%s:%s" % (os.path.relpath(f, REPO), enclosing_func(f, ln))
                    break
            sites.append(site or "harness")
        sig = "datarace:" + "|".join(sorted(set(sites)))
        res.setdefault(sig, block)
    return res


def scenario_of_trace(tr):
    return tr[0].get("name", "?")


def describe_violation(viol, mode, what, tr, idx):
    """signature = formula + mode + kind of run + the sources and the events of the conversions up to the failing event"""
    reset = tr[0]
    srcs = ",".join("%s%d.%s" % (s["src"]["comp"], s["src"]["tar"], s["src"]["fam"]) for s in reset.get("srcs", []))
    hist = ">".join("%s.%s" % (e["ev"], e.get("c", "")) for e in tr[1:idx + 1] if e["ev"] in ("Begin", "Build", "MapWriteBegin", "MapWriteEnd", "Interrupt", "Finalize"))
    return "monitor:%s:%s:%s:%s" % (viol, mode, what, srcs), hist


class ParTLC:
    """Runs several TLC jobs of this check at once (at most 4 JVMs, one worker each) and hands the results to the
    ordinary vlib stages: run.tlc is answered from the prefetched results, so verdict logic and evidence stay in vlib."""

    def __init__(self, run):
        import threading
        self.run, self.orig, self.cache, self.lock, self.n = run, run.tlc, {}, threading.Lock(), 0
        run.tlc = self.tlc
        run._prep = self.prep

    def prep(self, files, extra=None):
        # same as vlib.Run._prep with a counter of its own (thread-safe directory names)
        with self.lock:
            self.n += 1
            n = self.n
        d = os.path.join(self.run.scratch, "ptlc%d" % n)
        os.makedirs(d)
        for f in os.listdir(SPEC):
            if f.endswith(".tla"):
                shutil.copy(os.path.join(SPEC, f), d)
        for name, src in (extra or {}).items():
            if isinstance(src, str) and os.path.exists(src):
                shutil.copy(src, os.path.join(d, name))
            else:
                with open(os.path.join(d, name), "w") as fh:
                    fh.write(src)
        return d

    def key(self, module, cfg, overrides, extra, dfs):
        return canon([module, self.run.cfg_text(cfg, overrides), extra or {}, bool(dfs)])

    def tlc(self, module, cfg, overrides=None, workers=4, timeout=600, extra=None, args=(), dfs=False):
        k = self.key(module, cfg, overrides, extra, dfs)
        with self.lock:
            r = self.cache.pop(k, None)
        if r is not None:
            return r
        return self.orig(module, cfg, overrides, workers, timeout, extra=extra, args=args, dfs=dfs)

    def prefetch(self, calls, timeout=1500):
        """calls: list of dict(module, cfg, overrides, extra, dfs)"""
        import concurrent.futures
        def one(c):
            r = self.orig(c["module"], c["cfg"], c.get("overrides"), 1, c.get("timeout", timeout), extra=c.get("extra"), dfs=c.get("dfs", False))
            with self.lock:
                self.cache[self.key(c["module"], c["cfg"], c.get("overrides"), c.get("extra"), c.get("dfs", False))] = r
        with concurrent.futures.ThreadPoolExecutor(max_workers=4) as ex:
            for f in [ex.submit(one, c) for c in calls]:
                f.result()


def negctl_cfg(run, cfg, overrides, drop):
    # the text vlib.tlc_negctl builds (kept identical so that the prefetched result is found)
    txt = run.cfg_text(cfg, overrides)
    for name in drop:
        txt = re.sub(r"(?m)^((?:INVARIANTS?|PROPERTIES|PROPERTY)\b.*?)\s\b%s\b" % re.escape(name), r"\1", txt)
    return txt


def validate(run, mode, path, conformance_path):
    """monitor over all recorded traces of the mode (gated + free-run), conformance over the gated ones"""
    events = read_ndjson(path)
    traces = split_traces(events)
    if not traces:
        raise Inconclusive("driver wrote no events for %s" % mode)
    run.cov["evaluations"] += len(events)
    viol, mr = run.tlc_monitor("ConvertMonitor", "ConvertMonitor.cfg", path, {"Mode": q(mode)}, timeout=900)
    res = None
    if conformance_path:
        res = run.tlc_trace("ConvertTrace", "ConvertTrace.cfg", conformance_path, {"Mode": q(mode)}, timeout=900)
    ng = sum(1 for s, t in traces if t[0].get("name", "").startswith("g-"))
    log("[trace] %-6s %4d gated + %3d free-run traces %6d events: conformance(gated) %s, monitor %s" % (
        mode, ng, len(traces) - ng, len(events),
        "-" if res is None else ("accepted" if res["accepted"] else "REJECTED at line %s" % res["consumed"]), viol or "ok"))
    if viol:
        m = re.findall(r"/\\ l = (\d+)", mr.out)
        line = int(m[-1]) - 1 if m else 1
        tr = [t for t in traces if t[0] <= line][-1]
        idx = line - tr[0]
        what = "gated" if scenario_of_trace(tr[1]).startswith("g-") else "free-run"
        sig, hist = describe_violation(viol, mode, what, tr[1], idx)
        run.violation(sig, "%s false on what the %s converter did (%s, scenario %s) after %s: %s" % (
            viol, mode, what, scenario_of_trace(tr[1]), hist or "-", json.dumps(tr[1][idx])[:600]),
            {"formula": viol, "mode": mode, "run": what, "event_index": idx, "trace": tr[1][: idx + 1]})
        return
    if res is not None and not res["accepted"]:
        gev = read_ndjson(conformance_path)
        gtr = split_traces(gev)
        line = (res["consumed"] or 0) + 1
        tr = [t for t in gtr if t[0] <= line][-1]
        if res["violated"] in PROPERTY_FORMULAS:
            run.violation("trace-invariant:%s:%s:gated" % (res["violated"], mode),
                          "%s false while following the recorded trace" % res["violated"], {"trace": tr[1][: line - tr[0] + 2]})
        else:
            run.inconclusive.append("SPEC-DRIFT %s gated scenario %s: event %d %s not explained by Convert.tla although no C19 formula is false; prefix: %s" % (
                mode, scenario_of_trace(tr[1]), line - tr[0], json.dumps(gev[line - 1])[:500],
                json.dumps([{k: v for k, v in e.items() if k not in ("facts", "srcs")} for e in tr[1][max(0, line - tr[0] - 8): line - tr[0] + 1]])[:3000]))
        return
    run.cov["traces_validated_against_impl"] += len(traces)
    # which (source type, outcome) pairs this mode saw: every catalogue source must have been converted
    seen = collections.OrderedDict()
    for st, t in traces:
        srcs = {x["c"]: x["src"] for x in t[0].get("srcs", [])}
        for e in t:
            if e.get("ev") == "Return" and e.get("c") in srcs:
                sr = srcs[e["c"]]
                k = "%s.%s" % (sr["comp"], sr["fam"])
                out = e["res"] if e["res"] != "desc" else "%s.%s" % (e["desc"]["mtcomp"], e["desc"]["mtfam"])
                seen.setdefault(k, set()).add(out)
    missing = sorted({"%s.%s" % (c["comp"], c["fam"]) for c in CATALOGUE.values()} - set(seen))
    log("[types] %-6s %s" % (mode, "  ".join("%s->%s" % (k, "/".join(sorted(v))) for k, v in sorted(seen.items()))))
    run.cov["stages"].append({"stage": "source-types", "mode": mode, "outcomes": {k: sorted(v) for k, v in seen.items()}})
    if missing and not os.environ.get("VERIF_C19_STAGES"):
        run.inconclusive.append("%s: catalogue sources never converted in this run: %s" % (mode, missing))
    nontriv = [t for s, t in traces if any(e.get("ev") == "Return" and e.get("res") == "desc" for e in t)]
    run.cov["distinct_nontrivial"] += len({digest([{k: v for k, v in e.items() if k != "name"} for e in t]) for t in nontriv})
    run.add_samples([{"mode": mode, "events": [{k: v for k, v in e.items() if k != "facts"} for e in t[:14]]} for t in nontriv[:1]], limit=4)


def check(run):
    import threading
    thorough = run.tier == "thorough"
    par = ParTLC(run)
    run.cov["rule"] = ("gated: walks covering every edge of the TLC schedule graph of Convert (2 parallel conversions per converter instance, "
                       "segments Begin/Build/OpenStream/CommitBlob|Interrupt/Annotate/MapWriteBegin/MapWriteEnd/Finalize, all ordered pairs of the chosen "
                       "source layers) imposed on real ConvertFunc goroutines against plugins/content/local; free: 2-4 conversions in parallel under "
                       "-race with barriers at the option append and the map write; every value recomputed from the bytes read back from the store; "
                       "non-trivial = at least one conversion returned a descriptor; distinct by hash of the recorded events")
    run.assumptions += [
        "plugins/content/local (with an in-memory label store) stands for containerd's content store",
        "`opts = append(opts, x)` is modelled as one atomic step; byte sizes and digests are abstract ids in the design model, real ones in the traces",
        "RFC-validity of the compressed members is delegated to compress/gzip and klauspost zstd accepting the whole stream",
        "free-running traces are decided by the monitor only; the lossless writer deviating from its source (MayDeviate) exists only in the design model",
        "source layers: two small tars (dirs, regular files up to 11 KB, several chunks with the 4 KiB chunk option, symlink, empty file) as plain/gzip/zstd/eStargz, OCI and Docker media types",
    ]
    # development knobs (never set by ./check as registered; a run with one of them set cannot exit 0)
    only = [m for m in os.environ.get("VERIF_C19_ONLY", "").split(",") if m]
    MODES = tuple(m for m in ALLMODES if not only or m in only)
    skipmc = os.environ.get("VERIF_C19_SKIPMC") == "1"
    stages = [x for x in os.environ.get("VERIF_C19_STAGES", "gated,free").split(",") if x]
    if only or skipmc or stages != ["gated", "free"]:
        run.inconclusive.append("development knobs VERIF_C19_ONLY/SKIPMC/STAGES are set: partial run")

    # ---------------------------------------------------------------- R/G: schedules from the graph
    gen_srcs = {"esgz": [1, 4], "zstd": [2, 3], "ext": [2, 5], "extll": [3, 4]}
    if thorough:
        gen_srcs = {"esgz": [1, 7, 6], "zstd": [2, 3, 10], "ext": [2, 12, 7], "extll": [3, 4, 9]}
    gen_ov = {mode: {"Mode": q(mode), "SrcIds": tla_set(gen_srcs[mode])} for mode in MODES}
    par.prefetch([dict(module="ConvertGen", cfg="Convert_gen.cfg", overrides=gen_ov[m]) for m in MODES])
    jobs = []
    gated, free, allev = {}, {}, {}
    exhaustive = True
    for mode in MODES:
        inits, edges = run.tlc_edges("ConvertGen", "Convert_gen.cfg", gen_ov[mode], timeout=1500)
        walks, st = edge_cover(inits, edges, maxlen=40, rng=run.rng, extra_walks=40 if thorough else 4)
        log("[walks] %s: %s" % (mode, st))
        exhaustive = exhaustive and st["covered"] == st["edges"]
        run.cov["stages"].append(dict(stage="edge-cover", mode=mode, **st))
        scs = []
        for i, w in enumerate(walks):
            src = w[0]["post"]["src"]
            srcs = [dict(tar=s["tar"], comp=s["comp"], fam=s["fam"], lbl=s["lbl"]) for s in src]
            scs.append({"name": "g-%s-%d" % (mode, i), "mode": mode, "sparecap": True, "optset": (i + run.seed) % 2, "perlayer": False,
                        "srcs": srcs, "free": False, "stale": (i + run.seed) % 3 == 0,
                        "walk": [{"act": s["act"], "c": s.get("c", 0)} for s in w]})
        gated[mode] = os.path.join(run.scratch, "gated_%s.ndjson" % mode)
        jobs.append({"out": gated[mode], "scenarios": scs})
    # ---------------------------------------------------------------- T: free-running parallel conversions
    allids = sorted(CATALOGUE)
    free_srcs = {"esgz": allids, "zstd": allids, "ext": allids, "extll": [i for i in allids if CATALOGUE[i]["comp"] in ("none", "gzip")]}
    reps = 2 if thorough else 1
    for mode in MODES:
        scs = []
        ids = free_srcs[mode]
        combos = list(itertools.combinations(ids, 2)) + [(i, i) for i in ids[:2]]
        run.rng.shuffle(combos)
        combos = combos[:16] if thorough else combos[:1]
        k = 0
        for rep in range(reps):
            for a, b in combos:
                k += 1
                scs.append({"name": "f-%s-%d" % (mode, k), "mode": mode, "sparecap": k % 2 == 1, "optset": (k // 2) % 2, "perlayer": k % 5 == 4,
                            "srcs": [CATALOGUE[a], CATALOGUE[b]], "free": True, "stale": k % 3 == 0})
            # every source layer of the mode is converted in every run, whatever the seed: one 4-way (and one 2-way) conversion
            fixed = FIXED_FREE if rep == 0 else []
            extra = []
            if thorough:
                n = 3
                pick = [ids[(rep + j * 2 + run.seed) % len(ids)] for j in range(n)]
                extra = [pick if len(set(pick)) == n else ids[:n]]
            for pick in fixed + extra:
                k += 1
                scs.append({"name": "f-%s-%d" % (mode, k), "mode": mode, "sparecap": True, "optset": (k + rep) % 2, "perlayer": False,
                            "srcs": [CATALOGUE[x] for x in pick], "free": True, "stale": False})
        free[mode] = os.path.join(run.scratch, "free_%s.ndjson" % mode)
        jobs.append({"out": free[mode], "scenarios": scs})

    # the Go stages run while TLC checks the design.
    # gated walks execute one segment at a time (nothing runs concurrently, the race detector has nothing to see): plain build;
    # free-running parallel conversions: -race
    go_res = []

    def go_stages():
        for stage, race in (("gated", False), ("free", True)):
            if stage not in stages:
                continue
            inp = os.path.join(run.scratch, "scenarios_%s.json" % stage)
            write_json(inp, [j for j in jobs if os.path.basename(j["out"]).startswith(stage)])
            try:
                go_res.append((stage,) + run.go_test("", "./nativeconverter/estargz/externaltoc/", OVERLAY, "^TestVerifConvert$",
                                                     env={"VERIF_IN": inp, "VERIF_PAR": "12"}, timeout=2400, race=race))
            except Exception as e:  # reported by the main thread
                go_res.append((stage, -1, "go stage broke: %r" % (e,)))
    th = threading.Thread(target=go_stages)
    th.start()
    try:
        # ------------------------------------------------------------ M: design, exhaustive (+ vacuity guards)
        if not skipmc:
            negs = [({"MapLock": "FALSE"}, ["MapWritesMutuallyExclusive"]),
                    ({"CopyOpts": "FALSE"}, ["NoConversionPanics", "TocImageMapsEveryLayer", "DescDescribesBlob"]),
                    ({"CopyOpts": "FALSE", "Mode": q("zstd")}, ["DescDescribesBlob"]),
                    ({"DiffIDCheck": "FALSE", "Mode": q("extll")}, ["LosslessKeepsDiffID"]),
                    ({"UpdateLabel": "FALSE", "Mode": q("esgz")}, ["DescDescribesBlob"]),
                    ({"MediaTypeFollowsBlob": "FALSE", "Mode": q("esgz")}, ["DescDescribesBlob"])]
            par.prefetch([dict(module="Convert", cfg="Convert_mc.cfg", overrides={"Mode": q(m)}) for m in MODES] +
                         [dict(module="Convert", cfg=negctl_cfg(run, "Convert_mc.cfg", ov, INTERNAL)) for ov, _ in negs])
            for mode in MODES:
                run.tlc_mc("Convert", "Convert_mc.cfg", {"Mode": q(mode)}, workers=4, timeout=1500, name="Convert_mc.cfg %s N=2 4 sources" % mode)
            if thorough:
                for mode in MODES:
                    run.tlc_mc("Convert", "Convert_mc.cfg", {"Mode": q(mode), "NConv": "3", "SrcIds": "{2, 4, 6}" if mode != "extll" else "{2, 4, 5}", "MaxIntr": "2"},
                               workers=4, timeout=3000, name="Convert_mc.cfg %s N=3" % mode)
            for ov, expect in negs:
                run.tlc_negctl("Convert", "Convert_mc.cfg", ov, expect, drop=INTERNAL)
    finally:
        th.join()
    for stage, rc, out in go_res:
        if rc == 0:
            continue
        if "WARNING: DATA RACE" in out:
            # the race detector reported a race between parallel conversions of one converter instance: the shared state the
            # property quantifies over ("also when layers are converted concurrently")
            for sig, block in race_signatures(out).items():
                if sig == "datarace:harness":
                    run.inconclusive.append("data race inside the driver itself:\n" + block[:3000])
                    continue
                run.violation(sig, "data race between layer conversions run in parallel by one converter instance", {"log": block[:6000]})
        elif "concurrent map writes" in out or "concurrent map read and map write" in out:
            run.violation("fatal:concurrent-map-writes:nativeconverter/estargz/externaltoc/converter.go:layerConvert",
                          "the Go runtime aborted: concurrent map writes on esgzDigest2TOC", {"log": out[-4000:]})
        else:
            raise Inconclusive("driver failed in stage %s (rc=%d):\n%s" % (stage, rc, "\n".join(out.splitlines()[-60:])))
    # ---------------------------------------------------------------- verdicts: TLC on what the implementation did
    calls = []
    for mode in MODES:
        allev[mode] = os.path.join(run.scratch, "all_%s.ndjson" % mode)
        with open(allev[mode], "w") as fh:
            for pth in (gated[mode], free[mode]):
                if os.path.exists(pth):
                    fh.write(open(pth).read())
        calls.append(dict(module="ConvertMonitor", cfg="ConvertMonitor.cfg", overrides={"Mode": q(mode)}, extra={"trace.ndjson": allev[mode]}, timeout=900))
        if os.path.exists(gated[mode]):
            calls.append(dict(module="ConvertTrace", cfg="ConvertTrace.cfg", overrides={"Mode": q(mode)}, extra={"trace.ndjson": gated[mode]}, dfs=True, timeout=900))
    par.prefetch(calls)
    for mode in MODES:
        validate(run, mode, allev[mode], gated[mode] if os.path.exists(gated[mode]) else None)
    run.cov["exhaustive"] = exhaustive


if __name__ == "__main__":
    main(check, "C19")

#!/usr/bin/env python3
"""C20 - snapshot labels written at pull time reproduce the layer's source at mount time (Labels.tla).

M  exhaustive TLC runs of Labels.tla over four manifest families (full <=3 entries, 4-entry patterns, long 55..60 layers,
   tampering) + one negative control per property-bearing guard of the code.
R  every case TLC enumerated (VCASE lines of the same runs) is materialised as a real OCI manifest and pushed through
   the real handlers and readers by harness/fs/source/verif_labels.go (drivers: fs/source and service).
   LabelsTrace.tla: the recorded labels / reader results against the specification's operators (conformance).
   LabelsMonitor.tla: the C20 formulas on the recorded values alone -> the verdict.
"""
import os, sys, json
sys.path.insert(0, os.path.dirname(os.path.dirname(os.path.abspath(__file__))))
from vlib import *

OVERLAY_SRC = {"fs/source/verif_labels.go": "fs/source/verif_labels.go",
               "fs/source/verif_labels_test.go": "fs/source/verif_labels_test.go"}
OVERLAY_SVC = {"fs/source/verif_labels.go": "fs/source/verif_labels.go",
               "service/verif_labels_cri_test.go": "service/verif_labels_cri_test.go"}
INTERNAL = ("TamperLogExplains", "ExtraKeepsPreset")
ALLRD = '{"default", "cri", "chain"}'
FORMULAS = ("AllLabelsValid", "RoundTrip", "NeighbourUrlsPositional", "PrefetchSizeRoundTrips", "UrlsOwnOrNone", "ReaderLeavesLabels", "RoundTripSecondRead", "MalformedMandatoryRejected")


def gen(run, cfg, ov, name, timeout=900):
    """one TLC run = exhaustive check of the family + emission of every case (VCASE) for the replay"""
    ov = dict(ov or {})
    ov["Emit"] = "TRUE"
    r = run.tlc_mc("Labels", cfg, ov, workers=1, timeout=timeout, name=name)
    tabs = r.lines("VTAB")
    if not tabs:
        raise Inconclusive("generation %s printed no VTAB" % name)
    try:
        cases = [json.loads(x) for x in r.lines("VCASE")]
        tab = json.loads(tabs[0])
        tab["nvariants"] = 4          # per-run bounds, not part of the tables
        tab["refvariants"] = 7
    except ValueError as e:
        raise Inconclusive("generation %s: unparsable TLC output: %s" % (name, e))
    if not cases:
        raise Inconclusive("generation %s produced no cases" % name)
    log("[gen] %-32s %d cases" % (name, len(cases)))
    run.cov["stages"].append({"stage": "gen", "config": name, "cases": len(cases)})
    return tab, cases


def classify(c):
    """what kind of input a case is - makes violation signatures specific (most specific feature first)"""
    man = c["man"]
    parts = ["fl=" + c["fl"]]
    if c["tam"]:
        parts.append("tamper=" + "+".join("%s@%d" % (o["op"], o["key"]) for o in c["tam"]))
    if any(e.get("pre") for e in man):
        parts.append("preset")
    if any(u >= 100000 for e in man for u in e["urls"]):
        parts.append("boundary")
    if any(not e["isLayer"] for e in man):
        parts.append("nonlayer")
    if len({e["d"] for e in man}) < len(man):
        parts.append("repeated-digest")
    if len(man) > 50:
        parts.append("long")
    if any(500 <= e["d"] < 900 for e in man):
        parts.append("mixed-digests")
    if c["ref"] >= 3:
        parts.append("concrete-ref")
    if len(parts) == 1:
        parts.append("plain")
    return ":".join(parts)


def check(run):
    thorough = run.tier == "thorough"
    # the writer/reader operators recurse once per manifest entry / URL: give TLC's worker threads a deeper stack
    os.environ["JAVA_TOOL_OPTIONS"] = (os.environ.get("JAVA_TOOL_OPTIONS", "") + " -Xss64m").strip()
    run.cov["rule"] = ("case = (manifest, ref, prefetch size, handler flavour, layer child, tamper steps, reader) enumerated by TLC "
                       "from Labels.tla; each is executed once against the real handlers/readers; non-trivial = labels tampered "
                       "with, or a label hit the 4096 byte limit, or the manifest has repeated digests / non-layer entries / URLs; "
                       "distinct by case content")
    run.assumptions += [
        "strings are abstracted to (length, token ids); URL/ref contents contain no ','",
        "pre-set containerd.io/snapshot/remote/* annotations on layer descriptors are covered for 2-layer manifests (one or two keys, "
        "foreign value); the exhaustive runs check the repaired design (ExtraStripsPreset=TRUE), the pinned design (FALSE: the extra "
        "handler keeps pre-set urls/urls.<j>/prefetch keys) is a negative control and the conformance setting; on the pinned code the "
        "monitor reports those cases (known finding :fl=extra:preset)",
        "label sizes next to the limit (4094..4097) are covered for urls and urls.<i> (i < 10); the layers labels cannot land there: "
        "digest strings step the size by 72 bytes (4074 -> 4146), so a +-1 error in that loop is unobservable with valid digests",
        "equal digests have the same media type class; config digest differs from all layer digests",
        "references: two abstract ones (25 / 300 bytes) everywhere + six concrete shapes (name:tag, name@digest, name:tag@digest, "
        "host:port/name:tag, docker.io/library/..., with and without digest) over 3 manifests, compared byte for byte; "
        "malformed reference spellings: 4 derived + host-less 'ubuntu:22.04', 'app:v1', ' '",
        "every case reads the SAME label map twice (purity: map unchanged; second read must round-trip as well)",
        "mixed digest lengths: one long-family pattern with a sha512 digest (135 bytes) as the first misfit of layer 1's layers label, "
        "followed by sha256 digests that would still fit",
        "image ref length <= 300 bytes (the writer does not validate the reference label; refs near 4 KiB are not modelled)",
        "an empty-string URL read back for an absent URL list ([\"\"]) counts as no URL (only consumer: ipfs.GetCID prefix match)",
        "a URL list that does not fit into one label is represented by its longest fitting prefix (labels.Validate has priority)",
        "tampering yields missing/empty/unparsable values only, never a different well-formed value",
        "fs.Mount's consumption is taken at the GetSources boundary (FromDefaultLabels / sourceFromCRILabels / sources chain); "
        "the prefetch label is parsed with the same strconv.ParseInt call fs.Mount uses",
    ]

    # ---------------------------------------------------------------- M (+ generation in the same runs)
    tab = None
    cases = []
    plan = [
        ("Labels_mc_full.cfg", {"MatchedOnly": "TRUE", "Readers": ALLRD if thorough else '{"default", "cri"}'}, "full<=3"),
        ("Labels_mc_pattern.cfg", {"MatchedOnly": "TRUE", "RefPfs": "{12, 23}" if thorough else "{12}",
                                   "Readers": ALLRD if thorough else '{"chain"}'}, "pattern4"),
        ("Labels_mc_long.cfg", {"MatchedOnly": "TRUE", "RefPfs": "{12}",
                                "LongNs": "{55, 56, 57, 58, 59, 60}" if thorough else "{57, 60}"}, "long"),
        ("Labels_mc_tamper.cfg", {"MatchedOnly": "TRUE", "MaxTamper": "1", "NVariants": "4", "RefPfs": "{12, 23}" if thorough else "{12}"}, "tamper1x4"),
        # concrete reference shapes (ref ids 3..8, byte-for-byte round trip) over the three tamper-family manifests
        ("Labels_mc_tamper.cfg", {"MatchedOnly": "TRUE", "MaxTamper": "0", "RefPfs": "{32, 42, 52, 62, 72, 82}"}, "refs"),
        ("Labels_mc_edge.cfg", {"MatchedOnly": "TRUE", "Readers": ALLRD if thorough else '{"default", "cri"}'}, "edge"),
    ]
    if thorough:
        plan.append(("Labels_mc_tamper.cfg", {"MatchedOnly": "TRUE", "MaxTamper": "2", "NVariants": "1", "RefPfs": "{12}"}, "tamper2x1"))
    for cfg, ov, name in plan:
        t, cs = gen(run, cfg, ov, name, timeout=3000)
        tab = tab or t
        if t != tab:
            raise Inconclusive("VTAB differs between runs")
        cases += cs
    # development aid for mutant runs only: skip the model-only stages; such a run can never end with exit 0
    skip_m = bool(os.environ.get("VERIF_C20_REPLAY_ONLY"))
    if skip_m:
        run.inconclusive.append("VERIF_C20_REPLAY_ONLY set: model-only stages and negative controls skipped (development mode)")
    else:
        # exhaustive only (no emission): every reader on every label set, larger bounds in the thorough tier
        if thorough:
            run.tlc_mc("Labels", "Labels_mc_tamper.cfg", {"MaxTamper": "3", "NVariants": "1"}, workers=4, timeout=3000, name="tamper all-readers")
            run.tlc_mc("Labels", "Labels_mc_edge.cfg", None, workers=4, timeout=3000, name="edge all-readers")
            run.tlc_mc("Labels", "Labels_mc_full.cfg", {"MaxTamper": "1", "NVariants": "1"}, workers=4, timeout=3000, name="full<=3 all-readers tamper1")
            run.tlc_mc("Labels", "Labels_mc_full.cfg", {"MaxLayers": "4", "MatchedOnly": "TRUE", "Readers": '{"default", "cri"}'}, workers=4, timeout=3000, name="full<=4")
            run.tlc_mc("Labels", "Labels_mc_long.cfg", None, workers=4, timeout=3000, name="long all-readers")
        # vacuity guards: each property-bearing guard of the code switched off must break a C20 formula
        for cfg, off, expect, *more in (
                ("Labels_mc_long.cfg", {"ValidateLayers": "FALSE", "LongNs": "{60}"}, ["AllLabelsValid"]),
                ("Labels_mc_full.cfg", {"ValidateUrls": "FALSE", "MaxLayers": "2"}, ["AllLabelsValid"]),
                ("Labels_mc_edge.cfg", {"CountSeparator": "FALSE"}, ["AllLabelsValid"]),
                ("Labels_mc_edge.cfg", {"WriteEmptyUrlLabels": "FALSE"}, ["RoundTrip", "NeighbourUrlsPositional"]),
                # the pinned extra handler keeps manifest-supplied urls / prefetch annotations (known finding :fl=extra:preset)
                ("Labels_mc_edge.cfg", {"ExtraStripsPreset": "FALSE"}, ["PrefetchSizeRoundTrips"]),
                ("Labels_mc_edge.cfg", {"ExtraStripsPreset": "FALSE", "MatchedOnly": "TRUE"}, ["RoundTrip", "NeighbourUrlsPositional"], ("PrefetchSizeRoundTrips",)),
                ("Labels_mc_long.cfg", {"WholeDigests": "FALSE", "LongNs": "{60}"}, ["RoundTrip"]),
                ("Labels_mc_long.cfg", {"StopAtFirstMisfit": "FALSE", "LongNs": "{57}"}, ["RoundTrip"]),
                ("Labels_mc_tamper.cfg", {"ReaderPure": "FALSE", "MaxTamper": "0"}, ["ReaderLeavesLabels", "RoundTripSecondRead"]),
                ("Labels_mc_tamper.cfg", {"ReaderPure": "FALSE", "MaxTamper": "0"}, ["RoundTripSecondRead"], ("ReaderLeavesLabels",)),
                ("Labels_mc_full.cfg", {"UrlIdx": '"child"'}, ["RoundTrip", "NeighbourUrlsPositional"]),
                ("Labels_mc_full.cfg", {"ReaderSkipsTarget": "FALSE", "MaxLayers": "2"}, ["RoundTrip"]),
                ("Labels_mc_tamper.cfg", {"ReaderResetsUrls": "FALSE", "MaxTamper": "1", "NVariants": "1"}, ["UrlsOwnOrNone"]),
                ("Labels_mc_tamper.cfg", {"ReaderChecksDigest": "FALSE", "MaxTamper": "1"}, ["MalformedMandatoryRejected"]),
                ("Labels_mc_tamper.cfg", {"ReaderChecksRef": "FALSE", "MaxTamper": "1"}, ["MalformedMandatoryRejected"])):
            run.tlc_negctl("Labels", cfg, off, expect, drop=INTERNAL + (more[0] if more else ()))

    # ---------------------------------------------------------------- R: replay every case into the real code
    seen = set()
    uniq = []
    for c in cases:
        k = canon(c)
        if k not in seen:
            seen.add(k)
            uniq.append(c)
    run.rng.shuffle(uniq)      # order is irrelevant (cases are independent); the seed only permutes it
    for i, c in enumerate(uniq, 1):
        c["id"] = i
    byid = {c["id"]: c for c in uniq}
    parts = {"src": [c for c in uniq if c["rd"] == "default"], "svc": [c for c in uniq if c["rd"] != "default"]}
    outs = []
    for what, mod_pkg, overlay, test in (("src", "./fs/source/", OVERLAY_SRC, "^TestVerifLabels$"),
                                         ("svc", "./service/", OVERLAY_SVC, "^TestVerifLabelsCRI$")):
        inp = os.path.join(run.scratch, "cases_%s.json" % what)
        out = os.path.join(run.scratch, "rec_%s.ndjson" % what)
        write_json(inp, {"tab": tab, "cases": parts[what]})
        run.go_driver("", mod_pkg, overlay, test, env={"VERIF_IN": inp, "VERIF_OUT": out}, race=False)
        if not os.path.exists(out):
            raise Inconclusive("driver %s wrote no output" % what)
        outs.append(out)
    trace = os.path.join(run.scratch, "labels_trace.ndjson")
    with open(trace, "w") as fh:
        for o in outs:
            fh.write(open(o).read())
    if os.environ.get("VERIF_KEEP"):          # debugging aid: keep the recorded trace
        shutil.copy(trace, os.path.join(os.environ["VERIF_KEEP"], "trace.ndjson"))
    events = read_ndjson(trace)
    if len(events) != len(uniq):
        raise Inconclusive("driver recorded %d events for %d cases" % (len(events), len(uniq)))
    evbyid = {e["id"]: e for e in events}
    log("[replay] %d cases executed against the real handlers/readers (%d fs/source, %d service)" %
        (len(events), len(parts["src"]), len(parts["svc"])))

    # monitor: property formulas on the recorded values alone
    mr = run.tlc("LabelsMonitor", "LabelsMonitor.cfg", None, 1, 3000, extra={"trace.ndjson": trace})
    if not mr.completed or not mr.lines("VDONE"):
        raise Inconclusive("monitor broke: %s %s\n%s" % (mr.error, mr.violated, "\n".join(mr.out.splitlines()[-30:])))
    viols = [json.loads(x) for x in mr.lines("VVIOL")]
    # conformance: recorded values against the specification's operators
    tr = run.tlc("LabelsTrace", "LabelsTrace.cfg", None, 1, 3000, extra={"trace.ndjson": trace})
    if tr.violated:
        raise Inconclusive("Labels.tla invariant %s fails on the specification's own result for a recorded case\n%s" %
                           (tr.violated, "\n".join(tr.out.splitlines()[-40:])))
    if not tr.completed or not tr.lines("VDONE"):
        raise Inconclusive("trace validation broke: %s\n%s" % (tr.error, "\n".join(tr.out.splitlines()[-30:])))
    drifts = [json.loads(x) for x in tr.lines("VDRIFT")]
    log("[trace] %d cases: conformance %s, monitor %s" % (
        len(events), "accepted" if not drifts else "%d drifting comparisons in %d cases" % (len(drifts), len({d["id"] for d in drifts})),
        "ok" if not viols else "%d false formula instances in %d cases" % (len(viols), len({v["id"] for v in viols}))))
    run.cov["evaluations"] += len(events) * len(FORMULAS)
    run.cov["stages"].append({"stage": "replay", "cases": len(events), "drift_cases": len({d["id"] for d in drifts}),
                              "violating_cases": len({v["id"] for v in viols}), "monitor_wall_s": round(mr.wall, 1),
                              "trace_wall_s": round(tr.wall, 1)})

    # verdict
    bysig = collections.OrderedDict()
    for v in viols:
        c = byid[v["id"]]
        sig = "monitor:%s:%s" % (v["formula"], classify(c))
        bysig.setdefault(sig, []).append(v["id"])
    for sig, ids in bysig.items():
        ids = sorted(ids, key=lambda i: (len(byid[i]["man"]), len(json.dumps(byid[i]))))
        e = evbyid[ids[0]]
        run.violation(sig, "%s false on what the real handler/reader produced for %d case(s); smallest: manifest %s child %d" % (
            sig.split(":")[1], len(ids), json.dumps(byid[ids[0]]["man"])[:300], byid[ids[0]]["t"]),
            {"case": byid[ids[0]], "recorded": e, "drift": [d for d in drifts if d["id"] == ids[0]][:4], "other_case_ids": ids[1:20]})
    violating = {v["id"] for v in viols}
    drift_only = [d for d in drifts if d["id"] not in violating]
    if drift_only:
        d0 = next((d for d in drift_only if "exp" in d), drift_only[0])
        run.inconclusive.append("SPEC-DRIFT %d case(s) (%s) not explained by Labels.tla although no C20 formula is false; first: case %s -> %s" % (
            len({d["id"] for d in drift_only}), ",".join(sorted({d["part"] for d in drift_only})),
            json.dumps(byid[d0["id"]])[:1500], json.dumps(d0)[:3000]))
    ok_ids = [e["id"] for e in events if e["id"] not in violating and e["id"] not in {d["id"] for d in drifts}]
    run.cov["traces_validated_against_impl"] += len(ok_ids)

    def nontrivial(c, e):
        return bool(c["tam"]) or any(not x["isLayer"] for x in c["man"]) or len({x["d"] for x in c["man"]}) < len(c["man"]) \
            or any(x["urls"] for x in c["man"]) or len(c["man"]) > 50 or any(x.get("pre") for x in c["man"])
    run.cov["distinct_nontrivial"] += sum(1 for i in ok_ids if nontrivial(byid[i], evbyid[i]))
    run.cov["exhaustive"] = not drifts
    small = [e for e in events if len(e["case"]["man"]) <= 3 and e["id"] in set(ok_ids)]
    pick = [e for e in small if e["case"]["tam"]][:1] + [e for e in small if any(not x["isLayer"] for x in e["case"]["man"]) and e["res"]["neigh"]][:1] \
        + [e for e in small if e["case"]["fl"] == "extra" and len(e["case"]["man"]) == 3][:1]
    run.add_samples([{"case": e["case"], "labels": {k: v["items"] for k, v in e["wl"].items()}, "reader_result": e["res"]} for e in pick], limit=3)


if __name__ == "__main__":
    main(check, "C20")

#!/usr/bin/env python3
"""C03 - built blobs unpack like the input tar and index themselves consistently (Writer.tla)."""
import os, sys, json
sys.path.insert(0, os.path.dirname(os.path.dirname(os.path.abspath(__file__))))
from vlib import *

OVERLAY = {"estargz/verif_sort_test.go": "estargz/verif_sort_test.go",
           "estargz/verif_layout_test.go": "estargz/verif_layout_test.go",
           "estargz/verif_writer_test.go": "estargz/verif_writer_test.go"}
BIG = 1 << 20
# (scheme, min-chunk-size, gzip level) applied on top of every TLC-generated (input, mode, workers)
VARIANTS = [("gzip", 0, 1), ("gzip", BIG, 9), ("gzip", 150, 1), ("zstd", 0, 0), ("zstd", 150, 0), ("external", 0, 6), ("gzip", 60, 6)]
CHUNK = 4


META_A = {"mode": 0o755, "uid": 0, "gid": 0, "mtime": "0"}
META_B = {"mode": 0o700, "uid": 1000, "gid": 1000, "mtime": "1700000000"}


def f(name, size, meta=META_A):
    return {"name": name, "type": "reg", "link": "", "size": size, "meta": meta}


def d(name, meta=META_A):
    return {"name": name, "type": "dir", "link": "", "size": 0, "meta": meta}


SPECIAL_NAMES = ("sub/stargz.index.json", "sub/.prefetch.landmark", "sub/.no.prefetch.landmark", "stargz.index.json")


def is_special(tar):
    """the special families: a repeated name whose entries differ in metadata, a file named like a reserved entry,
    an entry with an mtime before the epoch / in the year 3000, a PAX global extended header"""
    return any(e["meta"] != META_A or e["name"] in SPECIAL_NAMES or e["type"] == "xglobal" for e in tar)


# a few inputs beyond the TLC bound (5 entries; sizes 0, 1, chunk-1, chunk, chunk+1, 2*chunk+1; a directory; a duplicate)
FIXED = [
    [f("f1", 9), d("f2"), f("f3", 0), f("f4", 4), f("f5", 5)],
    [f("f1", 3), f("f2", 1), f("f3", 9), f("f4", 0), f("f5", 9)],
    [f("f1", 5), f("f2", 4), f("f1", 3, META_B), f("f4", 9), f("f5", 1)],
    [d("f1"), f("f2", 5), d("f1", META_B), f("sub/stargz.index.json", 3), f("sub/.prefetch.landmark", 3)],
    [f("f1", 0), f("f2", 0), f("f3", 0), f("f4", 0), f("f5", 0)],
]


def event_line(tlc_out):
    m = re.findall(r"/\\ l = (\d+)", tlc_out)
    return int(m[-1]) - 1 if m else 0


def brief(ev):
    d = dict(ev)   # noqa
    d["input"] = [[e["name"], e["type"], e["size"], "%o" % e["meta"]["mode"]] for e in ev["input"]]
    d["order"] = [[e["name"], e["type"], e["size"], "%o" % e["meta"]["mode"]] for e in ev["order"]]
    return d


def where(ev):
    o = ev["opt"]
    return "%s/%s/minOn=%s/workers=%d" % (o["mode"], ev["scheme"], o["minOn"], o["workers"])


def validate(run, events, what):
    if not events:
        return 0
    path = os.path.join(run.scratch, "wtrace_%s.ndjson" % what)
    with open(path, "w") as fh:
        for e in events:
            fh.write(json.dumps(e) + "\n")
    run.cov["evaluations"] += len(events)
    viol, mr = run.tlc_monitor("WriterMonitor", "WriterMonitor.cfg", path, timeout=2400)
    if viol:
        n = event_line(mr.out)
        ev = events[n - 1] if 0 < n <= len(events) else events[0]
        run.violation("monitor:%s:%s" % (viol, where(ev)),
                      "%s is false on the blob the real builder produced for event %d (%s; input %s)" % (
                          viol, n, where(ev), brief(ev)["input"]), {"formula": viol, "event": brief(ev)})
        log("[trace] %-10s %d blobs: monitor %s at event %d" % (what, len(events), viol, n))
        return 0
    res = run.tlc_trace("WriterTrace", "WriterTrace.cfg", path, timeout=2400)
    log("[trace] %-10s %d blobs: conformance %s, monitor ok" % (what, len(events), "accepted" if res["accepted"] else "REJECTED at line %s" % res["consumed"]))
    if not res["accepted"]:
        n = (res["consumed"] or 0) + 1
        ev = events[min(n, len(events)) - 1]
        if res["violated"]:
            run.violation("trace-invariant:%s:%s" % (res["violated"], where(ev)), "%s false while following the recorded blobs" % res["violated"],
                          {"formula": res["violated"], "event": brief(ev)})
        else:
            run.inconclusive.append("SPEC-DRIFT batch %s event %d (%s): the observed layout is not what Writer.tla computes although no C03 formula "
                                    "is false: %s" % (what, n, where(ev), json.dumps(brief(ev))[:3000]))
        return 0
    return len(events)


def check(run):
    thorough = run.tier == "thorough"
    run.cov["rule"] = ("behaviour = one real run of estargz.Build / NewWriterWithCompressor+AppendTar / AppendTarLossLess on a TLC-enumerated input "
                       "(Writer.tla generation config) under one (scheme, min-chunk-size, level) variant; the blob is read back by an independent "
                       "reader written from docs/estargz.md and the observed layout is validated by TLC against WriterRun (compressed sizes, header "
                       "lengths and min-chunk decisions bound from the observation) and the C03 formulas are evaluated on the observation alone. "
                       "non-trivial = at least one file has more than one chunk or shares a stream; distinct by hash of (input, options)")
    run.assumptions += [
        "compressed sizes and tar header lengths are parameters of the model (bound from the observation), D1/D2 of Writer.tla",
        "Build is driven without prioritized files here (ordering: C14); names are clean; plain Writer is not given duplicate names",
        "RFC validity of each gzip member / zstd frame = the standard / klauspost decoder accepts it",
        "one AppendTar call per Writer; xattrs/PAX headers, symlinks, devices not in the input universe; sub-writers modelled sequentially (driver runs under -race in thorough)",
    ]
    # ---------------------------------------------------------------- M
    skip_m = os.environ.get("VERIF_SKIP_M") == "1"     # developer aid for mutant runs: binding stages only (evidence says so)
    if skip_m:
        run.assumptions.append("VERIF_SKIP_M=1: exhaustive model checking and negative controls were skipped in this run")
    else:
        run.tlc_mc("Writer", "Writer_mc_build.cfg", None if thorough else {"MaxEntries": "2"}, timeout=3000, workers=4)
        run.tlc_mc("Writer", "Writer_mc_minchunk.cfg", None if thorough else {"Sizes": "{0, 1, 4, 5}"}, timeout=3000, workers=4)
    small = {"MaxEntries": "2"}
    for cfg, guard, expect in () if skip_m else (
            ("Writer_mc_build.cfg", "OffsetAfterClose", ["TocAddressesRightBytes", "OffsetsUniquePerStreamStart"]),
            ("Writer_mc_minchunk.cfg", "InnerFromStreamStart", ["TocAddressesRightBytes", "OffsetsUniquePerStreamStart"]),
            ("Writer_mc_build.cfg", "RebaseChunks", ["TocAddressesRightBytes", "OffsetsUniquePerStreamStart"]),
            ("Writer_mc_build.cfg", "KeepChunkSize", ["TocAddressesRightBytes", "ChunksTileFile"]),
            ("Writer_mc_build.cfg", "DivideKeepsAll", ["EntriesPreserved"]),
            ("Writer_mc_build.cfg", "KeepLastDup", ["EntriesPreserved"]),
            ("Writer_mc_build.cfg", "ReservedByFullName", ["EntriesPreserved"]),
            ("Writer_mc_build.cfg", "RefuseUnknownType", ["LosslessIdentity", "EntriesPreserved"])):
        ov = dict(small) if cfg == "Writer_mc_build.cfg" and guard != "DivideKeepsAll" else {}
        ov[guard] = "FALSE"
        run.tlc_negctl("Writer", cfg, ov, expect, workers=4, timeout=900)

    # ---------------------------------------------------------------- R
    r = run.tlc("WriterGen", "Writer_gen.cfg", None, workers=1, timeout=1800)
    if not r.completed:
        raise Inconclusive("generation failed: %s\n%s" % (r.error or r.violated, "\n".join(r.out.splitlines()[-30:])))
    gen = [json.loads(x) for x in r.lines("VCASE")]
    log("[gen] Writer_gen.cfg %d cases (%d distinct states) %.1fs" % (len(gen), r.distinct, r.wall))
    if not gen:
        raise Inconclusive("generation printed no case")
    run.cov["stages"].append({"stage": "gen", "config": "Writer_gen.cfg", "cases": len(gen), "distinct": r.distinct})
    for t in FIXED:
        names = [e["name"] for e in t]
        for mode, w in (("build", 1), ("build", 2), ("build", 3), ("writer", 1), ("lossless", 1)):
            if mode != "build" and len(set(names)) != len(names):
                continue
            gen.append({"input": t, "mode": mode, "workers": w})
    budget = 4500 if thorough else 2600   # thorough runs the builds under -race (about 5x slower per build)
    allc = []
    for g in gen:
        tar = [{"name": e["name"], "type": e["type"], "link": e["link"], "size": e["size"], "meta": e["meta"]} for e in g["input"]]
        for vi, (scheme, minc, lvl) in enumerate(VARIANTS):
            allc.append({"tar": tar, "mode": g["mode"], "scheme": scheme, "chunk": CHUNK, "minchunk": minc, "workers": g["workers"],
                         "level": lvl, "gzinput": False, "vi": vi})
    # deterministic part, replayed in EVERY run: all inputs of <= 1 entry under every variant, and the special families
    # (repeated names with other metadata; files named like reserved entries) with <= 2 entries (sizes 0 / 5 only, to keep
    # the list short) in every mode under gzip/min-chunk 0 and (Writer, lossless, Build with 2 workers) zstd/min-chunk 150
    def fixed_part(c):
        if len(c["tar"]) <= 1:
            return True
        return (is_special(c["tar"]) and len(c["tar"]) <= 2 and all(e["size"] in (0, 1, 3, 5) for e in c["tar"])
                and (c["vi"] == 0 or (c["vi"] == 4 and c["mode"] != "build") or (c["vi"] == 4 and c["workers"] == 2)))
    small_cases = [c for c in allc if fixed_part(c)]
    rest = [c for c in allc if not fixed_part(c)]
    run.rng.shuffle(rest)
    cases = small_cases + rest[:max(0, budget - len(small_cases))]
    nspecial = sum(1 for c in small_cases if is_special(c["tar"]))
    for c in cases:
        c["gzinput"] = (not fixed_part(c)) and run.rng.random() < 0.15
    out = os.path.join(run.scratch, "writer_events.ndjson")
    inp = os.path.join(run.scratch, "writer_in.json")
    write_json(inp, {"cases": cases, "out": out})
    log("[replay] %d of %d (input, mode, workers, variant) combinations; %d fixed (%d of the special families), the rest drawn by the seed" % (
        len(cases), len(allc), len(small_cases), nspecial))
    rc, gout = run.go_driver("estargz", "./", OVERLAY, "^TestVerifWriterReplay$", env={"VERIF_IN": inp}, race=thorough, timeout=3000)
    if rc != 0:
        run.violation("datarace:estargz.Build", "data race reported in the estargz builder under the driver", {"log": gout[-6000:]})
        return
    events = read_ndjson(out)
    if len(events) != len(cases):
        raise Inconclusive("driver recorded %d events for %d cases" % (len(events), len(cases)))
    bad = [e for e in events if e["err"] not in ("", "refused")]      # "refused": unsupported entry type, an outcome the model has
    for e in bad[:3]:
        if e["err"] == "unreadable":
            # the independent reader could not read the blob per docs/estargz.md: "valid stream of its compression format ... parsed by the documented rules"
            run.violation("unreadable:%s:%s" % (where(e), e["errtext"][:60].replace(" ", "_")),
                          "the blob cannot be read by the documented rules: " + e["errtext"], {"event": brief(e)})
        elif "existing TOC JSON is not allowed" in e["errtext"] and not any(x["name"] == "stargz.index.json" for x in e["input"]):
            # AppendTarLossLess refuses a layer that has no TOC entry of its own: no blob at all for a valid input (LosslessIdentity)
            run.violation("refused:%s:existing-TOC-JSON" % where(e), "AppendTarLossLess refused an input without a stargz.index.json entry in its root: "
                          + e["errtext"], {"event": brief(e)})
        else:
            run.inconclusive.append("builder returned an error for a valid input (%s): %s" % (where(e), e["errtext"]))
    events = [e for e in events if e["err"] in ("", "refused")]
    ok = 0
    step = 1500
    for k in range(0, len(events), step):
        ok += validate(run, events[k:k + step], "b%d" % (k // step))
    run.cov["traces_validated_against_impl"] += ok
    nontriv = [e for e in events if any(t["type"] == "chunk" or t["inner"] > 0 for t in e["toc"])]
    run.cov["distinct_nontrivial"] += len({digest([e["input"], e["opt"], e["scheme"], e["minchunk"]]) for e in nontriv})
    run.cov["stages"].append({"stage": "replay", "blobs": len(events), "fixed_every_run": len(small_cases), "special_family_fixed": nspecial, "chunked_or_shared": len(nontriv),
                              "by_mode": {m: sum(1 for e in events if e["opt"]["mode"] == m) for m in ("build", "writer", "lossless")},
                              "by_scheme": {s: sum(1 for e in events if e["scheme"] == s) for s in ("gzip", "zstd", "external")}})
    run.add_samples([brief(e) for e in nontriv[:1]], limit=1)
    run.cov["exhaustive"] = ok == len(events) and not bad and len(cases) == len(allc)


if __name__ == "__main__":
    main(check, "C03")

#!/usr/bin/env python3
"""X_Mutex - extra module: util/namedmutex.NamedMutex (NamedMutex.tla): per-name mutual exclusion, independence of names,
the entry map never leaks, the counts account for holders+waiters, Unlock of an absent name panics and changes nothing,
every Lock returns under fairness."""
import os, sys, json
sys.path.insert(0, os.path.dirname(os.path.dirname(os.path.abspath(__file__))))
from vlib import *

PID = "X_Mutex"
OVERLAY = {"util/namedmutex/verif_namedmutex_test.go": "util/namedmutex/verif_namedmutex_test.go"}
# formulas that fail earlier than MutualExclusionPerName under the negative controls: dropped there so that the
# counterexample is a real double holder
NOT_ME = ("TypeOK", "IndependentNames", "MapNeverLeaks", "RefsAccount", "SameObject")


def set_of(xs, quote):
    return "{" + ", ".join(('"%s"' % x) if quote else str(x) for x in xs) + "}"


def negctl_temporal(run, module, cfg, overrides, prop):
    """vlib.tlc_negctl does not recognise this TLC's 'Temporal property X was violated' line: same check, own regex"""
    r = run.tlc(module, cfg, overrides, 4, 600)
    m = re.search(r"Temporal propert(?:y|ies) (.*) (?:was|were) violated", r.out)
    got = re.findall(r"\w+", m.group(1).replace(" and ", " ")) if m else []
    ok = prop in got
    log("[negctl] %-28s %-28s -> %s %s" % (cfg, overrides, got or r.violated, "OK" if ok else "NOT DETECTED"))
    if not ok:
        raise Inconclusive("negative control %s %s: expected temporal %s, got %s (%s)" % (cfg, overrides, prop, got, r.error))
    run.cov["stages"].append({"stage": "negctl", "config": cfg, "off": "fairness of Unlock", "violated": prop})


def validate(run, trace_path, gor, names, what):
    """trace validation + monitor of one concatenated trace file"""
    events = read_ndjson(trace_path)
    traces = split_traces(events)
    ov = {"Gor": set_of(range(1, gor + 1), False), "Names": set_of(names, True)}
    viol, mr = run.tlc_monitor("NamedMutexMonitor", "NamedMutexMonitor.cfg", trace_path, ov, timeout=600)
    res = run.tlc_trace("NamedMutexTrace", "NamedMutexTrace.cfg", trace_path, ov, timeout=600)
    log("[trace] %-10s gor=%d names=%d: %d traces %d events: conformance %s, monitor %s (%.0fs + %.0fs)" %
        (what, gor, len(names), len(traces), len(events),
         "accepted" if res["accepted"] else "REJECTED at line %s" % res["consumed"], viol or "ok", mr.wall, res["tlc"].wall))
    run.cov["evaluations"] += len(events)
    if viol:
        m = re.findall(r"/\\ l = (\d+)", mr.out)
        line = int(m[-1]) - 1 if m else 0
        if viol == "UnlockOfUnheldPanicsOrIsNoop" or viol == "<temporal>":
            viol = "UnlockOfUnheldPanicsOrIsNoop"
        tr = [t for t in traces if t[0] <= line][-1] if line else traces[0]
        idx = line - tr[0] + 1
        e = events[line - 1] if line else {}
        run.violation("monitor:%s:%s:%s" % (viol, what, e.get("ev", "?")),
                      "%s false on the recorded NamedMutex states at event %d (%s) of a %s trace" % (viol, idx, json.dumps(e), what),
                      {"gor": gor, "names": names, "formula": viol, "event_index": idx, "trace": tr[1][: idx + 1]})
        return len(traces)
    if not res["accepted"]:
        line = (res["consumed"] or 0) + 1
        tr = [t for t in traces if t[0] <= line][-1]
        if res["violated"]:
            run.violation("trace-invariant:%s:%s" % (res["violated"], what),
                          "%s false while following the recorded trace" % res["violated"],
                          {"gor": gor, "names": names, "trace": tr[1][: line - tr[0] + 2]})
        else:
            run.inconclusive.append("SPEC-DRIFT %s: event %d %s not explained by NamedMutex.tla although no property formula is false; prefix: %s" % (
                what, line - tr[0] + 1, json.dumps(events[line - 1]) if line <= len(events) else "?",
                json.dumps(tr[1][max(0, line - tr[0] - 6): line - tr[0] + 1])))
        return len(traces)
    run.cov["traces_validated_against_impl"] += len(traces)
    contended = lambda t: any(e.get("ev") == "LockSec" and e["refs"][e["n"]] >= 2 for e in t)
    run.cov["distinct_nontrivial"] += len({digest(t) for s, t in traces if contended(t)})
    run.add_samples([{"mode": what, "events": t[:14]} for s, t in traces if contended(t)][:1], limit=3)
    return len(traces)


def check(run):
    thorough = run.tier == "thorough"
    run.cov["rule"] = ("behaviours = walks covering every edge of the TLC state graph of NamedMutex (generation configs) replayed on a real "
                       "namedmutex.NamedMutex with one real goroutine per spec goroutine parked at the gates, plus seeded random walks and "
                       "free-running goroutine traces under -race; non-trivial = some Lock found the name already counted (refs >= 2); "
                       "distinct by hash of the recorded event list")
    run.assumptions += [
        "callers pair Lock(name)/Unlock(name) (layer.Resolver.Resolve, cache.directoryCache do); Unlock of a name held by somebody else is not modelled",
        "sync.Mutex is modelled as an object with an owner field; its starvation freedom is the SF fairness assumption of the liveness formulas",
        "TLC bounds: 3 goroutines x 2 names x 2 Lock/Unlock rounds (liveness: see stages); trace configs unbounded",
        "replay parks goroutines at the gate before mu.Lock(), real blocking inside sync.Mutex happens only in the free runs",
    ]
    # without the hook commit the driver cannot step or observe anything (every step would look like a hang)
    src = open(os.path.join(REPO, "util/namedmutex/namedmutex.go")).read()
    missing = [h for h in ("namedmutex.lock.sec", "namedmutex.lock.acquire", "namedmutex.unlock.sec", "namedmutex.unlock.release") if h not in src]
    if missing:
        raise Inconclusive("verifhook calls missing in %s/util/namedmutex/namedmutex.go: %s (cherry-pick the 'verifhook: ... (namedmutex.*)' commit)" % (REPO, missing))
    model_stage(run, thorough)      # M: design level, exhaustive
    binding_stage(run, thorough)    # R/T: replay + free runs, trace validation + monitor


def model_stage(run, thorough):
    run.tlc_mc("NamedMutex", "NamedMutex_mc.cfg", None, workers=8 if thorough else 4, timeout=1800)
    if thorough:
        run.tlc_mc("NamedMutex", "NamedMutex_mc.cfg", {"Names": '{"a", "b", "c"}'}, workers=8, timeout=3000, name="NamedMutex_mc.cfg 3x3 names x2")
        run.tlc_mc("NamedMutex", "NamedMutex_mc.cfg", {"Gor": "{1, 2, 3, 4}", "Names": '{"a", "b", "c"}', "Rounds": "1"}, workers=8, timeout=3000,
                   name="NamedMutex_mc.cfg 4 goroutines x3 names x1")
    # positive control: the other order of Unlock (release the per-name mutex, then decrement) is safe as well
    run.tlc_mc("NamedMutex", "NamedMutex_mc.cfg", {"UnlockOrder": '"mu_first"'}, workers=4, timeout=1800, name="NamedMutex_mc.cfg mu_first")
    # vacuity guards: each switched-off guard must produce two holders of one name
    for off in ({"DeleteOnlyAtZero": "FALSE"}, {"CountWaiters": "FALSE"}, {"OuterMutex": "FALSE"}):
        run.tlc_negctl("NamedMutex", "NamedMutex_mc.cfg", off, ["MutualExclusionPerName"], drop=NOT_ME)
    run.tlc_negctl("NamedMutex", "NamedMutex_mc.cfg", {"DeleteOnlyAtZero": "FALSE"}, ["MapNeverLeaks", "RefsAccount"], drop=("SameObject",))
    # the pinned code's Unlock of an absent name on a never-locked NamedMutex (nil maps): panic inside the section
    run.tlc_negctl("NamedMutex", "NamedMutex_mc.cfg", {"NilMapGuard": "FALSE"}, ["OuterNeverStuck", "UnlockOfUnheldPanicsOrIsNoop"], drop=("IndependentNames",))
    # liveness under fairness (no VIEW), and its negative control (holders need not unlock)
    run.tlc_mc("NamedMutex", "NamedMutex_mc_live.cfg", None if thorough else {"Gor": "{1, 2}"}, workers=4, timeout=3000,
               name="NamedMutex_mc_live.cfg" + ("" if thorough else " 2 goroutines"))
    if not thorough:
        run.tlc_mc("NamedMutex", "NamedMutex_mc_live.cfg", {"Rounds": "1"}, workers=4, timeout=3000, name="NamedMutex_mc_live.cfg 1 round")
    negctl_temporal(run, "NamedMutex", "NamedMutex_mc_unfair.cfg", {"Rounds": "1"}, "LockReturns")



def binding_stage(run, thorough):
    # R: every edge of the generation graphs, replayed
    gens = [(3, ["a", "b"], {"Rounds": "1"}), (2, ["a", "b"], {"Gor": "{1, 2}", "Rounds": "2"})]
    if thorough:
        gens.append((3, ["a"], {"Names": '{"a"}', "Rounds": "2"}))
    jobs = []
    exhaustive = True
    for gor, names, ov in gens:
        inits, edges = run.tlc_edges("NamedMutexGen", "NamedMutex_gen.cfg", ov, timeout=1800)
        walks, st = edge_cover(inits, edges, maxlen=30, rng=run.rng, extra_walks=300 if thorough else 40)
        log("[walks] gor=%d names=%s: %s" % (gor, names, st))
        exhaustive = exhaustive and st["covered"] == st["edges"]
        out = os.path.join(run.scratch, "replay_%d_%d_%s.ndjson" % (gor, len(names), ov["Rounds"]))
        jobs.append({"gor": gor, "names": names, "out": out,
                     "walks": [[{k: s[k] for k in ("act", "g", "n") if k in s} for s in w] for w in walks]})
        run.cov["stages"].append(dict(stage="edge-cover", gor=gor, names=len(names), **st))
    inp = os.path.join(run.scratch, "walks.json")
    write_json(inp, jobs)
    free = os.path.join(run.scratch, "free.ndjson")
    free_gor = 6
    rc, out = run.go_test("", "./util/namedmutex/", OVERLAY, "^TestVerif(Replay|Free)$", timeout=1500 if thorough else 600,
                          env={"VERIF_IN": inp, "VERIF_FREE_OUT": free, "VERIF_FREE_GOR": str(free_gor),
                               "VERIF_FREE_TRACES": "150" if thorough else "25", "VERIF_FREE_OPS": "10"})
    if rc != 0:
        tail = "\n".join(out.splitlines()[-80:])
        if "DATA RACE" in out or "concurrent map" in out:
            # thread safety of the NamedMutex (or of the plain counter it protects) IS the property
            m = re.search(r"WARNING: DATA RACE\n(?:.*\n){0,40}", out)
            where = "namedmutex.go" if re.search(r"namedmutex\.go:\d+", m.group(0) if m else out) else "caller-section"
            run.violation("datarace:%s" % where, "data race / concurrent map access reported under the NamedMutex driver (%s)" % where,
                          {"log": (m.group(0) if m else out[-6000:])})
        elif "unlock of unlocked mutex" in out:
            run.violation("fatal:unlock-of-unlocked-mutex", "an Unlock killed the process (fatal error: sync: unlock of unlocked mutex)", {"log": tail})
        elif "VERIF free-run blocked" in out:
            run.violation("hang:free-run", "free-running goroutines that pair Lock/Unlock blocked for ever", {"log": tail})
        elif "test timed out" in out and "namedmutex.(*NamedMutex)" in out:
            run.violation("hang:free-run", "free-running goroutines blocked for ever inside NamedMutex.Lock/Unlock", {"log": out[-8000:]})
        else:
            raise Inconclusive("driver failed (rc=%d):\n%s" % (rc, tail))
    for j in jobs:
        if os.path.exists(j["out"]):
            validate(run, j["out"], j["gor"], j["names"], "replay")
    if os.path.exists(free):
        validate(run, free, free_gor, ["a", "b", "c"], "free-run")
    elif rc == 0:
        raise Inconclusive("free-run trace missing")
    run.cov["exhaustive"] = exhaustive


if __name__ == "__main__":
    main(check, PID)

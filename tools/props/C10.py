#!/usr/bin/env python3
"""C10 - refcounted caches finalise each value exactly once and never while it is held (RefCache.tla)."""
import os, sys, json
sys.path.insert(0, os.path.dirname(os.path.dirname(os.path.abspath(__file__))))
from vlib import *

OVERLAY = {"util/cacheutil/verif_refcache_test.go": "util/cacheutil/verif_refcache_test.go"}
INTERNAL = ("RefsAccount", "LruOrderIsLive", "KeyOfLive")
KEYS3 = '{"k1", "k2", "k3"}'


def validate(run, trace_path, kind, cap, keys, what):
    """trace validation + monitor of one concatenated trace file; returns number of traces"""
    events = read_ndjson(trace_path)
    traces = split_traces(events)
    ov = {"Kind": '"%s"' % kind, "Cap": str(cap), "Keys": keys}
    res = run.tlc_trace("RefCacheTrace", "RefCacheTrace_ttl.cfg", trace_path, ov)
    viol, mr = run.tlc_monitor("RefCacheMonitor", "RefCacheMonitor.cfg", trace_path, ov)
    log("[trace] %-22s %s/%d: %d traces %d events: conformance %s, monitor %s" %
        (what, kind, cap, len(traces), len(events),
         "accepted" if res["accepted"] else "REJECTED at line %s" % res["consumed"], viol or "ok"))
    run.cov["evaluations"] += len(events)
    if viol:
        # a property formula is false on what the implementation did
        m = re.findall(r"/\\ l = (\d+)", mr.out)
        line = int(m[-1]) - 1 if m else 0
        tr = [t for t in traces if t[0] <= line][-1] if line else traces[0]
        run.violation("monitor:%s:%s:%s" % (viol, kind, what),
                      "%s false on the recorded %s cache states at event %d of a %s trace" % (viol, kind, line - tr[0] + 1, what),
                      {"kind": kind, "cap": cap, "formula": viol, "event_index": line - tr[0] + 1, "trace": tr[1][: line - tr[0] + 2]})
        return len(traces)
    if not res["accepted"]:
        line = (res["consumed"] or 0) + 1
        tr = [t for t in traces if t[0] <= line][-1]
        if res["violated"]:
            run.violation("trace-invariant:%s:%s:%s" % (res["violated"], kind, what),
                          "%s false while following the recorded %s trace" % (res["violated"], kind),
                          {"kind": kind, "cap": cap, "trace": tr[1][: line - tr[0] + 2]})
        else:
            run.inconclusive.append("SPEC-DRIFT %s/%d %s: event %d %s not explained by RefCache.tla although no C10 formula is false; prefix: %s" % (
                kind, cap, what, line - tr[0] + 1, json.dumps(events[line - 1]), json.dumps(tr[1][max(0, line - tr[0] - 5): line - tr[0] + 1])))
        return len(traces)
    run.cov["traces_validated_against_impl"] += len(traces)
    nontriv = sum(1 for s, t in traces if any(sum(e.get("cb", [])) > 0 for e in t))
    run.cov["distinct_nontrivial"] += len({digest(t) for s, t in traces if any(sum(e.get("cb", [])) > 0 for e in t)})
    run.add_samples([{"kind": kind, "cap": cap, "mode": what, "events": t[:12]} for s, t in traces[1:2]], limit=4)
    return len(traces)


def check(run):
    thorough = run.tier == "thorough"
    run.cov["rule"] = ("behaviours = walks covering every edge of the TLC state graph of RefCache (generation configs) replayed on real "
                       "TTLCache/LRUCache objects, plus seeded random walks and free-running goroutine traces; non-trivial = at least one "
                       "eviction callback ran; distinct by hash of the recorded event list")
    run.assumptions += ["time.AfterFunc is abstracted to: fired, waits for c.mu, evicts by key (TimerFire/TimerEvict)",
                        "TLC bounds: see stages; trace configs are unbounded in values/handles"]
    # M: design level, exhaustive
    big = {"MaxV": "4", "MaxH": "5"} if thorough else None
    run.tlc_mc("RefCache", "RefCache_mc_ttl.cfg", big, workers=16 if thorough else 8, timeout=3000)
    run.tlc_mc("RefCache", "RefCache_mc_lru.cfg", {"MaxV": "4", "MaxH": "5", "Keys": KEYS3, "Cap": "2"} if thorough else None, workers=8, timeout=3000)
    if thorough:
        run.tlc_mc("RefCache", "RefCache_mc_lru.cfg", {"MaxV": "4", "MaxH": "4", "Keys": KEYS3, "Cap": "1"}, workers=8, name="RefCache_mc_lru.cfg cap1")
    # vacuity guards: each property-bearing guard switched off must break a C10 formula
    run.tlc_negctl("RefCache", "RefCache_mc_ttl.cfg", {"OnceGuards": "FALSE"}, ["NotWhileHeld", "AtMostOnce", "DoubleReleaseHarmless"], drop=INTERNAL)
    run.tlc_negctl("RefCache", "RefCache_mc_ttl.cfg", {"IdentityCheck": "FALSE"}, ["NoLeak"], drop=INTERNAL)
    run.tlc_negctl("RefCache", "RefCache_mc_ttl.cfg", {"CallbackAtZero": "FALSE"}, ["NoLeak"], drop=INTERNAL)
    run.tlc_negctl("RefCache", "RefCache_mc_lru.cfg", {"OnceGuards": "FALSE"}, ["NotWhileHeld", "AtMostOnce", "DoubleReleaseHarmless"], drop=INTERNAL)

    # R: every edge of the generation graphs, replayed
    jobs = []
    exhaustive = True
    for kind, cfg, ov, cap in (("ttl", "RefCache_gen_ttl.cfg", {"MaxV": "3", "MaxH": "3"} if thorough else None, 0),
                               ("lru", "RefCache_gen_lru.cfg", {"MaxV": "3", "MaxH": "4"} if thorough else None, 1),
                               ("lru", "RefCache_gen_lru.cfg", {"Keys": KEYS3, "Cap": "2", "MaxV": "3", "MaxH": "3"}, 2)):
        inits, edges = run.tlc_edges("RefCacheGen", cfg, ov, timeout=1200)
        walks, st = edge_cover(inits, edges, maxlen=30, rng=run.rng, extra_walks=200 if thorough else 30)
        log("[walks] %s cap=%d: %s" % (kind, cap, st))
        exhaustive = exhaustive and st["covered"] == st["edges"]
        keys = ["k1", "k2", "k3"] if ov and "Keys" in ov else ["k1", "k2"]
        out = os.path.join(run.scratch, "replay_%s_%d.ndjson" % (kind, cap))
        jobs.append({"kind": kind, "cap": cap, "keys": keys, "out": out,
                     "walks": [[{k: v for k, v in s.items() if k != "post"} for s in w] for w in walks]})
        run.cov["stages"].append(dict(stage="edge-cover", kind=kind, cap=cap, **st))
    inp = os.path.join(run.scratch, "walks.json")
    write_json(inp, jobs)
    free = os.path.join(run.scratch, "free")
    rc, out = run.go_driver("", "./util/cacheutil/", OVERLAY, "^TestVerif(Replay|Free)$",
                            env={"VERIF_IN": inp, "VERIF_FREE_OUT": free,
                                 "VERIF_FREE_TRACES": "400" if thorough else "60", "VERIF_FREE_OPS": "40"})
    if rc != 0:
        # the race detector reported a race on the state the property is about; the traces were still written
        m = re.search(r"WARNING: DATA RACE\n(?:.*\n){0,40}", out)
        run.violation("datarace:cacheutil", "data race reported in util/cacheutil under the driver", {"log": (m.group(0) if m else out[-6000:])})
    for j in jobs:
        keys = "{" + ", ".join('"%s"' % k for k in j["keys"]) + "}"
        validate(run, j["out"], j["kind"], j["cap"], keys, "replay")
    for kind, cap in (("ttl", 0), ("lru", 1), ("lru", 2)):
        validate(run, "%s_%s_%d.ndjson" % (free, kind, cap), kind, cap, KEYS3, "free-run")
    run.cov["exhaustive"] = exhaustive


if __name__ == "__main__":
    main(check, "C10")

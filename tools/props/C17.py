#!/usr/bin/env python3
"""C17 - FUSE manager's persistent record equals its live mounts across re-init/restart (FuseMgr.tla)."""
import os, sys, json
sys.path.insert(0, os.path.dirname(os.path.dirname(os.path.abspath(__file__))))
from vlib import *

OVERLAY = {"fusemanager/verif_fusemgr_test.go": "fusemanager/verif_fusemgr_test.go"}
INTERNAL = ("TypeOK",)
INV = ["RecordedLabelsServed", "RecordEqualsServing", "NoSecondMount", "MapMatchesLive", "NoPanic"]
# one negative control per property-bearing guard of service.go / fusestore.go: guard off -> one of these formulas must fail
NEGCTL = [
    ("ReadyGate", ["BeforeInitFails", "NoFsMountFails"]),
    ("NilFsCheck", ["NoFsMountFails", "NoPanic"]),
    ("SkipServed", ["NoSecondMount", "MapMatchesLive", "NoRemountCall"]),
    ("RecordOnlyMounted", ["RecordEqualsServing"]),
    ("KeepOnFailedUnmount", ["RecordEqualsServing", "MapMatchesLive"]),
    ("ForgetOnUnmount", ["RecordEqualsServing"]),
    ("UseCreator", ["ServedByCreator"]),
    ("AdoptNewFs", ["NewMountsUseNewConfig"]),
    ("RestoreOnInit", ["RestartRemountsRecordedWithLabels", "RecordEqualsServing"]),
    ("UnknownUnmountOK_G", ["UnknownUnmountOK"]),
    ("OverwriteRecord", ["RecordedLabelsServed"]),
]
ACTS = ("Init", "Mount", "Check", "Unmount", "Restart", "Close")


def random_walks(rng, n, nmp, maxlen):
    """Seeded request sequences beyond the model-checking bounds (any number of Init requests / restarts,
    arbitrary failure sets); the trace specification explains them with unbounded constants."""
    mps = ["m%d" % i for i in range(1, nmp + 1)]
    walks = []
    for _ in range(n):
        w = []
        closed = False
        for _ in range(rng.randrange(4, maxlen + 1)):
            p = rng.random()
            if closed:
                # after Close only a restart (or refused requests) - see FuseMgr.tla, deviations
                if p < 0.5:
                    w.append({"act": "Restart"})
                    closed = False
                else:
                    w.append({"act": rng.choice(["Mount", "Check", "Unmount"]), "mp": rng.choice(mps), "lab": "la", "fsok": True})
                continue
            if p < 0.20:
                fail = rng.choice(["none"] * 6 + ["badcfg", "cfgfunc", "newfs"])
                rf = [m for m in mps if rng.random() < 0.3]
                w.append({"act": "Init", "fail": fail, "rf": rf})
            elif p < 0.52:
                w.append({"act": "Mount", "mp": rng.choice(mps), "lab": rng.choice(["la", "lb"]), "fsok": rng.random() < 0.8})
            elif p < 0.62:
                w.append({"act": "Check", "mp": rng.choice(mps), "fsok": rng.random() < 0.8})
            elif p < 0.87:
                w.append({"act": "Unmount", "mp": rng.choice(mps), "fsok": rng.random() < 0.75})
            elif p < 0.93:
                w.append({"act": "Restart"})
            elif p < 0.97:
                w.append(rng.choice([{"act": "MountCrash", "mp": rng.choice(mps), "lab": rng.choice(["la", "lb"])},
                                     {"act": "UnmountCrash", "mp": rng.choice(mps)}]))
            else:
                w.append({"act": "Close"})
                closed = True
        walks.append(w)
    return walks


def nontrivial(tr):
    # a behaviour that exercises the core of C17: a re-Init or restart-Init that happened with recorded mountpoints
    return any(e.get("act") == "Init" and any(v.get("lab") != "none" for v in e.get("store", {}).values()) for e in tr)


def validate(run, trace_path, nmp, kinds):
    """monitor (property formulas on recorded states) + conformance of one concatenated trace file; kinds[i] = origin of trace i.
    After a violation that KNOWN_FINDINGS.txt lists, the offending trace is cut (a panic: every trace is truncated before its
    first panic of that kind) and the rest is examined again, so that a known finding does not hide others."""
    events = read_ndjson(trace_path)
    items = [(kinds[i] if i < len(kinds) else "?", t) for i, (s0, t) in enumerate(split_traces_act(events))]
    ov = {"NMp": str(nmp)}
    tmo = 3000 if run.tier == "thorough" else 900
    run.cov["evaluations"] += len(events)
    nviol = 0
    for rnd in range(5):
        t0 = time.time()
        path = trace_path if rnd == 0 else "%s.r%d" % (trace_path, rnd)
        if rnd:
            with open(path, "w") as fh:
                for k, t in items:
                    for e in t:
                        fh.write(json.dumps(e) + "\n")
        starts, n = [], 1
        for k, t in items:
            starts.append(n)
            n += len(t)
        viol, mr = run.tlc_monitor("FuseMgrMonitor", "FuseMgrMonitor.cfg", path, ov, timeout=tmo)
        log("[monitor] nmp=%d round %d: %d traces (%s) %d events: %s  %.1fs" % (
            nmp, rnd, len(items), ", ".join("%d %s" % (sum(1 for k, t in items if k == x), x) for x in sorted({k for k, t in items})),
            n - 1, viol or "ok", time.time() - t0))
        if not viol:
            break
        nviol += 1
        m = re.findall(r"/\\ l = (\d+)", mr.out)
        # the last state TLC prints has l = k: event k-1 is the one loaded last, i.e. the failing request
        line = max(1, int(m[-1]) - 1) if m else 1
        ti = max(j for j, s0 in enumerate(starts) if s0 <= line)
        what, tr = items[ti]
        idx = line - starts[ti]
        ev = tr[idx]
        sig = "monitor:%s:%s:%s" % (viol, ev.get("act"), ev.get("res"))
        if ev.get("res") == "panic" and ev.get("cur") == 0:
            sig += ":curFs-nil"
        run.violation(sig, "%s false on the recorded fusemanager state at request %d (%s) of a %s history%s" % (
            viol, idx, ev.get("act"), what, (": " + ev["msg"]) if ev.get("msg") else ""),
            {"formula": viol, "nmp": nmp, "request_index": idx, "history": [strip(e) for e in tr[: idx + 1][-12:]]})
        known, _ = load_known(run.pid)
        if not any(k["match"] in sig for k in known):
            return      # an unlisted violation decides the run; only a known finding is looked past
        if ev.get("res") == "panic":
            same = lambda e: e.get("res") == "panic" and e.get("act") == ev.get("act") and (e.get("cur") == 0) == (ev.get("cur") == 0)
            cut = []
            for k, t in items:
                j = next((i for i, e in enumerate(t) if same(e)), None)
                t = t if j is None else t[:j]
                if len(t) > 1:
                    cut.append((k, t))
            items = cut
        else:
            items = items[:ti] + items[ti + 1:]
        if not items:
            break
    else:
        log("[monitor] nmp=%d: still violations after 5 rounds, giving up on the rest" % nmp)
        return
    if not items:
        return
    t0 = time.time()
    res = run.tlc_trace("FuseMgrTrace", "FuseMgrTrace.cfg", path, ov, timeout=tmo)
    log("[conformance] nmp=%d: %d traces: %s  %.1fs" % (
        nmp, len(items), "accepted" if res["accepted"] else "REJECTED at line %s" % res["consumed"], time.time() - t0))
    if not res["accepted"]:
        line = (res["consumed"] or 0) + 1
        ti = max(j for j, s0 in enumerate(starts) if s0 <= line)
        what, tr = items[ti]
        idx = line - starts[ti]
        if res["violated"]:
            run.violation("trace-invariant:%s:%s" % (res["violated"], what),
                          "%s false while following the recorded history" % res["violated"],
                          {"nmp": nmp, "history": [strip(e) for e in tr[: idx + 1][-12:]]})
        else:
            run.inconclusive.append("SPEC-DRIFT %s nmp=%d: request %d %s not explained by FuseMgr.tla although no C17 formula is false; prefix: %s" % (
                what, nmp, idx, json.dumps(tr[idx] if idx < len(tr) else None), json.dumps([strip(e) for e in tr[max(0, idx - 4): idx]])))
        return
    run.cov["traces_validated_against_impl"] += len(items)
    nt = [t for k, t in items if nontrivial(t)]
    run.cov["distinct_nontrivial"] += len({digest([strip(e) for e in t]) for t in nt})
    if not nviol:
        run.add_samples([{"mode": k, "events": [strip(e) for e in t[:10]]} for k, t in items if nontrivial(t)][3:4], limit=3)


def strip(e):
    return {k: v for k, v in e.items() if k not in ("msg", "extra")}


def split_traces_act(events):
    res, cur, start = [], [], 1
    for i, e in enumerate(events, 1):
        if e.get("act") == "Reset":
            if cur:
                res.append((start, cur))
            cur, start = [e], i
        else:
            cur.append(e)
    if cur:
        res.append((start, cur))
    return res


def stage_model(run):
    """M: design level, exhaustive + negative controls"""
    thorough = run.tier == "thorough"
    run.tlc_mc("FuseMgr", "FuseMgr_mc.cfg", None if thorough else {"MaxEpoch": "2"}, workers=4, timeout=1500,
               name="FuseMgr_mc.cfg" if thorough else "FuseMgr_mc.cfg 2 manager processes")
    if thorough:
        run.tlc_mc("FuseMgr", "FuseMgr_mc.cfg", {"MaxInit": "4"}, workers=4, timeout=3000, name="FuseMgr_mc.cfg 4 Init requests")
        run.tlc_mc("FuseMgr", "FuseMgr_mc.cfg", {"NMp": "3", "Labs": '{"la"}'}, workers=4, timeout=3000, name="FuseMgr_mc.cfg 3 mountpoints, 1 label set")
    for guard, expect in NEGCTL:
        run.tlc_negctl("FuseMgr", "FuseMgr_mc.cfg", {guard: "FALSE", "MaxInit": "2", "MaxEpoch": "2"}, expect, drop=INTERNAL)
    # observation (not part of the verdict): the code stops restoring at the first failing record
    obs_cfg = run.cfg_text("FuseMgr_mc.cfg", {"MaxInit": "2", "MaxEpoch": "2"}).replace("PROPERTIES ", "PROPERTIES StrictRestoreAttemptsAll ")
    r = run.tlc("FuseMgr", obs_cfg, None, 4, 300)
    log("[observation] restore stops at the first failing record: StrictRestoreAttemptsAll %s" %
        ("has a counterexample (allowed by C17: Init reports the error)" if r.violated == "StrictRestoreAttemptsAll" else "-> %s" % (r.violated or r.error or "holds")))
    run.cov["stages"].append({"stage": "observation", "formula": "StrictRestoreAttemptsAll", "result": r.violated or "holds"})


def stage_replay(run):
    """R: every edge of the generation graph(s) replayed on the real server, plus random walks; then monitor + conformance"""
    thorough = run.tier == "thorough"
    # the graphs differ in what they bound: two mountpoints with few Init requests, one mountpoint with more Init requests
    # (a re-Init that has to restore what an earlier Init of the same process failed to restore needs three of them)
    # and, with two label sets: restart -> Init failing to restore m1 (record stays) -> Mount(m1, other labels) -> restart -> Init
    one = {"NMp": "1", "MaxInit": "3", "MaxEpoch": "3", "Labs": '{"la", "lb"}', "InitFails": '{"none"}'}
    gens = ([{"MaxInit": "3", "MaxEpoch": "3"}, {"Labs": '{"la", "lb"}'}, {"NMp": "1", "MaxInit": "4", "MaxEpoch": "3"}]
            if thorough else [None, one])
    jwalks, kinds = [], []
    exhaustive = True
    for gen_ov in gens:
        inits, edges = run.tlc_edges("FuseMgrGen", "FuseMgr_gen.cfg", gen_ov, timeout=2400)
        walks, st = edge_cover(inits, edges, maxlen=40, rng=run.rng, extra_walks=300 if thorough else 60)
        log("[walks] %s %s" % (gen_ov or "", st))
        run.cov["stages"].append(dict(stage="edge-cover", config=str(gen_ov or "FuseMgr_gen.cfg"), **st))
        exhaustive = exhaustive and st["covered"] == st["edges"]
        jwalks += [[{k: v for k, v in s.items() if k not in ("post", "res", "calls", "c")} for s in w] for w in walks]
        kinds += ["replay"] * len(walks)
    run.cov["exhaustive"] = exhaustive
    nrand = 600 if thorough else 100
    jobs = [{"out": os.path.join(run.scratch, "nmp2.ndjson"), "nmp": 2, "kinds": kinds + ["random"] * nrand,
             "walks": jwalks + random_walks(run.rng, nrand, 2, 30)},
            {"out": os.path.join(run.scratch, "nmp3.ndjson"), "nmp": 3, "kinds": ["random"] * nrand,
             "walks": random_walks(run.rng, nrand, 3, 40)}]
    inp = os.path.join(run.scratch, "walks.json")
    write_json(inp, jobs)
    run.go_driver("", "./fusemanager/", OVERLAY, "^TestVerifFuseMgrReplay$", env={"VERIF_IN": inp}, race=True, timeout=2400)
    for j in jobs:
        validate(run, j["out"], j["nmp"], j["kinds"])


def check(run):
    run.cov["rule"] = ("behaviours = request sequences (Init/Mount/Check/Unmount/Close/manager restart with injected failures) executed on a real "
                       "fusemanager.Server with a real bolt store file: walks covering every edge of the TLC state graph of FuseMgr (generation "
                       "config) + seeded random walks on it + seeded random sequences beyond the bounds; non-trivial = contains an Init that ran "
                       "with recorded mountpoints (re-Init with live mounts or Init after a manager restart); distinct by hash of the recorded events")
    run.assumptions += [
        "every RPC is one atomic step (C17 quantifies over histories, not schedules); bolt transactions are atomic, so a crash inside an "
        "RPC (one durable write each) equals a restart directly before or after it",
        "filesystems are recording fakes injected through the hook after service.NewFileSystem (the real constructor runs first; the config it "
        "received is read back from the real object)",
        "no foreign kernel mounts on the mountpoints (Unmount of an unknown mountpoint always takes the 'not mounted' branch); no request "
        "after Close except a restart; errors of storeFuseInfo/removeFuseInfo (ignored by the code) are not injected",
        "quiescent = status Ready and an Init request has returned in this manager process; 'restoration failed' is read as 'recorded but "
        "not served when the last Init returned an error' (restoreFuseInfo stops at the first failing record)",
    ]
    stage_model(run)
    stage_replay(run)


if __name__ == "__main__":
    main(check, "C17")

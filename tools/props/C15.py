#!/usr/bin/env python3
"""C15 - prefetch and background fetch make later reads local; waiting is bounded (Prefetch.tla)."""
import os, sys, json, threading
from concurrent.futures import ThreadPoolExecutor
sys.path.insert(0, os.path.dirname(os.path.dirname(os.path.abspath(__file__))))
from vlib import *

OV_ROOT = {"fs/layer/verif_prefetch.go": "fs/layer/verif_prefetch.go",
           "fs/layer/verif_prefetch_test.go": "fs/layer/verif_prefetch_test.go"}
OV_CMD = {"fs/layer/verif_prefetch.go": "fs/layer/verif_prefetch.go",
          "cmd/containerd-stargz-grpc/db/verif_prefetch_test.go": "cmd/containerd-stargz-grpc/db/verif_prefetch_test.go"}

GUARDS = [("StrictFilter", ["PrefetchTrafficConfined"]),
          ("CloseOnFailure", ["WaiterClosedAtEnd"]),
          ("HonourNoPrefetch", ["NoPrefetchLandmarkNoTraffic"]),
          ("CapAtBlobSize", ["ConfiguredSizeCapped"]),
          ("BgAllFiles", ["AfterBackgroundFetchOfflineReadable", "SuccessMeansCached"]),
          ("WaitHonoursTimeout", ["WaitNeverStuck"]),
          ("ThresholdOnEffective", ["WaitNilOnlyIfEndedOrAsync"]),
          ("FailOnCacheError", ["SuccessMeansCached"])]
INTERNAL = ("TypeOK", "OnceRunsOnce")


# ------------------------------------------------------------------------------------------- layers (input space)
def layers(seed, thorough):
    """Base layers: tar entries (with and without the root entry "./" that `tar -C dir .` emits), chunking,
    compression, prioritized list. Sizes vary with the seed so that offsets fall differently on registry chunks."""
    rng = random.Random(seed * 7 + 3)

    def sz(lo, hi):
        return rng.randrange(lo, hi)
    L = []
    # prefetch landmark, files of several chunks
    L.append(dict(id="lm", ents=[dict(name="a/"), dict(name="a/p1", size=sz(600, 900)), dict(name="p2", size=sz(300, 600)),
                                 dict(name="b/"), dict(name="b/n1", size=sz(950, 1150)), dict(name="n2", size=sz(300, 700))],
                  prio=["a/p1", "p2"], chunk=300, minchunk=0, comp="gzip", landmark="build", cs=256))
    # the same shape as `tar -C dir .` writes it: root entry "./" and "./"-prefixed names
    L.append(dict(id="lmdot", ents=[dict(name="./"), dict(name="./a/"), dict(name="./a/p1", size=sz(500, 900)),
                                    dict(name="./p2", size=sz(300, 600)), dict(name="./n1", size=sz(1600, 1900)), dict(name="./z9", size=sz(200, 400))],
                  prio=["./a/p1", "./p2"], chunk=500, minchunk=0, comp="gzip", landmark="build", cs=256))
    # no-prefetch landmark
    L.append(dict(id="nolm", ents=[dict(name="f1", size=sz(400, 700)), dict(name="d/"), dict(name="d/f2", size=sz(950, 1100)), dict(name="f3", size=sz(200, 400))],
                  prio=[], chunk=300, minchunk=0, comp="gzip", landmark="build", cs=256))
    # no landmark at all (plain stargz writer): configured size decides
    L.append(dict(id="none", ents=[dict(name="f1", size=sz(400, 600)), dict(name="d/"), dict(name="d/f2", size=sz(1100, 1300)),
                                   dict(name="f3", size=sz(300, 500))],
                  prio=[], chunk=350, minchunk=0, comp="gzip", landmark="none", cs=200))
    # several files in one compressed stream (min chunk size): the pre-reader caches neighbours
    L.append(dict(id="grp", ents=[dict(name="g1", size=sz(200, 300)), dict(name="g2", size=sz(200, 300)), dict(name="d/"),
                                  dict(name="d/g3", size=sz(200, 300)), dict(name="g4", size=sz(200, 300)), dict(name="g5", size=sz(900, 1200))],
                  prio=["g1", "g2"], chunk=100000, minchunk=700, comp="gzip", landmark="build", cs=256))
    # a file whose compressed remainder exceeds the 2 MiB an on-demand chunk read pulls into the blob cache
    # (estargz fileReader.ReadAt peeks min(2 MiB, rest of the file)): only then does a single-chunk read leave
    # registry chunks of the same file unfetched
    L.append(dict(id="big", ents=[dict(name="p0", size=sz(300, 500)), dict(name="d/"), dict(name="d/big", size=3 * 900000 - sz(1, 5000)),
                                  dict(name="z9", size=sz(300, 500))],
                  prio=["p0"], chunk=900000, minchunk=0, comp="gzip", landmark="build", cs=262144))
    if thorough:
        L.append(dict(id="zst", ents=[dict(name="./"), dict(name="./z1", size=sz(600, 900)), dict(name="./d/"), dict(name="./d/z2", size=sz(400, 700)),
                                      dict(name="./z3", size=sz(500, 800))],
                      prio=["./d/z2"], chunk=450, minchunk=0, comp="zstd", landmark="build", cs=300))
        L.append(dict(id="nonedot", ents=[dict(name="./"), dict(name="./f1", size=sz(400, 600)), dict(name="./f2", size=sz(400, 600))],
                      prio=[], chunk=1000, minchunk=0, comp="gzip", landmark="none", cs=128))
    for x in L:
        x["seed"] = seed * 100 + len(x["id"])
        for e in x["ents"]:
            e.setdefault("size", 0)
    return L


def variants(base, lay, thorough):
    """Configurations of one layer: configured size, async threshold, prefetch chunk size, process counts."""
    size, off, loff, lm = lay["size"], lay["off"], lay["loff"], lay["lm"]
    V = []

    def v(tag, cfg, thr, pcs=0, np=1, nw=1, nb=0, tmo=300, rd=(), ro=0, pt=()):
        d = dict(base)
        d.update(id="%s.%s" % (base["id"], tag), cfg=cfg, thr=thr, pcs=pcs, np=np, nw=nw, nb=nb, tmo=tmo, cache="dir",
                 rd=sorted({x for x in rd if 0 < x <= lay["nf"]}), ro=ro, pt=[x for x in pt if x in lay["pt"]])
        V.append(d)
    nf = lay["nf"]
    # a file of >= 3 chunks for single-chunk reads: a non-prioritized one if there is one
    # (not the last file of the blob: its tail shares registry chunks with the TOC, which is fetched at mount time)
    cand = [x for x in lay["pt"] if x not in lay["prio"] and x != nf] or [x for x in lay["pt"] if x != nf] or lay["pt"]
    part = sorted(cand, key=lambda x: -lay["nch"][x - 1])[:1]
    pf = part[0] if part else nf
    if lm == "prefetch":
        v("w", 10 ** 6, 0, np=2, nw=1, rd=[1])                                  # two Prefetch callers and a waiter, no threshold
        v("async", 10 ** 6, max(1, loff // 2), nw=2, pcs=2 * base["cs"])       # two waiters, threshold below the landmark offset
        v("below", 10 ** 6, loff + 200, nw=2, rd=[1])                           # configured size > threshold > landmark offset: no early release
        v("bg", 10 ** 6, 0, nw=0, nb=1, tmo=1000, rd=([pf] if base["id"] == "big" else [2, pf]), ro=1, pt=part)   # background fetch, prioritized tasks, single-chunk reads, registry off at the end
    elif lm == "noprefetch":
        v("w", 10 ** 6, 0, np=2, nw=1, rd=[2])
        v("bg", size // 2, 1, nw=(1 if thorough else 0), nb=1, rd=[pf], ro=1, pt=(part if thorough else ()))
    else:
        mid = off[1] if len(off) > 1 else size // 2
        v("exact", mid, 0, nw=1, rd=[1, 2])                                     # configured size = offset of a file ( < versus <= )
        v("mid", mid + 150, mid, nw=(1 if thorough else 0), nb=1, pcs=2 * base["cs"], rd=[pf], ro=1, pt=(part if thorough else ()))  # ends inside that file; threshold just below
        v("big", size + 1000, size + 500, nw=2, rd=[nf])                        # beyond the blob: capped, and the cap is below the threshold
    if base["id"] == "big":
        V = [x for x in V if x["id"] == "big.bg"]        # megabytes per read: only the scenario it was built for
    if not thorough:
        keep = {"lm.w", "lm.async", "lm.below", "lmdot.bg", "nolm.w", "nolm.bg", "none.exact", "none.mid", "none.big", "grp.bg", "big.bg"}
        V = [x for x in V if x["id"] in keep]
    return V


# ------------------------------------------------------------------------------------------- TLA+ generation
def tla(v):
    if isinstance(v, bool):
        return "TRUE" if v else "FALSE"
    if isinstance(v, int):
        return str(v)
    if isinstance(v, str):
        return '"%s"' % v
    if isinstance(v, list):
        return "<<" + ", ".join(tla(x) for x in v) + ">>"
    raise ValueError(v)


FIELDS = ["id", "nf", "off", "span", "pre", "prf", "prio", "lm", "loff", "size", "cs", "cfg", "thr", "f0", "rd", "ro", "pt", "np", "nw", "nb"]


def scen_module(scens):
    base = open(os.path.join(SPEC, "PrefetchScen.tla")).read()
    recs = ",\n    ".join("[" + ", ".join("%s |-> %s" % (k, tla(s[k])) for k in FIELDS) + "]" for s in scens)
    return re.sub(r"(?m)^GenScen == .*$", "GenScen == {\n    " + recs.replace("\\", "\\\\") + "}", base)


def directed_walk(inits, edges, preds, maxlen=40):
    """Shortest walk from an initial state that takes, in this order, one edge satisfying each predicate."""
    out = collections.defaultdict(list)
    for e in edges:
        out[canon(e["from"])].append(e)
    start = [(canon(i), 0) for i in inits]
    prev = {s: None for s in start}
    dq = collections.deque(start)
    while dq:
        node, k = cur = dq.popleft()
        if k == len(preds):
            w = []
            while prev[cur] is not None:
                cur, e = prev[cur]
                w.append(dict(e["last"], post=e["to"]))
            return list(reversed(w))
        for e in out.get(node, ()):
            nk = k + 1 if preds[k](e["last"]) else k
            nxt = (canon(e["to"]), nk)
            if nxt not in prev:
                prev[nxt] = (cur, e)
                dq.append(nxt)
    return None


def go_stage(run, mode, scens, out, par, stores=("memory", "db"), timeout=1500, race=True):
    """Runs the driver for both metadata stores (two go test processes in parallel). Returns {store: events}."""
    inp = os.path.join(run.scratch, "in-%s-%d.json" % (mode, run.nrun))
    write_json(inp, {"mode": mode, "out": out, "par": par, "scens": scens})
    env = {"VERIF_IN": inp}
    jobs = {"memory": ("", "./fs/layer/", OV_ROOT), "db": ("cmd", "./containerd-stargz-grpc/db/", OV_CMD)}
    res = {}

    def one(st):
        md, pkg, ov = jobs[st]
        return run.go_driver(md, pkg, ov, "^TestVerifC15$", env=env, timeout=timeout, race=race)
    with ThreadPoolExecutor(len(stores)) as ex:
        futs = {st: ex.submit(one, st) for st in stores}
        for st, f in futs.items():
            rc, o = f.result()
            if rc != 0:
                m = re.search(r"WARNING: DATA RACE\n(?:.*\n){0,40}", o)
                run.violation("datarace:%s:%s" % (mode, st), "data race reported under the C15 driver", {"log": m.group(0) if m else o[-4000:]})
            res[st] = read_ndjson(out + "." + st)
            res["free-" + st] = read_ndjson(out + ".free." + st) if os.path.exists(out + ".free." + st) else []
    return res


def sig_of(events, line, formula, mode):
    """Signature: formula, mode, scenario (layer.variant/store) and the event that exposed it."""
    traces = split_traces(events)
    tr = [t for t in traces if t[0] <= line][-1]
    sc = tr[1][0].get("sc", {})
    bad = events[line - 1]
    idx = line - tr[0]
    what = bad.get("ev")
    if what == "Read":
        what += ".f%s" % bad.get("f")
    return ("monitor:%s:%s:%s:%s" % (formula, mode, sc.get("id"), what),
            {"formula": formula, "mode": mode, "scenario": sc, "event_index": idx, "trace": tr[1][1: idx + 1][-40:]}, bad)


def check(run):
    thorough = run.tier == "thorough"
    lock = threading.Lock()
    prep0 = run._prep

    def prep_locked(*a, **kw):
        with lock:
            return prep0(*a, **kw)
    run._prep = prep_locked
    run.cov["rule"] = ("replay: walks covering every edge of the TLC state graph of Prefetch.tla instantiated with the measured layout of each real layer "
                       "(landmark kinds, root entry './', grouped streams; configured size / threshold / prefetch chunk size variants), executed on a "
                       "layer resolved by the real layer.Resolver over a recording registry, for the memory and the bolt metadata store; free run: "
                       "concurrent Prefetch/Wait/BackgroundFetch calls; non-trivial = trace contains a Read after a completed prefetch or background fetch, "
                       "or a wait outcome; distinct by hash")
    run.assumptions += [
        "chunk cache = directory cache with SyncAdd (completed means persisted); with asynchronous persistence a miss in the window is allowed by C11",
        "reads are complete reads through reader.Reader.OpenFile (the layer below the FUSE nodes), not through a kernel mount",
        "registry = remote.Handler (in-memory, request log, pass/fail/hold/off); the HTTP fetcher and its retries are C06/C18",
        "file granularity in the spec; after a failed walk any monotone chunk-cache outcome is accepted; requests are bounded by the hull of the missing chunks",
        "task manager abstract (C13): background fetch only proceeds while no prioritized task is active; silence period 5 ms",
        "configured prefetch size 0 and a closed layer are not exercised; waits are classified with 10 s of slack above the timeout",
    ]

    # ---- M (in a thread: runs while the layers are built and measured)
    def model_stage():
        if os.environ.get("C15_SKIP_M"):          # development aid: binding stages only (the run is then reported inconclusive)
            run.inconclusive.append("C15_SKIP_M set: exhaustive stage skipped")
            return
        if thorough:
            run.tlc_mc("PrefetchMC", "Prefetch_mc.cfg", None, workers=4, timeout=3000, name="Prefetch_mc.cfg (2 callers of each kind)")
        else:
            run.tlc_mc("PrefetchMC", "Prefetch_mcq.cfg", None, workers=4, timeout=1500)
        run.tlc_mc("PrefetchMC", "Prefetch_live.cfg", None, workers=4, timeout=900, name="Prefetch_live.cfg (WaitReturns, fairness)")
        for g, exp in GUARDS:
            run.tlc_negctl("PrefetchMC", "Prefetch_mcq.cfg", {g: "FALSE"}, exp, drop=INTERNAL)
        txt = re.sub(r"INVARIANTS WaitNeverStuckE", "", run.cfg_text("Prefetch_live.cfg", {"WaitHonoursTimeout": "FALSE"}))
        lr = run.tlc("PrefetchMC", txt, None, 4, 600)
        ok = "Temporal property WaitReturns was violated" in lr.out or lr.violated == "<temporal>"
        log("[negctl] Prefetch_live.cfg WaitHonoursTimeout=FALSE -> %s" % ("WaitReturns violated OK" if ok else "NOT DETECTED"))
        if not ok:
            raise Inconclusive("negative control of the liveness property not detected: %s" % lr.error)
        run.cov["stages"].append({"stage": "negctl", "config": "Prefetch_live.cfg", "off": {"WaitHonoursTimeout": "FALSE"}, "violated": "WaitReturns"})
    mex = ThreadPoolExecutor(1)
    mfut = mex.submit(model_stage)

    # ---- layouts of the real layers (memory store; the db store's own view is recorded again at replay time)
    base = layers(run.seed, thorough)
    lay_out = os.path.join(run.scratch, "layout.ndjson")
    probe = [dict(b, cfg=1000, thr=0, pcs=0, np=1, nw=1, nb=1, tmo=300, cache="dir") for b in base]
    lays = go_stage(run, "layout", probe, lay_out, 4, stores=("memory",), race=False)["memory"]   # measuring only: no race detector
    bad = [e for e in lays if e.get("ev") != "Layout"]
    if bad:
        raise Inconclusive("layout stage: %s" % bad[:2])
    scens = []
    for b, e in zip(base, lays):
        for v in variants(b, e["sc"], thorough):
            s = dict(e["sc"])
            s.update(id=v["id"], cfg=v["cfg"], thr=v["thr"], np=v["np"], nw=v["nw"], nb=v["nb"], rd=v["rd"], ro=v["ro"], pt=v["pt"])
            v["_sc"] = s
            scens.append(v)
    only = os.environ.get("C15_ONLY")            # development aid: restrict to scenarios whose id starts with this
    if only:
        scens = [v for v in scens if v["id"].startswith(only)]
        run.inconclusive.append("C15_ONLY set: scenario space restricted")
    log("[layers] %d layers, %d scenarios: %s" % (len(base), len(scens), " ".join(v["id"] for v in scens)))

    # ---- R: generation graph per scenario (one TLC run for all), edge cover, replay on both stores
    r = run.tlc("PrefetchGen", "Prefetch_gen.cfg", None, 1, 1500, extra={"PrefetchScen.tla": scen_module([v["_sc"] for v in scens])})
    if not r.completed:
        raise Inconclusive("generation failed: %s\n%s" % (r.error or r.violated, "\n".join(r.out.splitlines()[-30:])))
    inits = [json.loads(x) for x in r.lines("VINIT")]
    edges = [json.loads(x) for x in r.lines("VEDGE")]
    log("[gen] %d scenarios: %d edges, %d distinct states, %.1fs" % (len(inits), len(edges), r.distinct, r.wall))
    run.cov["stages"].append({"stage": "gen", "config": "Prefetch_gen.cfg (measured layouts)", "edges": len(edges), "distinct": r.distinct})
    exhaustive = True
    nsteps = 0
    for v in scens:
        sid = v["id"]
        ini = [i for i in inits if i["sid"] == sid]
        ed = [e for e in edges if e["from"]["sid"] == sid]
        walks, st = edge_cover(ini, ed, maxlen=22, rng=run.rng, extra_walks=(30 if thorough else 4))
        exhaustive = exhaustive and st["covered"] == st["edges"]
        # quick: 16 walks per scenario; thorough: every edge where that takes at most 150 walks, else the first 75 of the
        # cover plus a seeded sample of 75 of the rest (scenarios with single-chunk reads and background fetch have
        # graphs of several 10^4 edges)
        cap = int(os.environ.get("C15_MAXWALKS", "0") or "0") or (150 if thorough else 16)
        if sid.startswith("big."):
            cap = 12 if thorough else 4        # megabytes per read: mostly the directed walks below
        if cap and len(walks) > cap:
            # the first walks cover most new edges each; keep a seeded sample of the rest
            rest = walks[cap // 2:]
            run.rng.shuffle(rest)
            walks, exhaustive = walks[:cap // 2] + rest[:cap - cap // 2], False
        # directed walks for the histories the property's second sentence needs: a single chunk of a multi-chunk file read
        # on demand, then a successful background fetch, registry off, the complete read (also: prefetch before that)
        for f in v["pt"]:
            for k in (1, 2):
                seqs = [[lambda a, f=f, k=k: a["act"] == "ReadPart" and a["f"] == f and a["k"] == k,
                         lambda a: a["act"] == "BgFinish" and a["r"] == "ok",
                         lambda a: a["act"] == "RegistryOff",
                         lambda a, f=f: a["act"] == "Read" and a["f"] == f]]
                seqs.append([lambda a: a["act"] == "PrefetchEnd"] + seqs[0])
                for preds in seqs:
                    dw = directed_walk(ini, ed, preds)
                    if dw:
                        walks.append(dw)
        # ... a chunk-cache error (Add fails) during the caching walk of background fetch / prefetch
        extra = []
        if v["nb"] > 0:
            extra.append([lambda a: a["act"] == "BgFinish" and a.get("cause") == "cachefail"])
            extra.append([lambda a: a["act"] == "PrefetchEnd", lambda a: a["act"] == "BgFinish" and a.get("cause") == "cachefail"])
        if v["_sc"]["lm"] != "noprefetch":
            extra.append([lambda a: a["act"] == "ReaderCache" and a.get("cause") == "cachefail", lambda a: a["act"] == "PrefetchEnd"])
        # ... a prefetch whose caching walk fails on the registry, then a healthy background fetch, registry off, full reads
        if v["nb"] > 0 and v["_sc"]["lm"] != "noprefetch":
            for f in v["rd"]:
                extra.append([lambda a: a["act"] == "ReaderCache" and a.get("cause") == "fail",
                              lambda a: a["act"] == "PrefetchEnd",
                              lambda a: a["act"] == "BgFinish" and a.get("cause") == "ok",
                              lambda a: a["act"] == "RegistryOff",
                              lambda a, f=f: a["act"] == "Read" and a["f"] == f])
        for preds in extra:
            dw = directed_walk(ini, ed, preds)
            if dw:
                walks.append(dw)
        v["walks"] = [[{k: x for k, x in s.items() if k not in ("post", "req")} | {"act": s["act"]} for s in w] for w in walks]
        nsteps += sum(len(w) for w in v["walks"])
        run.cov["stages"].append(dict(stage="edge-cover", graph=sid, **st))
    log("[walks] %d walks, %d steps, every edge covered: %s" % (sum(len(v["walks"]) for v in scens), nsteps, exhaustive))
    payload = [{k: x for k, x in v.items() if k != "_sc"} for v in scens]
    for v in payload:
        v["free"] = 2 if v["id"].startswith("big.") else (10 if thorough else 2)
    rep = go_stage(run, "replay", payload, os.path.join(run.scratch, "replay.ndjson"), 12 if thorough else 8)
    free = {st: rep["free-" + st] for st in ("memory", "db")}

    # the exhaustive runs must be through before verdicts are drawn
    mfut.result()

    def judge(events, path, mode, conformance):
        mount_failed = [e for e in events if e.get("ev") == "MountFailed"]
        for e in mount_failed:
            # the layer cannot even be listed/mounted with this store: reported by the formula it makes unreachable
            run.violation("mount:%s:%s" % (mode, e["id"]), "layer could not be mounted: %s" % e["err"], e)
        events = [e for e in events if e.get("ev") != "MountFailed"]
        hung = [e for e in events if "hung" in (e.get("res"), e.get("r")) and e.get("ev") != "WaitHung"]
        if hung:
            run.inconclusive.append("a call of the implementation did not return within the driver's patience (%s): %s" % (mode, json.dumps(hung[0])[:400]))
        write = os.path.join(run.scratch, os.path.basename(path) + ".clean")
        with open(write, "w") as fh:
            for e in events:
                fh.write(json.dumps(e) + "\n")
        if os.environ.get("C15_DEBUG"):
            shutil.copy(write, os.path.join(os.environ["C15_DEBUG"], os.path.basename(write)))
        traces = split_traces(events)
        viol, mr = run.tlc_monitor("PrefetchMonitor", "PrefetchMonitor.cfg", write, timeout=900)
        run.cov["evaluations"] += len(events)
        if viol:
            m = re.findall(r"/\\ l = (\d+)", mr.out)
            line = int(m[-1]) - 1 if m else 1
            sig, rp, badev = sig_of(events, line, viol, mode)
            run.violation(sig, "%s false on recorded implementation behaviour (%s) at %s" % (viol, mode, json.dumps(badev)[:600]), rp)
            log("[trace] %-14s %d traces %d events: monitor %s" % (mode, len(traces), len(events), viol))
            return
        ok = True
        if conformance:
            res = run.tlc_trace("PrefetchTrace", "PrefetchTrace.cfg", write, timeout=1500)
            ok = res["accepted"]
            if not ok:
                line = (res["consumed"] or 0) + 1
                tr = [t for t in traces if t[0] <= line][-1]
                if res["violated"]:
                    sig, rp, badev = sig_of(events, min(line, len(events)), res["violated"], mode)
                    run.violation("trace-" + sig, "%s false while following the recorded trace" % res["violated"], rp)
                else:
                    if os.environ.get("C15_DEBUG"):
                        write_json(os.path.join(os.environ["C15_DEBUG"], "drift-%s.json" % mode), tr[1][: line - tr[0] + 1])
                    run.inconclusive.append("SPEC-DRIFT %s (%s): event %d %s not explained by Prefetch.tla although no C15 formula is false; prefix: %s" % (
                        mode, tr[1][0].get("sc", {}).get("id"), line - tr[0], json.dumps(events[line - 1])[:500],
                        json.dumps([{k: x for k, x in e.items() if k != "sc"} for e in tr[1][max(0, line - tr[0] - 5): line - tr[0]]])[:1500]))
        log("[trace] %-14s %d traces %d events: monitor ok%s" % (mode, len(traces), len(events),
                                                                 (", conformance " + ("accepted" if ok else "REJECTED")) if conformance else ""))
        if ok:
            run.cov["traces_validated_against_impl"] += len(traces)
            nontrivial = [t for s, t in traces if any(e.get("ev") in ("Read", "WaitReturn", "WaitTimeout") for e in t)]
            run.cov["distinct_nontrivial"] += len({digest([{k: x for k, x in e.items() if k != "ms"} for e in t]) for t in nontrivial})
            run.add_samples([{"mode": mode, "scenario": t[0]["sc"]["id"], "events": [{k: x for k, x in e.items() if k not in ("sc",)} for e in t[1:9]]}
                             for s, t in traces[2:3]], limit=3)

    for st in ("memory", "db"):
        skipped = sum(e.get("skipped", 0) for e in rep[st] if e.get("ev") == "Reset")
        log("[replay] %s: %d events, %d walk steps not applicable to the implementation's situation" % (st, len(rep[st]), skipped))
        run.cov["stages"].append({"stage": "replay", "store": st, "events": len(rep[st]), "steps_skipped": skipped})
        if skipped > nsteps // 10:
            run.inconclusive.append("replay %s: %d of %d walk steps could not be executed" % (st, skipped, nsteps))
        judge(rep[st], "replay.%s" % st, "replay-" + st, True)
        judge(free[st], "free.%s" % st, "free-" + st, False)
    run.cov["exhaustive"] = exhaustive


if __name__ == "__main__":
    main(check, "C15")

#!/usr/bin/env python3
"""C06 - remote blob reads are byte-exact under any server behaviour and concurrency; FetchedSize = distinct bytes stored,
<= size, monotone (spec/Blob.tla, spec/RegionSet.tla)."""
import os, sys, json
sys.path.insert(0, os.path.dirname(os.path.dirname(os.path.abspath(__file__))))
from vlib import *

OVERLAY = {"fs/remote/verif_blob_test.go": "fs/remote/verif_blob_test.go"}
INTERNAL = ("CacheExact", "CacheIsCommitted", "KeysAligned", "FlightsHaveLeader")
PROPERTY_FORMULAS = ("ReadExact", "ErrOrExact", "RegionSetIsUnion", "FetchedSizeIsDistinctBytes", "FetchedSizeLeSize",
                     "FetchedSizeMonotone")
ALLPERS = '{"multi", "multirev", "first", "super", "whole", "short", "shift", "half", "e400", "e403", "e403f", "err"}'


def tla_set(xs):
    return "{" + ", ".join(str(x) for x in xs) + "}"


def trim_walk(w):
    """a walk must end with the Return of its last call (the driver executes whole calls)"""
    last = -1
    for i, s in enumerate(w):
        if s["a"]["act"] in ("Return", "CacheLoss"):
            last = i
    return w[: last + 1]


def failing_trace(traces, line):
    tr = [t for t in traces if t[0] <= line]
    return tr[-1] if tr else traces[0]


def validate(run, trace_path, what, conformance=True):
    """monitor (verdict) + trace validation (conformance) of one concatenated trace file"""
    events = read_ndjson(trace_path)
    traces = split_traces(events)
    nret = sum(1 for e in events if e.get("ev") == "Return")
    viol, mr = run.tlc_monitor("BlobMonitor", "BlobMonitor.cfg", trace_path, timeout=1500)
    res = run.tlc_trace("BlobTrace", "BlobTrace.cfg", trace_path, timeout=1500) if conformance else None
    log("[trace] %-18s %d traces %d events %d returns: conformance %s, monitor %s" % (
        what, len(traces), len(events), nret,
        "not run (monitor is the verdict)" if res is None else ("accepted" if res["accepted"] else "REJECTED at line %s" % res["consumed"]),
        viol or "ok"))
    run.cov["evaluations"] += nret
    if viol:
        m = re.findall(r"/\\ l = (\d+)", mr.out)
        line = int(m[-1]) - 1 if m else 1
        start, tr = failing_trace(traces, line)
        ev = events[line - 1] if 0 < line <= len(events) else {}
        sig = "monitor:%s:%s:%s:size=%s,chunk=%s,off=%s,len=%s" % (viol, what, ev.get("op"), tr[0].get("size"), tr[0].get("chunk"),
                                                                  ev.get("off"), ev.get("len"))
        run.violation(sig, "%s false on what the blob returned: %s" % (viol, json.dumps(ev)),
                      {"formula": viol, "event_index": line - start + 1, "trace": tr[: line - start + 1]})
        return
    if res is not None and not res["accepted"]:
        line = (res["consumed"] or 0) + 1
        start, tr = failing_trace(traces, line)
        if res["violated"] in PROPERTY_FORMULAS:
            run.violation("trace-invariant:%s:%s" % (res["violated"], what),
                          "%s false while following the recorded trace" % res["violated"], {"trace": tr[: line - start + 2]})
        else:
            run.inconclusive.append("SPEC-DRIFT %s: event %d %s not explained by Blob.tla (%s) although no C06 formula is false; trace: %s" % (
                what, line - start + 1, json.dumps(events[line - 1]) if line <= len(events) else "<end>", res["violated"] or "no enabled action",
                json.dumps(tr[max(0, line - start - 6): line - start + 1])))
        return
    run.cov["traces_validated_against_impl"] += len(traces)
    nontriv = [t for s, t in traces if any(e.get("ev") == "Req" for e in t)]
    run.cov["distinct_nontrivial"] += len({digest(t) for t in nontriv})
    run.add_samples([{"mode": what, "events": t[:10]} for t in nontriv[3:4]], limit=3)


C18_FUNCS = ("(*httpFetcher).refreshURL", "(*httpFetcher).fetch", "(*httpFetcher).check")


def classify_races(run, out):
    """A race report whose two accesses are both in httpFetcher.refreshURL / fetch / check is the unsynchronised read of
    (url, header) against refreshURL: which HEADERS go to which URL is property C18, no C06 formula speaks about it (the bytes
    returned are judged by the monitor below). Any other race (blob, region set, single-flight bookkeeping, caches) is a C06 violation."""
    blocks = re.findall(r"WARNING: DATA RACE\n(.*?)\n==================", out, re.S)
    other, c18 = [], 0
    for b in blocks:
        tops = re.findall(r"(?:Write|Read|Previous write|Previous read|Atomic write|Atomic read)[^\n]* by [^\n]*:\n\s+(\S+)\(\)", b)
        tops = [t.split("/")[-1] for t in tops]
        if len(tops) >= 2 and all(any(t.endswith(f) for f in C18_FUNCS) for t in tops[:2]):
            c18 += 1
        else:
            other.append((tops, b))
    if c18:
        log("NOTE: %d data race report(s) between httpFetcher.refreshURL and fetch/check on (url, header): property C18's torn read, "
            "not a C06 formula; recorded in the evidence" % c18)
        run.cov["notes"] = ["%d race reports refreshURL vs fetch/check on httpFetcher.url/header (C18)" % c18]
    for tops, b in other[:3]:
        run.violation("datarace:fs/remote:%s" % "-vs-".join(t.replace("remote.", "") for t in tops[:2]),
                      "data race while goroutines read one blob", {"report": b[:6000]})
    if not blocks:
        raise Inconclusive("driver failed (rc!=0) without a race report:\n" + "\n".join(out.splitlines()[-40:]))


def regionset_binding(run, thorough):
    """R for RegionSet.tla: every (slice, region) edge of RegionSetCheck replayed on the real Go regionSet."""
    d_inits, d_edges = run.tlc_edges("RegionSetGen", "RegionSet_gen.cfg", {"MaxPos": "7" if thorough else "6"}, timeout=1200)
    walks, st = edge_cover(d_inits, d_edges, maxlen=12, rng=run.rng, extra_walks=400 if thorough else 100)
    log("[walks] regionset: %s" % st)
    run.cov["stages"].append(dict(stage="edge-cover", gen="regionset", **st))
    inp = os.path.join(run.scratch, "rs_walks.json")
    out = os.path.join(run.scratch, "rs_trace.ndjson")
    write_json(inp, [[{k: v for k, v in s.items() if k in ("act", "r")} for s in w] for w in walks])
    return inp, out, st["covered"] == st["edges"]


def regionset_validate(run, out):
    events = read_ndjson(out)
    traces = split_traces(events)
    viol, mr = run.tlc_monitor("RegionSetTrace", "RegionSetMonitor.cfg", out, timeout=1500)
    res = run.tlc_trace("RegionSetTrace", "RegionSetTrace.cfg", out, timeout=1500)
    log("[trace] %-18s %d traces %d events: conformance %s, monitor %s" % (
        "regionset", len(traces), len(events), "accepted" if res["accepted"] else "REJECTED at line %s" % res["consumed"], viol or "ok"))
    run.cov["evaluations"] += len(events)
    if viol:
        m = re.findall(r"/\\ l = (\d+)", mr.out)
        line = int(m[-1]) - 1 if m else 1
        start, tr = failing_trace(traces, line)
        adds = [[e["b"], e["e"]] for e in tr[1: line - start + 1]]
        run.violation("monitor:%s:regionSet.add:adds=%s" % (viol, json.dumps(adds, separators=(",", ":"))),
                      "%s false on the slice the Go regionSet held after these adds: %s" % (viol, json.dumps(events[line - 1])),
                      {"formula": viol, "trace": tr[: line - start + 1]})
        return
    if not res["accepted"]:
        line = (res["consumed"] or 0) + 1
        start, tr = failing_trace(traces, line)
        run.inconclusive.append("SPEC-DRIFT regionset: event %d %s differs from the transcription RegionSet.tla although no formula is false; trace: %s" % (
            line - start + 1, json.dumps(events[line - 1]) if line <= len(events) else "<end>", json.dumps(tr[: line - start + 1])))
        return
    run.cov["traces_validated_against_impl"] += len(traces)
    run.cov["distinct_nontrivial"] += len({digest(t) for s, t in traces if len(t) >= 4})


def check(run):
    thorough = run.tier == "thorough"
    run.cov["rule"] = ("behaviours = walks covering every edge of the TLC state graph of Blob.tla (sequential generation configs: all sizes/chunks/"
                       "(off,len), all server personalities, cache loss, failing commit) replayed call by call on a real fs/remote blob "
                       "(real httpFetcher + scripted in-memory registry + recording cache), walks covering every (slice, region) edge of RegionSetCheck "
                       "replayed on the real Go regionSet, plus free-running goroutine traces; non-trivial = "
                       "the registry was asked at least once; distinct by hash of the recorded event list")
    run.assumptions += [
        "the registry is honest about bytes: Content-Range/Content-Length describe the body it sends (a lying registry is outside C06)",
        "TLC bounds: see stages (sizes/chunks/lengths/script length per config); trace and monitor configs are unbounded",
        "Prepare (cache probes of all chunks) and Fetch (mode read + request) are single spec steps; Cache with prefetchChunkSize > chunkSize "
        "(errgroup split) is exercised in the free runs only and judged by the monitor only",
        "concurrent executions (free runs) are judged by the monitor formulas on recorded results only, not by conformance",
    ]
    W = 8 if thorough else 4     # the machine is shared: small models do not profit from more workers
    dev = os.environ.get("VERIF_C06_DEV", "") == "1"   # development only: skips the exhaustive stages; such a run always ends
    reuse = False                                      # inconclusive or with a violation
    if dev:
        run.inconclusive.append("VERIF_C06_DEV set: exhaustive stages skipped")
    # ---- M: the region set transcription against set union, exhaustively
    if not dev:
        run.tlc_mc("RegionSetCheck", "RegionSet_mc.cfg", {"MaxPos": "9"} if thorough else None, workers=4, timeout=1500)
    run.tlc_negctl("RegionSetCheck", "RegionSet_mc.cfg", {"Variant": '"nocontain"', "MaxPos": "4"},
                   ["RegionSetIsUnion", "TotalIsDistinctBytes"], drop=("RegionSetNormal",))
    # ---- M: the blob design, sequential (all sizes/chunks/off/len/scripts) and concurrent (single-flight, loss, retry)
    if dev:
        pass
    elif thorough:
        run.tlc_mc("Blob", "Blob_mc_seq.cfg", None, workers=W, timeout=3000)
        run.tlc_mc("Blob", "Blob_mc_arith.cfg", None, workers=W, timeout=3000)
        run.tlc_mc("Blob", "Blob_mc_conc.cfg", {"Sizes": "{3, 4}"}, workers=W, timeout=3000, name="Blob_mc_conc.cfg sizes 3,4")
    else:
        run.tlc_mc("Blob", "Blob_mc_seq.cfg", {"Sizes": "{0, 1, 2, 3, 4}", "MaxLen": "5", "MaxReq": "2"}, workers=W, timeout=1500)
        run.tlc_mc("Blob", "Blob_mc_conc.cfg", {"Pers": '{"multi", "half", "err"}'}, workers=W, timeout=1500, name="Blob_mc_conc.cfg 3 personalities")
    if not reuse:
      small = {"Sizes": "{3, 4}", "Chunks": "{2}", "MaxLen": "4", "MaxOps": "1", "MaxReq": "1"}
      run.tlc_negctl("Blob", "Blob_mc_seq.cfg", dict(small, AllSeenCheck="FALSE"), ["ReadExact"], drop=INTERNAL)
      run.tlc_negctl("Blob", "Blob_mc_seq.cfg", dict(small, WriterVariant='"pend1"'), ["ReadExact"], drop=INTERNAL)
      run.tlc_negctl("Blob", "Blob_mc_seq.cfg", dict(small, WriterVariant='"lower1"'), ["ReadExact"], drop=INTERNAL)

    # ---- R: every edge of the sequential generation graphs, replayed on a real blob
    gens = [("arith", {"Sizes": tla_set(range(0, 8 if thorough else 6)), "Chunks": "{1, 2, 3}", "Pers": '{"multi", "whole"}',
                       "MaxLen": "8" if thorough else "6", "MaxOps": "1", "MaxReq": "1", "MaxLoss": "0", "MaxCFail": "0"}),
            ("protocol", {"Sizes": "{3, 4}" if thorough else "{3}", "Chunks": "{2}", "Pers": ALLPERS, "Ops": '{"read"}',
                          "MaxLen": "4", "MaxOps": "2", "MaxReq": "2", "MaxLoss": "1", "MaxCFail": "1"})]
    if thorough:
        gens.append(("protocol-cache", {"Sizes": "{3}", "Chunks": "{2}", "Pers": ALLPERS, "Ops": '{"read", "cache"}',
                                        "MaxLen": "4", "MaxOps": "2", "MaxReq": "2", "MaxLoss": "1", "MaxCFail": "1"}))
    gens.append(("history", {"Sizes": "{5, 6}" if thorough else "{5}", "Chunks": "{1}", "Pers": '{"multi"}', "Ops": '{"read"}',
                             "MaxLen": "2", "MaxOps": "3", "MaxReq": "3", "MaxLoss": "0", "MaxCFail": "0"}))
    rs_in, rs_out, rs_all = regionset_binding(run, thorough)
    jobs, exhaustive = [], rs_all
    for name, ov in gens:
        inits, edges = run.tlc_edges("BlobGen", "Blob_gen_seq.cfg", ov, timeout=2400)
        walks, st = edge_cover(inits, edges, maxlen=24, rng=run.rng, extra_walks=300 if thorough else 40)
        walks = [trim_walk([{k: v for k, v in s.items() if k != "post"} for s in w]) for w in walks]
        walks = [w for w in walks if w]
        log("[walks] %s: %s" % (name, st))
        exhaustive = exhaustive and st["covered"] == st["edges"]
        run.cov["stages"].append(dict(stage="edge-cover", gen=name, **st))
        jobs.append({"name": name, "out": os.path.join(run.scratch, "replay_%s.ndjson" % name), "walks": walks})
    inp = os.path.join(run.scratch, "walks.json")
    write_json(inp, jobs)
    free = os.path.join(run.scratch, "free.ndjson")
    rc, out = run.go_driver("", "./fs/remote/", OVERLAY, "^TestVerifC06(Replay|Free|RegionSet)$",
                            env={"VERIF_IN": inp, "VERIF_FREE_OUT": free, "VERIF_RS_IN": rs_in, "VERIF_RS_OUT": rs_out,
                                 "VERIF_FREE_TRACES": "600" if thorough else "120", "VERIF_FREE_OPS": "10"}, timeout=2400)
    if rc != 0:
        classify_races(run, out)
    regionset_validate(run, rs_out)
    for j in jobs:
        validate(run, j["out"], "replay-" + j["name"])
    validate(run, free, "free-run", conformance=False)
    run.cov["exhaustive"] = exhaustive


if __name__ == "__main__":
    main(check, "C06")

#!/usr/bin/env python3
"""C16 - store layers can be acquired, released and re-acquired in any order (Store.tla).

M  exhaustive TLC runs of Store.tla (manager level with registry failures, FUSE level with the inode tree, two images,
   shared blob) + one negative control per property-bearing statement of release()/resolveLayer()
R  every edge of the generation graphs is executed call by call against the real LayerManager (in-package, real
   layer.Resolver over an in-memory registry, pre-seeded refPool) and, in fuse mode, through the go-fuse raw bridge
   into rootnode/refnode/layernode of store/fs.go
T  goroutines racing lookups on one image under -race
   every recorded trace goes through StoreTrace (conformance) and StoreMonitor (property formulas on recorded states)
"""
import os, sys, json, re, threading
from concurrent.futures import ThreadPoolExecutor
sys.path.insert(0, os.path.dirname(os.path.dirname(os.path.abspath(__file__))))
from vlib import *

OVERLAY = {"store/verif_store_test.go": "store/verif_store_test.go"}
INTERNAL = ("TypeOK", "OnlyOwnCached", "MemoOkMeansCached", "TrackedPositive", "NoCancelRemembered")
IMAGES = {"Img1x1": {"r1": ["a"]},
          "Img1x2": {"r1": ["a", "b"]},
          "Img2x2": {"r1": ["a", "b"], "r2": ["c", "d"]},
          "Img2x1": {"r1": ["a"], "r2": ["c"]},
          "ImgShared": {"r1": ["a", "b"], "r2": ["b", "c"]}}


def cfg(name, img=None, **kv):
    """config text of spec/<name> with the image constant and plain constants replaced"""
    txt = open(os.path.join(SPEC, name)).read()
    if img:
        txt, n = re.subn(r"Images <- \w+", "Images <- " + img, txt)
        if n != 1:
            raise Inconclusive("no Images line in " + name)
    for k, v in kv.items():
        txt, n = re.subn(r"(?m)^(\s*)%s\s*=\s*.*$" % re.escape(k), r"\g<1>%s = %s" % (k, v), txt)
        if n != 1:
            raise Inconclusive("cfg constant %s not found in %s" % (k, name))
    return txt


_LOCK = threading.Lock()


def parallel(run, thunks, n=4):
    """TLC start-up dominates these small runs: run independent stages side by side (vlib is not thread-aware: the scratch
    directory counter is serialised here, the evidence counters are updated under _LOCK by the callers)"""
    if not getattr(run, "_c16_locked", False):
        orig = run._prep

        def locked(files, extra=None):
            with _LOCK:
                return orig(files, extra)
        run._prep = locked
        run._c16_locked = True
    with ThreadPoolExecutor(max_workers=n) as ex:
        futs = [ex.submit(t) for t in thunks]
        errs = []
        for f in futs:
            try:
                f.result()
            except Inconclusive as e:
                errs.append(str(e))
        if errs:
            raise Inconclusive("\n".join(errs))


def violation(run, *a):
    with _LOCK:
        run.violation(*a)


def race_signature(out):
    """top frames of the first data race report: the two accesses that race"""
    m = re.search(r"WARNING: DATA RACE\n(?:Read|Write) at \S+ by .*?\n\s+(\S+)\(\)\n.*?\n\nPrevious (?:read|write) at \S+ by .*?\n\s+(\S+)\(\)", out, re.S)
    if not m:
        return "unparsed"
    f = sorted(x.split("/")[-1] for x in m.groups())
    return "|".join(f)


def short(e):
    if e.get("ev") == "Reset":
        return "Reset"
    s = "%s(%s,%s" % (e["ev"], e.get("r"), e.get("t"))
    if e["ev"] == "Lookup":
        s += "," + e.get("kind", "?") + ("" if not e.get("fail") else ",fail=" + "+".join(e["fail"])) + (",CANCELLED" if e.get("cancel") else "")
    s += ")=" + str(e.get("res"))
    if "n" in e:
        s += "/%d" % e["n"]
    return s


def validate(run, trace_path, img, mode, what):
    """trace validation + monitor of one concatenated trace file"""
    events = read_ndjson(trace_path)
    traces = split_traces(events)
    fuse = "TRUE" if mode == "fuse" else "FALSE"
    box = {}
    parallel(run, [lambda: box.__setitem__("mon", run.tlc_monitor("StoreMonitor", cfg("StoreMonitor.cfg", img, Fuse=fuse), trace_path, timeout=900)),
                   lambda: box.__setitem__("tr", run.tlc_trace("StoreTrace", cfg("StoreTrace.cfg", img, Fuse=fuse), trace_path, timeout=900))], 2)
    (mon_viol, mr), res = box["mon"], box["tr"]
    log("[trace] %-10s %-9s %-5s: %d traces %d events: conformance %s, monitor %s" %
        (what, img, mode, len(traces), len(events),
         "accepted" if res["accepted"] else "REJECTED at line %s" % ((res["consumed"] or 0) + 1), mon_viol or "ok"))
    with _LOCK:
        run.cov["evaluations"] += len(events)
    if mon_viol:
        m = re.findall(r"/\\ l = (\d+)", mr.out)
        line = int(m[-1]) - 1 if m else 0
        tr = [t for t in traces if t[0] <= line][-1] if line else traces[0]
        idx = line - tr[0]                      # index of the offending event inside its trace
        prefix = tr[1][: idx + 1]
        bad = prefix[-1] if prefix else {}
        same = [e for e in prefix if e.get("r") == bad.get("r") and e.get("ev") != "Reset"]
        hist = ">".join(("%s.%s" % (e["ev"], e.get("t"))) for e in same[-3:])
        violation(run, "monitor:%s:%s:%s:%s" % (mon_viol.replace("Mon", "", 1), mode, what, hist),
                      "%s is false on the recorded implementation states after %s (history of %s: %s)" %
                      (mon_viol, short(bad), bad.get("r"), " ; ".join(short(e) for e in same[-6:])),
                      {"images": IMAGES[img], "mode": mode, "formula": mon_viol, "event_index": idx,
                       "calls": [short(e) for e in prefix], "trace": prefix[-8:]})
        return 0
    if not res["accepted"]:
        line = (res["consumed"] or 0) + 1
        tr = [t for t in traces if t[0] <= line][-1]
        idx = line - tr[0]
        prefix = tr[1][: idx + 1]
        if res["violated"]:
            violation(run, "trace-invariant:%s:%s:%s" % (res["violated"], mode, what),
                          "%s false while following the recorded trace" % res["violated"],
                          {"images": IMAGES[img], "mode": mode, "calls": [short(e) for e in prefix], "trace": prefix[-8:]})
        else:
            if os.environ.get("C16_DEBUG_DIR"):
                write_json(os.path.join(os.environ["C16_DEBUG_DIR"], "drift_%s_%s_%s.json" % (what, img, mode)), prefix)
            run.inconclusive.append(
                "SPEC-DRIFT %s %s %s: event %d %s is not explained by Store.tla although no C16 formula is false; calls: %s; event: %s" %
                (what, img, mode, idx, short(events[line - 1]), " ; ".join(short(e) for e in prefix[-8:]),
                 json.dumps(events[line - 1])[:1500]))
        return 0
    with _LOCK:
        run.cov["traces_validated_against_impl"] += len(traces)

    def nontrivial(t):
        return any(e.get("ev") == "Release" and e.get("res") == "ok" and e.get("n") in (0, None) for e in t)
    with _LOCK:
        run.cov["distinct_nontrivial"] += len({digest([short(e) for e in t]) for s, t in traces if nontrivial(t)})
    run.add_samples([{"images": img, "mode": mode, "source": what, "calls": [short(e) for e in t][:14]}
                     for s, t in traces if nontrivial(t) and len(t) > 5][:1], limit=3)
    return len(traces)


def check(run):
    thorough = run.tier == "thorough"
    run.cov["rule"] = ("behaviours = walks covering every edge of the TLC state graphs of Store (generation configs) executed call by "
                       "call on a real LayerManager / the FUSE handlers, plus seeded random walks and racing-lookup runs; non-trivial = "
                       "contains a release that reaches zero; distinct by hash of the call/outcome list")
    run.assumptions += [
        "loadRef always succeeds: manifests/configs are pre-seeded in the refPool directory (fetching them is not modelled)",
        "the registry is an in-memory remote.Handler; a registry failure is a failing Handle() for chosen layers during one lookup",
        "getLayer's 30 s time-out, the resolver's layer-cache TTL, prefetch and background fetch never fire / are off",
        "calls are observed as a whole (the driver waits for the resolve goroutines of a call); interleavings inside calls only via "
        "the racing-lookup runs, where outcomes and the final state are checked",
        "a remembered resolution error makes later lookups of that layer fail until the image is released (as the code does; "
        "LookupSucceedsIffTocInImage is stated for lookups without a remembered or current failure of the wanted layer)",
        "never-used sibling layers that getLayer resolved speculatively stay cached after the image's last release "
        "(ImageFullyDropped is NOT claimed; TLC shows the counterexample)",
        "TLC bounds: see stages",
    ]
    # ---------------------------------------------------------------- M
    skip_m = os.environ.get("C16_SKIP_M") == "1"      # development aid for mutant runs (M does not depend on the code)
    if skip_m:
        run.inconclusive.append("C16_SKIP_M=1: model-checking stages skipped (development aid), result not valid as a verdict 0")
    check_m(run, thorough) if not skip_m else None
    check_rt(run, thorough)


def check_m(run, thorough):
    run.tlc_mc("Store", "Store_mc_1x2.cfg", workers=4, timeout=900)
    if thorough:
        run.tlc_mc("Store", "Store_mc_fuse.cfg", workers=4, timeout=2400)
        run.tlc_mc("Store", "Store_mc_2x2.cfg", workers=4, timeout=2400)
        run.tlc_mc("Store", "Store_mc_shared.cfg", workers=4, timeout=3000)
        run.tlc_mc("Store", cfg("Store_mc_1x2.cfg", "Img1x3", MaxCnt="1"), workers=4, timeout=3000, name="Store_mc_1x2.cfg Img1x3 MaxCnt=1")
    else:
        run.tlc_mc("Store", cfg("Store_mc_fuse.cfg", None, Kinds='{"diff", "info"}', MaxCnt="1", AllTargets="FALSE"),
                   workers=4, timeout=900, name="Store_mc_fuse.cfg diff+info MaxCnt=1")
    # vacuity guards: each property-bearing statement switched off must break a C16 formula
    PF = ["CountNonNegative", "HeldWhileCached", "HandlesMatchLayers", "NeverDoneWhileUsed", "UnknownDigestFails",
          "LookupSucceedsIffTocInImage", "SuccessMeansCached", "LastReleaseDropsBookkeeping", "NextLookupResolvesAgain"]
    parallel(run, [(lambda off=off: run.tlc_negctl("Store", "Store_mc_1x2.cfg", {off: "FALSE"}, PF, drop=INTERNAL, workers=2))
                   for off in ("DeleteInnerCounter", "ForgetMemoOfReleased", "ResetMemoAtLastRelease", "DropOnlyAtZero", "DoneDuplicate",
                               "ResolveDetached")], 4)
    if thorough:
        # the pinned code (both repaired statements off) and the non-property
        run.tlc_negctl("Store", "Store_mc_1x2.cfg", {"DeleteInnerCounter": "FALSE", "ForgetMemoOfReleased": "FALSE"}, PF, drop=INTERNAL)
        run.tlc_negctl("Store", "Store_mc_strict.cfg", {}, ["ImageFullyDropped"], drop=INTERNAL)



def check_rt(run, thorough):
    # ---------------------------------------------------------------- R
    gens = [("mgr", "Img1x2", dict(MaxCnt="1"), None),
            ("fuse", "Img1x2", dict(Fuse="TRUE", Errors="FALSE", MaxCnt="1", Kinds='{"diff"}'), None)]
    if thorough:
        # several uses of one layer (counts up to 3) with registry failures and cancelled callers, two images, all lookup kinds
        gens += [("mgr", "Img1x1", dict(MaxCnt="3"), None),
                 ("fuse", "Img1x1", dict(Fuse="TRUE", MaxCnt="2", Kinds='{"diff", "blob"}'), None),
                 ("mgr", "Img2x1", dict(MaxCnt="1", Errors="FALSE"), None),
                 ("fuse", "Img1x2", dict(Fuse="TRUE", Errors="FALSE", MaxCnt="1", Kinds='{"diff", "blob", "info"}'), 300)]
    else:
        # several uses of one layer (counts up to 2) on the smallest image, manager and fuse
        gens += [("mgr", "Img1x1", dict(MaxCnt="2", Errors="FALSE", Cancels="FALSE"), None),
                 ("fuse", "Img1x1", dict(Fuse="TRUE", MaxCnt="2", Errors="FALSE", Cancels="FALSE", Kinds='{"diff", "blob"}'), None)]
    jobs = []
    exhaustive = True
    graphs = {}
    parallel(run, [(lambda i=i, g=g: graphs.__setitem__(i, run.tlc_edges("StoreGen", cfg("Store_gen_mgr.cfg", g[1], **g[2]), timeout=1800)))
                   for i, g in enumerate(gens)], 4)
    for i, (mode, img, kv, cap) in enumerate(gens):
        inits, edges = graphs[i]
        if cap is None and len(edges) > 40000:
            cap = 300          # never replay a graph of this size edge by edge (recorded as capped; exhaustive becomes False)
        walks, st = edge_cover(inits, edges, maxlen=80, rng=run.rng, extra_walks=100 if thorough else 10, max_walks=cap)
        log("[walks] %s %s %s: %s" % (mode, img, kv, st))
        if st["covered"] != st["edges"]:
            exhaustive = False     # a capped graph is only partly covered: the tier is then not edge-complete
        out = os.path.join(run.scratch, "replay_%d_%s.ndjson" % (i, mode))
        jobs.append({"images": IMAGES[img], "img": img, "mode": mode, "out": out,
                     "walks": [[{k: v for k, v in s.items() if k in ("act", "r", "t", "kind", "fail", "cancel")} for s in w] for w in walks]})
        run.cov["stages"].append(dict(stage="edge-cover", mode=mode, images=img, consts=kv, capped=cap is not None, **st))
    inp = os.path.join(run.scratch, "walks.json")
    write_json(inp, jobs)
    race = os.path.join(run.scratch, "race")
    # the sequential replay does not need the race detector (4x slower under tsan); the racing runs do
    run.go_driver("", "./store/", OVERLAY, "^TestVerifStoreReplay$", env={"VERIF_IN": inp}, timeout=5400, race=False)
    rc, out = run.go_driver("", "./store/", OVERLAY, "^TestVerifStoreRace$",
                            env={"VERIF_RACE_OUT": race, "VERIF_RACE_TRACES": "200" if thorough else "30"}, timeout=5400)
    if rc != 0:
        # racing lookups are part of the property's quantifier: a race report on the state they share is reported
        violation(run, "datarace:" + race_signature(out), "data race reported under racing lookups on one image: " + race_signature(out),
                  {"log": out[out.find("WARNING: DATA RACE"):][:6000]})
    vs = [(lambda j=j: validate(run, j["out"], j["img"], j["mode"], "replay")) for j in jobs]
    vs += [lambda: validate(run, race + "_mgr.ndjson", "Img2x2", "mgr", "race"),
           lambda: validate(run, race + "_fuse.ndjson", "Img2x2", "fuse", "race")]
    parallel(run, vs, 4)
    run.cov["exhaustive"] = exhaustive


if __name__ == "__main__":
    main(check, "C16")

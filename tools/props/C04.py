#!/usr/bin/env python3
"""C04 - untrusted layer bytes cause errors, never a crash or a hang (TocHostile.tla, Footer.tla).

M  TocHostile.tla / Footer.tla: structured input-space models (hostile TOCs: every structure of <= 3 (4) raw entries over
   root / a / a/b with all types, hard links over the same names, plus one entry with deviating numbers / digests /
   spellings; footers: kind x blob length class x field mutation x offset class x zstd LENGTH class (incl. offset+length overflowing int64) x WithTOCOffset) with the reference of
   allowed outcomes; TLC checks the sanity of the reference on the whole space + negative controls.
R  every enumerated case is concretised to real bytes (harness/estargz/verif_hostile_test.go) and driven, in CHILD
   PROCESSES (a dying or silent child is attributed to the case and entry point in flight), through
     estargz module : estargz.Open + walk/read/verify of all entries, the four ParseFooter, OpenFooter, Open with zstd +
                      external-TOC decompressors and WithTOCOffset, estargz.Build on hostile tars
     root module    : memory.NewReader + complete metadata.Reader walk + reads + Clone/Close, reader.VerifiableReader.Cache
     cmd module     : db.NewReader (bolt) + the same
   TocHostileMonitor: NoCrashNoHang on every recorded outcome (the C04 formula; TLC -continue lists every false line);
   TocHostileTrace / FooterTrace: allowed outcome per the reference (reject unresolvable hard links, accept plain TOCs and
   valid footers, reject blobs shorter than a footer).
"""
import os, sys, json
sys.path.insert(0, os.path.dirname(os.path.dirname(os.path.abspath(__file__))))
from vlib import *

if os.environ.get("VERIF_KNOWN_EXTRA"):      # development aid: proposed known: lines that are not in KNOWN_FINDINGS.txt yet
    import vlib as _v
    _orig = _v.load_known

    def _lk(pid):
        known, fixed = _orig(pid)
        for line in open(os.environ["VERIF_KNOWN_EXTRA"]):
            m = re.match(r"known: property=(\S+) match=(\S+) (.*)", line.strip())
            if m and m.group(1) == pid:
                known.append({"match": m.group(2), "text": m.group(3)})
        return known, fixed
    _v.load_known = _lk

OV_ESTARGZ = {"estargz/verif_hostile_test.go": "estargz/verif_hostile_test.go"}
OV_STORES = {"metadata/verif_toc.go": "metadata/verif_toc.go",
             "metadata/memory/verif_c05_test.go": "metadata/memory/verif_c05_test.go",
             "metadata/memory/verif_c04_test.go": "metadata/memory/verif_c04_test.go",
             "cmd/containerd-stargz-grpc/db/verif_c05_test.go": "cmd/containerd-stargz-grpc/db/verif_c05_test.go",
             "cmd/containerd-stargz-grpc/db/verif_c04_test.go": "cmd/containerd-stargz-grpc/db/verif_c04_test.go"}
DEFNUM = {"size": "S", "off": "P", "coff": "0", "csize": "0", "ioff": "0"}


def c04_gen(run, module, cfg, ov, tag, timeout=3000):
    """one TLC run = M (sanity invariants of the reference on the whole space) + generation"""
    r = run.tlc(module, cfg, ov, 4, timeout)
    name = cfg + (" " + " ".join("%s=%s" % kv for kv in sorted(ov.items())) if ov else "")
    log("[mc+gen] %-60s %8d distinct %9d generated %5.1fs %s" % (name[:60], r.distinct, r.generated, r.wall, "OK" if r.completed else "FAILED"))
    if not r.completed:
        raise Inconclusive("spec %s/%s: %s\n%s" % (module, name, r.violated or r.error, "\n".join(r.out.splitlines()[-30:])))
    items = [json.loads(x) for x in r.lines(tag)]
    run.cov["states"] += r.distinct
    run.cov["transitions"] += r.generated
    run.cov["stages"].append({"stage": "mc+gen", "config": name, "distinct": r.distinct, "generated": r.generated, "cases": len(items), "wall_s": round(r.wall, 1)})
    if not run.cov["checker_cmd"]:
        run.cov["checker_cmd"] = r.cmd
    return items


def c04_class(c):
    """input class of a case for finding signatures"""
    if "kind" in c:
        return "footer:%s:blob=%s:mut=%s:off=%s:len=%s:opt=%s" % (c["kind"], c["blen"], c["mut"], c["off"], c.get("len", "ok"), c["opt"])
    if "tar" in c:
        return "tar:" + ("hardlink-loop" if c.get("must") == "reject" else "hardlinks" if any(e["k"] == "hardlink" for e in c["tar"]) else "plain")
    f, g = [], []
    ents = c["ents"]
    for e in ents:       # deviating numbers first (known-findings lines match on them)
        if e["k"] in ("reg", "chunk"):
            for k in ("size", "off", "coff", "csize", "ioff"):
                if e["num"][k] != DEFNUM[k]:
                    g.append("%s=%s" % (k, e["num"][k]))
            if e["dg"] != "valid":
                g.append("digest=" + e["dg"])
    if c.get("must") == "reject":
        f.append("unresolvable-hardlink")
    if c.get("cyc"):
        f.append("hardlink-to-parent-dir")
    names = [e["n"].strip("./") for e in ents if e["k"] != "chunk"]
    if len(set(names)) < len(names):
        f.append("dup-name")
    if any(e["k"] == "chunk" for e in ents):
        f.append("chunk")
    if any(e["k"] == "hardlink" for e in ents) and not f:
        f.append("hardlink")
    if any(e["k"] == "bogus" for e in ents):
        f.append("unknown-type")
    return "toc:" + ("+".join(g + f) or "plain")


def c04_where(rec):
    msg = rec.get("msg", "")
    if rec["out"] == "panic":
        return re.sub(r"-?\d+", "N", msg)[:70].replace(" ", "_")
    m = re.match(r"in (\S+):", msg)
    w = m.group(1) if m else "?"
    if "stack overflow" in msg:
        return "stack-overflow:" + w
    if "out of memory" in msg or "cannot allocate" in msg:
        return "out-of-memory:" + w
    return w


def check(run):
    thorough = run.tier == "thorough"
    run.cov["rule"] = ("behaviour = one hostile case enumerated by TLC (TocHostileGen / FooterGen), concretised to bytes and driven through one "
                       "entry point in a child process; validated = outcome recorded and allowed by the reference; non-trivial = the case is not a "
                       "plain conforming TOC / valid footer; distinct by (case, driver, entry point)")
    run.assumptions += ["structured adversarial space only (no unstructured byte fuzzing); names over root / a / a/b (+ spellings on one entry)",
                        "numbers deviate on one entry at a time, at most two fields (pairs size+chunkSize, offset+innerOffset, chunkOffset+chunkSize)",
                        "per-case deadline 20 s (no progress in the child's progress file), stack limit of the children 64 MiB, address space 8 GiB",
                        "zstdchunked.ParseFooter is called directly only with >= 40 bytes (shorter input reaches it through Open)",
                        "server replies (Content-Range, multipart) and the FUSE node layer are not driven here"]
    # ---------------------------------------------------------------- M + generation
    struct_ov = {"MaxEntries": "4", "HKinds": '{"dir", "reg", "chunk", "hardlink"}'} if thorough else None
    tocs = c04_gen(run, "TocHostileGen", "TocHostile_gen_struct.cfg", {"MaxEntries": "2"} if os.environ.get("VERIF_C04_SMALL") else None, "VHTOC")
    if thorough:
        tocs += c04_gen(run, "TocHostileGen", "TocHostile_gen_struct.cfg", struct_ov, "VHTOC")
    tocs += c04_gen(run, "TocHostileGen", "TocHostile_gen_focus.cfg", {"MaxEntries": "1"}, "VHTOC")
    tocs += c04_gen(run, "TocHostileGen", "TocHostile_gen_focus.cfg",
                    {"NumVals": '{"m1", "big"}' if not thorough else '{"m1", "0", "big"}', "HNames": '{"", "a", "a/"}', "HKinds": '{"dir", "reg", "chunk"}'}, "VHTOC")
    foots = c04_gen(run, "FooterGen", "Footer_gen.cfg", None, "VFOOT")
    run.tlc_negctl("TocHostile", "TocHostile_mc.cfg", {"ChainBound": "0", "MaxEntries": "2"}, ["DirectLinkResolves"])
    run.tlc_negctl("Footer", "Footer_mc.cfg", {"GuardLen": "FALSE"}, ["ShortMustFail"])
    cases, seen = [], set()
    for t in tocs:
        k = canon(t["ents"])
        if k in seen:
            continue
        seen.add(k)
        cases.append({"id": len(cases) + 1, "ents": t["ents"], "must": t["must"], "cyc": t["cyc"]})
    ntoc = len(cases)
    for f in foots:
        cases.append(dict(f, id=len(cases) + 1))
    # hostile tars for the builder: every enumerated structure of <= 2 entries that a tar can express
    for c in list(cases[:ntoc]):
        if 1 <= len(c["ents"]) <= 2 and all(e["k"] in ("dir", "reg", "hardlink", "symlink") and e["num"] in (DEFNUM, dict.fromkeys(DEFNUM, "0")) and e["dg"] == "valid" for e in c["ents"]):
            if any(e["k"] == "hardlink" for e in c["ents"]):
                cases.append({"id": len(cases) + 1, "must": c["must"], "tar": [{"n": e["n"] or "./", "k": e["k"], "l": e["l"] or "./"} for e in c["ents"]]})
    byid = {c["id"]: c for c in cases}
    log("[cases] %d hostile TOCs, %d footer cases, %d hostile tars" % (ntoc, len(foots), len(cases) - ntoc - len(foots)))
    inp = os.path.join(run.scratch, "cases.json")
    write_json(inp, cases)
    blobs = os.path.join(run.scratch, "blobs.ndjson")
    outs = {}
    # ---------------------------------------------------------------- R in child processes
    for name, module_dir, pkg, ov in (("estargz", "estargz", ".", OV_ESTARGZ),
                                      ("memory", "", "./metadata/memory/", OV_STORES),
                                      ("db", "cmd", "./containerd-stargz-grpc/db/", OV_STORES)):
        outs[name] = os.path.join(run.scratch, "out_%s.ndjson" % name)
        env = {"VERIF_IN": inp, "VERIF_BLOBS": blobs, "VERIF_OUT": outs[name], "VERIF_C04_WORKERS": "12",
               "VERIF_C04_DEADLINE": "20s" if thorough else "12s"}
        if name == "db" and not thorough:
            # the bolt store costs ~10x the others per case: quick tier = all cases of <= 2 entries, every case with a hard link or
            # a chunk entry ... sampled down to 2500 (seeded), plus all focus and footer cases
            keep = [c for c in cases[:ntoc] if len(c["ents"]) <= 2 or any(e != "valid" for e in [x["dg"] for x in c["ents"]])]
            rest = [c for c in cases[:ntoc] if len(c["ents"]) > 2]
            run.rng.shuffle(rest)
            ids = {c["id"] for c in keep + rest[:2500]} | {c["id"] for c in cases[ntoc:]}
            sub = os.path.join(run.scratch, "blobs_db.ndjson")
            with open(sub, "w") as g:
                for line in open(blobs):
                    if json.loads(line)["case"] in ids:
                        g.write(line)
            env["VERIF_BLOBS"] = sub
            run.cov["stages"].append({"stage": "db-subset", "cases": len(ids)})
        run.go_driver(module_dir, pkg, ov, "^TestVerifC04Parent$", env=env, race=False, timeout=3000)
    # ---------------------------------------------------------------- monitor + reference
    recs = []
    skipped = 0
    for name, path in outs.items():
        for d in read_ndjson(path):
            if d["ep"] == "driver":
                m = re.search(r"skipped=(\d+)", d.get("msg", ""))
                skipped += int(m.group(1)) if m else 0
                if d["out"] != "ok":
                    raise Inconclusive("driver %s: %s" % (name, d))
                continue
            d["drv"] = name
            recs.append(d)
    mon = os.path.join(run.scratch, "mon.ndjson")
    with open(mon, "w") as g:
        for d in recs:
            g.write(json.dumps({"case": d["case"], "ep": d["ep"], "out": d["out"]}) + "\n")
    m = run.tlc("TocHostileMonitor", "TocHostileMonitor.cfg", None, 1, 3000, extra={"trace.ndjson": mon}, args=("-continue",))
    if m.error and not m.violated:
        raise Inconclusive("monitor broke: %s\n%s" % (m.error, "\n".join(m.out.splitlines()[-30:])))
    bad = [int(x.split()[0]) for x in m.lines("VBAD")]
    nviol = len(re.findall(r"Invariant NoCrashNoHang is violated", m.out))
    if (nviol > 0) != bool(bad) or m.distinct != len(recs) + 1:
        raise Inconclusive("monitor: %d invariant reports, %d VBAD lines, %d states for %d lines" % (nviol, len(bad), m.distinct, len(recs)))
    per = collections.Counter((d["drv"], d["ep"], d["out"]) for d in recs)
    log("[monitor] %d outcomes of %d cases: NoCrashNoHang false on %d (TLC: %d reports)" % (len(recs), len(cases), len(bad), nviol))
    for k in sorted(per):
        log("          %-8s %-24s %-8s %d" % (k + (per[k],)))
    run.cov["evaluations"] += len(recs)
    run.cov["stages"].append({"stage": "monitor", "outcomes": {"%s/%s/%s" % k: v for k, v in sorted(per.items())}, "crashes": len(bad), "skipped_after_crash_cap": skipped})
    groups = {}
    for ln in bad:
        d = recs[ln - 1]
        c = byid.get(d["case"], {})
        opener = {"estargz": "estargz.Open", "memory": "memory.NewReader", "db": "db.NewReader"}[d["drv"]]
        ep = opener if d["ep"] == "open" else opener + d["ep"][4:] if d["ep"].startswith("open+") else d["ep"]
        sig = "crash:%s:%s:%s:%s:%s" % (d["drv"], ep, d["out"], c04_where(d), c04_class(c) if c else "?")
        g = groups.setdefault(sig, [d, c, 0])
        g[2] += 1
        if c and len(json.dumps(c)) < len(json.dumps(g[1])):
            g[0], g[1] = d, c
    for sig, (d, c, n) in sorted(groups.items()):
        run.violation(sig, "NoCrashNoHang false: %s of %s / %s on %d case(s); smallest input: %s; %s" % (
            d["out"], d["drv"], d["ep"], n, json.dumps({k: v for k, v in c.items() if k not in ("id",)})[:400], d.get("msg", "")[:300]),
            {"case": c, "driver": d["drv"], "entry_point": d["ep"], "outcome": d["out"], "msg": d.get("msg")})
    # reference: allowed outcomes of "open"
    drift = []
    tl = [d for d in recs if d["ep"] == "open" and d["case"] <= ntoc]
    tr = os.path.join(run.scratch, "trace_toc.ndjson")
    with open(tr, "w") as g:
        for d in tl:
            g.write(json.dumps({"case": d["case"], "ents": byid[d["case"]]["ents"], "ep": d["ep"], "out": d["out"]}) + "\n")
    r = run.tlc("TocHostileTrace", "TocHostileTrace.cfg", None, 1, 3000, extra={"trace.ndjson": tr})
    if not r.completed or not r.lines("VDONE"):
        raise Inconclusive("trace validation (TOC) broke: %s\n%s" % (r.error or r.violated, "\n".join(r.out.splitlines()[-30:])))
    for x in r.lines("VMISS"):
        ln, why = x.split()
        drift.append((tl[int(ln) - 1], why))
    fl = [d for d in recs if ntoc < d["case"] <= ntoc + len(foots) and (d["ep"].startswith("parse:") or d["ep"] == "open")]
    tr2 = os.path.join(run.scratch, "trace_footer.ndjson")
    with open(tr2, "w") as g:
        for d in fl:
            g.write(json.dumps({"case": d["case"], "f": {k: byid[d["case"]][k] for k in ("kind", "blen", "mut", "off", "len", "opt")}, "ep": d["ep"], "out": d["out"]}) + "\n")
    r2 = run.tlc("FooterTrace", "FooterTrace.cfg", None, 1, 3000, extra={"trace.ndjson": tr2})
    if not r2.completed or not r2.lines("VDONE"):
        raise Inconclusive("trace validation (footer) broke: %s\n%s" % (r2.error or r2.violated, "\n".join(r2.out.splitlines()[-30:])))
    for x in r2.lines("VMISS"):
        ln, why = x.split()
        drift.append((fl[int(ln) - 1], why))
    log("[reference] %d open outcomes of hostile TOCs, %d footer outcomes: %d not allowed by the reference %s" % (
        len(tl), len(fl), len(drift), dict(collections.Counter((d["drv"], d["ep"], w) for d, w in drift))))
    badkeys = {(recs[ln - 1]["case"], recs[ln - 1]["drv"]) for ln in bad}
    drift = [(d, w) for d, w in drift if (d["case"], d["drv"]) not in badkeys]
    if drift:
        kinds = collections.Counter((d["drv"], w) for d, w in drift)
        d, w = min(drift, key=lambda x: len(json.dumps(byid[x[0]["case"]])))
        run.inconclusive.append("SPEC-DRIFT: %s; e.g. %s %s on %s: %s %s" % (dict(kinds), d["drv"], d["ep"], json.dumps(byid[d["case"]])[:300], d["out"], w))
    run.cov["traces_validated_against_impl"] += len(recs) - len(bad) - len(drift)
    run.cov["distinct_nontrivial"] += sum(1 for d in recs if byid.get(d["case"], {}).get("must") != "accept" and not byid.get(d["case"], {}).get("valid"))
    if skipped and not bad:
        run.inconclusive.append("%d cases skipped after the crash cap although no crash was recorded" % skipped)
    for d in recs[:1] + [x for x in recs if x["out"] == "error"][:1]:
        run.add_samples([{"case": byid.get(d["case"]), "driver": d["drv"], "entry_point": d["ep"], "outcome": d["out"], "msg": d.get("msg", "")[:200]}], limit=3)
    run.cov["exhaustive"] = skipped == 0 and (thorough or True)


if __name__ == "__main__":
    main(check, "C04")

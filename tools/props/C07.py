#!/usr/bin/env python3
"""C07 - each layer is served as a correct overlayfs lower directory of the OCI layer (Node.tla, Overlay.tla)."""
import os, sys, json, threading, concurrent.futures
sys.path.insert(0, os.path.dirname(os.path.dirname(os.path.abspath(__file__))))
from vlib import *

DRIVER = "fs/layer/verif_node.go"
OV_MEM = {DRIVER: DRIVER, "fs/layer/verif_node_test.go": "fs/layer/verif_node_test.go"}
OV_DB = {DRIVER: DRIVER, "cmd/containerd-stargz-grpc/db/verif_node_test.go": "cmd/containerd-stargz-grpc/db/verif_node_test.go"}
STORES = (("memory", "", "./fs/layer/", OV_MEM), ("db", "cmd", "./containerd-stargz-grpc/db/", OV_DB))

INTERNAL = ("MemoIsListing", "MemIsServed")
NODE_PROPS = ["ListingIsTranslation", "ListedIffLookup", "InodesUniqueStable", "OpaqueXattr", "StateFileJSON", "StateDirHidden"]
NODE_PROPS += [p + "A" for p in NODE_PROPS]

RAWU7 = '{"a", ".wh.a", ".wh..wh..opq", ".prefetch.landmark", ".no.prefetch.landmark", "stargz.index.json", ".wh..wh.foo", "l", "c13", "c00"}'
RAWU8 = RAWU7[:-1] + ', ".wh..prefetch.landmark", "blk", "ff", "sl"}'
RAWU_OLD = '{"a", ".wh.a", ".wh..wh..opq", ".prefetch.landmark", ".no.prefetch.landmark", "stargz.index.json", ".wh..wh.foo", "l", ".wh..prefetch.landmark"}'
EXTRA3 = '{{"a", ".wh.a", ".wh..wh..opq"}, {".wh.a", ".wh..wh.foo", ".prefetch.landmark", "stargz.index.json"}, ' \
         '{"a", ".wh..wh.foo", ".no.prefetch.landmark"}}'


def tla_set(names):
    return "{" + ", ".join('"%s"' % n for n in names) + "}"


def failing_line(mr):
    m = re.findall(r"^(?:/\\ )?l = (\d+)", mr.out, re.M)
    return int(m[-1]) - 1 if m else 0


def trace_of(events, line):
    traces = split_traces(events)
    tr = [t for t in traces if t[0] <= line][-1] if line else traces[0]
    return tr


def node_detail(ev):
    """what identifies the failing call in a signature"""
    if ev.get("ev") in ("Lookup", "GetattrChild", "Forget"):
        return "%s:%s" % (ev["ev"], ev.get("n"))
    if ev.get("ev") == "Getxattr":
        return "Getxattr:%s" % ev.get("k")
    if ev.get("errno") not in (None, "OK"):
        return "%s-%s" % (ev.get("ev"), ev.get("errno"))
    return str(ev.get("ev"))


def validate_node(run, path, store, ov, what):
    events = read_ndjson(path)
    traces = split_traces(events)
    res = run.tlc_trace("NodeTrace", "NodeTrace.cfg", path, ov, timeout=1500)
    viol, mr = run.tlc_monitor("NodeMonitor", "NodeMonitor.cfg", path, ov, timeout=1500)
    log("[trace] node %-6s %-8s %d traces %d events: conformance %s, monitor %s" %
        (store, what, len(traces), len(events), "accepted" if res["accepted"] else "REJECTED at line %s" % res["consumed"], viol or "ok"))
    run.cov["evaluations"] += len(events)
    if viol:
        line = failing_line(mr)
        tr = trace_of(events, line)
        idx = line - tr[0]
        bad = events[line - 1] if line else {}
        cfg = tr[1][0]
        where = "root" if cfg.get("root") else "subdir"
        detail = node_detail(bad)
        if viol == "MonListedIffLookup" and bad.get("ev") == "Readdir":
            # the listing that exposed it: name the lookups of this trace that disagree with it
            listed = {e["name"] for e in bad.get("list", [])}
            off = sorted({e["n"] for e in tr[1][: idx + 1] if e.get("ev") == "Lookup" and e["n"] != ".stargz-snapshotter"
                          and (e["errno"] == "OK") != (e["n"] in listed)})
            detail = "Lookup:%s" % ",".join(off) if off else detail
        sig = "monitor:%s:%s:%s:%s" % (viol, detail, where, store)
        run.violation(sig, "%s false on results of real nodes (%s store, %s, mode %s, directory content %s) at call %d: %s" %
                      (viol, store, where, cfg.get("mode"), json.dumps(cfg.get("src")), idx, json.dumps(bad)),
                      {"formula": viol, "store": store, "config": cfg, "call_index": idx, "trace": tr[1][: idx + 1]})
        return
    if not res["accepted"]:
        line = (res["consumed"] or 0) + 1
        tr = trace_of(events, line)
        run.inconclusive.append("SPEC-DRIFT node %s %s: call %d %s on %s not explained by Node.tla although no C07 formula is false; prefix: %s" % (
            store, what, line - tr[0], json.dumps(events[line - 1]), json.dumps(tr[1][0]), json.dumps(tr[1][max(1, line - tr[0] - 5): line - tr[0] + 1])))
        return
    run.cov["traces_validated_against_impl"] += len(traces)
    nontriv = [t for s, t in traces if any(e.get("ev") == "Lookup" for e in t) and any(e.get("ev") == "Readdir" for e in t)]
    run.cov["distinct_nontrivial"] += len({digest(t) for t in nontriv})
    pick = [t for t in nontriv if ".wh..wh.foo" in t[0].get("src", []) and len(t) < 16][:1] or [t for t in nontriv if len(t) < 24][:1]
    run.add_samples([{"store": store, "mode": what, "events": t[:16]} for t in pick], limit=4)


def fix_empty(x):
    # ToJson prints an empty function as []
    return {} if x == [] else x


def check(run):
    thorough = run.tier == "thorough"
    run.cov["rule"] = ("Node: walks covering every edge of the TLC state graph of one served directory (every content of the name universe "
                       "x root/sub-directory x opaque mode; calls Readdir, Lookup(n) for every n, Forget, Getattr, Getxattr/Listxattr, state file) "
                       "replayed on real nodes of real eStargz layers over both metadata stores; non-trivial = trace has a Lookup and a Readdir; "
                       "Overlay: stacks of real served trees merged by TLC and compared with ApplyOCI; distinct by hash")
    run.assumptions += [
        "names: universe of 10 (thorough 14) raw names per directory incl. one hard link l -> a, real char devices 1:3 and 0:0 (thorough: block device, fifo, symlink); 15 (19) lookup names; layers of depth two",
        "the go-fuse bridge is emulated: a successful Lookup adds the child to the Inode tree, FORGET removes it; no kernel mount",
        "overlayfs is the operator OverlayMerge of Overlay.tla (lookup/merge rules of lower directories), not the kernel",
        "a root stargz.index.json / root landmarks are eStargz artefacts, not content of the OCI layer (ApplyOCI leaves them out)",
        "layers with the opaque marker on the layer ROOT are left out of the stack comparison (overlayfs ignores opaque on a lower root); "
        "their xattr is still checked by Node (OpaqueXattr)",
    ]
    rawu = RAWU8 if thorough else RAWU7
    lookupu = ['a', '.wh.a', 'foo', '.wh.foo', '.wh..wh.foo', '.wh..opq', '.wh..wh..opq', '.prefetch.landmark', '.no.prefetch.landmark',
               'stargz.index.json', 'zz', '.stargz-snapshotter', 'l', 'c13', 'c00'] + (['.wh..prefetch.landmark', 'blk', 'ff', 'sl'] if thorough else [])
    base = {"RawU": rawu, "LookupU": tla_set(lookupu)}

    # R: both drivers read their input from TLC output; one go test per metadata store runs both drivers.
    # The go builds run while TLC does the exhaustive design-level runs (M); the four validations run side by side.
    serialise(run)
    inp, nout = prepare_nodes(run, thorough, base)
    linp, oout, layers, modes = prepare_stacks(run, thorough)
    errs = []

    def drivers():
        try:
            for store, moddir, pkg, overlay in STORES:
                run.go_driver(moddir, pkg, overlay, "^TestVerif(Node|Overlay)$", race=False,
                              env={"VERIF_IN": inp, "VERIF_OUT": nout, "VERIF_IN_OVERLAY": linp, "VERIF_OUT_OVERLAY": oout})
        except BaseException as e:
            errs.append(e)
    th = threading.Thread(target=drivers)
    th.start()
    try:
        design_level(run, thorough, base)
    finally:
        th.join()
    if errs:
        raise errs[0]
    jobs = []
    for store, moddir, pkg, overlay in STORES:
        jobs.append(lambda store=store: validate_node(run, "%s_%s.ndjson" % (nout, store), store, dict(base), "replay"))
        jobs.append(lambda store=store: validate_stacks(run, thorough, store, "%s_%s.ndjson" % (oout, store), layers, modes))
    with concurrent.futures.ThreadPoolExecutor(max_workers=4) as ex:
        for f in [ex.submit(j) for j in jobs]:
            f.result()


def serialise(run):
    """vlib's scratch-directory counter and replay file naming are not thread-safe: put a lock around them"""
    lock = threading.Lock()
    prep, viol = run._prep, run.violation

    def _prep(*a, **kw):
        with lock:
            return prep(*a, **kw)

    def violation(*a, **kw):
        with lock:
            return viol(*a, **kw)
    run._prep, run.violation = _prep, violation


def design_level(run, thorough, base):
    """M: exhaustive TLC runs of the design; the negative controls (small models) run four at a time"""
    run.tlc_mc("Node", "Node_mc.cfg", dict(base, MaxChildren="3", StatOnlyEmpty="FALSE" if thorough else "TRUE"),
               workers=8 if thorough else 4, timeout=3000, name="Node_mc.cfg children<=3")
    if thorough:
        run.tlc_mc("Node", "Node_mc.cfg", dict(base, RawU=RAWU_OLD, MaxChildren="4", StatOnlyEmpty="FALSE"),
                   workers=8, timeout=3000, name="Node_mc.cfg children<=4 (reg/link names)")
    oc2 = {"MaxLayers": "2", "LmChoices": '{"none", ".prefetch.landmark", ".no.prefetch.landmark"}', "PfChoices": "{TRUE, FALSE}",
           "SubLmChoices": "{TRUE, FALSE}"} if thorough else {"MaxLayers": "2"}
    run.tlc_mc("OverlayCheck", "OverlayCheck_mc.cfg", oc2, workers=8 if thorough else 4, timeout=3000, name="OverlayCheck_mc.cfg all pairs")
    oc3 = {"MaxLayers": "3"} if thorough else {"MaxLayers": "3", "TopAChoices": "{FALSE}"}
    run.tlc_mc("OverlayCheck", "OverlayCheck_mc.cfg", oc3, workers=12 if thorough else 4, timeout=3000, name="OverlayCheck_mc.cfg triples")
    small = {"MaxChildren": "2"}
    ctl = []
    for ovr, exp in (({"RealWins": "FALSE"}, ["ListingIsTranslation"]),
                     ({"LandmarkHiding": '"all"'}, ["ListingIsTranslation"]),
                     ({"LandmarkHiding": '"none"'}, ["ListingIsTranslation"]),
                     ({"MemoComplete": "FALSE"}, NODE_PROPS),
                     ({"PrefixedWhiteoutLookup": "FALSE"}, ["ListedIffLookup", "ListedIffLookupA"]),
                     ({"OpaqueByMode": "FALSE"}, ["OpaqueXattr", "OpaqueXattrA"]),
                     ({"WhiteoutAttr": "FALSE"}, ["ListedIffLookup", "ListedIffLookupA", "InodesUniqueStable", "InodesUniqueStableA", "ListingIsTranslation", "ListingIsTranslationA"]),
                     ({"MemWhiteoutAttr": "FALSE"}, ["ListedIffLookup", "ListedIffLookupA", "ListingIsTranslation", "ListingIsTranslationA"]),
                     ({"HardLinkSharesInode": "FALSE"}, ["InodesUniqueStable", "InodesUniqueStableA"]),
                     ({"WriterDropsToc": "FALSE"}, ["ListingIsTranslation"])):
        ctl.append(lambda ovr=ovr, exp=exp: run.tlc_negctl("Node", "Node_mc.cfg", dict(small, **ovr), exp, drop=INTERNAL, workers=2))
    for ovr in ({"RealWins": "FALSE"}, {"OpaqueOn": "FALSE"}, {"MountKeyMatches": "FALSE", "Modes": '{"trusted", "user"}'}):
        ctl.append(lambda ovr=ovr: run.tlc_negctl("OverlayCheck", "OverlayCheck_mc.cfg", dict({"MaxLayers": "2", "TopAChoices": "{FALSE}"}, **ovr),
                                                  ["MergeEqualsApply"], drop=("SingleLayerSane",), workers=2))
    with concurrent.futures.ThreadPoolExecutor(max_workers=4) as ex:
        for f in [ex.submit(c) for c in ctl]:
            f.result()


def all_sequences(inits, edges, init_pred, edge_pred, depth):
    """every path of 1..depth selected edges from the selected initial states (same walk format as edge_cover)"""
    out = collections.defaultdict(list)
    for e in edges:
        if edge_pred(e["last"]):
            out[canon(e["from"])].append(e)
    res = []

    def rec(node, path):
        if path:
            res.append([dict(e["last"], post=e["to"]) for e in path])
        if len(path) < depth:
            for e in out.get(canon(node), ()):
                rec(e["to"], path + [e])
    for i in inits:
        if init_pred(i):
            rec(i, [])
    # a prefix of a replayed walk is replayed anyway: keep the paths that cannot be extended
    keep = [w for w in res if len(w) == depth or not out.get(canon(w[-1]["post"]))]
    return keep


def prepare_nodes(run, thorough, base):
    # ---------------------------------------------------------------- R: Node walks on real nodes
    gen = dict(base, MaxChildren="3" if thorough else "2", ExtraContents="{}" if thorough else EXTRA3)
    inits, edges = run.tlc_edges("NodeGen", "Node_gen.cfg", gen, timeout=1500)
    walks, st = edge_cover(inits, edges, maxlen=24, rng=run.rng, extra_walks=300 if thorough else 40)
    # ... plus EVERY sequence of <= 4 (thorough 5) state-file calls on the empty root (lookup / getattr of the stat file, blob progress,
    # error report, read through the inode held - with no implicit re-stat), and every sequence of <= 3 calls
    # out of Readdir / Lookup / Forget of the served names on two small directories (call orders, not just edges)
    seqs = all_sequences(inits, edges, lambda i: i["isRoot"] and not i["src"],
                         lambda l: l["act"] in ("StatLookup", "StatGetattr", "Progress", "Report", "StatRead"), 5 if thorough else 4)
    for content, names in ((["a", ".wh.a"], ("a", "zz")), ([".wh.a", ".wh..wh.foo"], ("a", ".wh.foo", "zz")),
                           (["a", "l"], ("a", "l")), (["c13", "c00"], ("c13", "c00"))):
        seqs += all_sequences(inits, edges, lambda i: not i["isRoot"] and sorted(i["src"]) == sorted(content),
                              lambda l: l["act"] in ("Readdir", "Forget") or (l["act"] == "Lookup" and l["n"] in names), 3)
    walks += seqs
    st["sequences"] = len(seqs)
    log("[walks] node: %s" % st)
    run.cov["stages"].append(dict(stage="edge-cover", graph="node", **st))
    run.cov["exhaustive"] = st["covered"] == st["edges"]
    jobs = collections.OrderedDict()
    for w in walks:
        p = w[0]["post"]
        key = (p["isRoot"], p["mode"], tuple(sorted(p["src"])))
        j = jobs.setdefault(key, {"root": p["isRoot"], "mode": p["mode"], "src": sorted(p["src"]), "walks": []})
        steps = [{"act": s["act"], "n": s.get("n", ""), "k": s.get("k", "")} for s in w]
        steps.append({"act": "Readdir", "n": "", "k": ""})      # every trace ends with a listing (a legal call in any state)
        j["walks"].append(steps)
    inp = os.path.join(run.scratch, "node_in.json")
    write_json(inp, {"jobs": list(jobs.values())})
    return inp, os.path.join(run.scratch, "node")


def prepare_stacks(run, thorough):
    # ---------------------------------------------------------------- R: stacks of real served trees
    lov = {"MaxLayers": "1", "PfChoices": "{TRUE, FALSE}"}
    if thorough:
        lov.update({"LmChoices": '{"none", ".prefetch.landmark", ".no.prefetch.landmark"}', "SubLmChoices": "{TRUE, FALSE}"})
    r = run.tlc("OverlayGen", "OverlayCheck_gen.cfg", lov, workers=1, timeout=600)
    layers = [json.loads(x) for x in r.lines("VLAYER")]
    if not layers:
        raise Inconclusive("OverlayGen printed no layers: %s" % (r.error or r.out[-2000:]))
    layers = [{"top": fix_empty(x["top"]), "sub": {d: fix_empty(c) for d, c in fix_empty(x["sub"]).items()}} for x in layers]
    layers.sort(key=canon)
    modes = ["trusted", "user", "all"]
    linp = os.path.join(run.scratch, "overlay_in.json")
    write_json(linp, {"layers": layers, "modes": modes})
    oout = os.path.join(run.scratch, "overlay")
    log("[overlay] %d model layers x %d modes" % (len(layers), len(modes)))
    return linp, oout, layers, modes


def validate_stacks(run, thorough, store, spath, layers, modes):
    nl = len(layers)
    if True:
        served = read_ndjson(spath)
        line_of = {(e["layer"], e["mode"]): i + 1 for i, e in enumerate(served)}
        # stacks: every single layer in every mode, pairs and triples sampled by seed
        stacks = []
        rng = random.Random(run.seed * 7919 + (1 if store == "db" else 0))

        def add(ls, mode, key):
            stacks.append({"lines": [line_of[(x, mode)] for x in ls], "key": key, "layers": ls, "mode": mode})
        for i in range(1, nl + 1):
            for mode in modes:
                for key in (["trusted.overlay.opaque"] if mode == "trusted" else ["user.overlay.opaque"] if mode == "user"
                            else ["trusted.overlay.opaque", "user.overlay.opaque"]):
                    add([i], mode, key)
        mk = [("trusted", "trusted.overlay.opaque"), ("user", "user.overlay.opaque"), ("all", "trusted.overlay.opaque"), ("all", "user.overlay.opaque")]
        npairs, ntriples = (30000, 30000) if thorough else (1500, 1500)
        pairs = [(a, b) for a in range(1, nl + 1) for b in range(1, nl + 1)]
        rng.shuffle(pairs)
        for n, (a, b) in enumerate(pairs[:npairs]):
            add([a, b], *mk[n % 4])
        for n in range(ntriples):
            add([rng.randint(1, nl), rng.randint(1, nl), rng.randint(1, nl)], *mk[n % 4])
        stp = os.path.join(run.scratch, "stacks_%s.ndjson" % store)
        with open(stp, "w") as fh:
            for s in stacks:
                fh.write(json.dumps(s) + "\n")
        mr = run.tlc("OverlayMonitor", "OverlayMonitor.cfg", None, workers=2 if not thorough else 6, timeout=3000,
                     extra={"trace.ndjson": spath, "stacks.ndjson": stp})
        log("[overlay] %-6s %d served trees, %d stacks: %s (%.1fs)" % (store, len(served), len(stacks), mr.violated or ("ok" if mr.completed else "BROKEN"), mr.wall))
        run.cov["evaluations"] += len(stacks)
        if mr.violated:
            line = failing_line(mr)
            s = stacks[line - 1] if line else stacks[0]
            top = served[s["lines"][-1] - 1]
            if mr.violated == "MonMergeEqualsApply":
                detail = "stack:" + "|".join(",".join(sorted(layers[x - 1]["top"]) + sorted("d/" + y for y in layers[x - 1]["sub"].get("d", {}))) for x in s["layers"])
            else:
                detail = "layer:" + ",".join(sorted(top["model"]["top"]) + sorted("d/" + y for y in top["model"]["sub"].get("d", {})))
            run.violation("overlay:%s:%s:%s" % (mr.violated, detail, store),
                          "%s false on trees served by real nodes (%s store): stack (lowest first) %s, mount key %s" %
                          (mr.violated, store, json.dumps([layers[x - 1] for x in s["layers"]]), s["key"]),
                          {"formula": mr.violated, "store": store, "stack": s, "served": [served[i - 1] for i in s["lines"]]})
        elif not mr.completed:
            raise Inconclusive("overlay monitor broke: %s\n%s" % (mr.error, "\n".join(mr.out.splitlines()[-30:])))
        else:
            run.cov["traces_validated_against_impl"] += len(served)
            multi = [s for s in stacks if len(s["layers"]) > 1]
            run.cov["distinct_nontrivial"] += len({canon(s["layers"]) + s["key"] for s in multi})
            run.add_samples([{"store": store, "stack_lowest_first": [layers[x - 1] for x in multi[0]["layers"]], "key": multi[0]["key"],
                              "served_top": served[multi[0]["lines"][-1] - 1]["served"]}], limit=3)


if __name__ == "__main__":
    main(check, "C07")

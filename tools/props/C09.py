#!/usr/bin/env python3
"""C09 - a crash at any point leaves a root on which the snapshotter restarts consistent and re-mounted (spec/Snapshotter.tla)."""
import os, sys
sys.path.insert(0, os.path.dirname(os.path.dirname(os.path.abspath(__file__))))
from vlib import *
import snapcommon as sc

PID = "C09"


def check(run):
    sc.check(run, PID)


if __name__ == "__main__":
    main(check, PID)

#!/usr/bin/env python3
"""C13 - background tasks yield to prioritized work, stay bounded, never self-overlap (TaskMgr.tla)."""
import os, sys, json
sys.path.insert(0, os.path.dirname(os.path.dirname(os.path.abspath(__file__))))
from vlib import *

OVERLAY = {"task/verif_taskmgr_test.go": "task/verif_taskmgr_test.go"}
OVERLAY_FS = {"fs/verif_taskcallers_test.go": "fs/verif_taskcallers_test.go"}
INTERNAL = ("TypeOK", "PrioAccount", "SemAccount", "SemBound")
SITE = "InvokeBackgroundTask"
FORMULAS = ("Bounded", "NoSelfOverlap", "NoneRunningAtReturn", "MonStartOnlyWhenQuiet", "MonAllReturned", "MonCancelReaches",
            "MonCallersBalanced", "MonNoLateStart")
# the monitor evaluates every formula on every recorded state and reports all that are false (TLC stops at the first
# violated invariant otherwise); TLC still does the deciding, python only reads the VFAIL lines
MON_REPORT = """
MonReport ==
%s
""" % "\n".join('    /\\ (%s \\/ PrintT("VFAIL %s " \\o ToString(l - 1)))' % (f, f) for f in FORMULAS)


def monitor(run, trace_path, ov):
    src = open(os.path.join(SPEC, "TaskMgrMonitor.tla")).read()
    cut = src.rindex("\n====") + 1
    extra = {"TaskMgrMonitorR.tla": src[:cut].replace("MODULE TaskMgrMonitor", "MODULE TaskMgrMonitorR", 1) + MON_REPORT + src[cut:],
             "trace.ndjson": trace_path}
    cfg = Run.cfg_text("TaskMgrMonitor.cfg", ov)
    cfg = re.sub(r"(?m)^INVARIANTS .*$", "INVARIANTS MonReport", cfg)
    r = run.tlc("TaskMgrMonitorR", cfg, None, 1, 600, extra=extra)
    if not r.completed:
        raise Inconclusive("monitor broke: %s\n%s" % (r.error or r.violated, "\n".join(r.out.splitlines()[-30:])))
    fails = collections.OrderedDict()
    for x in r.lines("VFAIL"):
        f, line = x.split()
        fails.setdefault(f, int(line))     # first recorded event after which the formula is false
    return fails


def validate(run, trace_path, conc, period_us, what, SITE=SITE):
    events = read_ndjson(trace_path)
    if not events:
        raise Inconclusive("no events recorded for " + what)
    traces = split_traces(events)
    ov = {"Concurrency": str(conc)}
    fails = monitor(run, trace_path, dict(ov, PeriodUs=str(period_us)))
    res = run.tlc_trace("TaskMgrTrace", "TaskMgrTrace.cfg", trace_path, ov, timeout=900)
    pinned_like = None
    if not res["accepted"]:
        alt = run.tlc_trace("TaskMgrTrace", "TaskMgrTrace.cfg", trace_path, dict(ov, WaitBodyOnCancel="FALSE"), timeout=900)
        pinned_like = alt["accepted"]
    log("[trace] %-14s conc=%d: %d traces %d events: conformance %s, monitor %s" %
        (what, conc, len(traces), len(events),
         "accepted" if res["accepted"] else "REJECTED at line %s%s" % (
             (res["consumed"] or 0) + 1, " (accepted by the design WITHOUT WaitBodyOnCancel)" if pinned_like else ""),
         ",".join(fails) or "ok"))
    run.cov["evaluations"] += len(events)

    def trace_of(line):
        tr = [t for t in traces if t[0] <= line][-1]
        return tr, line - tr[0] + 1

    for f, line in fails.items():
        tr, idx = trace_of(line)
        name = {"MonStartOnlyWhenQuiet": "StartOnlyWhenQuiet", "MonAllReturned": "hang:EventuallyCompletes",
                "MonCancelReaches": "hang:CancelOnPrioritized", "MonCallersBalanced": "CallersBalanced", "MonNoLateStart": "StartOnlyWhenQuiet:late-start"}.get(f, f)
        run.violation("monitor:%s:%s:%s" % (name, SITE, what),
                      "%s false on the recorded states after event %d (%s) of a %s trace (concurrency %d)" % (
                          name, idx, json.dumps(tr[1][idx - 1]), what, conc),
                      {"formula": name, "concurrency": conc, "period_us": period_us, "event_index": idx, "trace": tr[1][:idx]})
    if not res["accepted"]:
        line = (res["consumed"] or 0) + 1
        tr, idx = trace_of(line)
        bad = events[line - 1] if line <= len(events) else {}
        if res["violated"]:
            run.inconclusive.append("SPEC-DRIFT %s: internal invariant %s false while following the trace" % (what, res["violated"]))
        elif pinned_like and bad.get("ev") == "Release":
            # the only difference between the two designs is the property-bearing guard "the semaphore is released /
            # the invocation goes on only after the cancelled body is done" (DESIGN 2.5 case 2)
            run.violation("pbg:ReleaseBeforeBodyDone:%s:%s" % (SITE, what),
                          "event %d: invocation %s gives up its semaphore unit after cancel() while its body has not ended; "
                          "the trace conforms to the design without WaitBodyOnCancel, for which TLC shows Bounded, NoSelfOverlap "
                          "and NoneRunningAtReturn false" % (idx, bad.get("i")),
                          {"concurrency": conc, "event_index": idx, "trace": tr[1][:idx]})
        elif not fails:
            run.inconclusive.append("SPEC-DRIFT %s conc=%d: event %d %s not explained by TaskMgr.tla although no C13 formula is false; prefix: %s" % (
                what, conc, idx, json.dumps(bad), json.dumps([(e["ev"], e["i"], e["n"], e["tasks"]) for e in tr[1][max(0, idx - 12): idx]])))
    if res["accepted"] and not fails:
        run.cov["traces_validated_against_impl"] += len(traces)
        nontriv = [t for s, t in traces if any(e["ev"] == "Notified" for e in t)]
        run.cov["distinct_nontrivial"] += len({digest([(e["ev"], e["i"], e["n"]) for e in t]) for t in nontriv})
        run.add_samples([{"mode": what, "concurrency": conc,
                          "events": [" ".join(str(e[k]) for k in ("ev", "i", "n", "tasks")) for e in t[:40]]} for t in nontriv[:1]], limit=3)
    return len(traces)


def negctl_live(run, cfg, overrides, expect):
    """vlib.tlc_negctl does not recognise this TLC's 'Temporal property X was violated' line"""
    r = run.tlc("TaskMgr", cfg, overrides, 4, 900)
    m = re.search(r"Temporal property (\S+) was violated", r.out)
    got = m.group(1) if m else r.violated
    ok = got == expect
    log("[negctl] %-28s %-28s -> %s %s" % (cfg, overrides, got, "OK" if ok else "NOT DETECTED"))
    if not ok:
        raise Inconclusive("negative control %s %s: expected %s, got %s (%s)" % (cfg, overrides, expect, got, r.error))
    run.cov["stages"].append({"stage": "negctl", "config": cfg, "off": overrides, "violated": got})


def steps_of(walk):
    out = []
    for s in walk:
        st = {"act": s["act"], "i": s.get("i", 0), "n": s.get("n", 0), "w": s.get("w", 0)}
        if s["act"] == "BodyEnd":
            b = s["post"]["bodies"]
            bi = b[s["i"] - 1] if isinstance(b, list) else b[str(s["i"])]
            st["cx"] = bool(bi[s["n"] - 1]["cx"])
        out.append(st)
    return out


def check(run):
    thorough = run.tier == "thorough"
    run.cov["rule"] = ("behaviours = (G) walks covering every edge of the TLC state graphs of TaskMgr (generation configs, with and "
                       "without WaitBodyOnCancel) replayed through the gates of task/task.go on a real BackgroundTaskManager, plus (T) "
                       "free-running seeded executions under -race; non-trivial = a running body was notified of a prioritized "
                       "begin; distinct by hash of the recorded event list")
    run.assumptions += [
        "context.WithTimeout: the deadline is an environment step Timeout(i) of the model (body notices arbitrarily late); drivers give "
        "some invocations a short real timeout (free run 0.5-4 ms, gated 2 ms whose firing instant is not gated); semaphore FIFO order "
        "is abstracted to any waiter",
        "the two lock-free reads of the counter in the wait loop are not compared with the model's counter in trace validation",
        "silence period: monotonic timestamps taken inside the hooks (Done before the goroutine is spawned, Decided after the read)",
        "liveness (CancelOnPrioritized, EventuallyCompletes) is checked on the model under weak fairness; on the implementation only "
        "bounded-wait versions (30 s return, 10 s cancellation) are checked",
        "TLC bounds: see stages"]

    # development knobs (not used by ./check): VERIF_C13_FAST=1 skips the model-only stages, VERIF_C13_WALKS reuses a walks file
    fast = os.environ.get("VERIF_C13_FAST") == "1"
    if not fast:
        model_stages(run, thorough)
    binding_stages(run, thorough)


def model_stages(run, thorough):
    # M: design level (the repaired design: WaitBodyOnCancel = TRUE)
    run.tlc_mc("TaskMgr", "TaskMgr_mc.cfg", None if thorough else {"MaxDo": "2"}, workers=4, timeout=3000)
    if thorough:
        run.tlc_mc("TaskMgr", "TaskMgr_mc.cfg", {"Concurrency": "2"}, workers=4, timeout=3000,
                   name="TaskMgr_mc.cfg conc2")
    run.tlc_mc("TaskMgr", "TaskMgr_live.cfg", None if thorough else {"MaxDo": "1"}, workers=4, timeout=3000)
    small = {"MaxDo": "2"}
    run.tlc_negctl("TaskMgr", "TaskMgr_mc.cfg", dict(small, WaitBodyOnCancel="FALSE"), ["Bounded", "NoSelfOverlap", "NoneRunningAtReturn"], drop=INTERNAL)
    run.tlc_negctl("TaskMgr", "TaskMgr_mc.cfg", dict(small, RecheckUnderLock="FALSE"), ["StartOnlyWhenQuiet"], drop=INTERNAL)
    run.tlc_negctl("TaskMgr", "TaskMgr_mc.cfg", dict(small, DecrAfterSilence="FALSE"), ["StartOnlyWhenQuiet"], drop=INTERNAL)
    run.tlc_negctl("TaskMgr", "TaskMgr_mc.cfg", dict(small, UseSem="FALSE"), ["Bounded"], drop=INTERNAL)
    # a select arm <-ctx.Done() that returns without waiting for the body (not in the code)
    run.tlc_negctl("TaskMgr", "TaskMgr_mc.cfg", dict(small, AwaitBodyOnTimeout="FALSE"), ["Bounded", "NoneRunningAtReturn"], drop=INTERNAL)
    # Acquire under the timeout ctx with its result ignored (not in the code): a body starts without a slot
    run.tlc_negctl("TaskMgr", "TaskMgr_mc.cfg", dict(small, AcquireIgnoresTimeout="FALSE"), ["Bounded"], drop=INTERNAL)
    run.tlc_mc("TaskMgr", "TaskMgr_cancel.cfg", None if thorough else {"MaxDo": "1"}, workers=4, timeout=3000)
    negctl_live(run, "TaskMgr_cancel.cfg", {"MaxDo": "1", "NotifyArm": "FALSE"}, "CancelOnPrioritized")
    negctl_live(run, "TaskMgr_live.cfg", {"MaxDo": "1", "BroadcastAll": "FALSE"}, "EventuallyCompletes")



def binding_stages(run, thorough):
    # G: every edge of the generation graphs, replayed through the gates
    jobs = []
    exhaustive = True
    # quick: deadlines (Timeout steps) only in the 1-invocation waiting graph; thorough: in every graph
    tmo = {} if thorough else {"Timeouts": "FALSE"}
    gens = [("1inv-wait", {}, 1, 1), ("1inv-nowait", dict(tmo, WaitBodyOnCancel="FALSE"), 1, 1),
            ("2inv-wait", dict(tmo, Invs="{1, 2}", MaxDo="1"), 2, 1),
            ("2inv-nowait", dict(tmo, Invs="{1, 2}", MaxDo="1", WaitBodyOnCancel="FALSE"), 2, 1),
            # the design in which Acquire gets the timeout ctx and its result is ignored (not the code): on an implementation
            # that keeps waiting for a slot the walks with an AcquireTimeout step do not apply ("acquire-blocked")
            ("2inv-acqtmo", dict(Invs="{1, 2}", MaxDo="0", AcquireIgnoresTimeout="FALSE"), 2, 1)]
    if thorough:
        gens += [("2inv-conc2-wait", {"Invs": "{1, 2}", "MaxDo": "1", "Concurrency": "2"}, 2, 2),
                 ("2inv-conc2-nowait", {"Invs": "{1, 2}", "MaxDo": "1", "Concurrency": "2", "WaitBodyOnCancel": "FALSE"}, 2, 2)]
    reuse = os.environ.get("VERIF_C13_WALKS")
    if reuse and os.path.exists(reuse):
        jobs = json.load(open(reuse))
        for j in jobs:
            j["out"] = os.path.join(run.scratch, "gated_%s.ndjson" % j["name"])
        gens = []
    for name, ov, ninv, conc in gens:
        inits, edges = run.tlc_edges("TaskMgrGen", "TaskMgr_gen.cfg", ov or None, timeout=1200)
        walks, st = edge_cover(inits, edges, maxlen=40, rng=run.rng, extra_walks=100 if thorough else 10)
        log("[walks] %s: %s" % (name, st))
        exhaustive = exhaustive and st["covered"] == st["edges"]
        jobs.append({"name": name, "conc": conc, "invs": ninv, "out": os.path.join(run.scratch, "gated_%s.ndjson" % name),
                     "walks": [steps_of(w) for w in walks]})
        run.cov["stages"].append(dict(stage="edge-cover", graph=name, **st))
    inp = os.path.join(run.scratch, "walks.json")
    write_json(inp, jobs)
    if reuse and not os.path.exists(reuse):
        write_json(reuse, jobs)
    free = os.path.join(run.scratch, "free")
    period_us = 3000
    rc, out = run.go_driver("", "./task/", OVERLAY, "^TestVerifTask(Gated|Free)$",
                            env={"VERIF_IN": inp, "VERIF_FREE_OUT": free, "VERIF_PERIOD_US": str(period_us),
                                 "VERIF_FREE_TRACES": "300" if thorough else "40"}, timeout=3000, extra_args=("-v",))
    if rc != 0:
        run.violation("datarace:task", "data race reported in the task package under the driver", {"log": out[-6000:]})
        return
    m = re.search(r"^VSTATS (.*)$", out, re.M)
    stats = json.loads(m.group(1)) if m else []
    for s in stats:
        log("[gated] %-18s %d walks: %d completed, diverged %s, skipped %d, %d steps executed" % (
            s["name"], s["walks"], s["completed"], s["diverged"], s["skipped"], s["steps"]))
        run.cov["stages"].append(dict(stage="gated-replay", **s))
        other = {k: v for k, v in s["diverged"].items() if k not in ("release-blocked", "acquire-blocked", "select-other-arm", "select-retry", "wakeup", "cxtimeout")}
        if s["diverged"].get("acquire-blocked") and "acqtmo" not in s["name"]:
            run.inconclusive.append("gated replay %s: implementation stayed queued in Acquire where the design goes on" % s["name"])
        if s["diverged"].get("select-other-arm") and "nowait" not in s["name"] and "acqtmo" not in s["name"]:
            exhaustive = False      # some edges behind a two-armed select were not reached even after retries
        if other:
            # a step the specification enables did not happen in the implementation within the wait (or the scheduler is wrong)
            run.inconclusive.append("gated replay %s: walks abandoned for %s" % (s["name"], other))
        if s["diverged"].get("release-blocked"):
            if "nowait" not in s["name"]:
                run.inconclusive.append("gated replay %s: implementation blocked before a semaphore release the design enables" % s["name"])
            exhaustive = exhaustive and "nowait" in s["name"]
    for conc in sorted({j["conc"] for j in jobs}):
        # one TLC run per concurrency: the gated traces of all graphs are concatenated (each starts with Reset)
        merged = os.path.join(run.scratch, "gated_all_c%d.ndjson" % conc)
        with open(merged, "w") as fh:
            for j in jobs:
                if j["conc"] == conc:
                    fh.write(open(j["out"]).read())
        validate(run, merged, conc, 100, "gated")
    for conc in (1, 2):
        validate(run, "%s_c%d.ndjson" % (free, conc), conc, period_us, "free-run")
    # callers: filesystem.Check on all its paths must end every prioritized task it begins (hook events of a real manager)
    callers = os.path.join(run.scratch, "callers.ndjson")
    run.go_driver("", "./fs/", OVERLAY_FS, "^TestVerifTaskCallers$", env={"VERIF_CALLERS_OUT": callers}, timeout=1200, race=False)
    validate(run, callers, 1, 1000, "callers", SITE="fs.Check")
    run.cov["exhaustive"] = exhaustive


if __name__ == "__main__":
    main(check, "C13")

#!/usr/bin/env python3
"""C02 - lazily served files and metadata equal the source tar under any access history (ReadPath.tla, TarMeta.tla)."""
import os, sys, json
sys.path.insert(0, os.path.dirname(os.path.dirname(os.path.abspath(__file__))))
from vlib import *

OV_LAYER = {"fs/layer/verif_readpath.go": "fs/layer/verif_readpath.go",
            "fs/layer/verif_readpath_test.go": "fs/layer/verif_readpath_test.go"}
OV_DB = {"fs/layer/verif_readpath.go": "fs/layer/verif_readpath.go",
         "cmd/containerd-stargz-grpc/db/verif_readpath_test.go": "cmd/containerd-stargz-grpc/db/verif_readpath_test.go"}
STORES = [("memory", "", "./fs/layer/", OV_LAYER), ("db", "cmd", "./containerd-stargz-grpc/db/", OV_DB)]
INTERNAL = ("TypeOK", "LayoutOK", "TarOK")


# ---------------------------------------------------------------------------------------------- input space
def ent(path, typ, **kw):
    d = dict(path=path, style="plain", type=typ, file=0, size=0, mode=0o644, uid=0, gid=0, target="", link=[], linkstyle="plain",
             major=0, minor=0, xattrs=[], mtime=1000)
    if typ == "dir":
        d["mode"] = 0o755
    d.update(kw)
    return d


def read_layers(run):
    """Layers for the byte half: model file table (files 1..3; 3 is empty) x a small grid of build options."""
    thorough = run.tier == "thorough"
    shapes = [(7, 2, 3), (6, 3, 2), (5, 3, 3), (8, 1, 3), (4, 4, 2), (9, 2, 3)]
    s1, s2, ch = shapes[(run.seed - 1) % len(shapes)]
    ents = [ent(["d"], "dir"), ent(["d", "f1"], "reg", file=1, size=s1), ent(["f2"], "reg", file=2, size=s2, style="dot"),
            ent(["f3"], "reg", file=3, size=0)]
    big = 1 << 20
    grid = [("own", ch, 0, "exttoc", [], "mem", "node", 2),            # every chunk its own stream, 2 build workers, external TOC
            ("prio", ch, big, "gzip", ["f2"], "dir", "node", 1),       # min-chunk-size: {f2} | {landmark, f1 chunks}
            ("zall", 2 if ch == 3 else 3, big, "zstd", ["d/f1"], "mem", "reader", 1)]   # zstd:chunked, {f1 chunks} | {landmark, f2}
    if thorough:
        grid += [("all", ch, big, "gzip", [], "mem", "reader", 1),     # one stream: landmark + everything
                 ("mid", 2, 70, "gzip", [], "dir", "node", 1),         # streams closed by compressed size
                 ("zown", ch, 0, "zstd", ["f2", "d/f1"], "dir", "reader", 4),   # 4 build workers
                 ("gown", ch, 0, "gzip", [], "mem", "reader", 1)]      # plain gzip default build
    res = [dict(name=n, entries=ents, chunk=c, minchunk=m, comp=comp, prio=p, cache=ck, via=via, workers=w)
           for n, c, m, comp, p, ck, via, w in grid]
    lens = ["{1, 4, 9}", "{1, 4, 9}", "{2, 9}"] if not thorough else ["{1, 2, 3, 5, 10}"] * 6 + ["{1, 4, 9}"]
    for l, ln in zip(res, lens):
        l["gen"] = {"Lens": ln}
    # a file of 10 chunks of 50 bytes (chunk offsets >= 64, not aligned): reads at and across chunk boundaries and of the
    # whole file; the environment may drop the 2nd and the 9th chunk only (keeps the state graph small)
    big = dict(name="big", entries=[ent(["big"], "reg", file=1, size=500)], chunk=50, minchunk=0, comp="gzip", prio=[], cache="mem",
               via="node", workers=1)
    bounds = {"Offs": "{0, 75, 449, 500}" if not thorough else "{0, 49, 50, 75, 449, 450, 500}", "EvictOffs": "{50, 400}"}
    big["gen"] = dict(bounds, Lens="{1, 60, 500}" if not thorough else "{1, 51, 500}")
    big["mc"] = dict(bounds, Lens="{1, 50, 51, 60, 120, 500}")
    return res + [big]


def meta_layers(run):
    """Tar shapes for the metadata half (entry types, name spellings, implicit parents, hard-link chains, duplicate names, xattrs)."""
    k = run.seed
    s1 = [ent(["a"], "dir", mode=0o2755, uid=1, gid=2, mtime=1111, xattrs=[["user.k", "v%d" % k]]),
          ent(["a", "f"], "reg", file=1, size=3, mode=0o4644, style="dot"),
          ent(["a", "s"], "symlink", target="../x/y" + "z" * (k % 3), mode=0o777),
          ent(["h"], "hardlink", link=["a", "f"], linkstyle="slash"),
          ent(["c"], "char", major=1, minor=4 + k, mode=0o620),
          ent(["bd"], "block", major=259, minor=4000, mode=0o660, gid=6),
          ent(["p", "q", "g"], "reg", file=2, size=2, mode=0o600, uid=1000, gid=1000 + k, style="slash")]
    s2 = [ent(["x"], "reg", file=1, size=2),
          ent(["x"], "reg", file=2, size=4, mode=0o755, mtime=2000 + k),
          ent(["d"], "dir", mode=0o700),
          ent(["d"], "dir", mode=0o1711, mtime=3000, style="dot"),
          ent(["d", "y"], "reg", file=3, size=1, style="dotdot", xattrs=[["user.a", "1"], ["security.x", "zz"]]),
          ent(["l1"], "hardlink", link=["x"]),
          ent(["l2"], "hardlink", link=["l1"], linkstyle="dot"),
          ent(["b"], "block", major=8, minor=1, mode=0o660, gid=6),
          # every combination of setuid / setgid / sticky on regular files and directories (the single bits are on a/f, a, d)
          ent(["x6"], "reg", file=4, size=1, mode=0o6755), ent(["x5"], "reg", file=5, size=1, mode=0o5755),
          ent(["x3"], "reg", file=6, size=1, mode=0o3755), ent(["x7"], "reg", file=7, size=1, mode=0o7711),
          ent(["x2"], "reg", file=8, size=1, mode=0o2755), ent(["x1"], "reg", file=10, size=1, mode=0o1644),
          ent(["t3"], "dir", mode=0o3775, gid=8), ent(["t5"], "dir", mode=0o5755), ent(["t6"], "dir", mode=0o6755),
          ent(["t7"], "dir", mode=0o7711), ent(["t4"], "dir", mode=0o4755, style="dot"),
          # device numbers around the 8 bit / 12 bit boundaries of the rdev encoding
          ent(["c255"], "char", major=1, minor=255, mode=0o600),
          ent(["b256"], "block", major=255, minor=256, mode=0o600),
          ent(["c300"], "char", major=[7, 259, 226][k % 3], minor=300, mode=0o666),
          ent(["bmax"], "block", major=4095, minor=1048575, mode=0o640),
          ent(["ff"], "fifo", mode=0o644, uid=k)]
    s3 = [ent(["e"], "reg", file=1, size=0, mode=0o2755),
          ent(["u", "v"], "dir", mode=0o2775, gid=50, style="slash"),
          ent(["u", "v", "w"], "symlink", target="/" + "t" * (5 + k), mode=0o777),
          ent(["u", "r"], "reg", file=2, size=5, mode=0o444, xattrs=[["user.k", ""]]),
          ent(["u", "v", "k1"], "hardlink", link=["u", "r"]),
          ent(["u", "k2"], "hardlink", link=["u", "v", "k1"], style="dot"),
          ent(["n"], "char", major=0, minor=0, mode=0o000),
          ent(["u", "sp"], "dir", mode=0o3775, gid=8), ent(["u", "v", "su"], "reg", file=3, size=1, mode=0o6755),
          ent(["u", "v", "all"], "reg", file=4, size=2, mode=0o7711), ent(["u", "t5"], "dir", mode=0o5750),
          ent(["u", "dri"], "char", major=226, minor=1152, mode=0o660, gid=44),
          ent(["u", "v", "nvme"], "block", major=259, minor=4000 + k, mode=0o660)]
    big = 1 << 20
    res = [dict(name="m1", entries=s1, chunk=2, minchunk=0, comp="gzip", prio=[], cache="mem", via="node"),
           dict(name="m2", entries=s2, chunk=3, minchunk=big, comp="zstd", prio=["d/y"], cache="mem", via="node")]
    if run.tier == "thorough":
        res.append(dict(name="m3", entries=s3, chunk=2, minchunk=0, comp="exttoc", prio=["u/r", "e"], cache="dir", via="node", workers=3))
    return res


def tla(v):
    if isinstance(v, dict):
        return "[" + ", ".join("%s |-> %s" % (k, tla(x)) for k, x in v.items()) + "]"
    if isinstance(v, bool):
        return "TRUE" if v else "FALSE"
    if isinstance(v, (list, tuple)):
        return "<<" + ", ".join(tla(x) for x in v) + ">>"
    if isinstance(v, str):
        return json.dumps(v)
    return str(v)


def mc_module(layout):
    return ("---- MODULE ReadPathMC ----\nEXTENDS ReadPathGen\nMCSizes == %s\nMCChunkTab == %s\nMCPrefetch == %s\n====\n"
            % (tla(layout["sizes"]), tla(layout["chunks"]), tla(layout["prefetch"])))


def meta_module(entries):
    return "---- MODULE TarMetaMC ----\nEXTENDS TarMetaGen\nMCTar == %s\n====\n" % tla(entries)


def go_stage(run, store, inp, timeout=1200):
    name, mod, pkg, ov = store
    rc, out = run.go_driver(mod, pkg, ov, "^TestVerifC02$", env={"VERIF_IN": inp}, timeout=timeout)
    if rc != 0:
        m = re.search(r"WARNING: DATA RACE\n(?:.*\n){0,40}", out)
        run.violation("datarace:readpath:%s" % name, "data race reported while serving reads (%s store)" % name,
                      {"log": (m.group(0) if m else out[-6000:])})


def locate(events, line):
    traces = split_traces(events)
    tr = [t for t in traces if t[0] <= line][-1]
    return tr, line - tr[0]


def report_monitor(run, module, viol, mr, events, what):
    m = re.findall(r"/\\ l = (\d+)", mr.out)
    line = int(m[-1]) - 1 if m else 1
    tr, idx = locate(events, line)
    bad, head = events[line - 1], tr[1][0]
    sig = "monitor:%s:%s:%s:%s:%s" % (viol, what, head.get("cfg"), head.get("store"), bad.get("ev"))
    run.violation(sig, "%s false on recorded implementation results (%s, layer %s, %s store) at event %d: %s" %
                  (viol, what, head.get("cfg"), head.get("store"), idx, json.dumps(bad)[:600]),
                  {"formula": viol, "mode": what, "event_index": idx, "trace": tr[1][: idx + 1][-40:]})


def validate(run, tmod, tcfg, mmod, mcfg, path, what, nontrivial):
    events = read_ndjson(path)
    traces = split_traces(events)
    viol, mr = run.tlc_monitor(mmod, mcfg, path, timeout=2400)
    res = run.tlc_trace(tmod, tcfg, path, timeout=2400) if tmod else None
    log("[trace] %-10s %d traces %d events: conformance %s, monitor %s" % (
        what, len(traces), len(events),
        "-" if res is None else "accepted" if res["accepted"] else "REJECTED at line %s" % res["consumed"], viol or "ok"))
    run.cov["evaluations"] += len(events)
    if viol:
        report_monitor(run, mmod, viol, mr, events, what)
        return
    if res is not None and not res["accepted"]:
        line = min((res["consumed"] or 0) + 1, len(events))
        tr, idx = locate(events, line)
        if res["violated"] and res["violated"] not in INTERNAL:
            head = tr[1][0]
            run.violation("trace-invariant:%s:%s:%s:%s" % (res["violated"], what, head.get("cfg"), head.get("store")),
                          "%s false while following the recorded trace" % res["violated"], {"trace": tr[1][: idx + 2][-40:]})
        else:
            run.inconclusive.append("SPEC-DRIFT %s: event %d %s of layer %s (%s store) not explained by %s although no C02 formula is false; prefix: %s" % (
                what, idx, json.dumps(events[line - 1])[:500], tr[1][0].get("cfg"), tr[1][0].get("store"), tmod,
                json.dumps(tr[1][max(0, idx - 4): idx + 1])[:1500]))
        return
    run.cov["traces_validated_against_impl"] += len(traces)
    run.cov["distinct_nontrivial"] += len({digest(t[1:]) for s, t in traces if any(nontrivial(e) for e in t)})
    run.add_samples([{"mode": what, "cfg": t[0].get("cfg"), "store": t[0].get("store"),
                      "events": [{k: v for k, v in e.items() if k != "tar"} for e in t[:8]]} for s, t in traces[2:3]], limit=4)


def check(run):
    thorough = run.tier == "thorough"
    run.cov["rule"] = ("replay: walks covering every edge of the TLC state graph of ReadPath (state = chunk-cache content; reads of every "
                       "offset x a set of lengths, evictions, prefetch, background fetch) for each layer of the option grid, and of TarMeta "
                       "(memoised listings x lookups/readdirs/getattr/readlink/getxattr) for each tar shape, executed against really built and "
                       "served layers on both metadata stores; free run: concurrent readers + evictions + cache fills under -race; "
                       "non-trivial = trace contains a read / a metadata answer; distinct by hash")
    run.assumptions += ["the compressed blob is a local SectionReader: remote blob, blob chunk cache and fetch failures are C06's",
                        "chunk-cache evictions are imposed by a wrapper around the real memory / directory cache (C11 covers the cache itself)",
                        "files <= 9 bytes in <= 4 chunks of 2-3 bytes, <= 3 regular files + landmark, plus one file of 10 chunks of 50 bytes read at a bounded set of offsets; tars without a root entry './' (C05/C15 finding)",
                        "free-running traces are decided by the monitor only (each result judged on its own)",
                        "device numbers within the 32 bit rdev of FUSE (major <= 4095, minor <= 1048575)",
                        "FUSE kernel mount and passthrough mode not exercised; node methods are called directly as the repository's suite does"]
    orig_prep = run._prep
    current = {}

    def prep(files, extra=None):
        ex = dict(current)
        ex.update(extra or {})
        return orig_prep(files, ex)
    run._prep = prep

    # ------------------------------------------------------------------ layouts from the real builder
    only = os.environ.get("VERIF_C02_ONLY", "")     # development aid (mutant triage): "read" or "meta" runs one half only
    layers = read_layers(run) if only != "meta" else []
    dump_in, dump_out = os.path.join(run.scratch, "dump_in.json"), os.path.join(run.scratch, "dump.json")
    write_json(dump_in, {"jobs": [{"layer": l, "kind": "read", "walks": [], "out": ""} for l in layers], "dump_out": dump_out})
    if layers:
        go_stage(run, STORES[0], dump_in)
    layouts = json.load(open(dump_out)) if layers else {}
    for l in layers:
        log("[layout] %-5s %s" % (l["name"], json.dumps(layouts[l["name"]])))

    # ------------------------------------------------------------------ M + generation (ReadPath)
    jobs = []
    exhaustive = True
    for i, l in enumerate(layers):
        lay = layouts[l["name"]]
        current["ReadPathMC.tla"] = mc_module(lay)
        if i == 1 or thorough:
            run.tlc_mc("ReadPathMC", "ReadPath_mc.cfg", l.get("mc"), workers=4, timeout=1500, name="ReadPath_mc.cfg layer=%s" % l["name"])
        if i == 1:
            # negative controls on the layer whose streams are shared by several chunks/files
            for k in ("LocateOK", "DiscardOK", "InnerSkipOK", "PreReadKeyOK"):
                run.tlc_negctl("ReadPathMC", "ReadPath_mc.cfg", {k: "FALSE"}, ["ReadEqualsSourceStep", "CacheHoldsOnlySourceBytes"], drop=INTERNAL)
        inits, edges = run.tlc_edges("ReadPathMC", "ReadPath_gen.cfg", l["gen"], timeout=1500)
        walks, st = edge_cover(inits, edges, maxlen=25, rng=run.rng, extra_walks=60 if thorough else 5)
        log("[walks] %s: %s" % (l["name"], st))
        exhaustive = exhaustive and st["covered"] == st["edges"]
        run.cov["stages"].append(dict(stage="edge-cover", graph="ReadPath:" + l["name"], **st))
        jobs.append({"layer": l, "kind": "read", "out": os.path.join(run.scratch, "read_%s.ndjson" % l["name"]),
                     "walks": [[{k: v for k, v in s.items() if k in ("act", "f", "off", "len", "size")} for s in w] for w in walks]})
    # ------------------------------------------------------------------ M + generation (TarMeta)
    meta_jobs = []
    for i, l in enumerate(meta_layers(run) if only != "read" else []):
        current["TarMetaMC.tla"] = meta_module(l["entries"])
        if i == 0 or thorough:
            run.tlc_mc("TarMetaMC", "TarMeta_mc.cfg", workers=2, timeout=1500, name="TarMeta_mc.cfg tar=%s" % l["name"])
        if i == 0:
            for k in ("ImplicitDirMode755", "LinksCountOnSource", "SymlinkSizeFromTarget", "MemoOnlyHidesAbsent"):
                ov = {k: "FALSE"}
                run.tlc_negctl("TarMetaMC", "TarMeta_mc.cfg", ov, ["MetaEqualsTarStep"], drop=("TarOK",))
        if i == 1:
            for k in ("LastWins", "MkdevSplit", "SpecialBitsIndependent"):   # the tar with duplicate names, large device numbers, mode bit combinations
                run.tlc_negctl("TarMetaMC", "TarMeta_mc.cfg", {k: "FALSE"}, ["MetaEqualsTarStep"], drop=("TarOK",))
        inits, edges = run.tlc_edges("TarMetaMC", "TarMeta_gen.cfg", timeout=1500)
        walks, st = edge_cover(inits, edges, maxlen=25, rng=run.rng, extra_walks=20 if thorough else 4)
        log("[walks] %s: %s" % (l["name"], st))
        exhaustive = exhaustive and st["covered"] == st["edges"]
        run.cov["stages"].append(dict(stage="edge-cover", graph="TarMeta:" + l["name"], **st))
        meta_jobs.append({"layer": l, "kind": "meta", "out": os.path.join(run.scratch, "meta_%s.ndjson" % l["name"]),
                          "walks": [[{k: v for k, v in s.items() if k in ("act", "dir", "name", "path", "key")} for s in w] for w in walks]})
    free_jobs = []
    for l in (layers[1:3] if not thorough else layers):
        free_jobs.append({"layer": l, "kind": "free", "out": os.path.join(run.scratch, "free_%s.ndjson" % l["name"]), "walks": [],
                          "traces": 12 if thorough else 4, "readers": 4, "reads": 40 if thorough else 25})

    # ------------------------------------------------------------------ R + T against both stores
    inp = os.path.join(run.scratch, "jobs.json")
    write_json(inp, {"jobs": jobs + meta_jobs + free_jobs, "dump_out": ""})
    for store in STORES:
        go_stage(run, store, inp)
    allread, allfree = os.path.join(run.scratch, "read_all.ndjson"), os.path.join(run.scratch, "free_all.ndjson")
    allmeta = os.path.join(run.scratch, "meta_all.ndjson")
    for dst, js in ((allread, jobs), (allfree, free_jobs), (allmeta, meta_jobs)):
        with open(dst, "w") as fh:
            for j in js:
                for store in STORES:
                    fh.write(open(j["out"] + "." + store[0]).read())
    if jobs:
        validate(run, "ReadPathTrace", "ReadPathTrace.cfg", "ReadPathMonitor", "ReadPathMonitor.cfg", allread, "replay",
                 lambda e: e.get("ev") == "Read")
        validate(run, None, None, "ReadPathMonitor", "ReadPathMonitor.cfg", allfree, "free-run", lambda e: e.get("ev") == "Read")
    if meta_jobs:
        validate(run, "TarMetaTrace", "TarMetaTrace.cfg", "TarMetaMonitor", "TarMetaMonitor.cfg", allmeta, "meta",
                 lambda e: e.get("ev") in ("Lookup", "Readdir", "Getattr", "Readlink", "Getxattr"))
    if only and not run.violations:
        run.inconclusive.append("VERIF_C02_ONLY=%s: partial run (development aid), not a verdict" % only)
    run.cov["exhaustive"] = exhaustive


if __name__ == "__main__":
    main(check, "C02")

#!/usr/bin/env python3
"""Rewrites the seeded-changes table in DESIGN.md (between the SEEDTABLE markers) from seeded/*/meta.json."""
import json, os, glob, re
V = os.path.dirname(os.path.dirname(os.path.abspath(__file__)))
rows = []
for d in sorted(glob.glob(os.path.join(V, "seeded", "*"))):
    mp = os.path.join(d, "meta.json")
    if not os.path.exists(mp):
        continue
    m = json.load(open(mp))
    name = os.path.basename(d)
    summ = re.sub(r"\s+", " ", m.get("summary", ""))[:230].replace("|", "/")
    need = re.sub(r"\s+", " ", m.get("needs_to_manifest", ""))[:200].replace("|", "/")
    runs = m.get("checks_run", {})
    res = []
    for pid, r in sorted(runs.items()):
        if r.get("detected"):
            res.append("**%s %s: caught** (%s)" % (pid, r.get("tier", "quick"), "; ".join(s[:70] for s in r.get("signatures", [])[:2])))
        else:
            res.append("%s %s: exit %s (%s)" % (pid, r.get("tier", "quick"), r.get("exit"), "missed" if r.get("exit") == 0 else "inconclusive"))
    note = m.get("note", "")
    rows.append("| %s | %s | %s | %s | %s |" % (name, m.get("property", ""), summ, need, "<br>".join(res) + (("<br>" + note) if note else "")))
table = "| seeded change | proposed for | summary | needs to manifest | checks run (tools/seedrun.sh) |\n|---|---|---|---|---|\n" + "\n".join(rows)
p = os.path.join(V, "DESIGN.md")
s = open(p).read()
b, e = "<!-- SEEDTABLE BEGIN -->", "<!-- SEEDTABLE END -->"
if b in s:
    s = s[: s.index(b) + len(b)] + "\n" + table + "\n" + s[s.index(e):]
    open(p, "w").write(s)
    print("updated table with %d rows" % len(rows))
else:
    print(table)

#!/usr/bin/env python3
"""Shared machinery of the /verif checks.

A check (tools/props/<ID>.py) is a python function check(run) that strings together:

  run.tlc_mc(...)        exhaustive TLC run of a spec config (design level), numbers into the evidence
  run.tlc_negctl(...)    the same config with one guard constant switched off must yield a counterexample
  run.tlc_edges(...)     TLC generation config: every transition printed as JSON -> labelled state graph
  edge_cover(...)        walks through that graph covering every edge (+ seeded random walks)
  run.go_test(...)       builds /repo's CURRENT working tree with -tags verif and the harness overlay,
                         runs one driver that replays walks / runs free and records ndjson traces
  run.tlc_trace(...)     trace validation of the recorded implementation traces against the spec
  run.tlc_monitor(...)   the property formulas alone, evaluated on the recorded implementation states
  run.finish()           evidence file, known findings, exit code

Verdict rule (DESIGN.md 2.5): exit 1 + "VIOLATION property=<id> replay=<path>" only if a property formula is
false on what the implementation did (monitor) or a listed property-bearing comparison fails; everything else
that goes wrong (spec drift, time-outs, build failures, missing tools) is exit 2.
"""
import json, os, re, subprocess, sys, time, shutil, tempfile, random, hashlib, collections

VERIF = os.path.dirname(os.path.dirname(os.path.abspath(__file__)))
REPO = os.environ.get("VERIF_REPO", "/repo")
SPEC = os.path.join(VERIF, "spec")
HARNESS = os.path.join(VERIF, "harness")
EVID = os.environ.get("VERIF_EVID", os.path.join(VERIF, "evidence"))   # seed runs redirect it, committed evidence stays untouched
KNOWN = os.path.join(VERIF, "KNOWN_FINDINGS.txt")

# the default go (1.23) switches to the cached go1.25.0 toolchain that go.mod asks for: needs GOTOOLCHAIN=auto and GOSUMDB left alone
GOENV = {"GOFLAGS": "-mod=mod", "GOPROXY": "off", "GOTOOLCHAIN": "auto"}


class Inconclusive(Exception):
    pass


def log(*a):
    print(*a, flush=True)


def unescape_tla_string(s):
    # TLC prints a string value as "..." with \" and \\ escapes
    s = s.strip()
    if s.startswith('"') and s.endswith('"'):
        s = s[1:-1]
    out = []
    i = 0
    while i < len(s):
        c = s[i]
        if c == "\\" and i + 1 < len(s):
            n = s[i + 1]
            out.append({"n": "\n", "t": "\t"}.get(n, n))
            i += 2
        else:
            out.append(c)
            i += 1
    return "".join(out)


class TLCResult:
    def __init__(self, rc, out, wall):
        self.rc, self.out, self.wall = rc, out, wall
        m = re.search(r"(\d+) states generated, (\d+) distinct states found", out)
        self.generated = int(m.group(1)) if m else 0
        self.distinct = int(m.group(2)) if m else 0
        m = re.search(r"depth of the complete state graph search is (\d+)", out)
        self.depth = int(m.group(1)) if m else 0
        self.violated = None
        m = re.search(r"Invariant (\S+) is violated", out)
        if m:
            self.violated = m.group(1)
        m = re.search(r"Action property (\S+) is violated", out)
        if m:
            self.violated = m.group(1)
        if self.violated is None and re.search(r"Temporal properties were violated", out):
            self.violated = "<temporal>"
        if self.violated is None and "Deadlock reached" in out:
            self.violated = "<deadlock>"
        self.completed = "Model checking completed. No error has been found." in out
        self.error = None
        if not self.completed and self.violated is None:
            m = re.search(r"Error: (.*)", out)
            self.error = m.group(1) if m else ("rc=%d" % rc)
        self.printed = [unescape_tla_string(x) for x in re.findall(r'^"(?:V[A-Z]+ .*)"$', out, re.M)]

    def lines(self, tag):
        pre = tag + " "
        return [x[len(pre):] for x in self.printed if x.startswith(pre)]


class Run:
    def __init__(self, pid, tier, level="model_checking"):
        self.pid, self.tier, self.level = pid, tier, level
        self.seed = int(os.environ.get("VERIF_SEED", "1") or "1")
        self.t0 = time.time()
        self.scratch = tempfile.mkdtemp(prefix="verif-%s-" % pid, dir=os.environ.get("VERIF_TMP", "/tmp"))
        self.cov = collections.OrderedDict(
            states=0, transitions=0, traces_validated_against_impl=0, evaluations=0,
            distinct_nontrivial=0, rule="", samples=[], checker_cmd="", exhaustive=False)
        self.cov["stages"] = []
        self.assumptions = []
        self.violations = []     # (signature, text, replay path)
        self.known_hit = []
        self.inconclusive = []
        self.nrun = 0
        self.rng = random.Random(self.seed)

    # ------------------------------------------------------------------ TLC
    def _prep(self, files, extra=None):
        self.nrun += 1
        d = os.path.join(self.scratch, "tlc%d" % self.nrun)
        os.makedirs(d)
        for f in os.listdir(SPEC):
            if f.endswith(".tla"):
                shutil.copy(os.path.join(SPEC, f), d)
        for name, src in (extra or {}).items():
            if isinstance(src, str) and os.path.exists(src):
                shutil.copy(src, os.path.join(d, name))
            else:
                with open(os.path.join(d, name), "w") as fh:
                    fh.write(src)
        return d

    @staticmethod
    def cfg_text(cfg, overrides=None):
        txt = open(os.path.join(SPEC, cfg)).read() if not cfg.lstrip().startswith(("CONSTANT", "\\*", "SPEC", "INIT")) else cfg
        for k, v in (overrides or {}).items():
            txt, n = re.subn(r"(?m)^(\s*)%s\s*=\s*.*$" % re.escape(k), r"\g<1>%s = %s" % (k, v), txt)
            if n == 0:
                raise Inconclusive("cfg override %s not found" % k)
        return txt

    def tlc(self, module, cfg, overrides=None, workers=4, timeout=600, extra=None, args=(), dfs=False):
        d = self._prep([], extra)
        with open(os.path.join(d, "run.cfg"), "w") as fh:
            fh.write(self.cfg_text(cfg, overrides))
        cmd = ["timeout", str(timeout), "tlc", "-workers", str(workers), "-metadir", os.path.join(d, "md"),
               "-config", "run.cfg"] + list(args) + [module + ".tla"]
        env = dict(os.environ)
        if dfs:
            env["JAVA_TOOL_OPTIONS"] = (env.get("JAVA_TOOL_OPTIONS", "") +
                                        " -Dtlc2.tool.queue.IStateQueue=StateDeque").strip()
        t = time.time()
        p = subprocess.run(cmd, cwd=d, env=env, stdout=subprocess.PIPE, stderr=subprocess.STDOUT, text=True)
        r = TLCResult(p.returncode, p.stdout, time.time() - t)
        r.dir = d
        r.cmd = " ".join(cmd[2:])
        if p.returncode == 124:
            r.error = "timeout after %ds" % timeout
        shutil.rmtree(os.path.join(d, "md"), ignore_errors=True)
        return r

    def tlc_mc(self, module, cfg, overrides=None, workers=8, timeout=900, name=None, args=()):
        """Exhaustive check; must complete without error."""
        r = self.tlc(module, cfg, overrides, workers, timeout, args=args)
        name = name or cfg
        log("[mc] %-32s %8d distinct %9d generated depth %2d %5.1fs %s" %
            (name, r.distinct, r.generated, r.depth, r.wall, "OK" if r.completed else "FAILED"))
        if not r.completed:
            tail = "\n".join(r.out.splitlines()[-40:])
            if r.violated:
                # the DESIGN (not the code) admits a bad state: the model is wrong or the design is -> inconclusive here,
                # the binding stages decide about the code
                raise Inconclusive("spec %s/%s violates %s\n%s" % (module, name, r.violated, tail))
            raise Inconclusive("tlc failed on %s/%s: %s\n%s" % (module, name, r.error, tail))
        self.cov["states"] += r.distinct
        self.cov["transitions"] += r.generated
        self.cov["stages"].append({"stage": "mc", "config": name, "distinct": r.distinct,
                                   "generated": r.generated, "depth": r.depth, "wall_s": round(r.wall, 1)})
        if not self.cov["checker_cmd"]:
            self.cov["checker_cmd"] = r.cmd
        return r

    def tlc_negctl(self, module, cfg, overrides, expect, workers=4, timeout=300, drop=()):
        """Vacuity guard: with a property-bearing guard switched off TLC must find a counterexample.
        drop: names of internal-consistency invariants to leave out (only property formulas count)."""
        txt = self.cfg_text(cfg, overrides)
        for name in drop:
            txt = re.sub(r"(?m)^((?:INVARIANTS?|PROPERTIES|PROPERTY)\b.*?)\s\b%s\b" % re.escape(name), r"\1", txt)
        r = self.tlc(module, txt, None, workers, timeout)
        ok = r.violated is not None and (expect is None or r.violated in (expect if isinstance(expect, (list, tuple, set)) else [expect]))
        log("[negctl] %-28s %-28s -> %s %s" % (cfg, overrides, r.violated, "OK" if ok else "NOT DETECTED"))
        if not ok:
            raise Inconclusive("negative control %s %s: expected %s, got %s (%s)" % (cfg, overrides, expect, r.violated, r.error))
        self.cov["stages"].append({"stage": "negctl", "config": cfg, "off": overrides, "violated": r.violated})
        return r

    def tlc_edges(self, module, cfg, overrides=None, timeout=600, args=(), workers=1):
        """Run a generation config; returns (inits, edges) with edges = list of dict(from,last,to)."""
        r = self.tlc(module, cfg, overrides, workers, timeout, args=args)
        if not r.completed and not args:
            raise Inconclusive("generation %s/%s failed: %s\n%s" % (module, cfg, r.error or r.violated, "\n".join(r.out.splitlines()[-30:])))
        inits = [json.loads(x) for x in r.lines("VINIT")]
        edges = [json.loads(x) for x in r.lines("VEDGE")]
        log("[gen] %-32s %d inits %d edges (%d distinct states) %.1fs" % (cfg, len(inits), len(edges), r.distinct, r.wall))
        if not inits or not edges:
            raise Inconclusive("generation %s produced no graph" % cfg)
        self.cov["stages"].append({"stage": "gen", "config": cfg, "edges": len(edges), "distinct": r.distinct})
        return inits, edges

    def _trace_run(self, module, cfg, trace_path, overrides, timeout, dfs):
        # validation is linear in the trace length: scale the time limit with it (a loaded machine is 3-4x slower)
        nlines = sum(1 for _ in open(trace_path))
        timeout = max(timeout, 300 + nlines // 40)
        return self.tlc(module, cfg, overrides, 1, timeout, extra={"trace.ndjson": trace_path}, dfs=dfs)

    def tlc_trace(self, module, cfg, trace_path, overrides=None, timeout=300, dfs=True):
        """Trace validation. Returns dict(accepted, consumed, total, tlc)."""
        r = self._trace_run(module, cfg, trace_path, overrides, timeout, dfs)
        total = sum(1 for _ in open(trace_path))
        rej = r.lines("VREJECT")
        if r.completed and not rej:
            return {"accepted": True, "consumed": total, "total": total, "tlc": r, "violated": None}
        consumed = int(rej[0].split()[0]) if rej else None
        if r.violated and not rej and "TraceAccepted" not in r.out:
            # an invariant of the spec failed on a state reached while following the trace
            return {"accepted": False, "consumed": consumed, "total": total, "tlc": r, "violated": r.violated}
        if consumed is None:
            raise Inconclusive("trace validation %s/%s broke: %s\n%s" % (module, cfg, r.error, "\n".join(r.out.splitlines()[-30:])))
        return {"accepted": False, "consumed": consumed, "total": total, "tlc": r, "violated": None}

    def tlc_monitor(self, module, cfg, trace_path, overrides=None, timeout=300):
        """Property formulas on recorded implementation states. Returns violated formula name or None."""
        r = self._trace_run(module, cfg, trace_path, overrides, timeout, False)
        if r.completed:
            return None, r
        if r.violated:
            return r.violated, r
        raise Inconclusive("monitor %s/%s broke: %s\n%s" % (module, cfg, r.error, "\n".join(r.out.splitlines()[-30:])))

    # ------------------------------------------------------------------ Go
    def go_test(self, module_dir, pkg, overlay, run_regex, env=None, timeout=1200, race=True, tags="verif", extra_args=()):
        """go test in /repo's working tree with harness files overlaid. overlay: {repo-relative path: path under /verif/harness}."""
        ov = {"Replace": {}}
        for dst, src in overlay.items():
            srcp = src if os.path.isabs(src) else os.path.join(HARNESS, src)
            if not os.path.exists(srcp):
                raise Inconclusive("harness file missing: " + srcp)
            ov["Replace"][os.path.join(REPO, dst)] = srcp
        self.nrun += 1
        ovp = os.path.join(self.scratch, "overlay%d.json" % self.nrun)
        json.dump(ov, open(ovp, "w"))
        cmd = ["go", "test", "-tags", tags, "-overlay", ovp, "-count=1", "-vet=off",
               "-timeout", "%ds" % timeout, "-run", run_regex]
        if race:
            cmd.append("-race")
        cmd += list(extra_args) + [pkg]
        e = dict(os.environ)
        e.update(GOENV)
        if e.get("GOSUMDB") == "off":
            e.pop("GOSUMDB")
        e["VERIF_SEED"] = str(self.seed)
        e["VERIF_TIER"] = self.tier
        e["VERIF_SCRATCH"] = self.scratch
        e.update(env or {})
        t = time.time()
        p = subprocess.run(cmd, cwd=os.path.join(REPO, module_dir), env=e, stdout=subprocess.PIPE,
                           stderr=subprocess.STDOUT, text=True)
        wall = time.time() - t
        log("[go] %s %s -run %s rc=%d %.1fs" % (module_dir or ".", pkg, run_regex, p.returncode, wall))
        return p.returncode, p.stdout

    def go_driver(self, *a, **kw):
        """go_test that must pass as a driver: a build failure or a driver FAIL is inconclusive, never a violation."""
        rc, out = self.go_test(*a, **kw)
        if rc != 0:
            tail = "\n".join(out.splitlines()[-60:])
            if "DATA RACE" in out:
                return rc, out
            raise Inconclusive("driver failed (rc=%d):\n%s" % (rc, tail))
        return rc, out

    # ------------------------------------------------------------------ verdicts
    def violation(self, signature, text, replay_obj=None):
        os.makedirs(os.path.join(EVID, "replays"), exist_ok=True)
        path = os.path.join(EVID, "replays", "%s-%s-%d-%d.json" % (self.pid, self.tier, self.seed, len(self.violations)))
        json.dump({"property": self.pid, "signature": signature, "text": text, "replay": replay_obj},
                  open(path, "w"), indent=1, default=str)
        self.violations.append((signature, text, path))

    def add_samples(self, items, limit=3):
        for it in items:
            if len(self.cov["samples"]) >= limit:
                break
            self.cov["samples"].append(it)

    def finish(self):
        known, fixed = load_known(self.pid)
        unlisted = []
        for sig, text, path in self.violations:
            hit = [k for k in known if k["match"] in sig]
            if hit:
                if hit[0]["match"] not in [k["match"] for k in self.known_hit]:
                    self.known_hit.append(hit[0])
            else:
                unlisted.append((sig, text, path))
        wall = time.time() - self.t0
        ev = {
            "property_id": self.pid, "tier": self.tier, "seed": self.seed, "level": self.level,
            "coverage": self.cov, "assumptions": self.assumptions, "wall_s": round(wall, 1),
            "violations": len(unlisted),
        }
        self.cov["known_findings_hit"] = [k["match"] for k in self.known_hit]
        if self.inconclusive:
            self.cov["inconclusive"] = self.inconclusive
        os.makedirs(EVID, exist_ok=True)
        json.dump(ev, open(os.path.join(EVID, self.pid + ".json"), "w"), indent=1, default=str)
        shutil.rmtree(self.scratch, ignore_errors=True)
        for k in self.known_hit:
            log("KNOWN-FINDING: property=%s %s" % (self.pid, k["text"]))
        if unlisted:
            for sig, text, path in unlisted:
                log("violation: %s :: %s" % (sig, text))
            log("VIOLATION property=%s replay=%s" % (self.pid, unlisted[0][2]))
            return 1
        if self.inconclusive:
            for x in self.inconclusive:
                log("INCONCLUSIVE: " + str(x)[:4000])
            return 2
        log("OK property=%s tier=%s seed=%d wall=%.1fs states=%d traces=%d" %
            (self.pid, self.tier, self.seed, wall, self.cov["states"], self.cov["traces_validated_against_impl"]))
        return 0


def load_known(pid):
    known, fixed = [], []
    if os.path.exists(KNOWN):
        for line in open(KNOWN):
            line = line.strip()
            if not line or line.startswith("#"):
                continue
            m = re.match(r"(known|fixed): property=(\S+) (.*)", line)
            if not m or m.group(2) != pid:
                continue
            if m.group(1) == "known":
                mm = re.match(r"match=(\S+) (.*)", m.group(3))
                if mm:
                    known.append({"match": mm.group(1), "text": mm.group(2)})
            else:
                fixed.append(m.group(3))
    return known, fixed


# ---------------------------------------------------------------------- graph walks
def canon(x):
    return json.dumps(x, sort_keys=True, separators=(",", ":"))


def edge_cover(inits, edges, maxlen=40, rng=None, extra_walks=0, max_walks=None):
    """Walks (lists of edge dicts) from an initial state that together traverse every edge at least once."""
    rng = rng or random.Random(1)
    out = collections.defaultdict(list)   # node -> list of edge idx
    E = []
    seen = set()
    for e in edges:
        f, t = canon(e["from"]), canon(e["to"])
        key = (f, canon(e["last"]), t)
        if key in seen:
            continue
        seen.add(key)
        E.append((f, e["last"], t, e["to"]))
        out[f].append(len(E) - 1)
    init_keys = [canon(i) for i in inits]
    covered = [False] * len(E)
    ncov = 0
    walks = []

    def path_to_uncovered(src):
        # BFS over nodes to the nearest node having an uncovered out-edge
        prev = {src: None}
        dq = collections.deque([src])
        while dq:
            n = dq.popleft()
            if any(not covered[i] for i in out.get(n, ())):
                p = []
                while prev[n] is not None:
                    ei = prev[n]
                    p.append(ei)
                    n = E[ei][0]
                return list(reversed(p))
            for ei in out.get(n, ()):
                t = E[ei][2]
                if t not in prev:
                    prev[t] = ei
                    dq.append(t)
        return None

    while ncov < len(E):
        if max_walks and len(walks) >= max_walks:
            break
        start = init_keys[len(walks) % len(init_keys)]
        w = []
        node = start
        pre = path_to_uncovered(node)
        if pre is None:
            # remaining uncovered edges unreachable from this init; try the others
            alt = None
            for ik in init_keys:
                alt = path_to_uncovered(ik)
                if alt is not None:
                    node = ik
                    break
            if alt is None:
                break
            pre = alt
        for ei in pre:
            w.append(ei)
            node = E[ei][2]
        while True:
            cand = [i for i in out.get(node, ()) if not covered[i]]
            if not cand:
                if len(w) >= maxlen:
                    break
                p = path_to_uncovered(node)
                if p is None or len(w) + len(p) > maxlen + 10:
                    break
                for ei in p:
                    w.append(ei)
                    node = E[ei][2]
                continue
            ei = cand[rng.randrange(len(cand))]
            w.append(ei)
            if not covered[ei]:
                covered[ei] = True
                ncov += 1
            node = E[ei][2]
            if len(w) >= maxlen + 10:
                break
        for ei in w:
            if not covered[ei]:
                covered[ei] = True
                ncov += 1
        walks.append(w)
    for _ in range(extra_walks):
        node = init_keys[rng.randrange(len(init_keys))]
        w = []
        while len(w) < maxlen and out.get(node):
            ei = out[node][rng.randrange(len(out[node]))]
            w.append(ei)
            node = E[ei][2]
        if w:
            walks.append(w)
    res = []
    for w in walks:
        res.append([dict(E[ei][1], post=E[ei][3]) for ei in w])
    return res, {"edges": len(E), "covered": ncov, "walks": len(res), "steps": sum(len(w) for w in res)}


def write_json(path, obj):
    with open(path, "w") as fh:
        json.dump(obj, fh)


def read_ndjson(path):
    return [json.loads(x) for x in open(path) if x.strip()]


def split_traces(events):
    """Split a concatenated event list at Reset events -> list of (start_line_1based, events)."""
    res, cur, start = [], [], 1
    for i, e in enumerate(events, 1):
        if e.get("ev") == "Reset":
            if cur:
                res.append((start, cur))
            cur, start = [e], i
        else:
            cur.append(e)
    if cur:
        res.append((start, cur))
    return res


def digest(obj):
    return hashlib.sha256(canon(obj).encode()).hexdigest()[:16]


def main(check_fn, pid, level="model_checking"):
    tier = (sys.argv[1] if len(sys.argv) > 1 else os.environ.get("VERIF_TIER", "quick"))
    if tier not in ("quick", "thorough"):
        tier = "quick"
    run = Run(pid, tier, level)
    try:
        check_fn(run)
    except Inconclusive as e:
        run.inconclusive.append(str(e))
    except Exception as e:  # machinery bug: never a violation
        import traceback
        run.inconclusive.append("machinery exception: " + traceback.format_exc())
    sys.exit(run.finish())

#!/bin/sh
# usage: tools/seedrun.sh <seeded name> <property id>...
# Applies /verif/seeded/<name>/patch.diff to a scratch worktree of /repo's HEAD (equivalent to applying it in /repo and
# undoing it afterwards, but /repo itself is never dirtied and several seeds can be run side by side), runs the checks
# against it (TIER=quick by default; VERIF_REPO points the checks at the worktree), removes the worktree, and records the
# outcome in /verif/seeded/<name>/meta.json ("checks_run"). Evidence of these runs goes to a scratch directory.
name="$1"; shift
wt="/tmp/sr-$name"
git -C /repo worktree remove --force "$wt" >/dev/null 2>&1; git -C /repo branch -D "sr-$name" >/dev/null 2>&1
git -C /repo worktree add "$wt" -b "sr-$name" HEAD >/dev/null 2>&1 || { echo "cannot create worktree"; exit 2; }
git -C "$wt" apply "/verif/seeded/$name/patch.diff" || { echo "patch does not apply"; git -C /repo worktree remove --force "$wt"; exit 2; }
ev=$(mktemp -d /tmp/sr-evid-XXXXXX)
for id in "$@"; do
  (cd /verif && VERIF_REPO="$wt" VERIF_EVID="$ev" ./check "$id" "${TIER:-quick}" > "/tmp/seedrun-$name-$id.log" 2>&1; rc=$?
   echo "seed=$name check=$id exit=$rc"; grep -E "^VIOLATION|^violation|^INCONCLUSIVE|^KNOWN|^OK" "/tmp/seedrun-$name-$id.log" | cut -c1-300
   python3 - "$name" "$id" "$rc" "/tmp/seedrun-$name-$id.log" "${TIER:-quick}" <<'PY'
import json, sys, re
name, pid, rc, log, tier = sys.argv[1:6]
p = "/verif/seeded/%s/meta.json" % name
m = json.load(open(p))
sigs = re.findall(r"^violation: (.*?) ::", open(log).read(), re.M)
m.setdefault("checks_run", {})[pid] = {"tier": tier, "exit": int(rc), "detected": int(rc) == 1, "signatures": sigs[:4],
                                       "cmd": "tools/seedrun.sh %s %s" % (name, pid)}
json.dump(m, open(p, "w"), indent=1)
PY
  )
done
rm -rf "$ev"
git -C /repo worktree remove --force "$wt"; git -C /repo branch -D "sr-$name" >/dev/null 2>&1

#!/bin/sh
# usage: tools/seedrun.sh <seeded name> <property id>...
# applies /verif/seeded/<name>/patch.diff to /repo, runs the checks (TIER=quick by default), reverts, and records
# the outcome in /verif/seeded/<name>/meta.json ("checks_run").
name="$1"; shift
cd /repo || exit 2
[ -z "$(git status --porcelain)" ] || { echo "/repo not clean"; exit 2; }
git apply "/verif/seeded/$name/patch.diff" || exit 2
for id in "$@"; do
  (cd /verif && ./check "$id" "${TIER:-quick}" > "/tmp/seedrun-$name-$id.log" 2>&1; rc=$?
   echo "seed=$name check=$id exit=$rc"; grep -E "^VIOLATION|^violation|^INCONCLUSIVE|^KNOWN|^OK" "/tmp/seedrun-$name-$id.log" | cut -c1-300
   python3 - "$name" "$id" "$rc" "/tmp/seedrun-$name-$id.log" "${TIER:-quick}" <<'PY'
import json, sys, re
name, pid, rc, log, tier = sys.argv[1:6]
p = "/verif/seeded/%s/meta.json" % name
m = json.load(open(p))
sigs = re.findall(r"^violation: (.*?) ::", open(log).read(), re.M)
m.setdefault("checks_run", {})[pid] = {"tier": tier, "exit": int(rc), "detected": int(rc) == 1, "signatures": sigs[:4],
                                       "cmd": "tools/seedrun.sh %s %s" % (name, pid)}
json.dump(m, open(p, "w"), indent=1)
PY
  )
done
git checkout -- . && git status --short
# the evidence files were rewritten by runs on a modified tree: restore the committed ones
cd /verif && git checkout -- evidence 2>/dev/null

#!/usr/bin/env python3
"""Regenerates /verif/MANIFEST.json from the table below (one source of truth for what is claimed)."""
import json, os, subprocess, sys
V = os.path.dirname(os.path.dirname(os.path.abspath(__file__)))
sys.path.insert(0, os.path.join(V, "tools"))
from claims import CLAIMS, NOT_APPLICABLE

props = [json.loads(l) for l in open(os.path.join(V, "properties.jsonl"))]
ids = [p["id"] for p in props]
hook_commits = subprocess.run(["git", "-C", "/repo", "log", "--reverse", "--format=%H %s", "--grep=^verifhook"],
                              stdout=subprocess.PIPE, text=True).stdout.split("\n")
hook_commits = [l.split()[0] for l in hook_commits if l.strip()]
checks = []
for pid in ids:
    c = CLAIMS.get(pid)
    if not c or not os.path.exists(os.path.join(V, "tools", "props", pid + ".py")):
        continue
    checks.append({
        "property_id": pid,
        "quick_cmd": "./check %s quick" % pid,
        "thorough_cmd": "./check %s thorough" % pid,
        "evidence_file": "/verif/evidence/%s.json" % pid,
        "replay_cmd_template": "cat {path}   # replay files hold the recorded implementation trace; re-run ./check %s quick with the same VERIF_SEED to reproduce" % pid,
        "engine": "vlib",
        "level_claimed": {"category": c.get("category", "model_checking"), "text": c["text"], "design_ref": c["design_ref"]},
        "level_note": c["note"],
        "technique": c["technique"],
    })
na = []
for pid in ids:
    if pid not in [c["property_id"] for c in checks]:
        na.append({"property_id": pid, "reason": NOT_APPLICABLE.get(pid, "check not built yet in this session (work in progress); nothing is claimed for it")})
m = {
    "version": 1,
    "setup_cmd": "./setup.sh",
    "hooks": {
        "guard": "verif",
        "enable": "go test -tags verif -overlay <json mapping /repo/<pkg>/verif_*_test.go to /verif/harness/...> (tools/vlib.py go_test); hook call sites call util/verifhook, whose functions are empty without the tag",
        "baseline_off_cmd": "for m in . cmd estargz ipfs; do (cd /repo/$m && GOFLAGS=-mod=mod go test -json -vet=off -count=1 -timeout 25m ./...); done",
        "source_commits": hook_commits,
        "add_only": True,
    },
    "engines": [{"name": "vlib", "path": "tools/vlib.py", "serves_properties": [c["property_id"] for c in checks],
                 "kind_free_text": "TLA+ specifications in spec/ checked by TLC (exhaustive configs, negative controls, generation configs printing the state graph), walks replayed into the Go code by drivers overlaid onto /repo, recorded implementation traces validated by TLC (trace spec + monitor)"}],
    "checks": checks,
    "notes": "Approach and per-property design: DESIGN.md (section 9 = as built, findings, seeded changes). Known findings: KNOWN_FINDINGS.txt. Seeded changes: seeded/. Beyond the listed properties: spec/Fs*.tla (fs/fs.go Mount/Check/Unmount composed with the snapshotter end to end), run by ./check X_Fs quick|thorough (not a property check, evidence id X_Fs); spec/NamedMutex*.tla (util/namedmutex), run by ./check X_Mutex quick|thorough.",
    "not_applicable": na,
}
json.dump(m, open(os.path.join(V, "MANIFEST.json"), "w"), indent=1)
print("MANIFEST: %d checks, %d not claimed, %d hook commits" % (len(checks), len(na), len(hook_commits)))
try:
    import jsonschema
    jsonschema.validate(m, json.load(open("/root/.vp/MANIFEST.schema.json")))
    print("schema ok")
except ImportError:
    pass

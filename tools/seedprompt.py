#!/usr/bin/env python3
"""Prints the brief for an independent seeding agent: property text only, own worktree, nothing from /verif."""
import json, sys
pid, tag, n = sys.argv[1], sys.argv[2], int(sys.argv[3]) if len(sys.argv) > 3 else 3
p = [json.loads(l) for l in open('/verif/properties.jsonl') if json.loads(l)['id'] == pid][0]
wt = "/tmp/seed-%s-%s" % (pid, tag)
out = "/tmp/seedout/%s-%s" % (pid, tag)
print(f"""You are helping to test a verification framework by producing realistic regressions ("seeded changes") of a Go repository. You must work ONLY in your own scratch git worktree and must NOT read or touch anything under /verif or /repo's working tree (do not open /verif at all: independence from the framework is the whole point).

Setup (do this first):
  git -C /repo worktree add {wt} -b seed-{pid}-{tag} HEAD
  export GOFLAGS=-mod=mod GOPROXY=off      # offline sandbox; do NOT set GOTOOLCHAIN or GOSUMDB; the default `go` auto-switches to the cached go1.25.0
Work only inside {wt} (a checkout of containerd/stargz-snapshotter; Go modules: ., ./estargz, ./cmd — run go commands from the module root that owns the package). Ignore the package util/verifhook and calls to it (empty instrumentation functions).

The property (of containerd/stargz-snapshotter) that your changes must break:

  id: {p['id']} — {p['title']}
  statement: {p['statement']}
  holds: {p['quantifier']['text']}
  code it is anchored in: {', '.join(p['anchors']['files'])}
  mechanisms meant to make it hold: {'; '.join(m.get('name','') + ' (' + m.get('where','') + ')' for m in p['anchors']['mechanism'])}

Task: produce {n} DIFFERENT changes to the repository's non-test source code, each of which
  (a) breaks the property above (a user relying on the statement would be harmed),
  (b) still compiles (`go build ./...` and `go vet` of the touched package) and still passes the EXISTING tests of the touched package(s) and of packages that directly use them (run them: `go test -count=1 <pkg>`; they must pass with your change, unedited),
  (c) needs something specific to manifest — a particular interleaving, a crash or fault at a particular point, a multi-step sequence of operations, an unusual input, or two cooperating sites that each look fine alone — NOT something ordinary use exposes at once,
  (d) looks like a plausible refactoring/optimisation/bug a developer could really commit (small, a few lines; no obviously malicious code, no dead giveaways in comments),
  (e) differs in kind from the others (different site or different mechanism).
For each change also write a DEMONSTRATION: a Go test (new _test.go file, in the package it needs; it may be in-package) or small program that FAILS with the change applied and PASSES on the unchanged code, deterministically (run it 3 times each way). The demonstration should show the property-level harm (e.g. wrong bytes returned, callback ran twice, mount leaked), not just a changed internal.

Deliver into {out}/<k>/ for k = 1..{n} (create the directories):
  patch.diff      `git diff` of the source change only (relative to HEAD of the worktree; must apply with `git apply` on a clean checkout)
  demo_test.go    the demonstration file, with a first-line comment saying which directory of the repo it must be placed in and the exact `go test` command
  meta.json       {{"property": "{pid}", "summary": "...", "needs_to_manifest": "...", "files_touched": [...], "existing_tests_run": ["go test ... -> ok", ...], "demo_cmd": "...", "demo_fails_with_change": true, "demo_passes_without": true}}
Between changes, reset the worktree (`git -C {wt} checkout -- . && git -C {wt} clean -fd`). Leave the worktree in a clean state at the end (the integrator removes it). Do not commit.
In your final message list, per change: one-line summary, what it needs to manifest, and the outputs of the demo with/without the change.""")

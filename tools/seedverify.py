#!/usr/bin/env python3
"""Confirm a seeded change independently, then keep it under /verif/seeded/<name>/.

usage: seedverify.py <dir with patch.diff, demo_test.go, meta.json> <name>
In a scratch worktree of /repo (removed afterwards): the demo passes without the patch; with the patch the tree builds,
the existing tests of the touched packages pass, and the demo fails. Only then is the change copied to /verif/seeded/<name>/.
"""
import json, os, re, shutil, subprocess, sys
src, name = sys.argv[1], sys.argv[2]
meta = json.load(open(os.path.join(src, "meta.json")))
wt = "/tmp/sv-" + name
env = dict(os.environ, GOFLAGS="-mod=mod", GOPROXY="off")
env.pop("GOTOOLCHAIN", None)

def sh(cmd, cwd=wt, check=False):
    p = subprocess.run(cmd, shell=True, cwd=cwd, env=env, stdout=subprocess.PIPE, stderr=subprocess.STDOUT, text=True)
    if check and p.returncode != 0:
        print(p.stdout[-3000:]); raise SystemExit("failed: " + cmd)
    return p.returncode, p.stdout

subprocess.run("git -C /repo worktree remove --force %s; git -C /repo branch -D sv-%s" % (wt, name), shell=True, stdout=subprocess.DEVNULL, stderr=subprocess.DEVNULL)
sh("git -C /repo worktree add %s -b sv-%s HEAD" % (wt, name), cwd="/", check=True)
try:
    demo = open(os.path.join(src, "demo_test.go")).read()
    demo_cmd = meta["demo_cmd"]
    # where does the demo go: first-line comment or derive from the package path in demo_cmd
    m = re.search(r"(?:place[d]? in|directory)[^\n]*?([\w./-]+/)(?:\s|$|\))", demo.split("\n")[0])
    touched = meta.get("files_touched", [])
    pkgdirs = sorted({os.path.dirname(f) for f in touched})
    mm = re.search(r"\./([\w/.-]+?)/?(?:\s|$)", demo_cmd)
    moddir = ""
    for md in ("estargz", "cmd"):
        if demo_cmd.strip().startswith("cd %s" % md) or "(cd %s" % md in demo_cmd:
            moddir = md
    if mm:
        demodir = mm.group(1)
    elif moddir and re.search(r"\s\.\s*$", demo_cmd):
        demodir = ""          # package "." of the module
    else:
        demodir = pkgdirs[0][len(moddir):].lstrip("/") if moddir and pkgdirs[0].startswith(moddir) else pkgdirs[0]
    demopath = os.path.join(wt, moddir, demodir, "zz_seed_demo_test.go")
    os.makedirs(os.path.dirname(demopath), exist_ok=True)
    open(demopath, "w").write(demo)
    run_demo = demo_cmd if not moddir else demo_cmd
    rc0, out0 = sh(run_demo, cwd=os.path.join(wt, moddir) if moddir and not demo_cmd.strip().startswith(("cd ", "(cd ")) else wt)
    print("[demo without change] rc=%d" % rc0)
    # existing tests of the touched packages on the UNCHANGED tree first (some need the network and fail offline anyway)
    def pkgtests(d):
        md = "estargz" if d.startswith("estargz") else ("cmd" if d.startswith("cmd/") else "")
        rel = d[len(md):].lstrip("/") if md else d
        rc, out = sh("go build ./... && go vet ./%s/ && go test -count=1 -timeout 30m ./%s/" % (rel, rel), cwd=os.path.join(wt, md))
        return rc, out, set(re.findall(r"^\s*--- FAIL: (\S+)", out, re.M))
    os.rename(demopath, demopath + ".off")
    base = {d: pkgtests(d) for d in pkgdirs}
    sh("git apply %s" % os.path.join(os.path.abspath(src), "patch.diff"), check=True)
    results = {"demo_without_rc": rc0}
    ok = rc0 == 0
    for d in pkgdirs:
        rc, out, fails = pkgtests(d)
        brc, bout, bfails = base[d]
        same = (rc == 0) if brc == 0 else (fails == bfails and "[build failed]" not in out)
        print("[existing tests %s] rc=%d (unchanged tree rc=%d, failing there: %s) %s" % (d, rc, brc, sorted(bfails), "same" if same else "DIFFERENT"))
        results["tests_" + d] = {"rc": rc, "unchanged_rc": brc, "same_failures_as_unchanged": same, "failing": sorted(fails)}
        ok = ok and same
        if not same:
            print(out[-2000:])
    os.rename(demopath + ".off", demopath)
    rc1, out1 = sh(run_demo, cwd=os.path.join(wt, moddir) if moddir and not demo_cmd.strip().startswith(("cd ", "(cd ")) else wt)
    print("[demo with change] rc=%d" % rc1)
    results["demo_with_rc"] = rc1
    ok = ok and rc1 != 0
    if ok:
        dst = os.path.join("/verif/seeded", name)
        os.makedirs(dst, exist_ok=True)
        shutil.copy(os.path.join(src, "patch.diff"), dst)
        shutil.copy(os.path.join(src, "demo_test.go"), dst)
        meta["confirmed"] = {"by": "tools/seedverify.py in scratch worktree " + wt, "results": results,
                             "demo_output_with_change_tail": out1[-800:]}
        json.dump(meta, open(os.path.join(dst, "meta.json"), "w"), indent=1)
        print("KEPT", dst)
    else:
        print("REJECTED", results)
        print(out0[-1500:] if rc0 != 0 else out1[-1500:])
finally:
    subprocess.run("git -C /repo worktree remove --force %s; git -C /repo branch -D sv-%s" % (wt, name), shell=True, stdout=subprocess.DEVNULL, stderr=subprocess.DEVNULL)

\* generation (special family, replayed in every run under two fixed option sets): two directory levels with hard links
CONSTANTS
    UseEntries = {17, 18, 19, 20, 21}
    PrioAlphabet = {"u/v/y", "./u/w/z", "/u/v/x", "u/v/"}
    MaxTar = 3
    MaxPrio = 1
    WithLayout = FALSE
    LayoutOpts <- OptsNone
    ImplicitParents = TRUE
    ParentsFirst = TRUE
    TargetFirst = TRUE
    PickedGuard = TRUE
    SkipPickedInRest = TRUE
    LandmarkAfterMoves = TRUE
    LandmarkByList = TRUE
    ReportMissing = TRUE
    DropInputLandmarks = TRUE
    LastDupWins = TRUE
    LandmarkOwnStream = TRUE
    VisitingIsPath = TRUE
INIT GenInit
NEXT GenNext
CHECK_DEADLOCK FALSE

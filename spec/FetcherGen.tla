----------------------------- MODULE FetcherGen -----------------------------
(* Generation config: TLC prints every transition of the state graph of    *)
(* Fetcher (with the url/header reads as SEPARATE steps, i.e. every        *)
(* interleaving a scheduler could produce) as JSON. The driver forces each *)
(* walk on real goroutines through the gates in fs/remote/resolver.go and  *)
(* the blocking in-memory registry.                                        *)
EXTENDS Fetcher, Json

Loc(a)  == <<pc[a], kind[a], u[a], h[a], retry[a], nu[a], nh[a], att[a], ops[a], res[a]>>
LocP(a) == <<pc'[a], kind'[a], u'[a], h'[a], retry'[a], nu'[a], nh'[a], att'[a], ops'[a], res'[a]>>
CoreRec  == [e |-> <<mode, loc, valid, needAuth, headOK, envn, regDeny>>, s |-> <<url, header, authed>>,
             a |-> [a \in Actors |-> Loc(a)]]
CoreRecP == [e |-> <<mode', loc', valid', needAuth', headOK', envn', regDeny'>>, s |-> <<url', header', authed'>>,
             a |-> [a \in Actors |-> LocP(a)]]

GenInit == Init /\ PrintT("VINIT " \o ToJson(CoreRec))
GenNext == Next /\ PrintT("VEDGE " \o ToJson([from |-> CoreRec, last |-> last', to |-> CoreRecP]))
=============================================================================

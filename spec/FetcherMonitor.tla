--------------------------- MODULE FetcherMonitor ---------------------------
(* Monitor (soundness rule, DESIGN 2.5): no enabling conditions. Every     *)
(* http.Request the in-memory registry SAW (host, configured headers       *)
(* present?, Authorization present?) is loaded into the observation        *)
(* variable; only ConfinedHeaders / ConfinedAuth are evaluated.            *)
EXTENDS Fetcher, Json, TLCExt

VARIABLE l
mvars == <<vars, l>>

TraceLog == ndJsonDeserialize("trace.ndjson")
Ev == TraceLog[l]

MonInit == Init /\ l = 1

MonNext ==
    /\ l <= Len(TraceLog)
    /\ l' = l + 1
    /\ UNCHANGED core
    /\ last' = IF Ev.ev = "Send"
               THEN [act |-> "Send", a |-> Ev.a, host |-> Ev.host, hdr |-> Ev.hdr, auth |-> Ev.auth,
                     meth |-> Ev.meth, rsp |-> Ev.rsp, to |-> Ev.to]
               ELSE [act |-> Ev.ev]

MonSpec == MonInit /\ [][MonNext]_mvars
=============================================================================

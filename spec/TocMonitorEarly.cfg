SPECIFICATION MonSpec
CONSTRAINT ReportEarly
INVARIANTS EarlyCloneAgree
CHECK_DEADLOCK FALSE

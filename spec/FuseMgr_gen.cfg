\* generation (quick default; tools/props/C17.py overrides NMp/MaxInit/MaxEpoch/Labs for the other graphs): 2 mountpoints, 1 label set, 2 Init requests, 2 manager processes
CONSTANTS
    NMp = 2
    Labs = {"la"}
    MaxInit = 2
    MaxEpoch = 2
    InitFails = {"none", "badcfg", "cfgfunc", "newfs"}
    ReadyGate = TRUE
    NilFsCheck = TRUE
    SkipServed = TRUE
    RecordOnlyMounted = TRUE
    KeepOnFailedUnmount = TRUE
    ForgetOnUnmount = TRUE
    UseCreator = TRUE
    AdoptNewFs = TRUE
    RestoreOnInit = TRUE
    UnknownUnmountOK_G = TRUE
    OverwriteRecord = TRUE
INIT GenInit
NEXT GenNext
VIEW core
CHECK_DEADLOCK FALSE

---------------------------- MODULE FetcherTrace ----------------------------
(* Trace validation (implementation -> specification) for Fetcher.         *)
(* Input: trace.ndjson recorded by harness/fs/remote while real goroutines *)
(* run newHTTPFetcher / fetch / check against the in-memory registry,      *)
(* either gated along TLC-generated walks or free-running. Order = order   *)
(* in which the events were appended while the protecting lock was held    *)
(* (urlMu for ReadURL/SetBoth, the registry's mutex for Send/Env).         *)
(*   Boot     mode, needAuth, headOK                                       *)
(*   Env      what ("switch" | "deny" | "expire"), l                       *)
(*   Start    a, kind            End   a, ok                               *)
(*   ReadURL  a, url             SetBoth  a, url, hdr                      *)
(*   Send     a, host, hdr, auth, meth, rsp, to   (every http.Request)     *)
(*   Resolved ok, url, hdr       (newHTTPFetcher returned)                 *)
(* The unsynchronized read of f.header (ReadHdr, only when                 *)
(* HeaderReadUnderLock = FALSE) is not observable: TLC places it.          *)
EXTENDS Fetcher, Json, TLCExt

VARIABLE l
tvars == <<vars, l>>

TraceLog == ndJsonDeserialize("trace.ndjson")
Ev == TraceLog[l]
IsEvent(e) == l <= Len(TraceLog) /\ Ev.ev = e /\ l' = l + 1

TraceInit == Init /\ l = 1 /\ TLCSet(1, 0)

TraceReset ==
    /\ IsEvent("Reset")
    /\ mode' = "direct" /\ loc' = "L1" /\ valid' = Locs /\ needAuth' = FALSE /\ headOK' = TRUE /\ envn' = 0 /\ regDeny' = FALSE
    /\ url' = "none" /\ header' = "None" /\ authed' = FALSE
    /\ pc' = [a \in Actors |-> IF a = "res" THEN "unborn" ELSE "idle"]
    /\ kind' = [a \in Actors |-> "none"]
    /\ u' = [a \in Actors |-> "none"] /\ h' = [a \in Actors |-> "None"]
    /\ nu' = [a \in Actors |-> "none"] /\ nh' = [a \in Actors |-> "None"]
    /\ retry' = [a \in Actors |-> FALSE]
    /\ att' = [a \in Actors |-> 1]
    /\ ops' = [a \in Actors |-> 0]
    /\ res' = [a \in Actors |-> "none"]
    /\ last' = [act |-> "Init"]

TraceBoot == IsEvent("Boot") /\ Boot(Ev.mode, Ev.needAuth, Ev.headOK)
TraceEnv ==
    /\ IsEvent("Env")
    /\ CASE Ev.what = "switch" -> SwitchMode
         [] Ev.what = "deny"   -> DenyReg
         [] OTHER              -> Expire(Ev.l)
TraceStart == IsEvent("Start") /\ Ev.a \in Procs /\ Start(Ev.a, Ev.kind)
TraceReadURL == IsEvent("ReadURL") /\ ReadURL(Ev.a) /\ last'.url = Ev.url
TraceSetBoth == IsEvent("SetBoth") /\ SetBoth(Ev.a) /\ last'.url = Ev.url /\ last'.hdr = Ev.hdr
TraceSend ==
    /\ IsEvent("Send") /\ Ev.a \in Actors
    /\ Send(Ev.a, Ev.auth)
    /\ last'.host = Ev.host /\ last'.hdr = Ev.hdr /\ last'.meth = Ev.meth
    /\ last'.rsp = Ev.rsp /\ last'.to = Ev.to
\* the operation returned: the specification must have finished it with the same outcome
TraceEnd ==
    /\ IsEvent("End") /\ Ev.a \in Procs
    /\ pc[Ev.a] = "idle" /\ res[Ev.a] = (IF Ev.ok THEN "ok" ELSE "fail")
    /\ UNCHANGED vars
TraceResolved ==
    /\ IsEvent("Resolved")
    /\ pc["res"] = (IF Ev.ok THEN "ready" ELSE "failed")
    /\ Ev.ok => (url = Ev.url /\ header = Ev.hdr)
    /\ UNCHANGED vars
\* unobservable internal step
TraceReadHdr == l' = l /\ \E p \in Procs : ReadHdr(p)

TraceNext ==
    \/ TraceReset \/ TraceBoot \/ TraceEnv \/ TraceStart \/ TraceReadURL \/ TraceSetBoth
    \/ TraceSend \/ TraceEnd \/ TraceResolved \/ TraceReadHdr

TraceSpec == TraceInit /\ [][TraceNext]_tvars

HighWater == IF l - 1 > TLCGet(1) THEN TLCSet(1, l - 1) ELSE TRUE
TraceAccepted ==
    IF TLCGet(1) = Len(TraceLog) THEN TRUE
    ELSE /\ PrintT("VREJECT " \o ToString(TLCGet(1)) \o " " \o ToString(Len(TraceLog)))
         /\ FALSE
=============================================================================

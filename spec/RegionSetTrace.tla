--------------------------- MODULE RegionSetTrace ---------------------------
(* Trace validation + monitor for the REAL Go regionSet (fs/remote/util.go). *)
(* Events (trace.ndjson): Reset | Add b e rs total, where rs = the slice     *)
(* rs.rs after the add as [[b,e],..] and total = rs.totalSize().             *)
(*   TraceSpec: the recorded slice must equal what the transcription         *)
(*              RSAdd computes (binds RegionSet.tla to the code).            *)
(*   MonSpec:   no enabling conditions; the recorded slice is loaded and     *)
(*              RegionSetIsUnion / TotalIsDistinctBytes / TotalMonotone are   *)
(*              evaluated on it alone (cov = union of the regions passed).   *)
EXTENDS RegionSetCheck, Json, TLCExt

VARIABLES l, tot
tvars == <<rs, cov, last, l, tot>>

TraceLog == ndJsonDeserialize("trace.ndjson")
Ev == TraceLog[l]
ToRegs(s) == [i \in 1..Len(s) |-> Reg(s[i][1], s[i][2])]

TraceInit == RInit /\ l = 1 /\ tot = 0 /\ TLCSet(1, 0)

TraceReset ==
    /\ l <= Len(TraceLog) /\ Ev.ev = "Reset" /\ l' = l + 1
    /\ rs' = <<>> /\ cov' = {} /\ tot' = 0 /\ last' = [act |-> "Init", before |-> 0, after |-> 0]
TraceAdd ==
    /\ l <= Len(TraceLog) /\ Ev.ev = "Add" /\ l' = l + 1
    /\ RAdd(Reg(Ev.b, Ev.e))
    /\ rs' = ToRegs(Ev.rs)
    /\ tot' = Ev.total /\ Ev.total = RSTotal(rs')
TraceNext == TraceReset \/ TraceAdd
TraceSpec == TraceInit /\ [][TraceNext]_tvars

HighWater == IF l - 1 > TLCGet(1) THEN TLCSet(1, l - 1) ELSE TRUE
TraceAccepted ==
    IF TLCGet(1) = Len(TraceLog) THEN TRUE
    ELSE /\ PrintT("VREJECT " \o ToString(TLCGet(1)) \o " " \o ToString(Len(TraceLog)))
         /\ FALSE

\* ---- monitor
MonInit == RInit /\ l = 1 /\ tot = 0
MonNext ==
    /\ l <= Len(TraceLog) /\ l' = l + 1
    /\ IF Ev.ev = "Reset"
       THEN rs' = <<>> /\ cov' = {} /\ tot' = 0 /\ last' = [act |-> "Init", before |-> 0, after |-> 0]
       ELSE /\ rs' = ToRegs(Ev.rs)
            /\ cov' = cov \cup (Ev.b .. Ev.e)
            /\ tot' = Ev.total
            /\ last' = [act |-> "Add", r |-> Reg(Ev.b, Ev.e), before |-> tot, after |-> Ev.total]
MonSpec == MonInit /\ [][MonNext]_tvars

\* totalSize() as the code reported it is the number of distinct positions added
MonTotalIsDistinctBytes == tot = Cardinality(cov) /\ TotalIsDistinctBytes
MonSorted == RSWellFormed(rs) /\ RSDisjointSorted(rs)
=============================================================================

------------------------------- MODULE Verify -------------------------------
(***************************************************************************)
(* Property C01: the verification chain  pinned TOC digest -> TOC ->       *)
(* chunk digest -> chunk cache -> bytes returned by a read.                *)
(*                                                                         *)
(* Code modelled (one action per critical section / observable step):      *)
(*   fs/reader/reader.go                                                   *)
(*     VerifiableReader.readAndCache   (one call = one prefetch "worker")  *)
(*        WProbe      cache.Get(chunk key): hit -> return nil              *)
(*        WReadSrc    br.Peek(chunkSize): the chunk is read from the source*)
(*        WDecide     copy + digest; on mismatch the decision under        *)
(*                    prohibitVerifyFailureMu.RLock: prohibit -> Abort,    *)
(*                    return error; else storeLastVerifyErr and go on      *)
(*        WCommit     w.Commit(): the chunk - good or not - becomes visible*)
(*     VerifiableReader.VerifyTOC                                          *)
(*        VTLoad      Lock; prohibit := TRUE; load lastVerifyErr (the lock *)
(*                    is still held when this step ends)                   *)
(*        VTUnlock    Unlock                                               *)
(*        VTFinish    lastErr -> error; TOCDigest() # arg -> error;        *)
(*                    else reader.verify := TRUE, return the reader        *)
(*     file.ReadAt (one chunk)  RProbe / RFetch / RFinish (or Read, atomic)*)
(*        cache hit: served WITHOUT verification; miss: source ->          *)
(*        verifyChunk if reader.verify -> cacheData -> return              *)
(*     file.GetPassthroughFd    PassRead (whole file: cached chunks as they*)
(*        are, the others source -> verifyOneChunk; one cache entry for    *)
(*        the whole file, served without verification afterwards)          *)
(*   fs/layer/layer.go                                                     *)
(*     layer.Verify      l.r = nil: VerifyTOC (actions above);             *)
(*                       l.r # nil: LayerVerifyCached                      *)
(*     layer.SkipVerify  LayerSkip                                         *)
(*   environment: Alter(c, k) - from now on the source (registry, mirror,  *)
(*     compressed-blob cache) supplies for chunk c: "g" the bytes whose    *)
(*     digest the TOC records, "s" other bytes in a still valid compressed *)
(*     stream (only the digest can tell), "k" a broken stream (read error).*)
(*     The TOC is read once when the layer is resolved: toc = "D" (it      *)
(*     hashes to the digest in the image manifest) or "X" (altered).       *)
(*                                                                         *)
(* Deliberate deviations: chunk values are abstracted to g/s/k; reads are  *)
(* of one whole chunk; readAndCache's first decision site ("verifier not   *)
(* found", chunk without a digest) is folded into the second; VTFinish is  *)
(* one step (TOC comparison and verify := TRUE are not observable apart);  *)
(* the uncompressed chunk cache itself is not altered at rest (a hit is    *)
(* served unverified by design); when two writers commit different values  *)
(* under one key either may be what the cache returns afterwards.          *)
(***************************************************************************)
EXTENDS Integers, Sequences, FiniteSets, TLC

CONSTANTS
    NC,                 \* chunks 1..NC (of one file)
    NWk,                \* prefetch workers 1..NWk, each runs readAndCache once
    NRd,                \* on-demand reads 1..NRd
    MaxAlter,           \* bound on Alter steps
    MaxVerify,          \* bound on layer.Verify calls
    Kinds,              \* alteration kinds in use, subset of {"s", "k"}
    Tocs,               \* possible TOCs, subset of {"D", "X"}
    Args,               \* digests passed to Verify, subset of {"D", "W"} ("W": a digest the TOC does not hash to)
    AtomicRead,         \* TRUE: a read is one step (replay: file.ReadAt has no gates)
    AtomicVerify,       \* TRUE: layer.Verify is one step and repeated Verify/SkipVerify reach the cached layer (layer-level histories)
    WithSkip,           \* LayerSkip enabled
    WithPass,           \* PassRead enabled
    WithTry,            \* WTryDecide enabled (a worker released into the RLock while VerifyTOC holds the lock)
    WithMount,          \* fs.Mount level: Verify/SkipVerify are reached only through the decision of filesystem.Mount (needs AtomicVerify)
    FsCfgs,             \* configurations of the filesystem: "--", "a-" (allow_no_verification), "-d" (disable_verification), "ad"
    \* negative controls, TRUE = as the code
    DecideUnderLock,    \* VerifyTOC sets prohibit and loads lastErr in one critical section excluding the workers' decision
    AbortWhenProhibited,\* a worker that finds a bad chunk after the decision aborts instead of committing
    VerifyBeforeCache,  \* on-demand path: verifyChunk before cacheData
    RecheckCachedLayer, \* layer.Verify on a layer whose r is set checks the digest (fix) instead of returning nil
    PassVerifies,       \* passthrough merge verifies the chunks it takes from the source
    TocLabelFirst       \* fs.Mount looks at the TOC digest label before the skip-verify label

VARIABLES
    fscfg,     \* configuration of the filesystem the layer is mounted by (one of FsCfgs)
    toc,       \* "D" | "X": what the TOC actually parsed hashes to
    src,       \* [1..NC -> {"g","s","k"}]
    cache,     \* [1..NC -> {"-","g","s"}]          chunk cache (uncompressed chunks)
    pf,        \* [1..NC -> {"-","g","s"}]          whole-file passthrough cache entry (all "-" = absent)
    prohibit, lastErr, verify,                      \* the three flags of reader.go
    lr,        \* "nil" | "verified" | "skipped"    layer.r
    okArgs,    \* digests d for which a Verify(d) returned success
    served,    \* values returned by reads that started after a Verify returned success
    wk,        \* [1..NWk -> [pc, c, val]]
    vt,        \* [pc, arg, ld]   the VerifyTOC call in progress
    rd,        \* [1..NRd -> [pc, c, val, vm]]
    nalter, nverify,
    last       \* observation of the last step

core == <<fscfg, toc, src, cache, pf, prohibit, lastErr, verify, lr, okArgs, served, wk, vt, rd, nalter, nverify>>
vars == <<fscfg, toc, src, cache, pf, prohibit, lastErr, verify, lr, okArgs, served, wk, vt, rd, nalter, nverify, last>>

Chunks  == 1..NC
Workers == 1..NWk
Readers == 1..NRd
vmount  == okArgs # {}

WIdle == [pc |-> "idle", c |-> 0, val |-> "-"]
RIdle == [pc |-> "idle", c |-> 0, val |-> "-", vm |-> FALSE]
VIdle == [pc |-> "idle", arg |-> "-", ld |-> FALSE]
NoPf  == [c \in Chunks |-> "-"]

ReadersQuiet == \A r \in Readers : rd[r].pc \in {"idle", "done"}
\* a worker that was released into RLock while VerifyTOC held the lock decides as soon as the lock is free
NoUrgent == \A w \in Workers : ~(wk[w].pc = "rlwait" /\ vt.pc # "loaded")
Quiet == (AtomicRead => ReadersQuiet) /\ NoUrgent

AllowNoVerif == fscfg \in {"a-", "ad"}
DisableVerif == fscfg \in {"-d", "ad"}

Init ==
    /\ fscfg \in FsCfgs
    /\ toc \in Tocs
    /\ src = [c \in Chunks |-> "g"]
    /\ cache = [c \in Chunks |-> "-"]
    /\ pf = NoPf
    /\ prohibit = FALSE /\ lastErr = FALSE /\ verify = FALSE
    /\ lr = "nil" /\ okArgs = {} /\ served = {}
    /\ wk = [w \in Workers |-> WIdle]
    /\ vt = VIdle
    /\ rd = [r \in Readers |-> RIdle]
    /\ nalter = 0 /\ nverify = 0
    /\ last = [act |-> "Init"]

----------------------------------------------------------------------------
(* environment *)
Alter(c, k) ==
    /\ Quiet /\ nalter < MaxAlter /\ src[c] # k
    /\ (WithMount => nverify = 0)       \* (fs level: the blob layer keeps what it fetched; the source is altered before the first Mount)
    /\ src' = [src EXCEPT ![c] = k]
    /\ nalter' = nalter + 1
    /\ UNCHANGED <<fscfg, toc, cache, pf, prohibit, lastErr, verify, lr, okArgs, served, wk, vt, rd, nverify>>
    /\ last' = [act |-> "Alter", c |-> c, k |-> k]

----------------------------------------------------------------------------
(* prefetch worker = one call of readAndCache *)
WProbe(w, c) ==
    /\ Quiet /\ wk[w].pc = "idle"
    /\ \A v \in Workers : v < w => wk[v].pc # "idle"
    /\ IF cache[c] # "-"
       THEN wk' = [wk EXCEPT ![w] = [pc |-> "done", c |-> c, val |-> "-"]]
       ELSE wk' = [wk EXCEPT ![w] = [pc |-> "probed", c |-> c, val |-> "-"]]
    /\ UNCHANGED <<fscfg, toc, src, cache, pf, prohibit, lastErr, verify, lr, okArgs, served, vt, rd, nalter, nverify>>
    /\ last' = [act |-> "WProbe", w |-> w, c |-> c, hit |-> cache[c] # "-"]

WReadSrc(w) ==
    /\ Quiet /\ wk[w].pc = "probed"
    /\ IF src[wk[w].c] = "k"
       THEN wk' = [wk EXCEPT ![w].pc = "done"]
       ELSE wk' = [wk EXCEPT ![w].pc = "read", ![w].val = src[wk[w].c]]
    /\ UNCHANGED <<fscfg, toc, src, cache, pf, prohibit, lastErr, verify, lr, okArgs, served, vt, rd, nalter, nverify>>
    /\ last' = [act |-> "WReadSrc", w |-> w, res |-> IF src[wk[w].c] = "k" THEN "ioerr" ELSE "ok"]

\* the worker is let go towards its decision while VerifyTOC holds the write lock: it blocks in RLock
WTryDecide(w) ==
    /\ WithTry /\ DecideUnderLock /\ Quiet
    /\ wk[w].pc = "read" /\ vt.pc = "loaded"
    /\ wk[w].val # "g"                  \* only a chunk that failed its digest takes the RLock
    /\ wk' = [wk EXCEPT ![w].pc = "rlwait"]
    /\ UNCHANGED <<fscfg, toc, src, cache, pf, prohibit, lastErr, verify, lr, okArgs, served, vt, rd, nalter, nverify>>
    /\ last' = [act |-> "WTryDecide", w |-> w, blocked |-> TRUE]

WDecide(w) ==
    /\ (AtomicRead => ReadersQuiet)
    /\ wk[w].pc \in {"read", "rlwait"}
    /\ (wk[w].pc = "read" => NoUrgent)
    /\ \A v \in Workers : (v < w /\ wk[w].pc = "rlwait") => ~(wk[v].pc = "rlwait")
    /\ ~(DecideUnderLock /\ vt.pc = "loaded" /\ wk[w].val # "g")
    /\ IF wk[w].val = "g"
       THEN /\ wk' = [wk EXCEPT ![w].pc = "commit"]
            /\ lastErr' = lastErr
            /\ last' = [act |-> "WDecide", w |-> w, res |-> "commit"]
       ELSE IF prohibit /\ AbortWhenProhibited
       THEN /\ wk' = [wk EXCEPT ![w].pc = "done"]
            /\ lastErr' = lastErr
            /\ last' = [act |-> "WDecide", w |-> w, res |-> "abort"]
       ELSE /\ wk' = [wk EXCEPT ![w].pc = "commit"]
            /\ lastErr' = TRUE
            /\ last' = [act |-> "WDecide", w |-> w, res |-> "commit"]
    /\ UNCHANGED <<fscfg, toc, src, cache, pf, prohibit, verify, lr, okArgs, served, vt, rd, nalter, nverify>>

WCommit(w) ==
    /\ Quiet /\ wk[w].pc = "commit"
    /\ \E nv \in {wk[w].val} \cup (IF cache[wk[w].c] # "-" THEN {cache[wk[w].c]} ELSE {}) :
          cache' = [cache EXCEPT ![wk[w].c] = nv]
    /\ wk' = [wk EXCEPT ![w].pc = "done"]
    /\ UNCHANGED <<fscfg, toc, src, pf, prohibit, lastErr, verify, lr, okArgs, served, vt, rd, nalter, nverify>>
    /\ last' = [act |-> "WCommit", w |-> w]

----------------------------------------------------------------------------
(* layer.Verify / VerifyTOC *)
VTLoad(d) ==
    /\ ~AtomicVerify /\ Quiet
    /\ vt.pc = "idle" /\ lr = "nil" /\ nverify < MaxVerify
    /\ nverify' = nverify + 1
    /\ vt' = [pc |-> "loaded", arg |-> d, ld |-> lastErr]
    /\ prohibit' = IF DecideUnderLock THEN TRUE ELSE prohibit   \* control off: the load happens before the lock section
    /\ UNCHANGED <<fscfg, toc, src, cache, pf, lastErr, verify, lr, okArgs, served, wk, rd, nalter>>
    /\ last' = [act |-> "VTLoad", d |-> d]

VTUnlock ==
    /\ (AtomicRead => ReadersQuiet)
    /\ vt.pc = "loaded"
    /\ vt' = [vt EXCEPT !.pc = "unlocked"]
    /\ prohibit' = TRUE
    /\ UNCHANGED <<fscfg, toc, src, cache, pf, lastErr, verify, lr, okArgs, served, wk, rd, nalter, nverify>>
    /\ last' = [act |-> "VTUnlock"]

VTOutcome(ld, d) == IF ld THEN "err" ELSE IF toc # d THEN "err" ELSE "ok"

VTFinish ==
    /\ Quiet /\ vt.pc = "unlocked"
    /\ vt' = VIdle
    /\ IF VTOutcome(vt.ld, vt.arg) = "ok"
       THEN /\ verify' = TRUE /\ lr' = "verified" /\ okArgs' = okArgs \cup {vt.arg}
       ELSE /\ UNCHANGED <<verify, lr, okArgs>>
    /\ UNCHANGED <<fscfg, toc, src, cache, pf, prohibit, lastErr, served, wk, rd, nalter, nverify>>
    /\ last' = [act |-> "VTFinish", d |-> vt.arg, res |-> VTOutcome(vt.ld, vt.arg)]

\* layer.Verify as one step (no gates at the layer level)
LVOk(d) == IF lr = "nil" THEN VTOutcome(lastErr, d) = "ok"
           ELSE IF RecheckCachedLayer THEN (lr = "verified" /\ toc = d) ELSE TRUE   \* the layer object was verified or skip-verified before
LVEffect(d) ==
    IF lr = "nil"
    THEN /\ prohibit' = TRUE
         /\ IF LVOk(d) THEN /\ verify' = TRUE /\ lr' = "verified" /\ okArgs' = okArgs \cup {d}
            ELSE UNCHANGED <<verify, lr, okArgs>>
    ELSE /\ okArgs' = IF LVOk(d) THEN okArgs \cup {d} ELSE okArgs
         /\ UNCHANGED <<prohibit, verify, lr>>

LayerVerify(d) ==
    /\ AtomicVerify /\ ~WithMount /\ Quiet /\ nverify < MaxVerify /\ vt.pc = "idle"
    /\ nverify' = nverify + 1
    /\ LVEffect(d)
    /\ last' = [act |-> "LayerVerify", d |-> d, res |-> IF LVOk(d) THEN "ok" ELSE "err", cached |-> lr # "nil"]
    /\ UNCHANGED <<fscfg, toc, src, cache, pf, lastErr, served, wk, vt, rd, nalter>>

\* filesystem.Mount (fs/fs.go) after the layer was resolved: which of Verify / SkipVerify / refusal the snapshot labels
\* (tl: TOC digest label "D" | "W" | "none"; sk: skip-verify label) and the configuration select.
\* A Mount that was given a TOC digest label and returns success counts as a mount pinned to that digest (okArgs),
\* whichever call it made - unless verification is disabled as a whole by the operator (disable_verification).
MountCall(tl, sk) ==
    IF DisableVerif THEN "skip"
    ELSE IF TocLabelFirst
         THEN (IF tl # "none" THEN "verify" ELSE IF sk /\ AllowNoVerif THEN "skip" ELSE "refuse")
         ELSE (IF sk /\ AllowNoVerif THEN "skip" ELSE IF tl # "none" THEN "verify" ELSE "refuse")

Mount(tl, sk) ==
    /\ WithMount /\ AtomicVerify /\ Quiet /\ nverify < MaxVerify /\ vt.pc = "idle"
    /\ nverify' = nverify + 1
    /\ LET call == MountCall(tl, sk)
       IN /\ CASE call = "verify" -> LVEffect(tl)
               [] call = "skip" -> /\ lr' = IF lr = "nil" THEN "skipped" ELSE lr
                                   /\ okArgs' = IF tl # "none" /\ ~DisableVerif THEN okArgs \cup {tl} ELSE okArgs
                                   /\ UNCHANGED <<prohibit, verify>>
               [] OTHER -> UNCHANGED <<prohibit, verify, lr, okArgs>>
          /\ last' = [act |-> "Mount", tl |-> tl, sk |-> sk, call |-> call,
                      res |-> IF call = "verify" THEN (IF LVOk(tl) THEN "ok" ELSE "err") ELSE IF call = "skip" THEN "ok" ELSE "err"]
    /\ UNCHANGED <<fscfg, toc, src, cache, pf, lastErr, served, wk, vt, rd, nalter>>

LayerSkip ==
    /\ WithSkip /\ ~WithMount /\ Quiet /\ vt.pc = "idle"
    /\ lr = "nil"                       \* (a no-op otherwise)
    /\ lr' = "skipped"
    /\ UNCHANGED <<fscfg, toc, src, cache, pf, prohibit, lastErr, verify, okArgs, served, wk, vt, rd, nalter, nverify>>
    /\ last' = [act |-> "LayerSkip"]

----------------------------------------------------------------------------
(* on-demand read of chunk c through the reader handed out by the layer *)
Put(c, v) == \E nv \in {v} \cup (IF cache[c] # "-" THEN {cache[c]} ELSE {}) : cache' = [cache EXCEPT ![c] = nv]

RProbe(r, c) ==
    /\ ~AtomicRead /\ NoUrgent
    /\ lr # "nil" /\ rd[r].pc = "idle"
    /\ \A q \in Readers : q < r => rd[q].pc # "idle"
    /\ IF cache[c] # "-"
       THEN /\ rd' = [rd EXCEPT ![r] = [pc |-> "done", c |-> c, val |-> cache[c], vm |-> vmount]]
            /\ served' = IF vmount THEN served \cup {cache[c]} ELSE served
            /\ last' = [act |-> "Read", r |-> r, c |-> c, res |-> "ok", v |-> cache[c], probe |-> cache[c]]
       ELSE /\ rd' = [rd EXCEPT ![r] = [pc |-> "missed", c |-> c, val |-> "-", vm |-> vmount]]
            /\ served' = served
            /\ last' = [act |-> "RProbe", r |-> r, c |-> c]
    /\ UNCHANGED <<fscfg, toc, src, cache, pf, prohibit, lastErr, verify, lr, okArgs, wk, vt, nalter, nverify>>

RFetch(r) ==
    /\ ~AtomicRead /\ NoUrgent /\ rd[r].pc = "missed"
    /\ IF src[rd[r].c] = "k"
       THEN /\ rd' = [rd EXCEPT ![r].pc = "done"]
            /\ last' = [act |-> "Read", r |-> r, c |-> rd[r].c, res |-> "ioerr", v |-> "-", probe |-> cache[rd[r].c]]
       ELSE /\ rd' = [rd EXCEPT ![r].pc = "fetched", ![r].val = src[rd[r].c]]
            /\ last' = [act |-> "RFetch", r |-> r]
    /\ UNCHANGED <<fscfg, toc, src, cache, pf, prohibit, lastErr, verify, lr, okArgs, served, wk, vt, nalter, nverify>>

RFinish(r) ==
    /\ ~AtomicRead /\ NoUrgent /\ rd[r].pc = "fetched"
    /\ rd' = [rd EXCEPT ![r].pc = "done"]
    /\ LET c == rd[r].c
           v == rd[r].val
           bad == verify /\ v # "g"
       IN /\ IF bad /\ VerifyBeforeCache THEN cache' = cache ELSE Put(c, v)
          /\ served' = IF ~bad /\ rd[r].vm THEN served \cup {v} ELSE served
          /\ last' = [act |-> "Read", r |-> r, c |-> c, res |-> IF bad THEN "verr" ELSE "ok",
                      v |-> IF bad THEN "-" ELSE v, probe |-> cache'[c]]
    /\ UNCHANGED <<fscfg, toc, src, pf, prohibit, lastErr, verify, lr, okArgs, wk, vt, nalter, nverify>>

\* the three steps above in one (replay and layer-level histories)
Read(r, c) ==
    /\ AtomicRead /\ Quiet
    /\ lr # "nil" /\ rd[r].pc = "idle"
    /\ \A q \in Readers : q < r => rd[q].pc # "idle"
    /\ LET hit == cache[c] # "-"
           v   == IF hit THEN cache[c] ELSE src[c]
           res == IF hit THEN "ok" ELSE IF v = "k" THEN "ioerr" ELSE IF verify /\ v # "g" THEN "verr" ELSE "ok"
       IN /\ IF hit \/ res = "ioerr" \/ (res = "verr" /\ VerifyBeforeCache) THEN cache' = cache ELSE Put(c, v)
          /\ served' = IF res = "ok" /\ vmount THEN served \cup {v} ELSE served
          /\ rd' = [rd EXCEPT ![r] = [pc |-> "done", c |-> c, val |-> "-", vm |-> vmount]]
          /\ last' = [act |-> "Read", r |-> r, c |-> c, res |-> res, v |-> IF res = "ok" THEN v ELSE "-", probe |-> cache'[c]]
    /\ UNCHANGED <<fscfg, toc, src, pf, prohibit, lastErr, verify, lr, okArgs, wk, vt, nalter, nverify>>

\* GetPassthroughFd on the file made of all chunks, then a read of the whole file through the descriptor
PassRead(r) ==
    /\ WithPass /\ Quiet
    /\ lr # "nil" /\ rd[r].pc = "idle"
    /\ \A q \in Readers : q < r => rd[q].pc # "idle"
    /\ rd' = [rd EXCEPT ![r] = [pc |-> "done", c |-> 0, val |-> "-", vm |-> vmount]]
    /\ IF pf # NoPf
       THEN /\ pf' = pf
            /\ served' = IF vmount THEN served \cup {pf[c] : c \in Chunks} ELSE served
            /\ last' = [act |-> "PassRead", r |-> r, res |-> "ok", vals |-> pf]
       ELSE LET val(c) == IF cache[c] # "-" THEN cache[c] ELSE src[c]
                fromSrc == {c \in Chunks : cache[c] = "-"}
                res == IF \E c \in fromSrc : src[c] = "k" THEN "ioerr"
                       ELSE IF verify /\ PassVerifies /\ \E c \in fromSrc : src[c] # "g" THEN "verr"
                       ELSE "ok"
            IN /\ pf' = IF res = "ok" THEN [c \in Chunks |-> val(c)] ELSE pf
               /\ served' = IF res = "ok" /\ vmount THEN served \cup {val(c) : c \in Chunks} ELSE served
               /\ last' = [act |-> "PassRead", r |-> r, res |-> res, vals |-> IF res = "ok" THEN [c \in Chunks |-> val(c)] ELSE NoPf]
    /\ UNCHANGED <<fscfg, toc, src, cache, prohibit, lastErr, verify, lr, okArgs, wk, vt, nalter, nverify>>

----------------------------------------------------------------------------
Next ==
    \/ \E c \in Chunks, k \in Kinds \cup {"g"} : Alter(c, k)
    \/ \E w \in Workers, c \in Chunks : WProbe(w, c)
    \/ \E w \in Workers : WReadSrc(w)
    \/ \E w \in Workers : WTryDecide(w)
    \/ \E w \in Workers : WDecide(w)
    \/ \E w \in Workers : WCommit(w)
    \/ \E d \in Args : VTLoad(d)
    \/ VTUnlock
    \/ VTFinish
    \/ \E d \in Args : LayerVerify(d)
    \/ \E tl \in Args \cup {"none"}, sk \in BOOLEAN : Mount(tl, sk)
    \/ LayerSkip
    \/ \E r \in Readers, c \in Chunks : RProbe(r, c)
    \/ \E r \in Readers : RFetch(r)
    \/ \E r \in Readers : RFinish(r)
    \/ \E r \in Readers, c \in Chunks : Read(r, c)
    \/ \E r \in Readers : PassRead(r)

Spec == Init /\ [][Next]_vars

----------------------------------------------------------------------------
(* Property C01 *)

\* a mount with the pinned digest d (Verify(d), or a filesystem.Mount that was given the TOC digest label d - whatever other
\* labels say) succeeds only if the TOC actually used hashes to d
MountImpliesToc == \A d \in okArgs : toc = d
\* every value returned by a read after a successful verified mount is the one the TOC records
ServedAreGood == served \subseteq {"g"}
\* once a verified mount succeeded nothing altered is cached where a later read would take it without verification
NoBadStaysCached == vmount => \A c \in Chunks : cache[c] \in {"-", "g"} /\ pf[c] \in {"-", "g"}
\* a read that failed verification left nothing altered of that chunk in the cache
FailedReadLeavesNothing == (last.act = "Read" /\ last.res = "verr") => last.probe \in {"-", "g"}

\* internal consistency
TypeOK ==
    /\ verify => (prohibit /\ ~lastErr /\ lr = "verified")
    /\ (lr = "verified") => verify
    /\ vt.pc = "loaded" => (DecideUnderLock => prohibit)
=============================================================================

-------------------------- MODULE TaskMgrMonitor --------------------------
(* Monitor (soundness rule, DESIGN 2.5): no enabling conditions. Each        *)
(* recorded event is loaded into the observable variables of TaskMgr and     *)
(* only the formulas of property C13 are evaluated on what the               *)
(* IMPLEMENTATION showed:                                                    *)
(*   bodies[i][n].st   from the driver's BodyBegin / BodyEnd                 *)
(*   pc[i]             "decide" at the start decision (under notifyMu),      *)
(*                     "select" once the body has been spawned, "returned"   *)
(*                     when the call has returned to the driver              *)
(*   active            Do events minus Done events                           *)
(*   dg.sleep          at a start decision: number of Done events less than  *)
(*                     PeriodUs before it (monotonic clock, taken inside the *)
(*                     hooks: Done before the goroutine is spawned, Decided  *)
(*                     after the counter was read)                           *)
(* quiet[i] remembers Quiet as it was at the last start decision of i.       *)
EXTENDS TaskMgr, Json, TLCExt

CONSTANT PeriodUs
VARIABLES l, quiet, doneTs
mvars == <<vars, l, quiet, doneTs>>

TraceLog == ndJsonDeserialize("trace.ndjson")
Ev == TraceLog[l]

MonInit == Init /\ l = 1 /\ quiet = [i \in Invs |-> TRUE] /\ doneTs = <<>>

Grow(s, n) == IF n <= Len(s) THEN s ELSE s \o [k \in 1..(n - Len(s)) |-> [st |-> "spawned", cx |-> FALSE]]
SetSt(i, n, st) == [bodies EXCEPT ![i] = [Grow(@, n) EXCEPT ![n].st = st]]
InSilence(ts) == Cardinality({k \in 1..Len(doneTs) : ts - doneTs[k] < PeriodUs})

MonNext ==
    /\ l <= Len(TraceLog)
    /\ l' = l + 1
    /\ last' = [act |-> Ev.ev]
    /\ UNCHANGED <<prio, epoch, sem, ndo, seen>>
    /\ IF Ev.ev = "Reset"
       THEN /\ bodies' = [i \in Invs |-> <<>>] /\ pc' = [i \in Invs |-> "wait"] /\ active' = 0
            /\ dg' = [sleep |-> 0, awake |-> 0, bcast |-> 0]
            /\ quiet' = [i \in Invs |-> TRUE] /\ doneTs' = <<>>
       ELSE /\ bodies' = CASE Ev.ev = "BodyBegin" -> SetSt(Ev.i, Ev.n, "running")
                           [] Ev.ev = "BodyEnd" -> SetSt(Ev.i, Ev.n, "done")
                           [] OTHER -> bodies
            /\ pc' = CASE Ev.ev = "Decided" -> [pc EXCEPT ![Ev.i] = "decide"]
                       [] Ev.ev = "Select" -> [pc EXCEPT ![Ev.i] = "select"]
                       [] Ev.ev = "Release" -> [pc EXCEPT ![Ev.i] = "wait"]
                       [] Ev.ev = "Return" -> [pc EXCEPT ![Ev.i] = "returned"]
                       [] Ev.ev = "Panic" -> [pc EXCEPT ![Ev.i] = "returned"]     \* the call ended (by a panic)
                       [] Ev.ev = "Stuck" -> [pc EXCEPT ![Ev.i] = "sleeping"]
                       [] OTHER -> pc
            /\ active' = CASE Ev.ev = "Do" -> active + 1 [] Ev.ev = "Done" -> active - 1 [] OTHER -> active
            /\ doneTs' = IF Ev.ev = "Done" THEN Append(doneTs, Ev.ts) ELSE doneTs
            /\ dg' = [dg EXCEPT !.sleep = IF Ev.ev = "Decided" THEN InSilence(Ev.ts) ELSE 0]
            /\ quiet' = IF Ev.ev = "Decided" THEN [quiet EXCEPT ![Ev.i] = (active = 0 /\ InSilence(Ev.ts) = 0)] ELSE quiet

MonSpec == MonInit /\ [][MonNext]_mvars

\* a body was spawned (the invocation reached its select) although the state at its start decision was not Quiet
MonStartOnlyWhenQuiet == \A i \in Invs : pc[i] = "select" => quiet[i]
\* caller discipline (harness/fs): when a call of a prioritized caller (filesystem.Check) has returned, every
\* prioritized task it began has been ended - otherwise the counter says "in progress" for ever
MonCallersBalanced == last.act = "CallEnd" => active = 0
\* bounded-wait verdicts of the driver
\* every invocation returned once prioritized work had stopped (30 s)
MonAllReturned == last.act # "Stuck"
\* cancel() reached a body that was running when a prioritized task began (10 s)
MonCancelReaches == last.act # "CxTimeout"
\* a body began more than the driver's bound (5 s) after a prioritized task had begun and while it was still in progress
\* (saturated scenario: the slot is freed late by a body that reacts to cancellation late): its start decision cannot have
\* been taken in a state without prioritized work
MonNoLateStart == last.act # "LateStart"
=============================================================================

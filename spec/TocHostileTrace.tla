--------------------------- MODULE TocHostileTrace ---------------------------
(* Allowed outcomes (reference of TocHostile.tla) of the recorded runs of    *)
(* hostile TOCs. trace.ndjson: one line per (case, entry point):             *)
(*   [case, ents, ep, out]                                                   *)
(* ep "open" is estargz.Open / memory.NewReader / db.NewReader (+ wait for   *)
(* the background parser); it must fail for a TOC whose hard links cannot    *)
(* resolve and succeed for a plain conforming TOC.  Lines are independent;   *)
(* every line that is not allowed is printed ("VMISS <line> <why>").         *)
EXTENDS TocHostile, Json, TLCExt
VARIABLE l
TraceLog == ndJsonDeserialize("trace.ndjson")
Why(ev) ==
    IF ev.ep = "open" /\ ev.out \in {"ok", "error"} /\ ev.out \notin Allowed(ev.ents) THEN "outcome-not-allowed"
    ELSE IF ev.ep = "open" /\ ev.out = "error" /\ Plain(ev.ents) THEN "rejected-plain-toc"
    ELSE ""
TraceInit == l = 1 /\ toc = <<>>
TraceNext ==
    /\ l <= Len(TraceLog)
    /\ LET w == Why(TraceLog[l]) IN IF w = "" THEN TRUE ELSE PrintT("VMISS " \o ToString(l) \o " " \o w)
    /\ l' = l + 1
    /\ UNCHANGED toc
TraceSpec == TraceInit /\ [][TraceNext]_<<l, toc>>
Done == l = Len(TraceLog) + 1 => PrintT("VDONE " \o ToString(Len(TraceLog)))
=============================================================================

----------------------------- MODULE NamedMutex -----------------------------
(* util/namedmutex.NamedMutex (used by layer.Resolver.Resolve and           *)
(* cache.directoryCache): Lock(name)/Unlock(name) over                      *)
(*     muMap  map[string]*sync.Mutex      ent   name -> object id (0 = no   *)
(*                                              entry)                      *)
(*     refMap map[string]int              refs  name -> count (0 = no entry)*)
(*     mu     sync.Mutex                  the outer mutex: every action     *)
(*                                        below that touches ent/refs is ONE*)
(*                                        critical section under it         *)
(* A *sync.Mutex is modelled as an object objs[o] = [name, owner] with      *)
(* identity o = order of creation: the code deletes the map entry BEFORE it *)
(* unlocks the per-name mutex, so two mutex objects of one name can be      *)
(* alive at once (the old one still locked by a goroutine in the tail of    *)
(* Unlock, the new one created by the next Lock).                           *)
(*                                                                          *)
(*   Lock(name):   LockSec   (nl.mu: look up / create entry, mu := entry,   *)
(*                            refMap[name]++)                               *)
(*                 Acquire   (mu.Lock() outside nl.mu; blocks while owned)  *)
(*   Unlock(name): UnlockSec (nl.mu: mu := muMap[name], refMap[name]--,     *)
(*                            delete both entries when the count is <= 0)   *)
(*                 UnlockMu  (mu.Unlock() outside nl.mu)                    *)
(*   UnlockAbsent: Unlock of a name that has no entry: panics with the maps *)
(*                 unchanged and nl.mu released. (Pinned code: -1 is stored *)
(*                 and deleted again, then nil.Unlock() panics after nl.mu  *)
(*                 was released - EXCEPT on a NamedMutex never locked       *)
(*                 before, see NilMapGuard. "fix:" commit: explicit panic   *)
(*                 before the maps are touched.)                            *)
(*                                                                          *)
(* Deliberate deviations: the panic of UnlockAbsent is folded into the one  *)
(* action (nothing else happens between section and panic); Unlock of a     *)
(* name that somebody ELSE holds (caller bug: it would steal the mutex) is  *)
(* not modelled - both callers pair Lock/Unlock in one function.            *)
(*                                                                          *)
(* Negative-control constants (TRUE/"dec_first" = what the code does):      *)
(*   DeleteOnlyAtZero  FALSE: Unlock deletes the entry whatever the count   *)
(*   CountWaiters      FALSE: the count is bumped after mu.Lock() returned  *)
(*                            (waiters are not counted)                     *)
(*   OuterMutex        FALSE: the section of Lock is not atomic (read of    *)
(*                            entry+count, then write)                      *)
(*   UnlockOrder       "mu_first": release the per-name mutex, THEN the     *)
(*                            section. Both orders are safe (positive       *)
(*                            control): the count covers waiters.           *)
(*                     NB "count decremented before the per-name unlock" is *)
(*                     what the CODE does; it is safe because the caller's  *)
(*                     critical section ended before Unlock was called and  *)
(*                     waiters keep the entry alive - TLC confirms both.    *)
(*   NilMapGuard       FALSE: see below (the pinned code's defect)          *)
EXTENDS Integers, Sequences, FiniteSets, TLC

CONSTANTS Gor,              \* goroutines, a set 1..N
          Names,            \* set of strings
          Rounds,           \* Lock calls per goroutine (bound)
          DeleteOnlyAtZero, CountWaiters, OuterMutex, UnlockOrder,
          AllowAbsent,      \* UnlockAbsent enabled
          NilMapGuard       \* TRUE: Unlock of an absent name returns (panics) before it touches the maps (the "fix:" commit);
                            \* FALSE = the pinned code: on a NamedMutex whose Lock was never called the maps are nil and
                            \* `nl.refMap[name]--` panics INSIDE the section, nl.mu stays locked for ever

NoObj  == 0
NoName == "-"

VARIABLES ent, refs, objs,  \* the NamedMutex
          pc, nm, mu,       \* per goroutine: control state, name argument, local variable mu
          done,             \* Lock calls started (bound only)
          st,               \* [alloc: the maps were made by a first Lock, stuck: nl.mu was left locked by a panic]
          tmp,              \* locals of the non-atomic Lock section (OuterMutex = FALSE only)
          last              \* observation of the last step (hidden from VIEW)

vars == <<ent, refs, objs, pc, nm, mu, done, st, tmp, last>>
core == <<ent, refs, objs, pc, nm, mu, done, st, tmp>>

ObjIds == 1..Len(objs)
NoTmp  == [e |-> 0, r |-> 0]

Init ==
    /\ ent  = [n \in Names |-> NoObj]
    /\ refs = [n \in Names |-> 0]
    /\ objs = <<>>
    /\ pc   = [g \in Gor |-> "idle"]
    /\ nm   = [g \in Gor |-> NoName]
    /\ mu   = [g \in Gor |-> NoObj]
    /\ done = [g \in Gor |-> 0]
    /\ tmp  = [g \in Gor |-> NoTmp]
    /\ st   = [alloc |-> FALSE, stuck |-> FALSE]
    /\ last = [act |-> "Init"]

-----------------------------------------------------------------------------
(* Lock(name), first part: the critical section under nl.mu *)
LockSec(g, n) ==
    /\ OuterMutex /\ ~st.stuck
    /\ pc[g] = "idle" /\ done[g] < Rounds
    /\ st' = [st EXCEPT !.alloc = TRUE]
    /\ LET create == ent[n] = NoObj
           o      == IF create THEN Len(objs) + 1 ELSE ent[n]
       IN /\ objs' = IF create THEN Append(objs, [name |-> n, owner |-> 0]) ELSE objs
          /\ ent'  = [ent EXCEPT ![n] = o]
          /\ refs' = IF CountWaiters THEN [refs EXCEPT ![n] = @ + 1] ELSE refs
          /\ mu'   = [mu EXCEPT ![g] = o]
          /\ last' = [act |-> "LockSec", g |-> g, n |-> n, o |-> o, created |-> create]
    /\ pc'   = [pc EXCEPT ![g] = "acq"]
    /\ nm'   = [nm EXCEPT ![g] = n]
    /\ done' = [done EXCEPT ![g] = @ + 1]
    /\ UNCHANGED tmp

(* negative control OuterMutex = FALSE: the same section as two steps *)
LockRead(g, n) ==
    /\ ~OuterMutex
    /\ pc[g] = "idle" /\ done[g] < Rounds
    /\ st' = [st EXCEPT !.alloc = TRUE]
    /\ tmp'  = [tmp EXCEPT ![g] = [e |-> ent[n], r |-> refs[n]]]
    /\ pc'   = [pc EXCEPT ![g] = "lsec"]
    /\ nm'   = [nm EXCEPT ![g] = n]
    /\ done' = [done EXCEPT ![g] = @ + 1]
    /\ last' = [act |-> "LockRead", g |-> g, n |-> n]
    /\ UNCHANGED <<ent, refs, objs, mu>>
LockWrite(g) ==
    /\ ~OuterMutex
    /\ pc[g] = "lsec"
    /\ LET n      == nm[g]
           create == tmp[g].e = NoObj
           o      == IF create THEN Len(objs) + 1 ELSE tmp[g].e
       IN /\ objs' = IF create THEN Append(objs, [name |-> n, owner |-> 0]) ELSE objs
          /\ ent'  = IF create THEN [ent EXCEPT ![n] = o] ELSE ent
          /\ refs' = [refs EXCEPT ![n] = tmp[g].r + 1]
          /\ mu'   = [mu EXCEPT ![g] = o]
          /\ last' = [act |-> "LockWrite", g |-> g, n |-> n, o |-> o, created |-> create]
    /\ pc'  = [pc EXCEPT ![g] = "acq"]
    /\ tmp' = [tmp EXCEPT ![g] = NoTmp]
    /\ UNCHANGED <<nm, done, st>>

(* Lock(name), second part: mu.Lock() returns *)
Acquire(g) ==
    /\ pc[g] = "acq"
    /\ objs[mu[g]].owner = 0
    /\ objs' = [objs EXCEPT ![mu[g]].owner = g]
    /\ refs' = IF CountWaiters THEN refs ELSE [refs EXCEPT ![nm[g]] = @ + 1]
    /\ pc'   = [pc EXCEPT ![g] = "held"]
    /\ last' = [act |-> "Acquire", g |-> g, n |-> nm[g]]
    /\ UNCHANGED <<ent, mu, nm, done, st, tmp>>

(* the section of Unlock: decrement, delete at zero. mu is looked up in the map again *)
SecEffect(g, nextpc) ==
    LET n   == nm[g]
        r   == refs[n] - 1
        del == IF DeleteOnlyAtZero THEN r <= 0 ELSE TRUE
    IN /\ refs' = [refs EXCEPT ![n] = IF del THEN 0 ELSE r]
       /\ ent'  = [ent EXCEPT ![n] = IF del THEN NoObj ELSE @]
       /\ last' = [act |-> "UnlockSec", g |-> g, n |-> n, deleted |-> del]
       /\ pc'   = [pc EXCEPT ![g] = nextpc]

(* Unlock(name), first part (the code's order) *)
UnlockSec(g) ==
    /\ UnlockOrder = "dec_first" /\ ~st.stuck
    /\ pc[g] = "held"
    /\ mu' = [mu EXCEPT ![g] = ent[nm[g]]]      \* mu := nl.muMap[name]
    /\ SecEffect(g, "rel")
    /\ UNCHANGED <<objs, nm, done, st, tmp>>

(* mu.Unlock(): nil -> panic; unlocked -> "fatal error: sync: unlock of unlocked mutex"; owner is not checked *)
MuUnlock(g, nextpc, keepname) ==
    LET o == mu[g] IN
    /\ IF o = NoObj
       THEN /\ objs' = objs
            /\ last' = [act |-> "UnlockMu", g |-> g, panic |-> TRUE, fatal |-> FALSE]
       ELSE IF objs[o].owner = 0
       THEN /\ objs' = objs
            /\ last' = [act |-> "UnlockMu", g |-> g, panic |-> FALSE, fatal |-> TRUE]
       ELSE /\ objs' = [objs EXCEPT ![o].owner = 0]
            /\ last' = [act |-> "UnlockMu", g |-> g, panic |-> FALSE, fatal |-> FALSE]
    /\ pc' = [pc EXCEPT ![g] = nextpc]
    /\ nm' = IF keepname THEN nm ELSE [nm EXCEPT ![g] = NoName]
    /\ mu' = IF keepname THEN mu ELSE [mu EXCEPT ![g] = NoObj]

(* Unlock(name), second part (the code's order) *)
UnlockMu(g) ==
    /\ UnlockOrder = "dec_first"
    /\ pc[g] = "rel"
    /\ MuUnlock(g, "idle", FALSE)
    /\ UNCHANGED <<ent, refs, done, st, tmp>>

(* positive control "mu_first": look up + release first, then the section *)
UnlockMuFirst(g) ==
    /\ UnlockOrder = "mu_first"
    /\ pc[g] = "held"
    /\ MuUnlock(g, "rel1", TRUE)
    /\ UNCHANGED <<ent, refs, done, st, tmp>>
UnlockSecAfter(g) ==
    /\ UnlockOrder = "mu_first" /\ ~st.stuck
    /\ pc[g] = "rel1"
    /\ SecEffect(g, "idle")
    /\ nm' = [nm EXCEPT ![g] = NoName]
    /\ mu' = [mu EXCEPT ![g] = NoObj]
    /\ UNCHANGED <<objs, done, st, tmp>>

(* Unlock of a name without entry *)
UnlockAbsent(g, n) ==
    /\ AllowAbsent /\ ~st.stuck
    /\ pc[g] = "idle"
    /\ ent[n] = NoObj
    /\ LET poison == ~st.alloc /\ ~NilMapGuard
       IN /\ st'   = [st EXCEPT !.stuck = poison]
          /\ last' = [act |-> "UnlockAbsent", g |-> g, n |-> n, panic |-> TRUE, stuck |-> poison]
    /\ UNCHANGED <<ent, refs, objs, pc, nm, mu, done, tmp>>

Next ==
    \/ \E g \in Gor, n \in Names : LockSec(g, n)
    \/ \E g \in Gor, n \in Names : LockRead(g, n)
    \/ \E g \in Gor : LockWrite(g)
    \/ \E g \in Gor : Acquire(g)
    \/ \E g \in Gor : UnlockSec(g)
    \/ \E g \in Gor : UnlockMu(g)
    \/ \E g \in Gor : UnlockMuFirst(g)
    \/ \E g \in Gor : UnlockSecAfter(g)
    \/ \E g \in Gor, n \in Names : UnlockAbsent(g, n)

Spec == Init /\ [][Next]_vars

(* holders unlock, the per-name sync.Mutex is starvation-free (Go: starvation mode after 1 ms) *)
Fairness ==
    \A g \in Gor : /\ WF_vars(UnlockSec(g)) /\ WF_vars(UnlockMu(g))
                   /\ WF_vars(UnlockMuFirst(g)) /\ WF_vars(UnlockSecAfter(g))
                   /\ SF_vars(Acquire(g))
FairSpec == Spec /\ Fairness
(* negative control of the liveness formula: holders need not unlock *)
UnfairSpec == Spec /\ \A g \in Gor : SF_vars(Acquire(g))

-----------------------------------------------------------------------------
(* PROPERTY FORMULAS *)
Users(n)   == {g \in Gor : nm[g] = n /\ pc[g] \in {"acq", "held", "rel1"}}   \* waiting for or holding n (counted)
Holders(n) == {g \in Gor : nm[g] = n /\ pc[g] = "held"}

(* at most one goroutine is between the return of Lock(n) and its call of Unlock(n) *)
MutualExclusionPerName == \A n \in Names : Cardinality(Holders(n)) <= 1

(* a goroutine waiting in Lock(b) is blocked only by a goroutine that holds b or is in the tail of Unlock(b) on the *)
(* same mutex object - never by a holder of another name, never by nobody; and the section of Lock never blocks    *)
IndependentNames ==
    /\ \A g \in Gor : (pc[g] = "acq" /\ objs[mu[g]].owner # 0) =>
          LET h == objs[mu[g]].owner IN
          /\ h # g /\ nm[h] = nm[g] /\ mu[h] = mu[g] /\ pc[h] \in {"held", "rel"}
    /\ \A g \in Gor : (pc[g] = "acq" /\ Holders(nm[g]) = {} /\ ~\E h \in Gor : pc[h] = "rel" /\ mu[h] = mu[g])
          => ENABLED Acquire(g)
    /\ \A g \in Gor, n \in Names : (OuterMutex /\ pc[g] = "idle" /\ done[g] < Rounds) => ENABLED LockSec(g, n)

(* an entry exists iff someone holds or waits for the name; hence the maps are empty at quiescence *)
MapNeverLeaks ==
    /\ \A n \in Names : (ent[n] # NoObj) <=> (Users(n) # {})
    /\ (\A g \in Gor : pc[g] = "idle") => \A n \in Names : ent[n] = NoObj /\ refs[n] = 0

(* the count is the number of goroutines that hold or wait; both maps have the same keys *)
RefsAccount ==
    \A n \in Names : /\ refs[n] = Cardinality(Users(n))
                     /\ (refs[n] = 0) <=> (ent[n] = NoObj)

(* everybody who holds or waits for a name uses the mutex object that is in the map (internal, implies exclusion) *)
SameObject ==
    /\ \A n \in Names : \A g \in Users(n) : mu[g] = ent[n]
    /\ \A g \in Gor : pc[g] = "held" => objs[mu[g]].owner = g
    /\ \A o \in ObjIds : objs[o].owner # 0 =>
          LET h == objs[o].owner IN mu[h] = o /\ pc[h] \in {"held", "rel", "rel1"} /\ objs[o].name = nm[h]

(* a paired Unlock never panics / dies *)
PairedUnlockNeverPanics ==
    last.act = "UnlockMu" => (~last.panic /\ ~last.fatal)

(* what the code does on Unlock of a name nobody holds or waits for: panic (nil mutex), NamedMutex unchanged and usable *)
UnlockOfUnheldPanicsOrIsNoop ==
    [][last'.act = "UnlockAbsent" => (last'.panic /\ ~last'.stuck /\ UNCHANGED <<ent, refs, objs, pc>>)]_vars
(* no panic ever leaves the outer mutex locked (every later Lock/Unlock of ANY name would block for ever) *)
OuterNeverStuck == ~st.stuck

TypeOK ==
    /\ ent \in [Names -> 0..Len(objs)]
    /\ refs \in [Names -> Int]
    /\ \A g \in Gor : pc[g] \in {"idle", "lsec", "acq", "held", "rel", "rel1"}
    /\ \A g \in Gor : mu[g] \in 0..Len(objs)

(* liveness under Fairness: every Lock returns; everything started is finished *)
LockReturns  == \A g \in Gor : (pc[g] = "acq") ~> (pc[g] = "held")
UnlockReturns == \A g \in Gor : (pc[g] = "held") ~> (pc[g] = "idle")
=============================================================================

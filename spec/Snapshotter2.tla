---------------------------- MODULE Snapshotter2 ----------------------------
(***************************************************************************)
(* Two callers on one snapshotter (snapshot/snapshot.go), focused on the   *)
(* one place where C08 depends on mutual exclusion between callers:        *)
(*                                                                         *)
(*   caller A   Prepare / View: createSnapshot = bolt WRITE transaction    *)
(*              open from before MkdirTemp until after Rename (the new     *)
(*              directory exists but no committed snapshot owns it yet),    *)
(*              then the backend Mount and the internal commit             *)
(*   caller B   Cleanup / Close: cleanupDirectories scans "directories no  *)
(*              snapshot owns" under a bolt WRITE transaction as well, so  *)
(*              that it cannot run while a create is in that window; then  *)
(*              Unmount + RemoveAll of what it found, outside any lock     *)
(*                                                                         *)
(* bolt admits one write transaction at a time: wlock.  B holds it only    *)
(* inside the scan (one step); A holds it across observable steps.  With   *)
(* CleanupScanExcludesWriters = FALSE (scan under a read transaction) the  *)
(* scan sees A's uncommitted directory as unowned and B deletes it.        *)
(*                                                                         *)
(* Every action is one observable event of the real code, attributed to    *)
(* the caller (goroutine) that produced it; the same verifhook.CrashPoint  *)
(* hooks and backend calls as in Snapshotter.tla are used as GATES: the    *)
(* driver parks each goroutine there and releases them in the order TLC    *)
(* enumerated.  "Blocked" = B started but did not get past the lock within *)
(* the driver's time-out while A was parked inside its transaction.        *)
(*                                                                         *)
(* Initial state: one committed remote snapshot c1 (id 1, mounted).        *)
(* DEVIATIONS: no failing Check/Unmount here (Snapshotter.tla has them);   *)
(* Close runs only next to a Prepare/View without parent and target (after *)
(* Close the database is shut: later metadata reads of A would fail).      *)
(***************************************************************************)
EXTENDS Integers, Sequences, FiniteSets, TLC

CONSTANTS
    AKinds,      \* subset of {"Prepare", "View"}
    AParents,    \* subset of {"", "c1"}
    ATargets,    \* subset of {"", "c2"}
    BOps,        \* subset of {"Cleanup", "Close"}
    MountFaults, \* TRUE: A's backend Mount may fail
    CleanupScanExcludesWriters   \* TRUE = the scan takes the bolt write lock (the code); FALSE = read transaction

VARIABLES
    meta, seq, dirs,
    atmp,     \* A's new-* temporary exists
    mounts,   \* backend table, sorted by d
    wlock,    \* "none" | "A": who holds bolt's single write transaction across steps
    closed,   \* the database was closed (Close returned)
    a, b,     \* the two calls: program counter and locals
    last

Names == {"c1", "c2", "k1"}
vars == <<meta, seq, dirs, atmp, mounts, wlock, closed, a, b, last>>

NoRec == [id |-> 0, kind |-> "none", parent |-> "", remote |-> FALSE, ref |-> "", u |-> 0]
Has(m, n) == n \in Names /\ m[n].kind # "none"
Exists(n) == Has(meta, n)
IdsOf(m) == {m[n].id : n \in {x \in Names : m[x].kind # "none"}}
MDirsOf(ms) == {ms[i].d : i \in DOMAIN ms}
MDirs == MDirsOf(mounts)
MCount(ms, d) == Cardinality({i \in DOMAIN ms : ms[i].d = d})
InsertMount(ms, r) == SelectSeq(ms, LAMBDA x : x.d <= r.d) \o <<r>> \o SelectSeq(ms, LAMBDA x : x.d > r.d)
DropMount(ms, d) == SelectSeq(ms, LAMBDA x : x.d # d)

AIdle == [pc |-> "idle", op |-> "", p |-> "", tgt |-> "", id |-> 0, err |-> "", todo |-> {}, tt |-> 0, cur |-> -1,
          created |-> FALSE, made |-> FALSE]
BIdle == [pc |-> "idle", op |-> "", todo |-> {}, tt |-> 0, cur |-> -1, blocked |-> FALSE]

Init ==
    /\ meta = [n \in Names |-> IF n = "c1" THEN [id |-> 1, kind |-> "committed", parent |-> "", remote |-> TRUE, ref |-> "c1", u |-> 0]
                               ELSE NoRec]
    /\ seq = 1 /\ dirs = {1} /\ atmp = FALSE
    /\ mounts = <<[d |-> 1, ref |-> "c1", u |-> 0]>>
    /\ wlock = "none" /\ closed = FALSE
    /\ a = AIdle /\ b = BIdle
    /\ last = [act |-> "Init"]

\* Close only next to a create that needs no metadata after its commit
Compatible(akind, p, tgt, bop) == bop = "Close" => (p = "" /\ tgt = "")

----------------------------------------------------------------------------
(* caller A *)

A_Call(kind, p, tgt) ==
    /\ a.pc = "idle"
    /\ b.pc # "idle" => Compatible(kind, p, tgt, b.op)
    /\ a' = [AIdle EXCEPT !.pc = "start", !.op = kind, !.p = p, !.tgt = tgt]
    /\ last' = [act |-> "Call", who |-> "A", op |-> kind, k |-> "k1", p |-> p, tgt |-> tgt]
    /\ UNCHANGED <<meta, seq, dirs, atmp, mounts, wlock, closed, b>>

ARet(err, lower) ==
    [act |-> "Return", who |-> "A", op |-> a.op, k |-> "k1", p |-> a.p, tgt |-> a.tgt, err |-> err, lower |-> lower,
     created |-> a.created, made |-> a.made]

\* TransactionContext(writable) on a closed database fails before anything is done
A_ClosedFail ==
    /\ a.pc = "start" /\ closed
    /\ a' = [a EXCEPT !.pc = "done"]
    /\ last' = ARet("other", <<>>)
    /\ UNCHANGED <<meta, seq, dirs, atmp, mounts, wlock, closed, b>>

\* write transaction begins (waits for the single writer lock), MkdirTemp
A_MkTemp ==
    /\ a.pc = "start" /\ ~closed /\ wlock = "none"
    /\ wlock' = "A" /\ atmp' = TRUE
    /\ a' = [a EXCEPT !.pc = "mktemp"]
    /\ last' = [act |-> "Hook", who |-> "A", name |-> "create.mktemp", d |-> -1]
    /\ UNCHANGED <<meta, seq, dirs, mounts, closed, b>>

\* storage.CreateSnapshot (id = seq + 1), stat parent, Rename.  Fails when somebody removed the temporary
A_Rename ==
    /\ a.pc = "mktemp" /\ atmp
    /\ atmp' = FALSE /\ dirs' = dirs \cup {seq + 1}
    /\ a' = [a EXCEPT !.pc = "rename", !.id = seq + 1]
    /\ last' = [act |-> "Hook", who |-> "A", name |-> "create.rename", d |-> -1]
    /\ UNCHANGED <<meta, seq, mounts, wlock, closed, b>>

\* the deferred failure path: rollback (lock released), then reclaim td and path
A_Fail ==
    /\ a.pc = "mktemp" /\ ~atmp
    /\ wlock' = "none"
    /\ a' = [a EXCEPT !.pc = "cleaning", !.err = "other", !.tt = 1, !.todo = {seq + 1}]
    /\ last' = [act |-> "Hook", who |-> "A", name |-> "create.failed", d |-> -1]
    /\ UNCHANGED <<meta, seq, dirs, atmp, mounts, closed, b>>

A_Commit ==
    /\ a.pc = "rename"
    /\ meta' = [meta EXCEPT !["k1"] = [id |-> a.id, kind |-> IF a.op = "Prepare" THEN "active" ELSE "view", parent |-> a.p,
                                        remote |-> FALSE, ref |-> a.tgt, u |-> 0]]
    /\ seq' = a.id /\ wlock' = "none"
    /\ a' = [a EXCEPT !.pc = "created", !.created = TRUE]
    /\ last' = [act |-> "Hook", who |-> "A", name |-> "create.commit", d |-> -1]
    /\ UNCHANGED <<dirs, atmp, mounts, closed, b>>

\* backend Mount on the new directory: impossible without the mountpoint
A_Mount(res) ==
    /\ a.pc = "created" /\ a.op = "Prepare" /\ a.tgt # ""
    /\ res \in (IF a.id \notin dirs THEN {"fail"} ELSE IF MountFaults THEN {"ok", "fail"} ELSE {"ok"})
    /\ mounts' = IF res = "ok" THEN InsertMount(mounts, [d |-> a.id, ref |-> a.tgt, u |-> 0]) ELSE mounts
    /\ a' = [a EXCEPT !.pc = IF res = "ok" THEN "mounted" ELSE "mountfail"]
    /\ last' = [act |-> "FsMount", who |-> "A", d |-> a.id, ok |-> (res = "ok"), ref |-> a.tgt, u |-> 0]
    /\ UNCHANGED <<meta, seq, dirs, atmp, wlock, closed, b>>

\* commit(isRemote, target, key): its own short write transaction (B never holds the lock across steps)
A_CommitRemote ==
    /\ a.pc = "mounted" /\ wlock = "none"
    /\ IF Exists(a.tgt)
       THEN a' = [a EXCEPT !.pc = "exists"] /\ UNCHANGED meta
       ELSE /\ a' = [a EXCEPT !.pc = "committed", !.made = TRUE]
            /\ meta' = [meta EXCEPT ![a.tgt] = [meta["k1"] EXCEPT !.kind = "committed", !.remote = TRUE], !["k1"] = NoRec]
    /\ last' = [act |-> "Hook", who |-> "A", name |-> "commit.return", d |-> -1]
    /\ UNCHANGED <<seq, dirs, atmp, mounts, wlock, closed, b>>

\* mounts(s, parent): the remote layers of the parent chain are checked (they answer in this configuration)
Lower == IF a.p = "" THEN <<>> ELSE <<meta[a.p].id>>
A_Return ==
    /\ \/ a.pc \in {"exists", "committed"} /\ last' = ARet("exists", <<>>)
       \/ a.pc = "mountfail" /\ last' = ARet("nil", Lower)
       \/ a.pc = "created" /\ (a.op = "View" \/ a.tgt = "") /\ last' = ARet("nil", Lower)
       \/ a.pc = "cleaning" /\ a.cur = -1 /\ a.todo = {} /\ a.tt = 0 /\ last' = ARet(a.err, <<>>)
    /\ a' = [a EXCEPT !.pc = "done"]
    /\ UNCHANGED <<meta, seq, dirs, atmp, mounts, wlock, closed, b>>

----------------------------------------------------------------------------
(* cleanupSnapshotDirectory, for either caller: Unmount (error ignored), RemoveAll (EBUSY while mounted).   *)
(* 0 stands for a new-* temporary; removing what is already gone is not an error                            *)

PickOf(c) == (IF c.tt > 0 THEN {0} ELSE {}) \cup c.todo

CD_Unmount(who, c, d) ==
    /\ c.pc = "cleaning" /\ c.cur = -1 /\ d \in PickOf(c)
    /\ (who = "A" /\ c.tt > 0) => d = 0                      \* createSnapshot: td first, then path
    /\ LET hit == d \in MDirs IN
        /\ mounts' = IF hit THEN DropMount(mounts, d) ELSE mounts
        /\ last' = [act |-> "FsUnmount", who |-> who, d |-> d, hit |-> hit, ok |-> hit,
                    op |-> IF who = "A" THEN a.op ELSE b.op]

CD_Rmdir(who, c) ==
    /\ c.pc = "cleaning" /\ c.cur >= 0
    /\ IF c.cur = 0 THEN atmp' = FALSE /\ dirs' = dirs
       ELSE atmp' = atmp /\ dirs' = IF c.cur \in MDirs THEN dirs ELSE dirs \ {c.cur}
    /\ last' = [act |-> "Hook", who |-> who, name |-> "cleanupdir.done", d |-> c.cur]

A_CD_Unmount(d) ==
    /\ CD_Unmount("A", a, d) /\ a' = [a EXCEPT !.cur = d]
    /\ UNCHANGED <<meta, seq, dirs, atmp, wlock, closed, b>>
A_CD_Rmdir ==
    /\ CD_Rmdir("A", a)
    /\ a' = [a EXCEPT !.cur = -1, !.todo = @ \ {a.cur}, !.tt = IF a.cur = 0 THEN 0 ELSE @]
    /\ UNCHANGED <<meta, seq, mounts, wlock, closed, b>>
B_CD_Unmount(d) ==
    /\ CD_Unmount("B", b, d) /\ b' = [b EXCEPT !.cur = d]
    /\ UNCHANGED <<meta, seq, dirs, atmp, wlock, closed, a>>
B_CD_Rmdir ==
    /\ CD_Rmdir("B", b)
    /\ b' = [b EXCEPT !.cur = -1, !.todo = @ \ {b.cur}, !.tt = IF b.cur = 0 THEN 0 ELSE @]
    /\ UNCHANGED <<meta, seq, mounts, wlock, closed, a>>

----------------------------------------------------------------------------
(* caller B *)

B_Call(op) ==
    /\ b.pc = "idle"
    /\ a.pc # "idle" => Compatible(a.op, a.p, a.tgt, op)
    /\ b' = [BIdle EXCEPT !.pc = "start", !.op = op]
    /\ last' = [act |-> "Call", who |-> "B", op |-> op, k |-> "", p |-> "", tgt |-> ""]
    /\ UNCHANGED <<meta, seq, dirs, atmp, mounts, wlock, closed, a>>

\* B waits for the write lock A holds (observed by the driver as: no progress within its time-out)
B_Blocked ==
    /\ b.pc = "start" /\ ~b.blocked /\ wlock = "A" /\ CleanupScanExcludesWriters
    /\ b' = [b EXCEPT !.blocked = TRUE]
    /\ last' = [act |-> "Blocked", who |-> "B"]
    /\ UNCHANGED <<meta, seq, dirs, atmp, mounts, wlock, closed, a>>

\* cleanupDirectories: ids of the committed metadata against readdir, in one transaction
B_Scan ==
    /\ b.pc = "start"
    /\ wlock = "none" \/ ~CleanupScanExcludesWriters
    /\ b' = [b EXCEPT !.pc = "cleaning",
                      !.todo = IF b.op = "Cleanup" THEN dirs \ IdsOf(meta)
                               ELSE {meta[n].id : n \in {x \in Names : Exists(x) /\ meta[x].remote}} \cap dirs,
                      !.tt = IF b.op = "Cleanup" /\ atmp THEN 1 ELSE 0]
    /\ last' = [act |-> "Hook", who |-> "B", name |-> "cleanup.scan", d |-> -1]
    /\ UNCHANGED <<meta, seq, dirs, atmp, mounts, wlock, closed, a>>

\* Cleanup returns; Close closes the database first, which waits for an open write transaction
B_Return ==
    /\ b.pc = "cleaning" /\ b.cur = -1 /\ b.todo = {} /\ b.tt = 0
    /\ b.op = "Close" => wlock = "none"
    /\ closed' = (b.op = "Close")
    /\ b' = [b EXCEPT !.pc = "done"]
    /\ last' = [act |-> "Return", who |-> "B", op |-> b.op, k |-> "", p |-> "", tgt |-> "", err |-> "nil", lower |-> <<>>,
                created |-> FALSE, made |-> FALSE]
    /\ UNCHANGED <<meta, seq, dirs, atmp, mounts, wlock, a>>

Next ==
    \/ \E k \in AKinds, p \in AParents, t \in ATargets : (k = "View" => t = "") /\ A_Call(k, p, t)
    \/ A_ClosedFail \/ A_MkTemp \/ A_Rename \/ A_Fail \/ A_Commit
    \/ \E res \in {"ok", "fail"} : A_Mount(res)
    \/ A_CommitRemote \/ A_Return
    \/ \E d \in 0..3 : A_CD_Unmount(d)
    \/ A_CD_Rmdir
    \/ \E op \in BOps : B_Call(op)
    \/ B_Blocked \/ B_Scan
    \/ \E d \in 0..3 : B_CD_Unmount(d)
    \/ B_CD_Rmdir \/ B_Return

Spec == Init /\ [][Next]_vars

----------------------------------------------------------------------------
(* PROPERTY C08 under two callers - over observables (meta, dirs, atmp, mounts, wlock, closed, a.pc, b.pc, b.op, last) *)

IsARet == last.act = "Return" /\ last.who = "A"
\* excused: a create that found the database closed
DbClosedFail == closed /\ ~last.created

\* every committed snapshot has its directory (Close deletes those of remote snapshots: not judged next to a Close)
MetaHasDirs == (b.op # "Close" /\ last.act = "Return") => IdsOf(meta) \subseteq dirs

\* a valid Prepare naming a target: AlreadyExists with a committed target (remote, one live mount, directory, key gone
\* if made by this call), or an ordinary active snapshot without remote label and mount, with its directory
PrepareTargetOutcome ==
    (IsARet /\ last.op = "Prepare" /\ last.tgt # "" /\ ~DbClosedFail) =>
        \/ /\ last.err = "exists" /\ Exists(last.tgt) /\ meta[last.tgt].kind = "committed"
           /\ last.made => /\ meta[last.tgt].remote /\ MCount(mounts, meta[last.tgt].id) = 1
                           /\ meta[last.tgt].id \in dirs /\ ~Exists("k1")
        \/ /\ last.err = "nil" /\ Exists("k1") /\ meta["k1"].kind = "active" /\ ~meta["k1"].remote
           /\ MCount(mounts, meta["k1"].id) = 0 /\ meta["k1"].id \in dirs
\* a valid Prepare/View without target succeeds and its snapshot has a directory
ValidCreateSucceeds ==
    (IsARet /\ last.tgt = "" /\ ~DbClosedFail) =>
        (last.err = "nil" /\ Exists("k1") /\ meta["k1"].id \in dirs /\ last.lower = (IF last.p = "" THEN <<>> ELSE <<meta[last.p].id>>))

\* when both callers are through and B was a Cleanup: the directories are exactly those of the snapshots
Quiet == a.pc \in {"idle", "done"} /\ b.pc = "done" /\ last.act = "Return"
AfterCleanupDirsAreLive ==
    (Quiet /\ b.op = "Cleanup") => (~atmp /\ dirs \ MDirs \subseteq IdsOf(meta) /\ IdsOf(meta) \subseteq dirs)

\* a backend mount is unmounted only after its snapshot was removed, or by Close
UnmountOnlyAfterRemovedOrClosing ==
    (last.act = "FsUnmount" /\ last.hit) => (last.d \notin IdsOf(meta) \/ last.op = "Close")

\* the property-bearing guard itself: the scan never runs inside another caller's create transaction
ScanExcludesCreate == (last.act = "Hook" /\ last.name = "cleanup.scan") => wlock = "none"

TypeOK == wlock \in {"none", "A"} /\ seq \in 1..2 /\ dirs \subseteq 1..2
=============================================================================

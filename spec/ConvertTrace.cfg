CONSTANTS
    Mode = "ext"
    NConv = 2
    SrcIds = {1}
    SpareCap = TRUE
    MaxIntr = 1000
    MayDeviate = FALSE
    MapLock = TRUE
    CopyOpts = TRUE
    DiffIDCheck = TRUE
    UpdateLabel = TRUE
    MediaTypeFollowsBlob = TRUE
SPECIFICATION TraceSpec
CONSTRAINT HighWater
INVARIANTS DescDescribesBlob TocImageMapsEveryLayer NoConversionPanics LosslessKeepsDiffID MapWritesMutuallyExclusive
POSTCONDITION TraceAccepted
CHECK_DEADLOCK FALSE

CONSTANTS
    EPaths = {"/", "/a", "/a/b"}
    ETypes = {"dir", "reg", "symlink", "hardlink", "char", "block", "fifo"}
    MaxEntries = 2
    FocusMax = 1
    Sizes = {0, 1, 4}
    Lays = {"one", "two", "twoz", "inner", "share"}
    Digs = {"both", "chunk", "file", "none"}
    Attrs = {"z", "f", "e"}
    Spells = {"plain", "dot", "dotdot", "slash"}
    WsSet = {0}
    AllowDupDir = TRUE
    AllowUnsorted = TRUE
    AllowLinkFirst = TRUE
    DupDirCountsTwice = FALSE
    LastChunkToEnd = TRUE
INIT GenInit
NEXT GenNext
INVARIANTS TreeOK LeavesHaveNoKids SameIsEquivalence LinkCountsAddUp ChunksCover StreamsOK HardLinksResolve
CHECK_DEADLOCK FALSE

---------------------------- MODULE FuseMgrGen ----------------------------
(* Generation: TLC prints every transition of the state graph of FuseMgr as *)
(* JSON; tools/vlib.py turns the edge list into walks covering every edge,  *)
(* the Go driver replays them against the real fusemanager.Server.          *)
EXTENDS FuseMgr, Json

CoreRec  == [status |-> status, cfg |-> cfg, cur |-> cur, fsMap |-> fsMap, store |-> store, insts |-> insts,
             live |-> live, liveLab |-> liveLab, epoch |-> epoch, ninit |-> ninit, hist |-> hist]
CoreRecP == [status |-> status', cfg |-> cfg', cur |-> cur', fsMap |-> fsMap', store |-> store', insts |-> insts',
             live |-> live', liveLab |-> liveLab', epoch |-> epoch', ninit |-> ninit', hist |-> hist']

GenInit == Init /\ PrintT("VINIT " \o ToJson(CoreRec))
GenNext == Next /\ PrintT("VEDGE " \o ToJson([from |-> CoreRec, last |-> last', to |-> CoreRecP]))
=============================================================================

------------------------------- MODULE Footer -------------------------------
(* Input space of blob lengths and footers (property C04) with the reference *)
(* of allowed outcomes.  A case is a record                                  *)
(*   kind   footer format the bytes imitate: "estargz" (51 bytes), "legacy"  *)
(*          (47), "zstd" (40, zstd:chunked), "ext" (46, external TOC)        *)
(*   blen   length class of the blob: "0", "1", "lt" (one byte less than the *)
(*          footer), "eq" (exactly the footer), "gt" (payload + TOC + footer)*)
(*   mut    field mutation: none / gzip magic / XLEN 0, short, long /        *)
(*          subfield LEN short, long / subfield bytes shorter than announced *)
(*          (LEN kept) / STARGZ magic / zstd frame magic                     *)
(*   off    TOC offset written into the footer: zero, inside (the real one), *)
(*          size (= blob size), beyond, max (2^63-1; zstd: 2^64-1), nonhex;  *)
(*          zstd only: small (16), near63 (2^63-16)                           *)
(*   len    zstd:chunked only (the one footer that carries LENGTH fields,     *)
(*          compressed and uncompressed): ok (100), zero, wrap (2^63 - off:   *)
(*          off + len overflows int64), max63 (2^63-1), big62 (2^62), max64   *)
(*   opt    WithTOCOffset option given to Open (the store passes a manifest  *)
(*          annotation): none, inside, end (size-1), beyond                  *)
(* Reference: Valid(c) (an unmutated footer of the kind with the real offset *)
(* on a complete blob) must be accepted by the parser of its kind; anything  *)
(* else may be accepted or rejected; never a panic, a fatal error or a hang. *)
EXTENDS Integers, Sequences, FiniteSets, TLC

CONSTANTS Kinds, BLens, Muts, Offs, Lens, Opts, GuardLen   \* GuardLen: the reference demands an error for blobs shorter than the footer

VARIABLE c

MutsOf(k) == IF k = "zstd" THEN {"none", "zmagic"} ELSE Muts \ {"zmagic"}
Cases == {[kind |-> k, blen |-> b, mut |-> m, off |-> o, len |-> n, opt |-> p] :
            k \in Kinds, b \in BLens, m \in Muts, o \in Offs, n \in Lens, p \in Opts}
WellFormed(x) ==
    /\ x.mut \in MutsOf(x.kind)
    /\ x.blen \in {"0", "1", "lt"} => (x.mut = "none" /\ x.off = "inside")      \* nothing left to mutate
    /\ x.kind = "ext" => x.off = "inside"                                       \* no offset in this footer
    /\ x.opt # "none" => (x.mut = "none" /\ x.blen = "gt")
    /\ (x.len # "ok" \/ x.off \in {"small", "near63"}) =>
           (x.kind = "zstd" /\ x.blen = "gt" /\ x.mut = "none" /\ x.opt = "none")

Valid(x) == x.blen = "gt" /\ x.mut = "none" /\ x.off = "inside" /\ x.len = "ok" /\ x.opt \in {"none", "inside"}
Overflowing(x) == x.len \in {"wrap", "max63", "max64"} \/ (x.off \in {"near63", "max"} /\ x.len # "zero")   \* off + len leaves int64
TooShort(x) == x.blen \in {"0", "1", "lt"}
Allowed(x, ep) ==         \* ep = entry point: "parse:<kind>" is the footer parser of that kind, "open" is estargz.Open / a store
    IF ep = "parse:" \o x.kind /\ Valid(x) THEN {"ok"}
    ELSE IF GuardLen /\ TooShort(x) THEN {"error"}
    ELSE {"ok", "error"}

Init == c \in {x \in Cases : WellFormed(x)}
Next == UNCHANGED c
Spec == Init /\ [][Next]_c

(* sanity (M): a valid case exists for every kind; too short is never valid; allowed sets are never empty *)
ShortNeverValid == TooShort(c) => ~Valid(c)
AllowedNonEmpty == \A ep \in {"open", "parse:estargz", "parse:legacy", "parse:zstd", "parse:ext"} : Allowed(c, ep) # {}
ShortMustFail == TooShort(c) => Allowed(c, "open") = {"error"}
=============================================================================

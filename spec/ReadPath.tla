------------------------------ MODULE ReadPath ------------------------------
(* Property C02, byte half: a range read of a lazily served regular file   *)
(* returns exactly the bytes of the source tar, whatever was read,         *)
(* prefetched, cached or evicted before.                                   *)
(*                                                                         *)
(* The module is a transcription of the read path of the snapshotter:      *)
(*   Read        = file.ReadAt            fs/reader/reader.go:431-497      *)
(*   CEFO        = ChunkEntryForOffset    estargz/estargz.go:460-481       *)
(*                                        (= db/reader.go file.ChunkEntryForOffset)*)
(*   FRLocate/FRRead = fileReader.ReadAt  estargz/estargz.go:562-656       *)
(*                                        (= db/reader.go fileReader.ReadAt)*)
(*   PreFold     = the pre-reader closure reader.go OpenFile:363-383 called*)
(*                 for every sibling chunk of the decompressed stream      *)
(*   CacheFill   = VerifiableReader.Cache reader.go:116-230 (prefetch with *)
(*                 an offset filter / background fetch without)            *)
(*   Evict       = the chunk cache dropping an entry (environment)         *)
(*                                                                         *)
(* Layer layout (variable L, constant during a behaviour, so that one      *)
(* trace file can hold traces of several layers):                          *)
(*   L.sizes  = << <<f, size>>, ... >>   regular files; f = LM is the      *)
(*              prefetch landmark written by the builder (1 byte 0x0f)     *)
(*   L.chunks = << <<f, off, size, st, inner>>, ... >> in TOC order:       *)
(*              chunk of file f covering [off, off+size), stored in the    *)
(*              compression stream number st (streams numbered by blob     *)
(*              offset) at uncompressed position inner of that stream.     *)
(*              A stream is: tar header junk, chunk, junk, chunk, ...      *)
(*              (min-chunk-size builds put several chunks/files into one). *)
(*   L.prefetch = TRUE iff the landmark is the *prefetch* landmark         *)
(* Byte i of file f is the number Src(f, i) = (16f+i) mod 251 + 1; results *)
(* are sequences of such numbers, so every result projects to source       *)
(* positions.                                                              *)
(*                                                                         *)
(* Deliberate deviations from the code (named, not hidden):                *)
(*  - chunk digests/verification are not modelled (C01);                   *)
(*  - the compressed blob is always readable: no remote blob, no blob      *)
(*    chunk cache, no fetch failures (C06);                                *)
(*  - inner offsets are abstract: junk between two chunks is one byte;     *)
(*  - one Read is one atomic action (concurrent readers are checked by the *)
(*    monitor on recorded results only);                                   *)
(*  - CacheFill is executed chunk by chunk in TOC order; the code runs one *)
(*    goroutine per chunk - every order yields the same cache;             *)
(*  - cache.Add/Commit failures are not modelled (cacheData ignores them). *)
EXTENDS Integers, Sequences, FiniteSets, TLC

CONSTANTS
    Sizes,          \* initial L.sizes
    ChunkTab,       \* initial L.chunks
    PrefetchOn,     \* initial L.prefetch
    Lens,           \* buffer lengths of reads
    Offs,           \* offsets of reads (those <= size + 1 are used)
    EvictOffs,      \* chunk offsets whose cache entries the environment may drop (bounds the state graph of large files)
    \* negative controls: property-bearing pieces of the code, TRUE = as in the code
    LocateOK,       \* ChunkEntryForOffset finds the chunk CONTAINING the offset (>= at the boundary)
    DiscardOK,      \* lowerDiscard = offset - chunkOffset (not off by one)
    InnerSkipOK,    \* fileReader.ReadAt skips exactly innerOffset + off bytes of the stream
    PreReadKeyOK    \* the pre-reader caches a sibling chunk under the SIBLING's node id

VARIABLES L, cache, last
vars == <<L, cache, last>>
core == <<L, cache>>

LM == 9                      \* file number of the landmark
None == <<>>

Pos(x) == IF x < 0 THEN 0 ELSE x
Min2(a, b) == IF a < b THEN a ELSE b
MinOf(S) == CHOOSE x \in S : \A y \in S : x <= y
Range(s) == {s[i] : i \in DOMAIN s}

Files == {p[1] : p \in Range(L.sizes)}
FSize(f) == (CHOOSE p \in Range(L.sizes) : p[1] = f)[2]
Src(f, i) == IF f = LM THEN 15 ELSE ((16 * f + i) % 251) + 1      \* = 16*f+i+1 for the small files; 251 is prime to every chunk size used
SrcRange(f, off, n) == [i \in 1..n |-> Src(f, off + i - 1)]

\* chunk tuple accessors: <<f, off, size, st, inner>>
Ents(f) == SelectSeq(L.chunks, LAMBDA c : c[1] = f)
KeyOf(c) == <<c[1], c[2], c[3]>>

\* ---------------------------------------------------------------- chunk cache
\* cache: set of <<f, off, size, bytes>>; at most one entry per key <<f, off, size>>
Has(cch, k) == \E e \in cch : <<e[1], e[2], e[3]>> = k
Val(cch, k) == (CHOOSE e \in cch : <<e[1], e[2], e[3]>> = k)[4]
Put(cch, k, b) == {e \in cch : <<e[1], e[2], e[3]>> # k} \cup {<<k[1], k[2], k[3], b>>}

\* ---------------------------------------------------------------- decompressed streams
StreamAt(st, pos) ==
    IF \E c \in Range(L.chunks) : c[4] = st /\ c[5] <= pos /\ pos < c[5] + c[3]
    THEN LET c == CHOOSE c \in Range(L.chunks) : c[4] = st /\ c[5] <= pos /\ pos < c[5] + c[3]
         IN Src(c[1], c[2] + pos - c[5])
    ELSE 0                                   \* tar header / padding
StreamRead(st, start, n) == [i \in 1..n |-> StreamAt(st, start + i - 1)]

\* ---------------------------------------------------------------- ChunkEntryForOffset
CEFO(f, o) ==
    LET ents == Ents(f)
        n == Len(ents)
    IN IF n = 0 THEN None                                     \* empty file: ChunkSize 0
       ELSE IF n < 2 THEN (IF o >= ents[1][3] THEN None ELSE ents[1])
       ELSE LET hit(i) == IF LocateOK
                          THEN ents[i][2] >= o \/ (o > ents[i][2] /\ o < ents[i][2] + ents[i][3])
                          ELSE ents[i][2] > o \/ (o > ents[i][2] /\ o < ents[i][2] + ents[i][3])
                S == {i \in 1..n : hit(i)}                    \* sort.Search: least index with hit
            IN IF S = {} THEN None ELSE ents[MinOf(S)]

\* ---------------------------------------------------------------- fileReader.ReadAt with the pre-reader
FRLocate(f, off) ==
    LET ents == Ents(f)
        n == Len(ents)
        S == {i \in 1..n : ents[i][2] >= off}
        i == IF n > 1 THEN (IF S = {} THEN n ELSE MinOf(S)) ELSE 1
    IN IF ents[i][2] > off THEN ents[i - 1] ELSE ents[i]

\* TLC re-evaluates a LET definition at every use; Bind evaluates e ONCE and hands the value to Body
\* (pure evaluation plumbing, no meaning of its own)
Bind(e, Body(_)) == CHOOSE r \in {Body(x) : x \in {e}} : TRUE

\* pre-reader over the siblings sibs[i..] of the target chunk ent (same stream, TOC order), reading file f
RECURSIVE PreFold(_, _, _, _, _)
PreFold(sibs, i, f, ent, cch0) ==
    IF i > Len(sibs) THEN cch0
    ELSE Bind(cch0, LAMBDA cch :
         LET e == sibs[i]
             k == <<IF PreReadKeyOK THEN e[1] ELSE f, e[2], e[3]>>
         IN IF e = ent \/ Has(cch, k)
            THEN PreFold(sibs, i + 1, f, ent, cch)
            ELSE PreFold(sibs, i + 1, f, ent, Put(cch, k, StreamRead(e[4], e[5], e[3]))))

\* sf.fr.ReadAt(ip[:n], off): bytes delivered and the cache after the pre-reader ran
FRRead(f, off, n, cch) ==
    Bind(FRLocate(f, off), LAMBDA ent :
    LET skip == ent[5] + (off - ent[2]) + (IF InnerSkipOK \/ ent[5] = 0 THEN 0 ELSE 1)
        m == Pos(Min2(n, FSize(f) - off))                     \* io.SectionReader(fr, 0, size) limits the read
        sibs == SelectSeq(L.chunks, LAMBDA c : c[4] = ent[4])
    IN [bytes |-> StreamRead(ent[4], skip, m), cache |-> PreFold(sibs, 1, f, ent, cch)])

\* ---------------------------------------------------------------- file.ReadAt
ErrRes(cch) == [n |-> 0, bytes |-> <<>>, err |-> TRUE, cache |-> cch]

\* one iteration of the for loop of file.ReadAt for the chunk c found by ChunkEntryForOffset
RECURSIVE RLoop(_, _, _, _, _, _)
RChunk(f, offset, plen, nr, out, cch, c) ==
    LET key == KeyOf(c)
        lower == Pos(offset - c[2] + (IF DiscardOK THEN 0 ELSE 1))
        upper == Pos(c[2] + c[3] - (offset + plen))
        exp == c[3] - upper - lower
    IN
    IF exp <= 0 THEN ErrRes(cch)                              \* slice bounds panic in the code
    ELSE IF Has(cch, key) /\ Len(Val(cch, key)) >= lower + exp
    THEN RLoop(f, offset, plen, nr + exp, out \o SubSeq(Val(cch, key), lower + 1, lower + exp), cch)
    ELSE
    Bind(FRRead(f, c[2], c[3], cch), LAMBDA rd :
    Bind(Put(rd.cache, key, rd.bytes), LAMBDA cch2 :         \* verifyAndCache
    IF lower = 0 /\ upper = 0
    THEN RLoop(f, offset, plen, nr + Len(rd.bytes), out \o rd.bytes, cch2)
    ELSE LET piece == SubSeq(rd.bytes, lower + 1, c[3] - upper)
         IN IF Len(piece) # exp THEN ErrRes(cch2)
            ELSE RLoop(f, offset, plen, nr + exp, out \o piece, cch2)))

RLoop(f, offset, plen, nr0, out0, cch0) ==
    Bind(<<nr0, out0, cch0>>, LAMBDA a :
    LET nr == a[1] out == a[2] cch == a[3] IN
    IF nr >= plen THEN [n |-> nr, bytes |-> out, err |-> FALSE, cache |-> cch]
    ELSE Bind(CEFO(f, offset + nr), LAMBDA c :
         IF c = None THEN [n |-> nr, bytes |-> out, err |-> FALSE, cache |-> cch]
         ELSE RChunk(f, offset, plen, nr, out, cch, c)))

\* ---------------------------------------------------------------- VerifiableReader.Cache
LmStream == IF \E c \in Range(L.chunks) : c[1] = LM
            THEN (CHOOSE c \in Range(L.chunks) : c[1] = LM)[4] ELSE 0
\* WithFilter(offset < prefetchSize): GetOffset(id) is the blob offset of the file's first stream
PassFilter(f, pref) == ~pref \/ (Len(Ents(f)) > 0 /\ Ents(f)[1][4] < LmStream)

RECURSIVE FillFold(_, _, _)
FillFold(i, pref, cch0) ==
    IF i > Len(L.chunks) THEN cch0
    ELSE Bind(cch0, LAMBDA cch :
         LET c == L.chunks[i] IN
         IF ~PassFilter(c[1], pref) \/ Has(cch, KeyOf(c)) THEN FillFold(i + 1, pref, cch)
         ELSE Bind(FRRead(c[1], c[2], c[3], cch), LAMBDA rd :
              FillFold(i + 1, pref, Put(rd.cache, KeyOf(c), rd.bytes))))

\* ---------------------------------------------------------------- actions
Init ==
    /\ L = [sizes |-> Sizes, chunks |-> ChunkTab, prefetch |-> PrefetchOn]
    /\ cache = {}
    /\ last = [act |-> "Init"]

Read(f, off, len) ==
    \E r \in {RLoop(f, off, len, 0, <<>>, cache)} :
    /\ cache' = r.cache
    /\ last' = [act |-> "Read", f |-> f, off |-> off, len |-> len, n |-> r.n, bytes |-> r.bytes, err |-> r.err]
    /\ UNCHANGED L

Prefetch ==
    /\ L.prefetch
    /\ cache' = FillFold(1, TRUE, cache)
    /\ last' = [act |-> "Prefetch"]
    /\ UNCHANGED L

BackgroundFetch ==
    /\ cache' = FillFold(1, FALSE, cache)
    /\ last' = [act |-> "BackgroundFetch"]
    /\ UNCHANGED L

Evict(k) ==
    /\ Has(cache, k)
    /\ cache' = {e \in cache : <<e[1], e[2], e[3]>> # k}
    /\ last' = [act |-> "Evict", f |-> k[1], off |-> k[2], size |-> k[3]]
    /\ UNCHANGED L

ReadFiles == Files \ {LM}

Next ==
    \/ \E f \in ReadFiles, len \in Lens : \E off \in {o \in Offs : o <= FSize(f) + 1} : Read(f, off, len)
    \/ Prefetch
    \/ BackgroundFetch
    \/ \E e \in cache : e[2] \in EvictOffs /\ Evict(<<e[1], e[2], e[3]>>)

Spec == Init /\ [][Next]_vars

\* ---------------------------------------------------------------- property formulas
\* a read returns exactly source[f][off .. min(off+len, size)): short at EOF, never wrong, never an error
\* (state formula on the observation variable last; under a VIEW that hides last it must be checked as the
\* action property ReadEqualsSourceStep, because TLC evaluates invariants on new states only)
ReadEqualsSource ==
    last.act = "Read" =>
        LET want == Pos(Min2(last.len, FSize(last.f) - last.off)) IN
        /\ ~last.err
        /\ last.n = want
        /\ last.bytes = SrcRange(last.f, last.off, want)

ReadEqualsSourceStep == [][ReadEqualsSource']_vars

\* whatever sits in the chunk cache under key (f, off, size) is source[f][off .. off+size)
CacheHoldsOnlySourceBytes ==
    \A e \in cache :
        /\ e[1] \in Files
        /\ e[2] >= 0 /\ e[3] >= 0 /\ e[2] + e[3] <= FSize(e[1])
        /\ e[4] = SrcRange(e[1], e[2], e[3])

\* ---------------------------------------------------------------- internal consistency (dropped in negative controls)
TypeOK ==
    /\ \A e \in cache : \E c \in Range(L.chunks) : KeyOf(c) = <<e[1], e[2], e[3]>>
    /\ \A e1, e2 \in cache : (<<e1[1], e1[2], e1[3]>> = <<e2[1], e2[2], e2[3]>>) => e1 = e2

\* the layout is well-formed: chunks of a file tile it, chunks of a stream do not overlap
LayoutOK ==
    /\ \A f \in Files :
          LET ents == Ents(f) IN
          /\ (FSize(f) = 0) = (Len(ents) = 0)
          /\ Len(ents) > 0 => ents[1][2] = 0 /\ ents[Len(ents)][2] + ents[Len(ents)][3] = FSize(f)
          /\ \A i \in 1..(Len(ents) - 1) : ents[i][2] + ents[i][3] = ents[i + 1][2]
    /\ \A c1, c2 \in Range(L.chunks) :
          (c1 # c2 /\ c1[4] = c2[4]) => (c1[5] + c1[3] <= c2[5] \/ c2[5] + c2[3] <= c1[5])
=============================================================================

----------------------------- MODULE CredsTrace -----------------------------
(* Trace validation (implementation -> specification) for Creds.           *)
(* Input: trace.ndjson recorded by harness/service/keychain/cri while it   *)
(* replays TLC-generated walks (or seeded random request sequences)        *)
(* against the real cri.NewCRIKeychain; traces separated by "Reset".       *)
(*   Connect                                                               *)
(*   Pull    img, form, n (pull id that named the secrets), bok, err       *)
(*   Remove  img, bok, err                                                 *)
(*   Query   host, ref, chain, parts (answers of the members), user,       *)
(*           secret, err (answer of the composition)                       *)
EXTENDS Creds, Json, TLCExt

VARIABLE l
tvars == <<vars, l>>

TraceLog == ndJsonDeserialize("trace.ndjson")
Ev == TraceLog[l]
IsEvent(e) == l <= Len(TraceLog) /\ Ev.ev = e /\ l' = l + 1

TraceInit == Init /\ l = 1 /\ TLCSet(1, 0)

TraceReset ==
    /\ IsEvent("Reset")
    /\ connected' = FALSE /\ pulls' = <<>> /\ config' = [k \in Keys |-> 0]
    /\ removed' = [r \in Refs |-> FALSE]
    /\ last' = [act |-> "Init"]

TraceConnect == IsEvent("Connect") /\ Connect

TracePull ==
    /\ IsEvent("Pull")
    /\ Ev.img \in Images /\ Ev.form \in Forms
    /\ Pull(Ev.img, Ev.form, Ev.bok)
    /\ last'.n = Ev.n /\ last'.err = Ev.err

TraceRemove ==
    /\ IsEvent("Remove")
    /\ Ev.img \in Images
    /\ Remove(Ev.img, Ev.bok)
    /\ last'.err = Ev.err

\* the answers of the real credential functions must be the specification's
TraceQuery ==
    /\ IsEvent("Query")
    /\ Ev.host \in Hosts /\ Ev.ref \in Refs /\ Ev.chain \in Chains
    /\ Query(Ev.host, Ev.ref, Ev.chain)
    /\ last'.user = Ev.user /\ last'.secret = Ev.secret /\ last'.err = Ev.err
    /\ Len(Ev.parts) = Len(last'.parts)
    /\ \A i \in 1..Len(Ev.parts) :
          /\ Ev.parts[i].user = last'.parts[i].user
          /\ Ev.parts[i].secret = last'.parts[i].secret
          /\ Ev.parts[i].err = last'.parts[i].err

TraceNext == TraceReset \/ TraceConnect \/ TracePull \/ TraceRemove \/ TraceQuery

TraceSpec == TraceInit /\ [][TraceNext]_tvars

HighWater == IF l - 1 > TLCGet(1) THEN TLCSet(1, l - 1) ELSE TRUE
TraceAccepted ==
    IF TLCGet(1) = Len(TraceLog) THEN TRUE
    ELSE /\ PrintT("VREJECT " \o ToString(TLCGet(1)) \o " " \o ToString(Len(TraceLog)))
         /\ FALSE
=============================================================================

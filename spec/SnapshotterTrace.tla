------------------------- MODULE SnapshotterTrace -------------------------
(* Trace validation (implementation -> specification) for Snapshotter.tla. *)
(* trace.ndjson: one event per observable step of the real snapshotter     *)
(* (API call/return written by the driver, verifhook.CrashPoint hooks,     *)
(* calls arriving at the recording backend), each with the projection of   *)
(* the implementation state AFTER the step:                                *)
(*   meta   name -> [id, kind, parent, remote, ref, u]   (bolt, read txn;  *)
(*          absent while the instance is down or starting)                 *)
(*   dirs   ids of the directories in <root>/snapshots     tmps  #new-*    *)
(*   mounts backend table [d, ref, u] sorted by d                          *)
(*   kern   ids whose fs directory is a kernel mountpoint (/proc mountinfo)*)
(* Every event enables exactly one action, so TLC follows a single path.   *)
EXTENDS Snapshotter, Json, TLCExt

VARIABLE l
tvars == <<vars, l>>

TraceLog == ndJsonDeserialize("trace.ndjson")
Ev == TraceLog[l]
Fld(f) == f \in DOMAIN Ev
ToSet(s) == {s[i] : i \in DOMAIN s}

IsEvent(e) == l <= Len(TraceLog) /\ Ev.ev = e /\ l' = l + 1

ObsOK ==
    /\ Fld("meta") => \A n \in Names : meta'[n] = Ev.meta[n]
    /\ dirs' = ToSet(Ev.dirs)
    /\ tmps' = Ev.tmps
    /\ mounts' = Ev.mounts
    /\ ToSet(Ev.kern) = MDirsOf(mounts') \cup stale'
    /\ Len(Ev.kern) = Len(mounts') + Cardinality(stale')

Res(b) == IF b THEN "ok" ELSE "fail"

TraceInit == Init /\ l = 1 /\ TLCSet(1, 0)

TReset ==
    /\ IsEvent("Reset")
    /\ meta' = InitMeta /\ seq' = InitSeq /\ dirs' = InitDirs /\ tmps' = 0
    /\ mounts' = InitMounts /\ stale' = {} /\ up' = "up" /\ bsurv' = FALSE
    /\ op' = IdleOp /\ nops' = 0 /\ nrs' = 0
    /\ last' = [act |-> "Init"]

TCall == IsEvent("Call") /\ Call(Ev.op, Ev.k, Ev.p, Ev.tgt, Ev.u) /\ ObsOK

THook ==
    /\ IsEvent("Hook")
    /\ CASE Ev.name = "create.mktemp"     -> CS_MkTemp
         [] Ev.name = "create.rename"     -> CS_Rename
         [] Ev.name = "create.commit"     -> CS_Commit
         [] Ev.name = "create.failed"     -> CS_Fail
         [] Ev.name = "cleanupdir.done"   -> op.cur = Ev.d /\ CD_Second("ok")
         [] Ev.name = "commit.return"     -> PR_Commit \/ CM_Txn
         [] Ev.name = "remove.commit"     -> RM_Txn
         [] Ev.name = "cleanup.scan"      -> CL_Scan
         [] Ev.name = "restore.unmounted" -> RS_Unmount
         [] Ev.name = "restore.mkdir"     -> RS_Mkdir /\ last'.k = Ev.k
         [] OTHER -> FALSE
    /\ ObsOK

TFsUnmount == IsEvent("FsUnmount") /\ CD_First(Ev.d, Res(Ev.ok)) /\ last'.hit = Ev.hit /\ ObsOK
TFsMount ==
    /\ IsEvent("FsMount")
    /\ PR_Mount(Res(Ev.ok)) \/ RS_Mount(Res(Ev.ok))
    /\ last'.d = Ev.d /\ last'.ref = Ev.ref /\ last'.u = Ev.u
    /\ ObsOK

TReturn ==
    /\ IsEvent("Return")
    /\ op.name = Ev.op
    /\ \/ R_CreateFailed \/ R_Created \/ R_PrepareRemote \/ R_Commit \/ R_Remove
       \/ R_Cleanup \/ R_Close \/ R_Mounts \/ R_Update
    /\ last'.err = Ev.err /\ last'.lower = Ev.lower
    /\ last'.bad = ToSet(Ev.bad) /\ last'.called = ToSet(Ev.called)
    /\ ObsOK

TCrash == IsEvent("Crash") /\ Crash(Ev.bs, Ev.d # 0) /\ last'.d = Ev.d /\ ObsOK
TRestart == IsEvent("Restart") /\ RS_Begin(Ev.ai) /\ last'.nr = Ev.nr /\ ObsOK
TStarted == IsEvent("Started") /\ RS_Done /\ last'.failed = ToSet(Ev.failed) /\ last'.imp = ToSet(Ev.imp) /\ ObsOK
TStartFailed == IsEvent("StartFailed") /\ RS_Failed /\ last'.failed = ToSet(Ev.failed) /\ last'.imp = ToSet(Ev.imp) /\ ObsOK

TraceNext ==
    \/ TReset \/ TCall \/ THook \/ TFsUnmount \/ TFsMount \/ TReturn
    \/ TCrash \/ TRestart \/ TStarted \/ TStartFailed

TraceSpec == TraceInit /\ [][TraceNext]_tvars

HighWater == IF l - 1 > TLCGet(1) THEN TLCSet(1, l - 1) ELSE TRUE
TraceAccepted ==
    IF TLCGet(1) = Len(TraceLog) THEN TRUE
    ELSE /\ PrintT("VREJECT " \o ToString(TLCGet(1)) \o " " \o ToString(Len(TraceLog)))
         /\ FALSE
=============================================================================

CONSTANTS
    Keys = {"aa1", "bb2"}
    NW = 2
    NR = 1
    Lens = {2}
    DataCap = 1
    FdCap = 1
    MaxB = 1000
    DirectMode = FALSE
    HoldWhileShared = TRUE
    RenameAfterWrite = TRUE
    ReadersHold = TRUE
SPECIFICATION MonSpec
INVARIANTS ReadsAreCommitted MonFilesComplete
CHECK_DEADLOCK FALSE

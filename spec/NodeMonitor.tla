---------------------------- MODULE NodeMonitor ----------------------------
(* Monitor (soundness rule, DESIGN 2.5): no enabling conditions.  Every     *)
(* recorded call result is loaded and only the formulas of property C07     *)
(* (Node.tla: ListingOK, LookupAgrees, GetxattrOK, ListxattrOK, StatOK) are  *)
(* evaluated on what the IMPLEMENTATION returned.  History variables hold    *)
(* the listings, lookup results and inode numbers observed in the current    *)
(* trace (one trace = calls on one directory of one freshly built layer).    *)
EXTENDS Node, Json, TLCExt

VARIABLES l, hls, lks, seen, dg, sz, fe, rep, base
mvars == <<vars, l, hls, lks, seen, dg, sz, fe, rep, base>>

TraceLog == ndJsonDeserialize("trace.ndjson")
Ev == TraceLog[l]

NotDot(e) == e.name \notin {".", ".."}
\* a recorded listing without "." and ".."
ListOf(e) == {[name |-> x.name, kind |-> x.kind, ino |-> x.ino] : x \in {y \in SeqToSet(e.list) : NotDot(y)}}
InoRecs(e) ==
    IF e.ev = "Readdir" THEN {[name |-> x.name, hi |-> x.inohi, lo |-> x.ino] : x \in {y \in SeqToSet(e.list) : NotDot(y)}}
    ELSE IF e.ev \in {"Lookup", "GetattrChild"} /\ e.errno = "OK" THEN {[name |-> e.n, hi |-> e.inohi, lo |-> e.ino]}
    ELSE IF e.ev = "StatGetattr" /\ e.errno = "OK" THEN {[name |-> StateDir \o "/stat", hi |-> e.inohi, lo |-> e.fileino]}
    ELSE IF e.ev = "StatLookup" /\ e.errno = "OK"
         THEN {[name |-> StateDir, hi |-> e.inohi, lo |-> e.dirino], [name |-> StateDir \o "/stat", hi |-> e.inohi, lo |-> e.fileino]}
    ELSE {}

MonInit ==
    /\ l = 1
    /\ isRoot = TRUE /\ mode = "trusted" /\ src = {}
    /\ cached = FALSE /\ ents = {} /\ mem = Empty /\ fetched = 0 /\ reported = 0 /\ sfheld = FALSE
    /\ last = [ev |-> "Init"]
    /\ hls = {} /\ lks = {} /\ seen = {} /\ dg = "" /\ sz = 0 /\ fe = 0 /\ rep = "" /\ base = 0

MonNext ==
    /\ l <= Len(TraceLog)
    /\ l' = l + 1
    /\ last' = Ev
    /\ UNCHANGED <<cached, ents, mem, fetched, reported, sfheld>>
    /\ IF Ev.ev = "Reset"
       THEN /\ isRoot' = Ev.root /\ mode' = Ev.mode /\ src' = SeqToSet(Ev.src)
            /\ hls' = {} /\ lks' = {} /\ seen' = {} /\ dg' = Ev.digest /\ sz' = Ev.size /\ fe' = 0 /\ rep' = "" /\ base' = Ev.base
       ELSE /\ UNCHANGED <<isRoot, mode, src, dg, sz, base>>
            /\ hls' = IF Ev.ev = "Readdir" /\ Ev.errno = "OK" THEN hls \cup {ListOf(Ev)} ELSE hls
            /\ lks' = IF Ev.ev = "Lookup"
                      THEN lks \cup {[n |-> Ev.n, errno |-> Ev.errno, kind |-> Ev.kind, ino |-> Ev.ino, rdev |-> Ev.rdev]}
                      ELSE lks
            /\ seen' = seen \cup InoRecs(Ev)
            /\ fe' = IF Ev.ev = "Progress" THEN fe + 1 ELSE fe
            /\ rep' = IF Ev.ev = "Report" THEN Ev.text ELSE rep

MonSpec == MonInit /\ [][MonNext]_mvars

\* ---- property formulas on recorded results
\* every listing returned is the overlayfs translation of the directory (with "." and "..", nothing twice)
MonListingIsTranslation ==
    (last.ev = "Readdir") =>
        /\ last.errno = "OK"
        /\ ListingOK(ListOf(last), src, isRoot)
        /\ Len(last.list) = Cardinality(ListOf(last)) + 2
        /\ {[name |-> x.name, kind |-> x.kind] : x \in {y \in SeqToSet(last.list) : ~NotDot(y)}} = DotEnts
\* every lookup result agrees with every listing of the same directory, whichever came first
MonListedIffLookup ==
    \A r \in lks : \A L \in hls : LookupAgrees(r, L, isRoot)
\* type and device number through Lookup and through Getattr of the child: real entries keep their own (a real 0:0
\* character device too), synthesised whiteouts are 0/0 character devices
MonEntryAttr ==
    (last.ev \in {"Lookup", "GetattrChild"}) => EntryAttrOK(last, src \ (IF isRoot THEN {TocName} ELSE {}), isRoot)
\* Getattr of a child reports what the listing reports
MonChildAttr ==
    \* ("NOCHILD" = the walk wanted the attributes of a child whose Lookup had failed: the driver had no inode to ask;
    \* that failed Lookup is judged by MonListedIffLookup, at the latest at the listing that ends every walk)
    (last.ev = "GetattrChild" /\ last.errno # "NOCHILD") =>
        /\ last.errno = "OK"
        /\ \A L \in hls : last.n \in NamesOf(L) => (last.kind = EntryOf(L, last.n).kind /\ last.ino = EntryOf(L, last.n).ino)
\* inode numbers: all in the layer's range, 1 and 2 only for the state directory and its file, one number per name
\* and one name per number, the same on every call
\* hard links of each other (the model's link "l" -> "a") legitimately share the inode
MonLinked(n1, n2) == {n1, n2} = {LinkName, LinkTarget} /\ LinkName \in src
\* ... and report the link count of the shared inode; other regular files report 1
MonHardLinks ==
    (last.ev \in {"Lookup", "GetattrChild"} /\ last.errno = "OK" /\ last.kind = "reg") =>
        last.nlink = (IF LinkName \in src /\ last.n \in {LinkName, LinkTarget} THEN 2 ELSE 1)
MonInodesUniqueStable ==
    \A x, y \in seen :
        /\ x.hi = base
        /\ (x.name = y.name \/ MonLinked(x.name, y.name)) <=> (x.lo = y.lo)
        /\ x.lo >= 1
        /\ (x.lo \in {1, 2}) <=> (x.name \in {StateDir, StateDir \o "/stat"} /\ isRoot)
MonOpaqueXattr ==
    /\ last.ev = "Getxattr" => GetxattrOK(last, src, mode)
    /\ last.ev = "Listxattr" => (last.errno = "OK" /\ ListxattrOK([keys |-> SeqToSet(last.keys)], src, mode))
MonStateFileJSON ==
    \* fe = number of Progress steps so far = the blob's CURRENT fetched size; rep = the LAST reported error
    /\ last.ev = "StatRead" => StatOK(last, dg, sz, fe, rep)
    /\ last.ev = "StatLookup" => StatNameOK(last, dg)
MonStateDirHidden ==
    /\ (last.ev = "Readdir" /\ StateDir \notin src) => StateDir \notin NamesOf(ListOf(last))
    /\ (last.ev = "Lookup" /\ last.n = StateDir /\ isRoot) => (last.errno = "OK" /\ last.kind = "dir")
=============================================================================

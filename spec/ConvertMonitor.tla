--------------------------- MODULE ConvertMonitor ---------------------------
(* Monitor (soundness rule, DESIGN 2.5): no enabling conditions. Each       *)
(* recorded event of the driver loads what the IMPLEMENTATION showed into   *)
(* the observable variables (store, pre, facts, desc, res, out, img, inmap, *)
(* src); only the formulas of property C19 are evaluated.                   *)
(* facts = what the driver recomputed from the bytes read back from the     *)
(* content store (sha256, size, sniffed compression, SHA-256/length of the  *)
(* full decompression, the TOC digest under which estargz.Open + VerifyTOC  *)
(* + every chunk verifier succeed, the zstd:chunked footer) as content ids. *)
EXTENDS Convert, Json, TLCExt

VARIABLE l
mvars == <<vars, l>>

TraceLog == ndJsonDeserialize("trace.ndjson")
Ev == TraceLog[l]
Has(f) == f \in DOMAIN Ev

FactRec(f) == [size |-> f.size, comp |-> f.comp, diffid |-> f.diffid, usize |-> f.usize, toc |-> f.toc, zinfo |-> f.zinfo]
FactsOf(e) == [b \in {e.facts[i].id : i \in 1..Len(e.facts)} |->
                  FactRec(e.facts[CHOOSE i \in 1..Len(e.facts) : e.facts[i].id = b])]
SrcRec(x) == [tar |-> x.src.tar, comp |-> x.src.comp, fam |-> x.src.fam, lbl |-> x.src.lbl, blob |-> x.blob]
NC(e) == Len(e.srcs)
DescRec(d) == [digest |-> d.digest, size |-> d.size, mtcomp |-> d.mtcomp, mtfam |-> d.mtfam, toc |-> d.toc,
               usize |-> d.usize, zinfo |-> d.zinfo]

MonInit == Init /\ l = 1

\* conversions are numbered 1..n of the scenario; variables are functions over Convs (= 1..NConv >= n): pad
Pad(f, n, dflt) == [c \in Convs |-> IF c <= n THEN f[c] ELSE dflt]

MonNext ==
    /\ l <= Len(TraceLog)
    /\ l' = l + 1
    /\ last' = [act |-> Ev.ev]
    /\ UNCHANGED <<pc, slot, cmp, tocbuf, wholder, wdata, tocmap, nintr>>
    /\ IF Ev.ev = "Reset"
       THEN /\ src' = [c \in Convs |-> IF c <= NC(Ev) THEN SrcRec(Ev.srcs[c]) ELSE SrcRec(Ev.srcs[1])]
            /\ store' = [b \in {Ev.srcs[i].blob : i \in 1..NC(Ev)} |->
                            [label |-> Ev.srcs[CHOOSE i \in 1..NC(Ev) : Ev.srcs[i].blob = b].label]]
            /\ pre' = {Ev.srcs[i].blob : i \in 1..NC(Ev)}
            /\ facts' = FactsOf(Ev)
            /\ desc' = [c \in Convs |-> NoDesc]
            /\ res' = [c \in Convs |-> "none"]
            /\ out' = [c \in Convs |-> 0]
            /\ inmap' = {}
            /\ img' = <<>>
       ELSE /\ UNCHANGED <<src, pre, facts>>
            /\ store' = IF Ev.ev = "CommitBlob" /\ ~Ev.err THEN Upd(store, Ev.blob, [label |-> Ev.label]) ELSE store
            /\ out' = IF Ev.ev = "CommitBlob" /\ ~Ev.err THEN [out EXCEPT ![Ev.c] = Ev.blob] ELSE out
            /\ inmap' = IF Ev.ev = "MapWriteBegin" THEN inmap \cup {Ev.c}
                        ELSE IF Ev.ev = "MapWriteEnd" THEN inmap \ {Ev.c} ELSE inmap
            /\ res' = IF Ev.ev = "Return" THEN [res EXCEPT ![Ev.c] = Ev.res] ELSE res
            /\ desc' = IF Ev.ev = "Return" THEN [desc EXCEPT ![Ev.c] = DescRec(Ev.desc)] ELSE desc
            /\ img' = IF Ev.ev = "Finalize"
                      THEN << {[layer |-> Ev.img[i].layer, toc |-> Ev.img[i].toc] : i \in 1..Len(Ev.img)} >>
                      ELSE img

MonSpec == MonInit /\ [][MonNext]_mvars

\* the mode of the converter instance is a constant of the run; the formulas need nothing else from the design
=============================================================================

CONSTANTS
    Keys = {"k1", "k2"}
    Kind = "lru"
    Cap = 1
    MaxV = 3
    MaxH = 3
    OnceGuards = TRUE
    IdentityCheck = TRUE
    CallbackAtZero = TRUE
INIT GenInit
NEXT GenNext
VIEW core
CHECK_DEADLOCK FALSE

---------------------------- MODULE ConvertTrace ----------------------------
(* Trace validation (implementation -> specification) of gated executions:  *)
(* one event per segment the driver let a conversion goroutine run          *)
(* (Begin/Build/OpenStream/Annotate/Interrupt, emitted by the driver),      *)
(* per Commit on the layer writer (wrapping content store), per hook at the *)
(* map write (MapWriteBegin = gate inside the critical section, MapWriteEnd *)
(* = event after the write), per return of the ConvertFunc and per finalize.*)
(* Blob ids and what is true of their bytes are arguments taken from the    *)
(* record (the design model computes them from the source instead).         *)
EXTENDS Convert, Json, TLCExt

VARIABLE l
tvars == <<vars, l>>

TraceLog == ndJsonDeserialize("trace.ndjson")
Ev == TraceLog[l]
Has(f) == f \in DOMAIN Ev
IsEvent(e) == l <= Len(TraceLog) /\ Ev.ev = e /\ l' = l + 1

FactRec(f) == [size |-> f.size, comp |-> f.comp, diffid |-> f.diffid, usize |-> f.usize, toc |-> f.toc, zinfo |-> f.zinfo]
FactsOf(e) == [b \in {e.facts[i].id : i \in 1..Len(e.facts)} |->
                  FactRec(e.facts[CHOOSE i \in 1..Len(e.facts) : e.facts[i].id = b])]
ZeroFacts == [size |-> 0, comp |-> "", diffid |-> 0, usize |-> 0, toc |-> 0, zinfo |-> 0]
F(b) == IF b \in DOMAIN facts THEN facts[b] ELSE ZeroFacts
SrcRec(x) == [tar |-> x.src.tar, comp |-> x.src.comp, fam |-> x.src.fam, lbl |-> x.src.lbl, blob |-> x.blob]
DescRec(d) == [digest |-> d.digest, size |-> d.size, mtcomp |-> d.mtcomp, mtfam |-> d.mtfam, toc |-> d.toc,
               usize |-> d.usize, zinfo |-> d.zinfo]

TraceInit == Init /\ l = 1 /\ TLCSet(1, 0)

\* a scenario: NConv conversions (the trace files are per NConv), sources and all byte facts from the record
TraceReset ==
    /\ IsEvent("Reset")
    /\ Len(Ev.srcs) = NConv
    /\ src' = [c \in Convs |-> SrcRec(Ev.srcs[c])]
    /\ pc' = [c \in Convs |-> "idle"]
    /\ slot' = 0
    /\ cmp' = [c \in Convs |-> 0]
    /\ tocbuf' = [c \in Convs |-> 0]
    /\ out' = [c \in Convs |-> 0]
    /\ wholder' = [b \in {Ev.srcs[c].blob : c \in Convs} |-> 0]
    /\ wdata' = [b \in {Ev.srcs[c].blob : c \in Convs} |-> 0]
    /\ store' = [b \in {Ev.srcs[c].blob : c \in Convs} |-> [label |-> Ev.srcs[CHOOSE c \in Convs : Ev.srcs[c].blob = b].label]]
    /\ pre' = {Ev.srcs[c].blob : c \in Convs}
    /\ facts' = FactsOf(Ev)
    /\ desc' = [c \in Convs |-> NoDesc]
    /\ res' = [c \in Convs |-> "none"]
    /\ tocmap' = <<>>
    /\ inmap' = {}
    /\ img' = <<>>
    /\ nintr' = 0
    /\ last' = [act |-> "Init"]

TraceBegin == IsEvent("Begin") /\ Begin(Ev.c)
TraceBuild == IsEvent("Build") /\ BuildG(Ev.c, Ev.blob, F(Ev.blob))
TraceOpenStream == IsEvent("OpenStream") /\ OpenStreamG(Ev.c, Ev.blob, F(Ev.blob), Ev.ok)
\* the bytes committed are the bytes streamed, and the store then shows the label the specification computes
TraceCommitBlob ==
    /\ IsEvent("CommitBlob")
    /\ ~Ev.err
    /\ wdata[SrcBlob(src[Ev.c])] = Ev.blob
    /\ CommitBlob(Ev.c)
    /\ store'[Ev.blob].label = Ev.label
    /\ Ev.existed = (Ev.blob \in DOMAIN store)
TraceInterrupt == IsEvent("Interrupt") /\ Interrupt(Ev.c)
TraceAnnotate == IsEvent("Annotate") /\ Annotate(Ev.c)
TraceMapWriteBegin == IsEvent("MapWriteBegin") /\ MapWriteBegin(Ev.c)
TraceMapWriteEnd ==
    /\ IsEvent("MapWriteEnd")
    /\ out[Ev.c] = Ev.layer
    /\ MapWriteEndG(Ev.c, Ev.toc)
    /\ Ev.toc = F(tocbuf[Ev.c]).toc
\* the ConvertFunc returned: what it returned is what the specification computed
TraceReturn ==
    /\ IsEvent("Return")
    /\ pc[Ev.c] = "done"
    /\ res[Ev.c] = Ev.res
    /\ Ev.res = "desc" => desc[Ev.c] = DescRec(Ev.desc)
    /\ UNCHANGED core
    /\ last' = [act |-> "Return", c |-> Ev.c]
TraceFinalize ==
    /\ IsEvent("Finalize")
    /\ ~Ev.err
    /\ Finalize
    /\ img'[1] = {[layer |-> Ev.img[i].layer, toc |-> Ev.img[i].toc] : i \in 1..Len(Ev.img)}

TraceNext ==
    \/ TraceReset \/ TraceBegin \/ TraceBuild \/ TraceOpenStream \/ TraceCommitBlob \/ TraceInterrupt
    \/ TraceAnnotate \/ TraceMapWriteBegin \/ TraceMapWriteEnd \/ TraceReturn \/ TraceFinalize

TraceSpec == TraceInit /\ [][TraceNext]_tvars

HighWater == IF l - 1 > TLCGet(1) THEN TLCSet(1, l - 1) ELSE TRUE
TraceAccepted ==
    IF TLCGet(1) = Len(TraceLog) THEN TRUE
    ELSE /\ PrintT("VREJECT " \o ToString(TLCGet(1)) \o " " \o ToString(Len(TraceLog)))
         /\ FALSE
=============================================================================

CONSTANTS
    Sizes = {0}
    Chunks = {1}
    Readers = {"r1"}
    Ops = {"read", "cache"}
    Pers = {"multi"}
    MaxLen = 1000000
    MaxOps = 1000000
    MaxReq = 1000000
    MaxLoss = 1000000
    MaxCFail = 1000000
    MaxInflight = 1
    LossMidCall = TRUE
    Segment = FALSE
    AllSeenCheck = TRUE
    AlignCheck = TRUE
    WriterVariant = "code"
    RetryFreshWriter = FALSE
SPECIFICATION MonSpec
INVARIANTS MonFetchedSizeIsDistinctBytes MonFetchedSizeSound MonFetchedSizeLeSize
PROPERTIES ReadExact ErrOrExact MonFetchedSizeMonotone
CHECK_DEADLOCK FALSE

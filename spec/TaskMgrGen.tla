---------------------------- MODULE TaskMgrGen ----------------------------
(* Generation: TLC prints every transition of a small state graph as JSON; *)
(* tools/vlib.py turns the edges into walks covering every edge, which the *)
(* Go driver replays through the gates of task/task.go.                    *)
EXTENDS TaskMgr, Json

CoreRec  == [prio |-> prio, epoch |-> epoch, sem |-> sem, active |-> active, ndo |-> ndo, dg |-> dg,
             pc |-> pc, seen |-> seen, bodies |-> bodies]
CoreRecP == [prio |-> prio', epoch |-> epoch', sem |-> sem', active |-> active', ndo |-> ndo', dg |-> dg',
             pc |-> pc', seen |-> seen', bodies |-> bodies']

GenInit == Init /\ PrintT("VINIT " \o ToJson(CoreRec))
GenNext == Next /\ PrintT("VEDGE " \o ToJson([from |-> CoreRec, last |-> last', to |-> CoreRecP]))
=============================================================================

CONSTANTS
    Kinds = {"estargz", "legacy", "zstd", "ext"}
    BLens = {"0", "1", "lt", "eq", "gt"}
    Muts = {"none", "gzmagic", "xlen0", "xlenshort", "xlenlong", "lenshort", "lenlong", "subshort", "sgmagic", "zmagic"}
    Offs = {"zero", "inside", "size", "beyond", "max", "nonhex"}
    Opts = {"none", "inside", "end", "beyond"}
    GuardLen = TRUE
INIT Init
NEXT Next
INVARIANTS ShortNeverValid AllowedNonEmpty ShortMustFail
CHECK_DEADLOCK FALSE

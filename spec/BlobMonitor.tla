---------------------------- MODULE BlobMonitor ----------------------------
(* Monitor (soundness rule, DESIGN 2.5): no enabling conditions. Each      *)
(* recorded Return is loaded into the observable variables (last, regions, *)
(* committed, size, chunk) and only the C06 formulas of Blob.tla are       *)
(* evaluated on what the IMPLEMENTATION returned.                          *)
(*   Return: r, op, off, len, n, err, buf, fetched (= FetchedSize()),      *)
(*           regions (fetchedRegionSet.rs), committed (positions the       *)
(*           recording cache saw committed), quiet (no other call in       *)
(*           flight: commit and region add cannot be apart)                *)
EXTENDS Blob, Json, TLCExt

VARIABLES l, fs, quiet
mvars == <<vars, l, fs, quiet>>

TraceLog == ndJsonDeserialize("trace.ndjson")
Ev == TraceLog[l]
ToRegs(s) == [i \in 1..Len(s) |-> Reg(s[i][1], s[i][2])]

MonInit == Init /\ l = 1 /\ fs = 0 /\ quiet = TRUE

MonNext ==
    /\ l <= Len(TraceLog)
    /\ l' = l + 1
    /\ UNCHANGED <<cache, single, flights, rd, cnt>>
    /\ IF Ev.ev = "Reset"
       THEN /\ size' = Ev.size /\ chunk' = Ev.chunk /\ regions' = <<>> /\ committed' = {} /\ fs' = 0 /\ quiet' = TRUE
            /\ last' = [act |-> "Init"]
       ELSE IF Ev.ev = "Return"
       THEN /\ UNCHANGED <<size, chunk>>
            /\ regions' = ToRegs(Ev.regions)
            /\ committed' = {Ev.committed[i] : i \in 1..Len(Ev.committed)}
            /\ fs' = Ev.fetched /\ quiet' = Ev.quiet
            /\ last' = [act |-> "Return", r |-> Ev.r, op |-> Ev.op, off |-> Ev.off, len |-> Ev.len, n |-> Ev.n,
                        err |-> Ev.err, buf |-> Ev.buf]
       ELSE /\ UNCHANGED <<size, chunk, regions, committed, fs, quiet>>
            /\ last' = [act |-> Ev.ev]

MonSpec == MonInit /\ [][MonNext]_mvars

\* FetchedSize() (the API value) against the recorded commits
MonFetchedSizeIsDistinctBytes == quiet => (fs = Cardinality(committed) /\ FetchedSizeIsDistinctBytes /\ RegionSetIsUnion)
\* while other calls run, a chunk is committed before its region is added: never more than what is stored
MonFetchedSizeSound == fs <= Cardinality(committed) /\ RSCovered(regions) \subseteq committed /\ RSDisjointSorted(regions)
MonFetchedSizeLeSize == fs <= size /\ FetchedSizeLeSize
MonFetchedSizeMonotone == [][(Ev.ev = "Return") => fs' >= fs]_mvars
=============================================================================

------------------------------- MODULE Layer -------------------------------
(***************************************************************************)
(* Life cycle of resolved layers: fs/layer/layer.go                        *)
(*   Resolver.Resolve / resolveBlob, layerRef.Done / Close, layer.close,   *)
(*   layer.Check / Refresh, the two TTL caches (layerCache, blobCache) of  *)
(*   NewResolver with their OnEvicted callbacks, fs/remote/blob.go         *)
(*   Check/Refresh/Close and the cache directories made by newCache.       *)
(*                                                                         *)
(* One action per critical section of the code. A Resolve call of holder h *)
(* is a little program; its program counter hs[h].pc is named after the    *)
(* verifhook gate ("layer.resolve.<pc>") the goroutine has reached:        *)
(*                                                                         *)
(*   idle --ResolveLock--> locked --LayerCacheGet--> lhit | resolving      *)
(*   lhit --LayerCheck--> held (return) | lstale                           *)
(*   lstale --LayerEvictStale--> levicted --LayerRemoveStale--> resolving  *)
(*   resolving --BlobCacheGet--> bhit | bmiss                              *)
(*   bhit --BlobCheck--> blob | bstale                                     *)
(*   bstale --BlobEvictStale--> bevicted --BlobRemoveStale--> bmiss        *)
(*   bmiss --NewHttpCache--> httpcache --RegistryResolve(ok)--> bnew       *)
(*                                     --RegistryResolve(fail)--> idle     *)
(*   bnew --BlobCacheAdd--> blob --NewFsCache--> fscache                   *)
(*   fscache --OpenMeta(ok)--> lnew --LayerCacheAdd--> held (return)       *)
(*           --OpenMeta(fail)--> idle (return error)                       *)
(*   held --Done|Close--> released ; held --Read|Refresh--> held           *)
(*                                                                         *)
(* The two caches follow the contract of RefCache.tla (C10): a value has a *)
(* membership reference (dropped once, when it leaves the map: TTL expiry, *)
(* Remove, evicting release) plus one reference per handle; the eviction   *)
(* callback (layer.close / Blob.Close) runs when the count reaches zero.   *)
(* The time.AfterFunc of an entry evicts BY KEY whatever is cached then;   *)
(* seen from here that is "the entry of a name may be evicted at any       *)
(* time" = TTLExpireLayer / TTLExpireBlob.                                 *)
(*                                                                         *)
(* Deliberate deviations from the code:                                    *)
(*  - Done/Close/expiry are single atomic actions including the cascade    *)
(*    layer.close -> verifiableReader.Close -> blob.done(true) ->          *)
(*    Blob.Close. In the code the layer part runs under layerCache.mu and  *)
(*    the blob part under blobCache.mu; a blobCache.Get that falls between *)
(*    the two commutes with the layer part (it reads blobCache only).      *)
(*  - the two deferred clean-ups of a failed Resolve (fsCache.Close,       *)
(*    blobR.done(true)) are one action (the fs cache directory is private  *)
(*    to the failing call).                                                *)
(*  - mkdir failures and errors of Close are not modelled.                 *)
(*  - connectivity: a blob's fetcher is healthy (conn) until BreakConn(n)  *)
(*    breaks every fetcher of that name that exists now; Refresh installs  *)
(*    a new one.                                                           *)
(*  - blob.Check and valid_interval: instead of wall-clock time a blob is  *)
(*    "fresh" from the moment lastCheck is stamped (makeBlob, a probe that *)
(*    succeeded, Refresh) until the environment action Tick lets the       *)
(*    interval elapse (for every blob at once). A fresh blob passes Check  *)
(*    without a probe; otherwise the fetcher is probed and lastCheck is    *)
(*    stamped only if the probe succeeded. A data fetch that succeeds      *)
(*    stamps too; with the driver's blob (one chunk) the only fetch of a   *)
(*    blob object is the first metadata open (the fake registry serves     *)
(*    data also over a "broken" connection, only its probe fails).         *)
(***************************************************************************)
EXTENDS Integers, Sequences, FiniteSets, TLC

CONSTANTS
    Names,                \* layer names (strings); layerCache and blobCache are keyed by the same name
    NH,                   \* holders (callers of Resolve) 1..NH
    MaxR,                 \* bound on Resolve calls
    MaxFault,             \* bound on injected failures (registry failure in Resolve / Refresh, metadata failure)
    MaxBreak,             \* bound on BreakConn
    TrackFiles,           \* model the open cache files of a layer/blob (one more bit per object)
    Extras,               \* FALSE (generation configs only): leave out the steps that change nothing in the model (Read,
                          \* DoneAgain, Refresh of a healthy connection) and the repeated Close; the driver then reads
                          \* through every held layer after every step instead
    SymBreak,             \* TRUE (generation configs only): callers that have nothing in hand are interchangeable, the
                          \* lowest-numbered one starts the next Resolve
    \* guards of the code; FALSE = negative control
    ResolveLock,          \* Resolve takes the per-name lock
    CloseWaitsForHolders, \* the callback runs at the last release, not at eviction
    LayerKeepsBlobRef,    \* a successful Resolve leaves the blob reference with the layer (released in layer.close only)
    CleanupOnFailure,     \* a failed Resolve closes the caches it made and releases the blob
    IdentityEvict,        \* an evicting release deletes the map entry only if it is this very instance
    CloseReleasesBlob,    \* layer.close releases the layer's blob reference
    CloseFiles,           \* closing a cache closes the files it keeps open
    BlobReleasedOnCloseError, \* layer.close releases the blob reference also when closing the reader returns an error (deferred)
    StampOnlyOnSuccess    \* blob.Check stamps lastCheck only after a probe that succeeded (FALSE: before the probe)

VARIABLES
    lock,     \* [Names -> holder | 0]       namedmutex
    lc, bc,   \* [Names -> id | 0]           layerCache.m, blobCache.m
    layers,   \* Seq [name, blob, bheld, refs, fin, closed, meta, fsd, files, cerr]   id = index, by creation
    blobs,    \* Seq [name, refs, fin, closed, hd, conn, fresh, bad, fetched, files]; bad (history) = a probe failed and
              \*     the connection has not been seen working or been refreshed since
    fsd, hd,  \* Seq BOOLEAN: directories ever made under <root>/fscache, <root>/httpcache; TRUE = exists
    hs,       \* [1..NH -> [pc, n, l, b, fd, hdp]]
    nres, nfault, nbreak,
    last      \* observation: the step just made and what it returned

core == <<lock, lc, bc, layers, blobs, fsd, hd, hs, nres, nfault, nbreak>>
vars == <<lock, lc, bc, layers, blobs, fsd, hd, hs, nres, nfault, nbreak, last>>

H == 1..NH
NoName == "-"
LIds == 1..Len(layers)
BIds == 1..Len(blobs)
Idle == [pc |-> "idle", n |-> NoName, l |-> 0, b |-> 0, fd |-> 0, hdp |-> 0]

W == [layers |-> layers, blobs |-> blobs, lc |-> lc, bc |-> bc, fsd |-> fsd, hd |-> hd]
SetW(w) == /\ layers' = w.layers /\ blobs' = w.blobs /\ lc' = w.lc /\ bc' = w.bc
           /\ fsd' = w.fsd /\ hd' = w.hd

----------------------------------------------------------------------------
(* blobs: remote.Blob in blobCache                                          *)

\* Blob.Close: closed, http cache directory removed
BClose(w, b) ==
    IF w.blobs[b].closed THEN w
    ELSE [w EXCEPT !.blobs[b].closed = TRUE,
                   !.blobs[b].files = IF CloseFiles THEN FALSE ELSE @,
                   !.hd[w.blobs[b].hd] = FALSE]
BDec(w, b) ==
    LET w1 == [w EXCEPT !.blobs[b].refs = @ - 1]
    IN IF w1.blobs[b].refs <= 0 THEN BClose(w1, b) ELSE w1
\* refCounter.finalize: drop the membership reference once
BFin(w, b) ==
    IF w.blobs[b].fin THEN w
    ELSE LET w1 == BDec([w EXCEPT !.blobs[b].fin = TRUE], b)
         IN IF CloseWaitsForHolders THEN w1 ELSE BClose(w1, b)
BUnmap(w, b) ==
    LET n == w.blobs[b].name
    IN IF w.bc[n] = b \/ (~IdentityEvict /\ w.bc[n] # 0) THEN [w EXCEPT !.bc[n] = 0] ELSE w
\* done(true) of a handle; held = the once-guarded decrement has not been used yet
BEvictRelease(w, b, held) == BUnmap(BFin(IF held THEN BDec(w, b) ELSE w, b), b)
\* Remove(name) / the timer: evictLocked(key)
BRemove(w, n) == IF w.bc[n] = 0 THEN w ELSE BFin([w EXCEPT !.bc[n] = 0], w.bc[n])

(* layers: *layer in layerCache                                             *)

\* layer.close: closed; verifiableReader.Close (fs cache directory removed, metadata reader closed);
\* then the blob reference is released with evict
LClose(w, l) ==
    IF w.layers[l].closed THEN w
    ELSE LET w1 == [w EXCEPT !.layers[l].closed = TRUE, !.layers[l].meta = FALSE,
                             !.layers[l].files = IF CloseFiles THEN FALSE ELSE @,
                             !.fsd[w.layers[l].fsd] = FALSE]
         IN IF CloseReleasesBlob /\ (BlobReleasedOnCloseError \/ ~w.layers[l].cerr)
            THEN BEvictRelease([w1 EXCEPT !.layers[l].bheld = FALSE], w1.layers[l].blob, w1.layers[l].bheld)
            ELSE w1
LDec(w, l) ==
    LET w1 == [w EXCEPT !.layers[l].refs = @ - 1]
    IN IF w1.layers[l].refs <= 0 THEN LClose(w1, l) ELSE w1
LFin(w, l) ==
    IF w.layers[l].fin THEN w
    ELSE LET w1 == LDec([w EXCEPT !.layers[l].fin = TRUE], l)
         IN IF CloseWaitsForHolders THEN w1 ELSE LClose(w1, l)
LUnmap(w, l) ==
    LET n == w.layers[l].name
    IN IF w.lc[n] = l \/ (~IdentityEvict /\ w.lc[n] # 0) THEN [w EXCEPT !.lc[n] = 0] ELSE w
LEvictRelease(w, l, held) == LUnmap(LFin(IF held THEN LDec(w, l) ELSE w, l), l)
LRemove(w, n) == IF w.lc[n] = 0 THEN w ELSE LFin([w EXCEPT !.lc[n] = 0], w.lc[n])

----------------------------------------------------------------------------
Init ==
    /\ lock = [n \in Names |-> 0]
    /\ lc = [n \in Names |-> 0] /\ bc = [n \in Names |-> 0]
    /\ layers = <<>> /\ blobs = <<>> /\ fsd = <<>> /\ hd = <<>>
    /\ hs = [h \in H |-> Idle]
    /\ nres = 0 /\ nfault = 0 /\ nbreak = 0
    /\ last = [act |-> "Init", h |-> 0, n |-> NoName, arg |-> TRUE, ok |-> TRUE, ret |-> "", cb |-> 0]

\* cb: the object the step is about: the blob whose connectivity it checked / refreshed, the layer armed by ArmCloseErr (0: none)
ObsC(a, h, n, arg, ok, ret, cb) ==
    last' = [act |-> a, h |-> h, n |-> n, arg |-> arg, ok |-> ok, ret |-> ret, cb |-> cb]
Obs(a, h, n, arg, ok, ret) == ObsC(a, h, n, arg, ok, ret, 0)
At(h, pc) == hs[h].pc = pc
Go(h, pc) == hs' = [hs EXCEPT ![h].pc = pc]
Unlock(h) == lock' = [lock EXCEPT ![hs[h].n] = IF @ = h THEN 0 ELSE @]

\* r.resolveLock.Lock(name)
ResolveLockA(h, n) ==
    /\ hs[h].pc \in {"idle", "released"}
    /\ nres < MaxR
    /\ ResolveLock => lock[n] = 0
    /\ (SymBreak /\ hs[h].pc = "idle") => \A h2 \in 1..(h - 1) : hs[h2].pc # "idle"
    /\ lock' = IF ResolveLock THEN [lock EXCEPT ![n] = h] ELSE lock
    /\ hs' = [hs EXCEPT ![h] = [Idle EXCEPT !.pc = "locked", !.n = n]]
    /\ nres' = nres + 1
    /\ UNCHANGED <<lc, bc, layers, blobs, fsd, hd, nfault>>
    /\ Obs("ResolveLock", h, n, TRUE, TRUE, "")

\* r.layerCache.Get(name)
LayerCacheGet(h) ==
    /\ At(h, "locked")
    /\ LET n == hs[h].n IN
        /\ IF lc[n] # 0
           THEN /\ layers' = [layers EXCEPT ![lc[n]].refs = @ + 1]
                /\ hs' = [hs EXCEPT ![h].pc = "lhit", ![h].l = lc[n]]
           ELSE /\ UNCHANGED layers
                /\ Go(h, "resolving")
        /\ Obs("LayerCacheGet", h, n, TRUE, lc[n] # 0, "")
    /\ UNCHANGED <<lock, lc, bc, blobs, fsd, hd, nres, nfault>>

\* blob.Check(): closed -> error; within the valid interval -> ok without a probe; else probe the fetcher
BlobCheckOK(b) == ~blobs[b].closed /\ (blobs[b].fresh \/ blobs[b].conn)
BlobChecked(bs, b) ==
    IF bs[b].closed \/ bs[b].fresh THEN bs
    ELSE IF bs[b].conn THEN [bs EXCEPT ![b].fresh = TRUE, ![b].bad = FALSE]
    ELSE [bs EXCEPT ![b].bad = TRUE, ![b].fresh = ~StampOnlyOnSuccess]
\* l.Check(): closed? then the blob's Check
LayerCheck(h) ==
    /\ At(h, "lhit")
    /\ LET l == hs[h].l
           b == layers[l].blob
           ok == ~layers[l].closed /\ BlobCheckOK(b)
       IN /\ blobs' = IF layers[l].closed THEN blobs ELSE BlobChecked(blobs, b)
          /\ IF ok
             THEN /\ Go(h, "held") /\ Unlock(h)
                  /\ ObsC("LayerCheck", h, hs[h].n, TRUE, TRUE, "ok", b)
             ELSE /\ Go(h, "lstale") /\ UNCHANGED lock
                  /\ ObsC("LayerCheck", h, hs[h].n, TRUE, FALSE, "", IF layers[l].closed THEN 0 ELSE b)
    /\ UNCHANGED <<lc, bc, layers, fsd, hd, nres, nfault>>

\* done(true) of the stale layer
LayerEvictStale(h) ==
    /\ At(h, "lstale")
    /\ SetW(LEvictRelease(W, hs[h].l, TRUE))
    /\ hs' = [hs EXCEPT ![h].pc = "levicted", ![h].l = 0]
    /\ UNCHANGED <<lock, nres, nfault>>
    /\ Obs("LayerEvictStale", h, hs[h].n, TRUE, TRUE, "")

\* r.layerCache.Remove(name)
LayerRemoveStale(h) ==
    /\ At(h, "levicted")
    /\ SetW(LRemove(W, hs[h].n))
    /\ Go(h, "resolving")
    /\ UNCHANGED <<lock, nres, nfault>>
    /\ Obs("LayerRemoveStale", h, hs[h].n, TRUE, TRUE, "")

\* resolveBlob: r.blobCache.Get(name)
BlobCacheGet(h) ==
    /\ At(h, "resolving")
    /\ LET n == hs[h].n IN
        /\ IF bc[n] # 0
           THEN /\ blobs' = [blobs EXCEPT ![bc[n]].refs = @ + 1]
                /\ hs' = [hs EXCEPT ![h].pc = "bhit", ![h].b = bc[n]]
           ELSE /\ UNCHANGED blobs
                /\ Go(h, "bmiss")
        /\ Obs("BlobCacheGet", h, n, TRUE, bc[n] # 0, "")
    /\ UNCHANGED <<lock, lc, bc, layers, fsd, hd, nres, nfault>>

BlobCheck(h) ==
    /\ At(h, "bhit")
    /\ LET ok == BlobCheckOK(hs[h].b)
       IN /\ Go(h, IF ok THEN "blob" ELSE "bstale")
          /\ blobs' = BlobChecked(blobs, hs[h].b)
          /\ ObsC("BlobCheck", h, hs[h].n, TRUE, ok, "", hs[h].b)
    /\ UNCHANGED <<lock, lc, bc, layers, fsd, hd, nres, nfault>>

BlobEvictStale(h) ==
    /\ At(h, "bstale")
    /\ SetW(BEvictRelease(W, hs[h].b, TRUE))
    /\ hs' = [hs EXCEPT ![h].pc = "bevicted", ![h].b = 0]
    /\ UNCHANGED <<lock, nres, nfault>>
    /\ Obs("BlobEvictStale", h, hs[h].n, TRUE, TRUE, "")

BlobRemoveStale(h) ==
    /\ At(h, "bevicted")
    /\ SetW(BRemove(W, hs[h].n))
    /\ Go(h, "bmiss")
    /\ UNCHANGED <<lock, nres, nfault>>
    /\ Obs("BlobRemoveStale", h, hs[h].n, TRUE, TRUE, "")

\* newCache(<root>/httpcache)
NewHttpCache(h) ==
    /\ At(h, "bmiss")
    /\ hd' = Append(hd, TRUE)
    /\ hs' = [hs EXCEPT ![h].pc = "httpcache", ![h].hdp = Len(hd) + 1]
    /\ UNCHANGED <<lock, lc, bc, layers, blobs, fsd, nres, nfault>>
    /\ Obs("NewHttpCache", h, hs[h].n, TRUE, TRUE, "")

\* r.resolver.Resolve: the registry answers (arg) or not; on failure the deferred httpCache.Close() and return
RegistryResolve(h, arg) ==
    /\ At(h, "httpcache")
    /\ IF arg
       THEN /\ blobs' = Append(blobs, [name |-> hs[h].n, refs |-> 0, fin |-> TRUE, closed |-> FALSE,
                                       hd |-> hs[h].hdp, conn |-> TRUE, fresh |-> TRUE, bad |-> FALSE, fetched |-> FALSE, files |-> FALSE])
            /\ hs' = [hs EXCEPT ![h].pc = "bnew", ![h].b = Len(blobs) + 1, ![h].hdp = 0]
            /\ UNCHANGED <<hd, lock, nfault>>
            /\ Obs("RegistryResolve", h, hs[h].n, TRUE, TRUE, "")
       ELSE /\ nfault < MaxFault
            /\ nfault' = nfault + 1
            /\ hd' = IF CleanupOnFailure THEN [hd EXCEPT ![hs[h].hdp] = FALSE] ELSE hd
            /\ hs' = [hs EXCEPT ![h] = Idle]
            /\ Unlock(h)
            /\ UNCHANGED blobs
            /\ Obs("RegistryResolve", h, hs[h].n, FALSE, FALSE, "err")
    /\ UNCHANGED <<lc, bc, layers, fsd, nres>>

\* r.blobCache.Add(name, b); "blob already exists in the cache. discard this."
BlobCacheAdd(h) ==
    /\ At(h, "bnew")
    /\ LET n == hs[h].n
           b == hs[h].b
       IN IF bc[n] = 0
          THEN /\ SetW([W EXCEPT !.bc[n] = b, !.blobs[b].refs = 2, !.blobs[b].fin = FALSE])
               /\ Go(h, "blob")
               /\ Obs("BlobCacheAdd", h, n, TRUE, TRUE, "")
          ELSE /\ SetW(BClose([W EXCEPT !.blobs[bc[n]].refs = @ + 1], b))
               /\ hs' = [hs EXCEPT ![h].pc = "blob", ![h].b = bc[n]]
               /\ Obs("BlobCacheAdd", h, n, TRUE, FALSE, "")
    /\ UNCHANGED <<lock, nres, nfault>>

\* newCache(<root>/fscache)
NewFsCache(h) ==
    /\ At(h, "blob")
    /\ fsd' = Append(fsd, TRUE)
    /\ hs' = [hs EXCEPT ![h].pc = "fscache", ![h].fd = Len(fsd) + 1]
    /\ UNCHANGED <<lock, lc, bc, layers, blobs, hd, nres, nfault>>
    /\ Obs("NewFsCache", h, hs[h].n, TRUE, TRUE, "")

\* r.metadataStore(...) + newLayer; on failure the deferred fsCache.Close(), blobR.done(true) and return
OpenMeta(h, arg) ==
    /\ At(h, "fscache")
    /\ IF arg
       THEN /\ layers' = Append(layers, [name |-> hs[h].n, blob |-> hs[h].b, bheld |-> TRUE, refs |-> 0,
                                         fin |-> TRUE, closed |-> FALSE, meta |-> TRUE, fsd |-> hs[h].fd,
                                         files |-> FALSE, cerr |-> FALSE])
            /\ hs' = [hs EXCEPT ![h].pc = "lnew", ![h].l = Len(layers) + 1, ![h].b = 0, ![h].fd = 0]
            \* reading footer and TOC of a blob nothing was fetched from yet goes to the registry; a successful
            \* fetch stamps lastCheck ("we succeeded to access the blob"). One chunk covers the whole (small) blob,
            \* so this is the only fetch in the life of a blob object
            /\ blobs' = IF blobs[hs[h].b].fetched THEN blobs
                         ELSE [blobs EXCEPT ![hs[h].b].fetched = TRUE, ![hs[h].b].fresh = TRUE, ![hs[h].b].bad = FALSE]
            /\ UNCHANGED <<lock, lc, bc, fsd, hd, nfault>>
            /\ Obs("OpenMeta", h, hs[h].n, TRUE, TRUE, "")
       ELSE /\ nfault < MaxFault
            /\ nfault' = nfault + 1
            /\ IF CleanupOnFailure
               THEN SetW(BEvictRelease([W EXCEPT !.fsd[hs[h].fd] = FALSE], hs[h].b, TRUE))
               ELSE UNCHANGED <<lc, bc, layers, blobs, fsd, hd>>
            /\ hs' = [hs EXCEPT ![h] = Idle]
            /\ Unlock(h)
            /\ Obs("OpenMeta", h, hs[h].n, FALSE, FALSE, "err")
    /\ UNCHANGED nres

\* r.layerCache.Add(name, l); "layer already exists in the cache. discrad this."; return
LayerCacheAdd(h) ==
    /\ At(h, "lnew")
    /\ LET n == hs[h].n
           l == hs[h].l
           w1 == IF lc[n] = 0
                 THEN [W EXCEPT !.lc[n] = l, !.layers[l].refs = 2, !.layers[l].fin = FALSE]
                 ELSE LClose([W EXCEPT !.layers[lc[n]].refs = @ + 1], l)
           \* negative control: the blob reference is released although the layer goes on using the blob
           w2 == IF LayerKeepsBlobRef \/ w1.layers[l].closed THEN w1
                 ELSE BEvictRelease([w1 EXCEPT !.layers[l].bheld = FALSE], w1.layers[l].blob, TRUE)
       IN /\ SetW(w2)
          /\ hs' = [hs EXCEPT ![h].pc = "held", ![h].l = IF lc[n] = 0 THEN l ELSE lc[n]]
          /\ Obs("LayerCacheAdd", h, n, TRUE, lc[n] = 0, "ok")
    /\ Unlock(h)
    /\ UNCHANGED <<nres, nfault>>

----------------------------------------------------------------------------
(* what a holder does with its Layer                                        *)

Serves(l) ==
    /\ l \in LIds
    /\ ~layers[l].closed /\ layers[l].meta /\ fsd[layers[l].fsd]
    /\ ~blobs[layers[l].blob].closed /\ hd[blobs[layers[l].blob].hd]

\* RootNode + a file read through the reader + ReadAt of the blob
Read(h) ==
    /\ Extras
    /\ At(h, "held")
    /\ LET l == hs[h].l IN
        /\ IF TrackFiles /\ Serves(l)
           THEN /\ layers' = [layers EXCEPT ![l].files = TRUE]
                /\ blobs' = [blobs EXCEPT ![layers[l].blob].files = TRUE]
           ELSE UNCHANGED <<layers, blobs>>
        /\ Obs("Read", h, hs[h].n, TRUE, Serves(l), "")
    /\ UNCHANGED <<lock, lc, bc, fsd, hd, hs, nres, nfault>>

\* layerRef.Done: done(false)
Done(h) ==
    /\ At(h, "held")
    /\ SetW(LDec(W, hs[h].l))
    /\ Go(h, "released")
    /\ UNCHANGED <<lock, nres, nfault>>
    /\ Obs("Done", h, hs[h].n, TRUE, TRUE, "")

\* layerRef.Close: done(true)
Close(h) ==
    /\ At(h, "held")
    /\ SetW(LEvictRelease(W, hs[h].l, TRUE))
    /\ Go(h, "released")
    /\ UNCHANGED <<lock, nres, nfault>>
    /\ Obs("Close", h, hs[h].n, TRUE, TRUE, "")

\* Done after Done/Close: nothing (once guard); Close after Done/Close: evicts again (no decrement)
DoneAgain(h) ==
    /\ Extras
    /\ At(h, "released")
    /\ UNCHANGED core
    /\ Obs("DoneAgain", h, hs[h].n, TRUE, TRUE, "")
CloseAgain(h) ==
    /\ Extras
    /\ At(h, "released")
    /\ SetW(LEvictRelease(W, hs[h].l, FALSE))
    /\ UNCHANGED <<lock, hs, nres, nfault>>
    /\ Obs("CloseAgain", h, hs[h].n, TRUE, TRUE, "")

\* Layer.Refresh -> Blob.Refresh: the registry answers (arg) or not
Refresh(h, arg) ==
    /\ At(h, "held")
    /\ LET l == hs[h].l
           b == layers[l].blob
           ok == arg /\ ~layers[l].closed /\ ~blobs[b].closed
       IN /\ Extras \/ ~blobs[b].conn
          /\ (~arg) => nfault < MaxFault
          /\ nfault' = IF arg THEN nfault ELSE nfault + 1
          /\ blobs' = IF ok THEN [blobs EXCEPT ![b].conn = TRUE, ![b].fresh = TRUE, ![b].bad = FALSE] ELSE blobs
          /\ ObsC("Refresh", h, hs[h].n, arg, ok, "", b)
    /\ UNCHANGED <<lock, lc, bc, layers, fsd, hd, hs, nres>>

\* Layer.Check() by the caller that holds it (fs.Check does this for every mounted layer)
Check(h) ==
    /\ At(h, "held")
    /\ LET l == hs[h].l
           b == layers[l].blob
           ok == ~layers[l].closed /\ BlobCheckOK(b)
       IN /\ Extras \/ ~blobs[b].fresh
          /\ blobs' = IF layers[l].closed THEN blobs ELSE BlobChecked(blobs, b)
          /\ ObsC("Check", h, hs[h].n, TRUE, ok, "", IF layers[l].closed THEN 0 ELSE b)
    /\ UNCHANGED <<lock, lc, bc, layers, fsd, hd, hs, nres, nfault>>

(* environment                                                               *)

\* the metadata reader of this layer will fail its Close (a reader / cache that cannot clean up): layer.close then
\* gets an error from closing the reader. The fs cache directory is removed and the reader counts as closed all the same
\* (reader.Close closes the cache first and joins the errors); what matters is what layer.close does after the error
ArmCloseErr(l) ==
    /\ l \in LIds /\ ~layers[l].closed /\ ~layers[l].cerr
    /\ nfault < MaxFault
    /\ nfault' = nfault + 1
    /\ layers' = [layers EXCEPT ![l].cerr = TRUE]
    /\ UNCHANGED <<lock, lc, bc, blobs, fsd, hd, hs, nres>>
    /\ ObsC("ArmCloseErr", 0, layers[l].name, FALSE, TRUE, "", l)

\* valid_interval elapses (for every blob). Generation configs (~Extras): only where it makes a difference
\* to the next check, i.e. some blob would still pass unprobed although its connection is broken
Tick ==
    /\ \E b \in BIds : ~blobs[b].closed /\ blobs[b].fresh /\ (Extras \/ ~blobs[b].conn)
    /\ blobs' = [b \in BIds |-> [blobs[b] EXCEPT !.fresh = FALSE]]
    /\ UNCHANGED <<lock, lc, bc, layers, fsd, hd, hs, nres, nfault>>
    /\ Obs("Tick", 0, NoName, TRUE, TRUE, "")

\* every fetcher of this name that exists now stops passing its check (e.g. an expired URL)
BreakConn(n) ==
    /\ nbreak < MaxBreak
    /\ \E b \in BIds : blobs[b].name = n /\ ~blobs[b].closed /\ blobs[b].conn
    /\ blobs' = [b \in BIds |-> IF blobs[b].name = n THEN [blobs[b] EXCEPT !.conn = FALSE] ELSE blobs[b]]
    /\ nbreak' = nbreak + 1
    /\ UNCHANGED <<lock, lc, bc, layers, fsd, hd, hs, nres, nfault>>
    /\ Obs("BreakConn", 0, n, TRUE, TRUE, "")

\* the timer of the entry cached under this name runs: evictLocked(name)
TTLExpireLayer(n) ==
    /\ lc[n] # 0
    /\ SetW(LRemove(W, n))
    /\ UNCHANGED <<lock, hs, nres, nfault>>
    /\ Obs("TTLExpireLayer", 0, n, TRUE, TRUE, "")
TTLExpireBlob(n) ==
    /\ bc[n] # 0
    /\ SetW(BRemove(W, n))
    /\ UNCHANGED <<lock, hs, nres, nfault>>
    /\ Obs("TTLExpireBlob", 0, n, TRUE, TRUE, "")

NextOther ==
    \/ \E h \in H, n \in Names : ResolveLockA(h, n)
    \/ \E h \in H : LayerCacheGet(h)
    \/ \E h \in H : LayerCheck(h)
    \/ \E h \in H : LayerEvictStale(h)
    \/ \E h \in H : LayerRemoveStale(h)
    \/ \E h \in H : BlobCacheGet(h)
    \/ \E h \in H : BlobCheck(h)
    \/ \E h \in H : BlobEvictStale(h)
    \/ \E h \in H : BlobRemoveStale(h)
    \/ \E h \in H : NewHttpCache(h)
    \/ \E h \in H, a \in BOOLEAN : RegistryResolve(h, a)
    \/ \E h \in H : BlobCacheAdd(h)
    \/ \E h \in H : NewFsCache(h)
    \/ \E h \in H, a \in BOOLEAN : OpenMeta(h, a)
    \/ \E h \in H : LayerCacheAdd(h)
    \/ \E h \in H : Read(h)
    \/ \E h \in H : Done(h)
    \/ \E h \in H : Close(h)
    \/ \E h \in H : DoneAgain(h)
    \/ \E h \in H : CloseAgain(h)
    \/ \E h \in H, a \in BOOLEAN : Refresh(h, a)
    \/ \E h \in H : Check(h)
    \/ Tick
    \/ \E l \in LIds : ArmCloseErr(l)
    \/ \E n \in Names : TTLExpireLayer(n)
    \/ \E n \in Names : TTLExpireBlob(n)

Next ==
    \/ \E n \in Names : BreakConn(n)
    \/ NextOther /\ nbreak' = nbreak

Spec == Init /\ [][Next]_vars

----------------------------------------------------------------------------
(* Property C12, over observables: lc, bc, layers[l].{name, blob, closed,   *)
(* meta, fsd, files}, blobs[b].{name, closed, hd, files}, fsd, hd,          *)
(* hs[h].{pc, n, l, b, fd, hdp} and last                                    *)

\* a layer obtained from Resolve and not yet released serves reads
HeldLayerServes == \A h \in H : hs[h].pc = "held" => Serves(hs[h].l)
ReadWorks == [][last'.act = "Read" => last'.ok]_vars

\* concurrent requests for one name share one instance: what a successful Resolve returns is the cached instance
\* (if any instance of the name is cached at that moment), and no instance is built while one is cached
ReturnedIsCached ==
    [][(last'.ret = "ok" /\ lc'[last'.n] # 0) => lc'[last'.n] = hs'[last'.h].l]_vars
NoDuplicateCreation ==
    [][(last'.act = "OpenMeta" /\ last'.ok) => lc[last'.n] = 0]_vars

\* who may still use an object
LUsers(l) == {h \in H : hs[h].l = l /\ hs[h].pc \in {"lhit", "lstale", "lnew", "held"}}
BUsers(b) == {h \in H : hs[h].b = b}
BLayers(b) == {l \in LIds : layers[l].blob = b /\ ~layers[l].closed}
LGone(l) == layers[l].closed /\ ~layers[l].meta /\ ~fsd[layers[l].fsd]
BGone(b) == blobs[b].closed /\ ~hd[blobs[b].hd]
\* once every holder has released a layer and it is out of the cache: metadata reader, open files and
\* both cache directories are gone
AllReleasedAndEvictedFreesEverything ==
    /\ \A l \in LIds : (lc[layers[l].name] # l /\ LUsers(l) = {}) => LGone(l)
    /\ \A b \in BIds : (bc[blobs[b].name] # b /\ BUsers(b) = {} /\ BLayers(b) = {}) => BGone(b)
\* a blob nobody uses (no Resolve has it in hand, no open layer reads through it) is gone, cached or not: the layer that
\* used it released it with evict when it was finalised, so "both cache directories" of a released layer are gone
UnusedBlobIsGone ==
    \A b \in BIds : (BUsers(b) = {} /\ BLayers(b) = {}) => BGone(b)
\* nothing of a closed object stays behind: metadata reader closed, directory removed ...
ClosedMeansGone ==
    /\ \A l \in LIds : layers[l].closed => LGone(l)
    /\ \A b \in BIds : blobs[b].closed => BGone(b)
\* ... and no file of its cache directory is still open
NoOpenFilesAfterClose ==
    /\ \A l \in LIds : layers[l].closed => ~layers[l].files
    /\ \A b \in BIds : blobs[b].closed => ~blobs[b].files
\* every directory under the resolver's root belongs to a live object or to a Resolve still running
\* (so a failed Resolve leaves nothing behind)
FailedResolveLeaksNothing ==
    /\ \A i \in 1..Len(fsd) : fsd[i] =>
          (\E l \in LIds : layers[l].fsd = i /\ ~layers[l].closed) \/ (\E h \in H : hs[h].fd = i)
    /\ \A i \in 1..Len(hd) : hd[i] =>
          (\E b \in BIds : blobs[b].hd = i /\ ~blobs[b].closed) \/ (\E h \in H : hs[h].hdp = i)
\* a Resolve fails only where a registry / metadata failure was injected (so resolving again works)
ResolveAgainWorks == [][last'.ret = "err" => ~last'.arg]_vars

\* a connectivity check (by a holder, or by Resolve on the cached layer / blob) does not report a connection
\* healthy that was seen failing and has neither answered a probe nor been refreshed since: a held layer with a
\* dead connection gets refreshed, and Resolve does not hand out a dead instance as healthy
CheckActs == {"LayerCheck", "BlobCheck", "Check"}
CheckNotFooled ==
    [][(last'.act \in CheckActs /\ last'.ok /\ last'.cb \in BIds)
          => (~blobs[last'.cb].bad \/ blobs[last'.cb].conn)]_vars

(* internal consistency (documents the design; not part of the property)    *)
RefsAccount ==
    /\ \A l \in LIds : (layers[l].refs # 0 \/ ~layers[l].fin) =>
          layers[l].refs = Cardinality(LUsers(l) \ {h \in H : hs[h].pc = "lnew"}) + (IF layers[l].fin THEN 0 ELSE 1)
    /\ \A b \in BIds : (blobs[b].refs # 0 \/ ~blobs[b].fin) =>
          blobs[b].refs = Cardinality({h \in BUsers(b) : hs[h].pc # "bnew"})
                          + Cardinality({l \in LIds : layers[l].blob = b /\ layers[l].bheld})
                          + (IF blobs[b].fin THEN 0 ELSE 1)
LockOK ==
    \A n \in Names : Cardinality({h \in H : hs[h].n = n /\ hs[h].pc \notin {"idle", "held", "released"}}) <= 1
CachedIsLive ==
    /\ \A n \in Names : lc[n] # 0 => (~layers[lc[n]].closed /\ layers[lc[n]].name = n)
    /\ \A n \in Names : bc[n] # 0 => (~blobs[bc[n]].closed /\ blobs[bc[n]].name = n)
=============================================================================

----------------------------- MODULE RefCache -----------------------------
(***************************************************************************)
(* Reference-counted caches of util/cacheutil: TTLCache (ttlcache.go) and  *)
(* LRUCache (lrucache.go), both built on refCounter (lrucache.go).         *)
(*                                                                         *)
(* One action per critical section of the code (everything below runs      *)
(* under c.mu in the implementation):                                      *)
(*   Add / Get / Remove / Clear  the public calls                          *)
(*   Release(h, evict)           the done() closure returned by Add/Get    *)
(*   TimerFire, TimerEvict       time.AfterFunc: the timer goroutine has   *)
(*                               fired and waits for c.mu, then evicts BY  *)
(*                               KEY (so it can hit a re-added value)      *)
(* refCounter.dec/finalize/initialize are operators used by those.         *)
(*                                                                         *)
(* Property C10 is stated over the OBSERVABLE part of the state only       *)
(* (live, handles, cb), so the same formulas are evaluated by the trace    *)
(* monitor on states recorded from the implementation.                     *)
(***************************************************************************)
EXTENDS Integers, Sequences, FiniteSets, TLC

CONSTANTS
    Keys,           \* set of strings
    Kind,           \* "ttl" or "lru"
    Cap,            \* LRU capacity (maxEntries); 0 = unlimited
    MaxV,           \* bound on values ever added (generation configs)
    MaxH,           \* bound on handles ever handed out
    OnceGuards,     \* TRUE = sync.Once around dec in done() and finalize() (as in the code)
    IdentityCheck,  \* TRUE = evicting release deletes the map entry only if it is this value
    CallbackAtZero  \* TRUE = callback when refCounts <= 0 (as in the code); FALSE = "< 0"

VARIABLES
    live,      \* [Keys -> value id | 0]      what the cache map / lru list holds
    order,     \* Seq(Keys), most recently used first (LRU only; <<>> for TTL)
    vals,      \* Seq of [key, refs, fin, cb, timer]; index = value id
    handles,   \* Seq of [v, rel]; index = handle id (one per successful Add/Get)
    last       \* observation: the call just made and what it returned

core == <<live, order, vals, handles>>
vars == <<live, order, vals, handles, last>>

NoVal == 0
ValIds == 1..Len(vals)
HandleIds == 1..Len(handles)

----------------------------------------------------------------------------
(* refCounter                                                               *)

Inc(vs, v) == [vs EXCEPT ![v].refs = @ + 1]

\* refCounter.dec: decrement, run the callback whenever the count is <= 0 afterwards
Dec(vs, v) ==
    LET r == vs[v].refs - 1
        fire == IF CallbackAtZero THEN r <= 0 ELSE r < 0
    IN [vs EXCEPT ![v].refs = r, ![v].cb = IF fire THEN @ + 1 ELSE @]

\* refCounter.finalize: once-guarded dec of the membership reference
Finalize(vs, v) ==
    IF vs[v].fin /\ OnceGuards THEN vs
    ELSE Dec([vs EXCEPT ![v].fin = TRUE], v)

\* time.Timer.Stop: only prevents a timer that has not fired yet
StopTimer(vs, v) == [vs EXCEPT ![v].timer = IF @ = "armed" THEN "stopped" ELSE @]

NewVal(k) == [key |-> k, refs |-> 2, fin |-> FALSE, cb |-> 0,
              timer |-> IF Kind = "ttl" THEN "armed" ELSE "none"]

RemoveKey(s, k) == SelectSeq(s, LAMBDA x : x # k)
MoveFront(s, k) == <<k>> \o RemoveKey(s, k)

----------------------------------------------------------------------------
Init ==
    /\ live = [k \in Keys |-> NoVal]
    /\ order = <<>>
    /\ vals = <<>>
    /\ handles = <<>>
    /\ last = [act |-> "Init"]

\* Add(key, value): returns the cached value if the key is present
AddHit(k) ==
    /\ live[k] # NoVal
    /\ Len(handles) < MaxH
    /\ LET v == live[k] IN
        /\ vals' = Inc(vals, v)
        /\ handles' = Append(handles, [v |-> v, rel |-> FALSE])
        /\ order' = IF Kind = "lru" THEN MoveFront(order, k) ELSE order
        /\ UNCHANGED live
        /\ last' = [act |-> "Add", k |-> k, v |-> v, added |-> FALSE, h |-> Len(handles) + 1]

AddMiss(k) ==
    /\ live[k] = NoVal
    /\ Len(handles) < MaxH
    /\ Len(vals) < MaxV
    /\ LET v   == Len(vals) + 1
           vs1 == Append(vals, NewVal(k))
           o1  == IF Kind = "lru" THEN <<k>> \o order ELSE order
           over == Kind = "lru" /\ Cap > 0 /\ Len(o1) > Cap
           ko  == o1[Len(o1)]                  \* oldest key (only meaningful if over)
       IN
        /\ handles' = Append(handles, [v |-> v, rel |-> FALSE])
        /\ IF over
           THEN /\ order' = SubSeq(o1, 1, Len(o1) - 1)
                /\ live' = [live EXCEPT ![k] = v, ![ko] = NoVal]
                /\ vals' = Finalize(vs1, live[ko])
           ELSE /\ order' = o1
                /\ live' = [live EXCEPT ![k] = v]
                /\ vals' = vs1
        /\ last' = [act |-> "Add", k |-> k, v |-> v, added |-> TRUE, h |-> Len(handles) + 1]

Add(k) == AddHit(k) \/ AddMiss(k)

GetHit(k) ==
    /\ live[k] # NoVal
    /\ Len(handles) < MaxH
    /\ LET v == live[k] IN
        /\ vals' = Inc(vals, v)
        /\ handles' = Append(handles, [v |-> v, rel |-> FALSE])
        /\ order' = IF Kind = "lru" THEN MoveFront(order, k) ELSE order
        /\ UNCHANGED live
        /\ last' = [act |-> "Get", k |-> k, v |-> v, ok |-> TRUE, h |-> Len(handles) + 1]

GetMiss(k) ==
    /\ live[k] = NoVal
    /\ UNCHANGED core
    /\ last' = [act |-> "Get", k |-> k, v |-> NoVal, ok |-> FALSE, h |-> 0]

Get(k) == GetHit(k) \/ GetMiss(k)

Remove(k) ==
    /\ IF live[k] # NoVal
       THEN /\ live' = [live EXCEPT ![k] = NoVal]
            /\ order' = RemoveKey(order, k)
            /\ vals' = Finalize(StopTimer(vals, live[k]), live[k])
       ELSE UNCHANGED <<live, order, vals>>
    /\ UNCHANGED handles
    /\ last' = [act |-> "Remove", k |-> k]

\* LRUCache.Clear (added with the repair of cache.directoryCache.Close): every entry leaves the cache at once;
\* groupcache's Clear runs the inner eviction callback (= finalize) for each entry
RECURSIVE FinalizeAll(_, _)
FinalizeAll(vs, S) ==
    IF S = {} THEN vs
    ELSE LET v == CHOOSE x \in S : TRUE IN FinalizeAll(Finalize(vs, v), S \ {v})
Clear ==
    /\ Kind = "lru"
    /\ vals' = FinalizeAll(vals, {live[k] : k \in {x \in Keys : live[x] # NoVal}})
    /\ live' = [k \in Keys |-> NoVal]
    /\ order' = <<>>
    /\ UNCHANGED handles
    /\ last' = [act |-> "Clear"]

\* the done() closure. evict is only meaningful for the TTL cache (done(bool)).
Release(h, evict) ==
    /\ h \in HandleIds
    /\ evict => Kind = "ttl"
    /\ LET v   == handles[h].v
           k   == vals[v].key
           vs1 == IF handles[h].rel /\ OnceGuards THEN vals ELSE Dec(vals, v)
       IN
        /\ handles' = [handles EXCEPT ![h].rel = TRUE]
        /\ IF evict
           THEN /\ vals' = Finalize(StopTimer(vs1, v), v)
                /\ live' = IF (live[k] = v) \/ (~IdentityCheck /\ live[k] # NoVal)
                           THEN [live EXCEPT ![k] = NoVal] ELSE live
           ELSE /\ vals' = vs1
                /\ UNCHANGED live
        /\ UNCHANGED order
        /\ last' = [act |-> "Release", h |-> h, evict |-> evict, again |-> handles[h].rel]

\* the runtime timer fires: the goroutine of time.AfterFunc now exists and waits for c.mu
TimerFire(v) ==
    /\ Kind = "ttl"
    /\ v \in ValIds
    /\ vals[v].timer = "armed"
    /\ vals' = [vals EXCEPT ![v].timer = "fired"]
    /\ UNCHANGED <<live, order, handles>>
    /\ last' = [act |-> "TimerFire", v |-> v]

\* ... and gets the lock: evictLocked(key) - whatever value is under that key now
TimerEvictG(v, from) ==
    /\ Kind = "ttl"
    /\ v \in ValIds
    /\ vals[v].timer \in from
    /\ LET k   == vals[v].key
           w   == live[k]
           vs1 == [vals EXCEPT ![v].timer = "done"]
       IN
        /\ IF w # NoVal
           THEN /\ live' = [live EXCEPT ![k] = NoVal]
                /\ vals' = Finalize(StopTimer(vs1, w), w)
           ELSE /\ UNCHANGED live
                /\ vals' = vs1
        /\ UNCHANGED <<order, handles>>
        /\ last' = [act |-> "TimerEvict", v |-> v, k |-> k, w |-> w]

TimerEvict(v) == TimerEvictG(v, {"fired"})

Next ==
    \/ \E k \in Keys : Add(k)
    \/ \E k \in Keys : Get(k)
    \/ \E k \in Keys : Remove(k)
    \/ Clear
    \/ \E h \in HandleIds, e \in BOOLEAN : Release(h, e)
    \/ \E v \in ValIds : TimerFire(v)
    \/ \E v \in ValIds : TimerEvict(v)

Spec == Init /\ [][Next]_vars

----------------------------------------------------------------------------
(* Property C10, over observables: live, handles[h].v/.rel, vals[v].cb     *)

Holders(v) == {h \in HandleIds : handles[h].v = v /\ ~handles[h].rel}
InCache(v) == \E k \in Keys : live[k] = v

\* the eviction callback runs at most once per value
AtMostOnce == \A v \in ValIds : vals[v].cb <= 1
\* ... only after the value left the cache and every holder released it
NotWhileHeld == \A v \in ValIds : vals[v].cb >= 1 => (~InCache(v) /\ Holders(v) = {})
\* ... and it does run then (nothing leaks)
NoLeak == \A v \in ValIds : (~InCache(v) /\ Holders(v) = {}) => vals[v].cb >= 1
\* one key holds at most one value, and a value sits under its own key
KeyOfLive == \A k \in Keys : live[k] # NoVal => (live[k] \in ValIds /\ vals[live[k]].key = k)

\* releasing twice is harmless: a repeated non-evicting release changes nothing
DoubleReleaseHarmless ==
    [][(last'.act = "Release" /\ last'.again /\ ~last'.evict) => UNCHANGED core]_vars
\* adding an existing key returns the cached value instead of replacing it
AddExistingReturnsCached ==
    [][\A k \in Keys : (last'.act = "Add" /\ last'.k = k /\ live[k] # NoVal)
            => (live'[k] = live[k] /\ last'.v = live[k] /\ ~last'.added)]_vars
\* callback counts never decrease
CbMonotone ==
    [][\A v \in ValIds : v <= Len(vals') => vals'[v].cb >= vals[v].cb]_vars

(* internal consistency (not part of the property; documents the design)   *)
RefsAccount ==
    \A v \in ValIds : vals[v].refs =
        Cardinality(Holders(v)) + (IF vals[v].fin THEN 0 ELSE 1)
LruOrderIsLive ==
    Kind = "lru" => /\ {order[i] : i \in 1..Len(order)} = {k \in Keys : live[k] # NoVal}
                    /\ (Cap > 0 => Len(order) <= Cap)

=============================================================================

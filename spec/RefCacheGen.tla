---------------------------- MODULE RefCacheGen ----------------------------
(* Generation config: TLC prints every transition of the (small) state     *)
(* graph as JSON; tools/vlib.py turns the edge list into walks that cover  *)
(* every edge, which the Go driver replays against the real caches.        *)
EXTENDS RefCache, Json

CoreRec  == [live |-> live,  order |-> order,  vals |-> vals,  handles |-> handles]
CoreRecP == [live |-> live', order |-> order', vals |-> vals', handles |-> handles']

GenInit == Init /\ PrintT("VINIT " \o ToJson(CoreRec))
GenNext == Next /\ PrintT("VEDGE " \o ToJson([from |-> CoreRec, last |-> last', to |-> CoreRecP]))
=============================================================================

--------------------------- MODULE TaskMgrTrace ---------------------------
(* Trace validation (implementation -> specification) for TaskMgr.          *)
(* Input: trace.ndjson, one event per hook of task/task.go (tag verif) and  *)
(* per body begin/end/return seen by the driver, in the order of the hook   *)
(* calls (driver mutex). Traces are separated by "Reset".                   *)
(*                                                                          *)
(*  event      where                                  specification step    *)
(*  Do         DoPrioritizedTask, under notifyMu      Do                    *)
(*  Done       DonePrioritizedTask, before go func    Done                  *)
(*  Expire     goroutine: after time.Sleep            Expire                *)
(*  DecrEnd    goroutine: after atomic.Add(-1)        DecrAdd (lock-free:   *)
(*             the Add itself is an internal step placed by the spec as     *)
(*             late as possible, or earlier when a logged read needs it)    *)
(*  Broadcast  under cond.L                           Broadcast             *)
(*  Load       before the outer Load                  (CondCheck saw 0)     *)
(*  CondLock   outer Load saw > 0                     LoadOuter             *)
(*  CondWait   under cond.L, Load saw > 0             CondCheck             *)
(*  Acquire    outer Load saw 0                       LoadOuter             *)
(*  Acquired   semaphore taken                        AcquireSem            *)
(*  Decided    under notifyMu, logs tasks             Decide                *)
(*  Select     body spawned, before select           (pc = select)          *)
(*  Notified / BodyDone   select arms                 SelNotify / SelDone   *)
(*  Release    deferred, before sem.Release           [AwaitBody] ReleaseSem*)
(*  Return, BodyBegin, BodyEnd(cx)   driver                                 *)
(*  (none)     the deadline of a body's ctx passes    Timeout: internal,    *)
(*             placed before a BodyEnd that reports cx = 1 although no      *)
(*             cancel() has happened for that body                          *)
(*                                                                          *)
(* Deviation: the two lock-free reads of the counter in the wait loop are   *)
(* not linearization points; their outcome is taken from the next event     *)
(* (CondLock/Acquire, CondWait/Load) without comparing it with prio.        *)
EXTENDS TaskMgr, Json, TLCExt

VARIABLES l, early,    \* early = DecrAdd steps already taken whose DecrEnd event is still to come
          since         \* since[i] = DecrAdd steps taken since invocation i logged Acquired (before it takes notifyMu)
tvars == <<vars, l, early, since>>
\* The counter read logged by Decided is atomic with Do (notifyMu) but not with the lock-free decrement: the read
\* happened somewhere between Acquired(i) and Decided(i), so it may miss up to since[i] decrements already logged.

TraceLog == ndJsonDeserialize("trace.ndjson")
Ev == TraceLog[l]
IsEvent(e) == l <= Len(TraceLog) /\ Ev.ev = e /\ l' = l + 1
IsInv(e) == IsEvent(e) /\ Ev.i \in Invs

Keep == UNCHANGED <<early, since>>
Bump == since' = [i \in Invs |-> since[i] + 1]
Jump(i, from, to, name) ==
    /\ pc[i] = from /\ Goto(i, to)
    /\ UNCHANGED <<prio, epoch, sem, active, ndo, dg, seen, bodies>>
    /\ last' = [act |-> name, i |-> i]
Stay(i, at) == pc[i] \in at /\ UNCHANGED vars

TraceInit == Init /\ l = 1 /\ early = 0 /\ since = [i \in Invs |-> 0] /\ TLCSet(1, 0)

TraceReset ==
    /\ IsEvent("Reset")
    /\ prio' = 0 /\ epoch' = 0 /\ sem' = 0 /\ active' = 0 /\ ndo' = 0
    /\ dg' = [sleep |-> 0, awake |-> 0, bcast |-> 0]
    /\ pc' = [i \in Invs |-> "wait"] /\ seen' = [i \in Invs |-> 0] /\ bodies' = [i \in Invs |-> <<>>]
    /\ last' = [act |-> "Init"] /\ early' = 0 /\ since' = [i \in Invs |-> 0]

\* internal: the lock-free decrement, placed where the next logged read of the counter needs it
NeedsDecr == l <= Len(TraceLog) /\ Ev.ev = "Decided" /\ Ev.tasks < prio
TraceInternalDecr == NeedsDecr /\ DecrAdd /\ early' = early + 1 /\ Bump /\ l' = l
\* internal: <-done after cancel() (repaired code); requires the body to be done (property-bearing guard)
TraceInternalAwait ==
    /\ l <= Len(TraceLog) /\ Ev.ev = "Release" /\ Ev.i \in Invs
    /\ AwaitBody(Ev.i) /\ l' = l /\ Keep

\* internal: the body saw its context done although the code has not cancelled it: the deadline passed
TraceInternalTimeout ==
    /\ l <= Len(TraceLog) /\ Ev.ev = "BodyEnd" /\ Ev.i \in Invs /\ Ev.cx = 1
    /\ Ev.n = Len(bodies[Ev.i])
    /\ Timeout(Ev.i) /\ l' = l /\ Keep

TraceDo == IsEvent("Do") /\ Do /\ Keep
TraceDone == IsEvent("Done") /\ Done /\ Keep
TraceExpire == IsEvent("Expire") /\ Expire /\ Keep
TraceDecrEnd ==
    /\ IsEvent("DecrEnd")
    /\ IF early > 0 THEN early' = early - 1 /\ UNCHANGED <<vars, since>>
       ELSE DecrAdd /\ UNCHANGED early /\ Bump
TraceBroadcast == IsEvent("Broadcast") /\ early = 0 /\ Broadcast /\ Keep
TraceBroadcastE == IsEvent("Broadcast") /\ early > 0 /\ Broadcast /\ Keep
TraceLoad ==
    /\ IsInv("Load") /\ Keep
    /\ IF pc[Ev.i] = "condchk" THEN Jump(Ev.i, "condchk", "wait", "CondCheck") ELSE Stay(Ev.i, {"wait"})
TraceCondLock == IsInv("CondLock") /\ Jump(Ev.i, "wait", "condchk", "LoadOuter") /\ Keep
TraceCondWait == IsInv("CondWait") /\ Jump(Ev.i, "condchk", "sleeping", "CondCheck") /\ Keep
TraceAcquire == IsInv("Acquire") /\ Jump(Ev.i, "wait", "acquire", "LoadOuter") /\ Keep
TraceAcquired == IsInv("Acquired") /\ AcquireSem(Ev.i) /\ UNCHANGED early /\ since' = [since EXCEPT ![Ev.i] = 0]
TraceDecided ==
    /\ IsInv("Decided") /\ Keep
    /\ Ev.tasks >= prio /\ Ev.tasks - prio <= since[Ev.i]
    /\ DecideRead(Ev.i, Ev.tasks)
TraceSelect == IsInv("Select") /\ Stay(Ev.i, {"select"}) /\ Keep
TraceNotified == IsInv("Notified") /\ SelNotify(Ev.i) /\ Keep
TraceBodyDone == IsInv("BodyDone") /\ SelDone(Ev.i) /\ Keep
\* the queue inside x/sync/semaphore is not visible: only the count is followed (a hand-over shows as Release, Acquired)
TraceRelease == IsInv("Release") /\ ReleaseW(Ev.i, 0) /\ Keep
TraceReturn == IsInv("Return") /\ Return(Ev.i) /\ Keep
TraceBodyBegin == IsInv("BodyBegin") /\ BodyBegin(Ev.i, Ev.n) /\ Keep
TraceBodyEnd ==
    /\ IsInv("BodyEnd") /\ BodyEnd(Ev.i, Ev.n) /\ Keep
    /\ Ev.cx = 1 => bodies[Ev.i][Ev.n].cx      \* a body sees its context cancelled only after cancel()
\* driver verdict events (bounded waits): decided by the monitor only
\* CallBegin / CallEnd: marks of the caller driver (harness/fs)
\* Panic (recovered by the driver) is never explained: conformance stops there, the monitor goes on
TraceOther == (IsEvent("Stuck") \/ IsEvent("CxTimeout") \/ IsEvent("CallBegin") \/ IsEvent("CallEnd")) /\ UNCHANGED vars /\ Keep

TraceNext ==
    \/ TraceReset \/ TraceInternalDecr \/ TraceInternalAwait \/ TraceInternalTimeout
    \/ TraceDo \/ TraceDone \/ TraceExpire \/ TraceDecrEnd \/ TraceBroadcast \/ TraceBroadcastE
    \/ TraceLoad \/ TraceCondLock \/ TraceCondWait \/ TraceAcquire \/ TraceAcquired \/ TraceDecided
    \/ TraceSelect \/ TraceNotified \/ TraceBodyDone \/ TraceRelease \/ TraceReturn
    \/ TraceBodyBegin \/ TraceBodyEnd \/ TraceOther

TraceSpec == TraceInit /\ [][TraceNext]_tvars

HighWater == IF l - 1 > TLCGet(1) THEN TLCSet(1, l - 1) ELSE TRUE
TraceAccepted ==
    IF TLCGet(1) = Len(TraceLog) THEN TRUE
    ELSE /\ PrintT("VREJECT " \o ToString(TLCGet(1)) \o " " \o ToString(Len(TraceLog)))
         /\ FALSE
=============================================================================

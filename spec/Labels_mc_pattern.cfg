\* exhaustive: every MaxLayers-entry manifest (all canonical digest patterns incl. repeats, any isLayer)
\* x whole-manifest URL patterns (own / none / alternating / oversize list on one layer)
CONSTANTS
    MaxSize = 4096
    Family = "pattern"
    MaxLayers = 4
    MaxD = 4
    LongNs = {}
    RefPfs = {12}
    Flavours = {"default", "extra"}
    Readers = {"default", "cri", "chain"}
    MatchedOnly = FALSE
    MaxTamper = 0
    NVariants = 4
    Emit = FALSE
    ValidateLayers = TRUE
    ValidateUrls = TRUE
    CountSeparator = TRUE
    WriteEmptyUrlLabels = TRUE
    ExtraStripsPreset = TRUE
    WholeDigests = TRUE
    UrlIdx = "layer"
    ReaderChecksRef = TRUE
    ReaderChecksDigest = TRUE
    StopAtFirstMisfit = TRUE
    ReaderPure = TRUE
    ReaderResetsUrls = TRUE
    ReaderSkipsTarget = TRUE
SPECIFICATION Spec
INVARIANTS AllLabelsValid RoundTrip NeighbourUrlsPositional PrefetchSizeRoundTrips UrlsOwnOrNone ReaderLeavesLabels RoundTripSecondRead MalformedMandatoryRejected TamperLogExplains ExtraKeepsPreset
CHECK_DEADLOCK FALSE

\* liveness under fairness (no VIEW: liveness checking needs the real state graph)
CONSTANTS
    Gor = {1, 2, 3}
    Names = {"a", "b"}
    Rounds = 2
    DeleteOnlyAtZero = TRUE
    CountWaiters = TRUE
    OuterMutex = TRUE
    UnlockOrder = "dec_first"
    AllowAbsent = FALSE
    NilMapGuard = TRUE
SPECIFICATION FairSpec
INVARIANTS MutualExclusionPerName
PROPERTIES LockReturns UnlockReturns
CHECK_DEADLOCK FALSE

\* exhaustive: Build (sub-blobs 1..3) and Writer/lossless over <= MaxEntries entries with sizes around the chunk boundary
CONSTANTS
    Sizes = {0, 1, 3, 4, 5, 9}
    MaxEntries = 3
    ChunkSz = 4
    Modes = {"build", "writer", "lossless"}
    WorkerSet = {1, 2, 3}
    MinOnSet = {FALSE}
    OffsetAfterClose = TRUE
    InnerFromStreamStart = TRUE
    RebaseChunks = TRUE
    KeepChunkSize = TRUE
    DivideKeepsAll = TRUE
    LandmarkOwnStream = TRUE
    KeepLastDup = TRUE
    ReservedByFullName = TRUE
    RefuseUnknownType = TRUE
INIT Init
NEXT Next
INVARIANTS TocAddressesRightBytes ChunksTileFile OffsetsUniquePerStreamStart EntriesPreserved DiffIDIsHashOfDecompressed TocDigestIsHashOfTocJSON LosslessIdentity
CHECK_DEADLOCK FALSE

\* negative control: with CleanupScanExcludesWriters = FALSE this formula alone must fail
CONSTANTS
    AKinds = {"Prepare", "View"}
    AParents = {"", "c1"}
    ATargets = {"", "c2"}
    BOps = {"Cleanup", "Close"}
    MountFaults = TRUE
    CleanupScanExcludesWriters = TRUE
INIT Init
NEXT Next
INVARIANTS AfterCleanupDirsAreLive
CHECK_DEADLOCK FALSE

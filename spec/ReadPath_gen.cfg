CONSTANTS
    Sizes <- MCSizes
    ChunkTab <- MCChunkTab
    PrefetchOn <- MCPrefetch
    Lens = {1, 3, 4, 9}
    Offs = {0, 1, 2, 3, 4, 5, 6, 7, 8, 9, 10}
    EvictOffs = {0, 1, 2, 3, 4, 5, 6, 7, 8, 9, 10}
    LocateOK = TRUE
    DiscardOK = TRUE
    InnerSkipOK = TRUE
    PreReadKeyOK = TRUE
INIT GenInit
NEXT GenNext
VIEW core
CHECK_DEADLOCK FALSE
INVARIANTS CacheHoldsOnlySourceBytes
PROPERTIES ReadEqualsSourceStep

CONSTANTS
    Sizes <- MCSizes
    ChunkTab <- MCChunkTab
    PrefetchOn <- MCPrefetch
    Lens = {1, 3, 4, 9}
    LocateOK = TRUE
    DiscardOK = TRUE
    InnerSkipOK = TRUE
    PreReadKeyOK = TRUE
INIT GenInit
NEXT GenNext
VIEW core
CHECK_DEADLOCK FALSE
INVARIANTS CacheHoldsOnlySourceBytes
PROPERTIES ReadEqualsSourceStep

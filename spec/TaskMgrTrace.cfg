CONSTANTS
    Invs = {1, 2, 3, 4, 5, 6}
    Concurrency = 1
    MaxDo = 1000000
    WaitBodyOnCancel = TRUE
    RecheckUnderLock = TRUE
    DecrAfterSilence = TRUE
    UseSem = TRUE
    NotifyArm = TRUE
    AwaitBodyOnTimeout = TRUE
    Timeouts = TRUE
    AcquireIgnoresTimeout = TRUE
    BroadcastAll = TRUE
SPECIFICATION TraceSpec
CONSTRAINT HighWater
INVARIANTS PrioAccount SemBound
POSTCONDITION TraceAccepted
CHECK_DEADLOCK FALSE

------------------------------ MODULE Fetcher ------------------------------
(***************************************************************************)
(* Property C18, second half: headers configured for a registry host (and  *)
(* the Authorization obtained for it) reach that host only, never the      *)
(* location a blob request is redirected to (fs/remote/resolver.go:         *)
(* newHTTPFetcher -> redirect, getSize; httpFetcher.fetch, check,          *)
(* refreshURL; transport.RoundTrip).                                       *)
(*                                                                         *)
(* Shared state of one httpFetcher: the pair (url, header), guarded by     *)
(* f.urlMu; orgHeader/blobURL are immutable. One action per critical       *)
(* section / request:                                                      *)
(*   actor "res" (newHTTPFetcher, sequential, before the fetcher exists):  *)
(*     Send in stage "redirect"  GET blobURL with the host's headers       *)
(*     Send in stage "head"      getSize: HEAD url                         *)
(*     Send in stage "get"       getSize: fall back to GET url             *)
(*   worker p (fetch or check on the shared fetcher):                      *)
(*     Start(p, kind)                                                      *)
(*     ReadURL(p)     url := f.url under urlMu (and, if HeaderReadUnderLock*)
(*                    the header in the same critical section)             *)
(*     ReadHdr(p)     maps.Copy(req.Header, f.header)  -- separate step    *)
(*                    when HeaderReadUnderLock = FALSE                     *)
(*     Send "send"    the range/check request to the url that was read     *)
(*     Send "refresh" refreshURL -> redirect(): GET blobURL with orgHeader *)
(*     SetBoth(p)     f.url, f.header = newURL, headers under urlMu        *)
(*   every Send that is answered 401 is repeated once by transport.        *)
(*   RoundTrip after the authorizer learnt the challenge (authed).         *)
(*   environment = the registry "personality": serves the blob directly    *)
(*   or redirects to a location (L1/L2); locations expire (403); the       *)
(*   registry may demand Authorization (401); locations may refuse HEAD;   *)
(*   the registry itself may answer 403 once (DenyReg: its own signed URL  *)
(*   / session expired), which makes a fetcher that was resolved to the    *)
(*   registry refresh -- possibly into a redirect.                         *)
(*                                                                         *)
(* Deliberate deviations: the 400 -> single-range fallback, multipart      *)
(* bodies and the retryablehttp wrapper are not modelled (they do not      *)
(* touch url/header); locations never challenge with 401; one registry     *)
(* host (no mirror list); whether a request carries Authorization is       *)
(* decided at the moment it is sent (StaleAuth over-approximates the       *)
(* earlier read of the authorizer's handler table).                        *)
(***************************************************************************)
EXTENDS Integers, Sequences, FiniteSets, TLC

CONSTANTS
    Procs,                 \* worker ids (strings), e.g. {"p1", "p2"}
    MaxOps,                \* operations per worker
    MaxEnv,                \* bound on personality changes
    Modes,                 \* initial personalities explored: subset of {"direct", "redir"}
    AuthModes,             \* subset of BOOLEAN: does the registry demand Authorization
    HeadModes,             \* subset of BOOLEAN: do locations answer HEAD
    HeaderReadUnderLock,   \* TRUE = fetch/check read url AND header in one critical section (the code with the commit
                           \*        "fix: read httpFetcher url and header in one critical section");
                           \* FALSE = the pinned code: f.header is read after urlMu was released (torn read of the pair)
    RedirectDropsHeaders,  \* TRUE = redirect() returns no headers for the redirected location (as in the code)
    StaleAuth              \* TRUE = a request to the registry may still go out without Authorization after a challenge

Actors == Procs \cup {"res"}

VARIABLES
    mode, loc, valid, needAuth, headOK, envn,     \* the registry personality
    regDeny,                                      \* the registry answers its next (authorized) request with 403
    url, header,                                  \* f.url, f.header ("none" before the fetcher exists)
    authed,                                       \* the docker authorizer holds a handler for the registry host
    pc, kind, u, h, retry, nu, nh, att, ops, res, \* per actor
    last                                          \* observation

env    == <<mode, loc, valid, needAuth, headOK, envn, regDeny>>
shared == <<url, header, authed>>
locals == <<pc, kind, u, h, retry, nu, nh, att, ops, res>>
core   == <<env, shared, locals>>
vars   == <<env, shared, locals, last>>

Locs == {"L1", "L2"}
Other(L) == IF L = "L1" THEN "L2" ELSE "L1"
SendStages == {"send", "refresh", "redirect", "head", "get"}

----------------------------------------------------------------------------
Init ==
    /\ mode = "direct" /\ loc = "L1" /\ valid = Locs /\ needAuth = FALSE /\ headOK = TRUE /\ envn = 0
    /\ regDeny = FALSE
    /\ url = "none" /\ header = "None" /\ authed = FALSE
    /\ pc = [a \in Actors |-> IF a = "res" THEN "unborn" ELSE "idle"]
    /\ kind = [a \in Actors |-> "none"]
    /\ u = [a \in Actors |-> "none"] /\ h = [a \in Actors |-> "None"]
    /\ nu = [a \in Actors |-> "none"] /\ nh = [a \in Actors |-> "None"]
    /\ retry = [a \in Actors |-> FALSE]
    /\ att = [a \in Actors |-> 1]
    /\ ops = [a \in Actors |-> 0]
    /\ res = [a \in Actors |-> "none"]
    /\ last = [act |-> "Init"]

\* the personality the registry starts with; newHTTPFetcher is called
Boot(m, na, ho) ==
    /\ pc["res"] = "unborn"
    /\ mode' = m /\ needAuth' = na /\ headOK' = ho
    /\ pc' = [pc EXCEPT !["res"] = "redirect"]
    /\ UNCHANGED <<loc, valid, envn, regDeny, shared, kind, u, h, retry, nu, nh, att, ops, res>>
    /\ last' = [act |-> "Boot", mode |-> m, needAuth |-> na, headOK |-> ho]

(* the registry and the locations                                           *)
Resp(host, meth, au) ==
    IF host = "Reg"
    THEN IF needAuth /\ au = "None" THEN "401"
         ELSE IF regDeny THEN "403"
         ELSE IF mode = "direct" THEN "ok" ELSE "redir"
    ELSE IF host \notin valid THEN "403"
         ELSE IF meth = "HEAD" /\ ~headOK THEN "405"
         ELSE "ok"

SwitchMode ==
    /\ pc["res"] # "unborn"
    /\ envn < MaxEnv
    /\ mode' = IF mode = "direct" THEN "redir" ELSE "direct"
    /\ envn' = envn + 1
    /\ UNCHANGED <<loc, valid, needAuth, headOK, regDeny, shared, locals>>
    /\ last' = [act |-> "Env", what |-> "switch", l |-> ""]

\* the registry will answer its next authorized request with 403 (once)
DenyReg ==
    /\ pc["res"] # "unborn"
    /\ envn < MaxEnv
    /\ ~regDeny
    /\ regDeny' = TRUE
    /\ envn' = envn + 1
    /\ UNCHANGED <<mode, loc, valid, needAuth, headOK, shared, locals>>
    /\ last' = [act |-> "Env", what |-> "deny", l |-> ""]

Expire(L) ==
    /\ pc["res"] # "unborn"
    /\ envn < MaxEnv
    /\ L \in valid
    /\ valid' = valid \ {L}
    /\ loc' = IF loc = L THEN Other(L) ELSE loc
    /\ envn' = envn + 1
    /\ UNCHANGED <<mode, needAuth, headOK, regDeny, shared, locals>>
    /\ last' = [act |-> "Env", what |-> "expire", l |-> L]

(* workers                                                                  *)
Start(p, k) ==
    /\ p \in Procs /\ pc[p] = "idle" /\ pc["res"] = "ready" /\ ops[p] < MaxOps
    /\ pc' = [pc EXCEPT ![p] = "readURL"]
    /\ kind' = [kind EXCEPT ![p] = k]
    /\ retry' = [retry EXCEPT ![p] = TRUE]
    /\ ops' = [ops EXCEPT ![p] = @ + 1]
    /\ res' = [res EXCEPT ![p] = "none"]
    /\ UNCHANGED <<env, shared, u, h, nu, nh, att>>
    /\ last' = [act |-> "Start", a |-> p, kind |-> k]

ReadURL(p) ==
    /\ p \in Procs /\ pc[p] = "readURL"
    /\ u' = [u EXCEPT ![p] = url]
    /\ IF HeaderReadUnderLock
       THEN /\ h' = [h EXCEPT ![p] = header] /\ pc' = [pc EXCEPT ![p] = "send"]
       ELSE /\ UNCHANGED h /\ pc' = [pc EXCEPT ![p] = "readHdr"]
    /\ UNCHANGED <<env, shared, kind, retry, nu, nh, att, ops, res>>
    /\ last' = [act |-> "ReadURL", a |-> p, url |-> url]

ReadHdr(p) ==
    /\ p \in Procs /\ pc[p] = "readHdr"
    /\ h' = [h EXCEPT ![p] = header]
    /\ pc' = [pc EXCEPT ![p] = "send"]
    /\ UNCHANGED <<env, shared, kind, u, retry, nu, nh, att, ops, res>>
    /\ last' = [act |-> "ReadHdr", a |-> p]

SetBoth(p) ==
    /\ p \in Procs /\ pc[p] = "setBoth"
    /\ url' = nu[p] /\ header' = nh[p]
    /\ IF kind[p] = "fetch"
       THEN /\ pc' = [pc EXCEPT ![p] = "readURL"]        \* return f.fetch(ctx, rs, false)
            /\ retry' = [retry EXCEPT ![p] = FALSE]
            /\ UNCHANGED res
       ELSE /\ pc' = [pc EXCEPT ![p] = "idle"]           \* check: refreshed = fine
            /\ res' = [res EXCEPT ![p] = "ok"]
            /\ UNCHANGED retry
    /\ UNCHANGED <<env, authed, kind, u, h, nu, nh, att, ops>>
    /\ last' = [act |-> "SetBoth", a |-> p, url |-> nu[p], hdr |-> nh[p]]

(* one HTTP request seen by the registry / a location                       *)
StageOf(a) == pc[a]
HostOf(a) == IF StageOf(a) \in {"refresh", "redirect"} THEN "Reg" ELSE u[a]
HdrOf(a)  == IF StageOf(a) \in {"refresh", "redirect"} THEN "Org" ELSE h[a]   \* orgHeader / host.Header
MethOf(a) == IF StageOf(a) = "head" THEN "HEAD" ELSE "GET"
AuthChoices(host) ==
    IF host = "Reg" /\ authed THEN (IF StaleAuth THEN {"Cred", "None"} ELSE {"Cred"}) ELSE {"None"}

\* what redirect() returns for an answer of the registry
RedirURL(rsp) == IF rsp = "ok" THEN "Reg" ELSE loc
RedirHdr(rsp) == IF rsp = "ok" THEN "Org" ELSE IF RedirectDropsHeaders THEN "None" ELSE "Org"

Send(a, au) ==
    /\ a \in Actors /\ StageOf(a) \in SendStages
    /\ au \in AuthChoices(HostOf(a))
    /\ LET st   == StageOf(a)
           host == HostOf(a)
           rsp  == Resp(host, MethOf(a), au)
           fin(r) == /\ pc' = [pc EXCEPT ![a] = "idle"] /\ res' = [res EXCEPT ![a] = r]
       IN
        /\ last' = [act |-> "Send", a |-> a, stage |-> st, host |-> host, hdr |-> HdrOf(a), auth |-> au,
                    meth |-> MethOf(a), rsp |-> rsp, to |-> IF rsp = "redir" THEN loc ELSE ""]
        /\ IF rsp = "401" /\ att[a] = 1
           THEN \* transport.RoundTrip: AddResponses, re-authorize, send the clone once more
                /\ authed' = TRUE
                /\ att' = [att EXCEPT ![a] = 2]
                /\ UNCHANGED <<url, header, pc, u, h, nu, nh, res>>
           ELSE /\ att' = [att EXCEPT ![a] = 1]
                /\ UNCHANGED authed
                /\ CASE st = "send" ->
                          /\ IF rsp = "ok" THEN fin("ok")
                             ELSE IF rsp = "403" /\ (kind[a] = "check" \/ retry[a])
                                  THEN pc' = [pc EXCEPT ![a] = "refresh"] /\ UNCHANGED res
                                  ELSE fin("fail")
                          /\ UNCHANGED <<url, header, u, h, nu, nh>>
                     [] st = "refresh" ->
                          /\ IF rsp \in {"ok", "redir"}
                             THEN /\ nu' = [nu EXCEPT ![a] = RedirURL(rsp)]
                                  /\ nh' = [nh EXCEPT ![a] = RedirHdr(rsp)]
                                  /\ pc' = [pc EXCEPT ![a] = "setBoth"]
                                  /\ UNCHANGED res
                             ELSE fin("fail") /\ UNCHANGED <<nu, nh>>
                          /\ UNCHANGED <<url, header, u, h>>
                     [] st = "redirect" ->
                          /\ IF rsp \in {"ok", "redir"}
                             THEN /\ u' = [u EXCEPT ![a] = RedirURL(rsp)]
                                  /\ h' = [h EXCEPT ![a] = RedirHdr(rsp)]
                                  /\ pc' = [pc EXCEPT ![a] = "head"]
                             ELSE pc' = [pc EXCEPT ![a] = "failed"] /\ UNCHANGED <<u, h>>
                          /\ UNCHANGED <<url, header, nu, nh, res>>
                     [] st \in {"head", "get"} ->
                          /\ IF rsp = "ok"
                             THEN url' = u[a] /\ header' = h[a] /\ pc' = [pc EXCEPT ![a] = "ready"]
                             ELSE /\ pc' = [pc EXCEPT ![a] = IF st = "head" THEN "get" ELSE "failed"]
                                  /\ UNCHANGED <<url, header>>
                          /\ UNCHANGED <<u, h, nu, nh, res>>
    \* the one 403 of the registry is used up by the request that receives it
    /\ regDeny' = (regDeny /\ ~(HostOf(a) = "Reg" /\ Resp("Reg", MethOf(a), au) = "403"))
    /\ UNCHANGED <<mode, loc, valid, needAuth, headOK, envn, kind, retry, ops>>

Next ==
    \/ \E m \in Modes, na \in AuthModes, ho \in HeadModes : Boot(m, na, ho)
    \/ SwitchMode
    \/ DenyReg
    \/ \E L \in Locs : Expire(L)
    \/ \E p \in Procs, k \in {"fetch", "check"} : Start(p, k)
    \/ \E p \in Procs : ReadURL(p)
    \/ \E p \in Procs : ReadHdr(p)
    \/ \E p \in Procs : SetBoth(p)
    \/ \E a \in Actors, au \in {"None", "Cred"} : Send(a, au)

Spec == Init /\ [][Next]_vars

----------------------------------------------------------------------------
(* Property C18 (headers), over the requests alone                          *)

\* headers configured for the registry host go to the registry host only, on every request path
ConfinedHeadersP(l) == l.act = "Send" => (l.hdr = "Org" => l.host = "Reg")
\* the Authorization obtained for the registry host goes to the registry host only
ConfinedAuthP(l)    == l.act = "Send" => (l.auth = "Cred" => l.host = "Reg")

ConfinedHeaders == [][ConfinedHeadersP(last')]_vars
ConfinedAuth    == [][ConfinedAuthP(last')]_vars

(* design consistency (not part of the property)                            *)
\* the shared pair is always one of the two legal combinations
PairConsistent == url # "none" => ((url = "Reg") <=> (header = "Org"))
\* the registry host does get its headers
HostHeadersDelivered == [][(last'.act = "Send" /\ last'.host = "Reg") => last'.hdr = "Org"]_vars
TypeOK ==
    /\ url \in {"none", "Reg"} \cup Locs /\ header \in {"None", "Org"}
    /\ \A a \in Actors : u[a] \in {"none", "Reg"} \cup Locs /\ h[a] \in {"None", "Org"}
=============================================================================

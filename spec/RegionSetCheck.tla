-------------------------- MODULE RegionSetCheck --------------------------
(* Exhaustive check of the transcription of regionSet.add against set      *)
(* union: every sequence of adds of regions over positions 0..MaxPos       *)
(* (the state is the slice plus the set of positions added so far; the     *)
(* number of adds is unbounded, the state space is finite).                *)
EXTENDS RegionSet, TLC

CONSTANTS MaxPos,    \* positions 0..MaxPos
          Variant    \* "code" | "nocontain" | "noadjacent"  (negative controls)

VARIABLES rs, cov, last
rvars == <<rs, cov, last>>
rcore == <<rs, cov>>

Regs == {Reg(b, e) : b \in 0..MaxPos, e \in 0..MaxPos} \ {x \in [b : 0..MaxPos, e : 0..MaxPos] : x.e < x.b}

RInit == rs = <<>> /\ cov = {} /\ last = [act |-> "Init"]
RAdd(r) ==
    /\ rs' = RSAddG(rs, r, Variant)
    /\ cov' = cov \cup RegPos(r)
    /\ last' = [act |-> "Add", r |-> r, before |-> RSTotal(rs), after |-> RSTotal(rs')]
RNext == \E r \in Regs : RAdd(r)

\* the slice denotes exactly the union of everything added
RegionSetIsUnion == RSCovered(rs) = cov
\* sorted, disjoint, touching regions merged => the representation is unique
RegionSetNormal == RSWellFormed(rs) /\ RSNormal(rs)
\* totalSize (= FetchedSize) is the number of distinct positions
TotalIsDistinctBytes == RSTotal(rs) = Cardinality(cov)
TotalMonotone == [][last'.after >= last'.before]_rvars
=============================================================================

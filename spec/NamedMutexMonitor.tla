------------------------- MODULE NamedMutexMonitor -------------------------
(* Monitor (soundness rule, DESIGN 2.5): no enabling conditions. The       *)
(* recorded observation is loaded into the variables and only the property *)
(* formulas of NamedMutex are evaluated on what the IMPLEMENTATION showed: *)
(* ent/refs come from the snapshots taken under nl.mu, pc/nm/mu are the    *)
(* history of the calls (LockSec -> acq, Acquire -> held, UnlockSec -> rel,*)
(* UnlockMu -> idle). objs (lock words of the sync.Mutex objects) is not   *)
(* observable and stays empty: formulas about it are not evaluated here.   *)
(* Order soundness in free runs: Acquire is logged after Lock returned and *)
(* UnlockSec inside Unlock's section, i.e. the logged "held" interval is   *)
(* inside the real one, so an overlap in the log is a real overlap.        *)
EXTENDS NamedMutex, Json, TLCExt

VARIABLE l
mvars == <<vars, l>>

TraceLog == ndJsonDeserialize("trace.ndjson")
Ev == TraceLog[l]
Has(f) == f \in DOMAIN Ev

MonInit == Init /\ l = 1

G == Ev.g
MonNext ==
    /\ l <= Len(TraceLog)
    /\ l' = l + 1
    /\ objs' = <<>> /\ tmp' = tmp /\ done' = done
    /\ st' = [alloc |-> TRUE, stuck |-> Ev.ev = "UnlockAbsent" /\ Ev.stuck]
    /\ IF Ev.ev = "Reset"
       THEN /\ ent' = [n \in Names |-> NoObj] /\ refs' = [n \in Names |-> 0]
            /\ pc' = [g \in Gor |-> "idle"] /\ nm' = [g \in Gor |-> NoName] /\ mu' = [g \in Gor |-> NoObj]
            /\ last' = [act |-> "Init"]
       ELSE /\ ent'  = IF Has("ent") THEN [n \in Names |-> Ev.ent[n]] ELSE ent
            /\ refs' = IF Has("ent") THEN [n \in Names |-> Ev.refs[n]] ELSE refs
            /\ pc' = CASE Ev.ev = "LockSec"   -> [pc EXCEPT ![G] = "acq"]
                       [] Ev.ev = "Acquire"   -> [pc EXCEPT ![G] = "held"]
                       [] Ev.ev = "UnlockSec" -> [pc EXCEPT ![G] = "rel"]
                       [] Ev.ev = "UnlockMu"  -> [pc EXCEPT ![G] = "idle"]
                       [] OTHER -> pc
            /\ nm' = CASE Ev.ev = "LockSec"  -> [nm EXCEPT ![G] = Ev.n]
                       [] Ev.ev = "UnlockMu" -> [nm EXCEPT ![G] = NoName]
                       [] OTHER -> nm
            /\ mu' = CASE Ev.ev \in {"LockSec", "UnlockSec"} -> [mu EXCEPT ![G] = Ev.o]
                       [] Ev.ev = "UnlockMu" -> [mu EXCEPT ![G] = NoObj]
                       [] OTHER -> mu
            /\ last' = CASE Ev.ev = "UnlockAbsent" -> [act |-> "UnlockAbsent", g |-> G, n |-> Ev.n, panic |-> Ev.panic, stuck |-> Ev.stuck]
                         [] Ev.ev = "Panic" -> [act |-> "UnlockMu", g |-> G, panic |-> TRUE, fatal |-> FALSE]
                         [] Ev.ev = "UnlockMu" -> [act |-> "UnlockMu", g |-> G, panic |-> FALSE, fatal |-> FALSE]
                         [] Ev.ev = "Hang"  -> [act |-> "Hang", g |-> G]
                         [] Ev.ev = "Acquire" -> [act |-> "Acquire", g |-> G, n |-> Ev.n, c |-> Ev.c]
                         [] OTHER -> [act |-> Ev.ev]

MonSpec == MonInit /\ [][MonNext]_mvars

Loaded == TraceLog[l - 1]

(* the map part of SameObject: everybody who holds or waits for a name got the mutex object that is in the map *)
MonSameObject == \A n \in Names : \A g \in Users(n) : mu[g] = ent[n]
(* the caller's own per-name in-section counter (plain int, incremented after Lock, decremented before Unlock) *)
MonInSectionCounter == last.act = "Acquire" => last.c = 1
(* map sizes as recorded (a key outside the projected names, or a zero-valued count entry, would show here) *)
MonMapSizes ==
    (l > 1 /\ "nmu" \in DOMAIN Loaded) =>
        /\ Cardinality({n \in Names : ent[n] # NoObj}) = Loaded.nmu
        /\ Cardinality({n \in Names : refs[n] # 0}) = Loaded.nref
(* a step of Lock/Unlock that did not complete although nobody holds (or is releasing) the name: *)
(* IndependentNames / LockReturns on the implementation                                           *)
MonLockReturnsWhenFree ==
    last.act = "Hang" =>
        /\ pc[last.g] = "acq"
        /\ \E h \in Gor \ {last.g} : nm[h] = nm[last.g] /\ pc[h] \in {"held", "rel"}
=============================================================================

\* exhaustive: 2 chunks, 2 prefetch workers, 2 on-demand reads (three steps each), 2 alterations, one Verify call + skip
CONSTANTS
    NC = 2
    NWk = 2
    NRd = 2
    MaxAlter = 2
    MaxVerify = 1
    Kinds = {"s", "k"}
    Tocs = {"D", "X"}
    Args = {"D", "W"}
    AtomicRead = FALSE
    AtomicVerify = FALSE
    WithSkip = FALSE
    WithPass = TRUE
    WithTry = TRUE
    DecideUnderLock = TRUE
    AbortWhenProhibited = TRUE
    VerifyBeforeCache = TRUE
    RecheckCachedLayer = TRUE
    PassVerifies = TRUE
INIT Init
NEXT Next
VIEW core
INVARIANTS MountImpliesToc ServedAreGood NoBadStaysCached FailedReadLeavesNothing TypeOK
CHECK_DEADLOCK FALSE

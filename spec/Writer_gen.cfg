\* generation: cases for the replay
CONSTANTS
    Sizes = {0, 1, 3, 4, 5, 9}
    MaxEntries = 3
    ChunkSz = 4
    Modes = {"build", "writer", "lossless"}
    WorkerSet = {1, 2, 3}
    MinOnSet = {FALSE}
    OffsetAfterClose = TRUE
    InnerFromStreamStart = TRUE
    RebaseChunks = TRUE
    KeepChunkSize = TRUE
    DivideKeepsAll = TRUE
    LandmarkOwnStream = TRUE
    KeepLastDup = TRUE
    ReservedByFullName = TRUE
    RefuseUnknownType = TRUE
INIT GenInit
NEXT GenNext
CHECK_DEADLOCK FALSE

---------------------------- MODULE StoreTrace ----------------------------
(* Trace validation (implementation -> specification) for Store.            *)
(* Input: trace.ndjson, one event per call on the real LayerManager (or on  *)
(* the FUSE bridge over fs.go), recorded by harness/store after the resolve *)
(* goroutines of the call have finished. Traces are separated by "Reset".   *)
(*   Lookup  r, t, kind, fail (array), cancel (caller gave up), res          *)
(*   Use     r, t, res, n (manager mode only)                               *)
(*   Release r, t, res, n (manager mode only)                               *)
(*   layer, cnt, memo, out, pool, kids (fuse)   projection AFTER the call;  *)
(*   absent in the events of a racing run except the last one               *)
EXTENDS Store, Json, TLCExt

VARIABLE l
tvars == <<vars, l>>

TraceLog == ndJsonDeserialize("trace.ndjson")
Ev == TraceLog[l]
Has(f) == f \in DOMAIN Ev
SeqRange(s) == {s[i] : i \in 1..Len(s)}

IsEvent(e) == l <= Len(TraceLog) /\ Ev.ev = e /\ l' = l + 1

\* what the implementation showed after the call must equal the specification's state
ObsOK ==
    Has("layer") =>
        /\ \A r \in Refs : \A t \in T : layer'[r][t] = Ev.layer[r][t] /\ cnt'[r][t] = Ev.cnt[r][t]
        /\ \A r \in Refs : \A x \in Own(r) : memo'[r][x] = Ev.memo[r][x] /\ out'[r][x] = Ev.out[r][x]
        /\ \A r \in Refs : pool'[r] = Ev.pool[r]
        /\ Has("kids") => \A r \in Refs : \A t \in T : kids'[r][t] = SeqRange(Ev.kids[r][t])
        /\ ~Has("foreign")
        /\ ~Has("cancelmiss")   \* a lookup that was to be cancelled with a registry request pending did not ask the registry

TraceInit == Init /\ l = 1 /\ TLCSet(1, 0)

TraceReset ==
    /\ IsEvent("Reset")
    /\ layer' = [r \in Refs |-> [t \in T |-> FALSE]]
    /\ cnt' = [r \in Refs |-> [t \in T |-> NoCnt]]
    /\ memo' = [r \in Refs |-> [x \in Own(r) |-> "none"]]
    /\ out' = [r \in Refs |-> [x \in Own(r) |-> 0]]
    /\ pool' = [r \in Refs |-> 0]
    /\ rc' = [r \in Refs |-> [x \in Own(r) |-> FALSE]]
    /\ kids' = [r \in Refs |-> [t \in T |-> {}]]
    /\ last' = [act |-> "Init"]
    /\ ObsOK

TraceLookup ==
    /\ IsEvent("Lookup")
    /\ Lookup(Ev.r, Ev.t, Ev.kind, SeqRange(Ev.fail), Ev.cancel)
    /\ last'.res = Ev.res
    /\ ObsOK
TraceUse ==
    /\ IsEvent("Use")
    /\ Use(Ev.r, Ev.t)
    /\ Has("n") => last'.n = Ev.n
    /\ ObsOK
TraceRelease ==
    /\ IsEvent("Release")
    /\ Release(Ev.r, Ev.t)
    /\ last'.res = Ev.res
    /\ Has("n") => last'.n = Ev.n
    /\ ObsOK

TraceNext == TraceReset \/ TraceLookup \/ TraceUse \/ TraceRelease

TraceSpec == TraceInit /\ [][TraceNext]_tvars

\* high-water mark of consumed lines (register 1) and acceptance
HighWater == IF l - 1 > TLCGet(1) THEN TLCSet(1, l - 1) ELSE TRUE
TraceAccepted ==
    IF TLCGet(1) = Len(TraceLog) THEN TRUE
    ELSE /\ PrintT("VREJECT " \o ToString(TLCGet(1)) \o " " \o ToString(Len(TraceLog)))
         /\ FALSE
=============================================================================

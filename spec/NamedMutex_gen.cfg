CONSTANTS
    Gor = {1, 2, 3}
    Names = {"a", "b"}
    Rounds = 1
    DeleteOnlyAtZero = TRUE
    CountWaiters = TRUE
    OuterMutex = TRUE
    UnlockOrder = "dec_first"
    AllowAbsent = TRUE
    NilMapGuard = TRUE
INIT GenInit
NEXT GenNext
VIEW core
CHECK_DEADLOCK FALSE

\* trace validation; constants overridden per job (MPs, Blobs, config flags)
CONSTANTS
    MPs = {"m1", "m2"}
    Blobs = {"b1"}
    Labs = {"ok", "bad", "skip", "none", "malformed", "mirror"}
    Ops = {"Mount", "Check", "Unmount"}
    MaxCalls = 1000
    MaxConc = 1000
    MaxObj = 1000
    SameMp = FALSE
    OneMount = FALSE
    AllowNoVerif = TRUE
    DisableVerif = FALSE
    NoPrefetch = TRUE
    NoBgFetch = TRUE
    PreRes = FALSE
    Expiry = FALSE
    ReleaseOnFail = TRUE
    EraseOnFail = TRUE
    VerifyFirst = TRUE
    SkipNeedsAllow = TRUE
    UnmountCloses = TRUE
    CheckOwnKey = TRUE
    DoneAlways = TRUE
    BgRespectsPrio = TRUE
SPECIFICATION TraceSpec
CONSTRAINT HighWater
INVARIANTS MountedIffInMap NoUnverifiedInMap DoDoneBalanced
POSTCONDITION TraceAccepted
CHECK_DEADLOCK FALSE

\* NOT claimed: with ImageFullyDropped TLC must find the speculatively resolved sibling that stays cached
CONSTANTS
    Images <- Img1x2
    Fuse = FALSE
    Kinds = {"diff"}
    Errors = TRUE
    AllTargets = FALSE
    MaxCnt = 2
    MaxNeg = 1
    DeleteInnerCounter = TRUE
    ForgetMemoOfReleased = TRUE
    ResetMemoAtLastRelease = TRUE
    DropOnlyAtZero = TRUE
    DoneDuplicate = TRUE
    ResolveDetached = TRUE
    Cancels = TRUE
INIT Init
NEXT Next
VIEW core
INVARIANTS CountNonNegative HeldWhileCached HandlesMatchLayers TypeOK OnlyOwnCached MemoOkMeansCached TrackedPositive NoCancelRemembered
PROPERTIES ImageFullyDropped
CHECK_DEADLOCK FALSE

CONSTANTS
    Keys = {"k1", "k2"}
    Kind = "ttl"
    Cap = 0
    MaxV = 2
    MaxH = 3
    OnceGuards = TRUE
    IdentityCheck = TRUE
    CallbackAtZero = TRUE
INIT GenInit
NEXT GenNext
VIEW core
CHECK_DEADLOCK FALSE

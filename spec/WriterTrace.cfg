CONSTANTS
    Sizes = {0}
    MaxEntries = 0
    ChunkSz = 4
    Modes = {}
    WorkerSet = {}
    MinOnSet = {}
    OffsetAfterClose = TRUE
    InnerFromStreamStart = TRUE
    RebaseChunks = TRUE
    KeepChunkSize = TRUE
    DivideKeepsAll = TRUE
    LandmarkOwnStream = TRUE
    KeepLastDup = TRUE
    ReservedByFullName = TRUE
    RefuseUnknownType = TRUE
SPECIFICATION TraceSpec
CONSTRAINT HighWater
INVARIANTS TocAddressesRightBytes ChunksTileFile OffsetsUniquePerStreamStart EntriesPreserved DiffIDIsHashOfDecompressed TocDigestIsHashOfTocJSON LosslessIdentity
POSTCONDITION TraceAccepted
CHECK_DEADLOCK FALSE

------------------------------- MODULE Labels -------------------------------
(* C20 - snapshot labels written at pull time reproduce the layer's source  *)
(* at mount time.                                                           *)
(*                                                                          *)
(* The label protocol of stargz-snapshotter, transcribed operator by        *)
(* operator from the Go code:                                               *)
(*   writer  fs/source/source.go  AppendDefaultLabelsHandlerWrapper         *)
(*                                AppendExtraLabelsHandler (on top of       *)
(*                                containerd's snapshotters.               *)
(*                                AppendInfoHandlerWrapper, as rpull.go     *)
(*                                wires it), appendWithValidation,          *)
(*                                layerFromDigest                           *)
(*   reader  fs/source/source.go  FromDefaultLabels                         *)
(*           service/cri.go       sourceFromCRILabels                       *)
(*           service/service.go   sources(cri, default)  ("chain")          *)
(*   limit   containerd pkg/labels.Validate: len(key)+len(value) <= 4096    *)
(*                                                                          *)
(* The property quantifies over an INPUT space, not over schedules: the     *)
(* state machine only makes TLC enumerate it:                               *)
(*   Choose a manifest (config + entries [digest id, url ids, isLayer]),    *)
(*   an image ref, a prefetch size, a handler flavour                       *)
(*   -> Pick a layer child: its annotations are computed the way the        *)
(*      handler computes them while containerd walks the children           *)
(*   -> Tamper* (remove / empty / corrupt labels, in a fixed key order)     *)
(*   -> ReadBack with one of the readers.                                   *)
(*                                                                          *)
(* Abstraction. Strings are (length, token list): a label value is          *)
(*   [len |-> number of bytes, items |-> the comma separated tokens]        *)
(* a token is a positive id (digest id, url id, ref id, prefetch id), 0 for  *)
(* the empty string, or -id for a malformed spelling of id (does not parse).*)
(* Digest strings are DLen = 71 bytes ("sha256:" + 64 hex), keys are the    *)
(* real key strings (Len(key) is their exact length), URL / ref / prefetch  *)
(* lengths come from the tables below, which the Go driver receives from    *)
(* TLC (VTAB) and materialises as strings of exactly these lengths.         *)
(*                                                                          *)
(* Deliberate deviations / bounds (all named):                              *)
(*  - URLs and refs contain no ','  (the protocol joins with ',').          *)
(*  - layer descriptors that already carry containerd.io/snapshot/remote/*  *)
(*    annotations in the manifest are modelled (family "edge", field pre):  *)
(*    the default handler OVERWRITES every key it writes; the extra handler *)
(*    KEEPS a pre-set urls / urls.<j> / prefetch key ("nop if this key is   *)
(*    already set" in the code). With such a manifest the C20 formulas are  *)
(*    FALSE for the extra flavour (known finding :fl=extra:preset). Guard   *)
(*    ExtraStripsPreset: TRUE = repaired design (checked exhaustively),     *)
(*    FALSE = the pinned code (negative control; used for conformance);     *)
(*    the keeping itself is pinned by ExtraKeepsPreset.                     *)
(*  - entries with equal digests have the same media-type class             *)
(*    (TypeByDigest), the config digest differs from every layer digest.    *)
(*  - tampering never turns a value into a DIFFERENT well-formed value      *)
(*    (labels are the only information the reader has).                     *)
EXTENDS Integers, Sequences, FiniteSets, TLC, Json

CONSTANTS
    MaxSize,            \* 4096 (labels.Validate)
    Family,             \* "full" | "pattern" | "long" | "tamper": which manifests Choose ranges over
    MaxLayers,          \* full: 0..MaxLayers entries; pattern: exactly MaxLayers
    MaxD,               \* number of distinct digest ids (full/pattern)
    LongNs,             \* long family: numbers of layers
    RefPfs,             \* set of 10*refid + prefetchid
    Flavours,           \* subset of {"default", "extra"}
    Readers,            \* subset of {"default", "cri", "chain"}
    MatchedOnly,        \* TRUE: only readers that match the flavour (default->default, extra->cri; chain always allowed)
    MaxTamper,          \* number of tamper steps
    NVariants,          \* spellings of a malformed ref / digest (1..4; the driver knows 4); the model treats them alike
    Emit,               \* print every case as JSON (generation for the replay)
    \* ---- the code's property-bearing guards; each can be switched off as a negative control
    ValidateLayers,     \* labels.Validate in the layers loop (default handler) / getLayers (containerd)
    ValidateUrls,       \* labels.Validate in appendWithValidation
    CountSeparator,     \* appendWithValidation validates the value INCLUDING the ',' it is about to append
                        \* (FALSE: validates v+u, then appends ","+u - a label of MaxSize+1 bytes can result)
    WriteEmptyUrlLabels,\* the default handler writes urls / urls.<i> even for an empty URL list, which is what
                        \* overwrites same-named annotations already present on the manifest's descriptor
    ExtraStripsPreset,  \* TRUE: repaired design - the extra handler's urls / urls.<j> / prefetch labels never come from
                        \*       annotations the manifest's descriptor already carried
                        \* FALSE: the pinned code ("nop if this key is already set"): RoundTrip / PrefetchSizeRoundTrips are
                        \*       false for crafted manifests (KNOWN finding); negative control and conformance setting
    WholeDigests,       \* the layers list stops BEFORE a digest that does not fit (never cut inside one)
    UrlIdx,             \* "layer": the default handler keys urls.<i> by position in the layers label (what the
                        \*          reader uses) - the code after the commit "fix: index neighbour URL labels by
                        \*          position in the layers label"
                        \* "child": by position in children[i:], counting non-layer children - the pinned code, on
                        \*          which RoundTrip is false (finding of this check); kept as negative control
    ReaderChecksRef,    \* reader rejects a missing / unparsable reference label
    ReaderChecksDigest, \* reader rejects a missing / unparsable digest label (and unparsable layers entries)
    StopAtFirstMisfit,  \* the default handler's layers loop BREAKS at the first digest that does not fit (FALSE: it skips
                        \* it and goes on - with mixed digest lengths the list gets a hole and is no prefix any more)
    ReaderPure,         \* the reader does not modify the label map it is given (FALSE: it deletes the urls* keys from
                        \* it after use - the snapshotter stores that very map, every later read has no URLs)
    ReaderResetsUrls,   \* a neighbour without a urls.<i> label has NO URLs (FALSE: it inherits the previous neighbour's)
    ReaderSkipsTarget   \* reader leaves occurrences of the target's own digest out of the neighbour list

\* ---------------------------------------------------------------- tables
DLen == 71                                  \* "sha256:" + 64 hex
DLenBig == 135                              \* "sha512:" + 128 hex: digest ids >= BigDigestFrom (and < ManifestDigest)
BigDigestFrom == 500
DLenOf(d) == IF d >= BigDigestFrom /\ d < 900 THEN DLenBig ELSE DLen
ULenTab == <<1, 1500, 3000, 4100>>          \* url ids 1..4; 0 is the empty string
ULenMid == 30                               \* url ids 10..999
ULenBig == 120                              \* url ids >= BigFrom
BigFrom == 1000
ExactFrom == 100000                         \* url id ExactFrom + n is a URL of exactly n bytes (boundary family)
ULen(u) == IF u = 0 THEN 0 ELSE IF u >= ExactFrom THEN u - ExactFrom
           ELSE IF u <= Len(ULenTab) THEN ULenTab[u] ELSE IF u < BigFrom THEN ULenMid ELSE ULenBig
RefLenTab == <<25, 300>>                    \* ref ids 1, 2: abstract references of these lengths (built by the driver)
\* ref ids 3..8: CONCRETE reference shapes, compared byte for byte: the driver puts exactly this string into the
\* handler and projects what the reader reconstructs (reference.Spec.String()) back to the id only if it is the
\* identical string - name:tag, name@digest, name:tag@digest, host:port/name:tag, docker.io as containerd writes it
RefDgst == "sha256:0123456789abcdef0123456789abcdef0123456789abcdef0123456789abcdef"
RefStr == <<"", "",
            "ghcr.io/stargz-containers/ubuntu:22.04-esgz",
            "ghcr.io/stargz-containers/ubuntu@" \o RefDgst,
            "ghcr.io/stargz-containers/ubuntu:22.04@" \o RefDgst,
            "registry.local:5000/team/app:v1",
            "docker.io/library/alpine:3.19",
            "docker.io/library/busybox:latest@" \o RefDgst>>
RefLen(r) == IF RefStr[r] = "" THEN RefLenTab[r] ELSE Len(RefStr[r])
PfTab == <<[v |-> "0", len |-> 1], [v |-> "10485760", len |-> 8], [v |-> "9223372036854775807", len |-> 19]>>
ManifestDigest == 900                       \* digest id of the manifest itself (cri.manifest-digest)
ConfigDigest == 0

RefKey      == "containerd.io/snapshot/remote/stargz.reference"
DigestKey   == "containerd.io/snapshot/remote/stargz.digest"
LayersKey   == "containerd.io/snapshot/remote/stargz.layers"
PrefetchKey == "containerd.io/snapshot/remote/stargz.prefetch"
UrlsKey     == "containerd.io/snapshot/remote/urls"
UrlsIdxKey(i) == "containerd.io/snapshot/remote/urls." \o ToString(i)
CriRefKey      == "containerd.io/snapshot/cri.image-ref"
CriDigestKey   == "containerd.io/snapshot/cri.layer-digest"
CriLayersKey   == "containerd.io/snapshot/cri.image-layers"
CriManifestKey == "containerd.io/snapshot/cri.manifest-digest"

DefK == [ref |-> RefKey, digest |-> DigestKey, layers |-> LayersKey]
CriK == [ref |-> CriRefKey, digest |-> CriDigestKey, layers |-> CriLayersKey]

Val(items, len) == [len |-> len, items |-> items]
EmptyVal == Val(<<>>, 0)

\* ---------------------------------------------------------------- manifests
\* pre: annotations the descriptor already carries in the manifest, a sequence of [k |-> key, u |-> url id]
\* (the pre-set value is always the single foreign URL u, whatever the key)
EntryP(d, urls, isL, pre) == [d |-> d, urls |-> urls, isLayer |-> isL, pre |-> pre]
Entry(d, urls, isL) == EntryP(d, urls, isL, <<>>)
ConfigEntry == Entry(ConfigDigest, <<>>, FALSE)
\* images.Children: config first, then manifest.Layers
Children(man) == <<ConfigEntry>> \o man

\* digest ids appear in the order 1, 2, 3, ... of first occurrence (one representative per renaming)
Canonical(m) == \A i \in 1..Len(m) : m[i].d = 1 \/ \E j \in 1..(i - 1) : m[j].d >= m[i].d - 1
TypeByDigest(m) == \A a, b \in 1..Len(m) : m[a].d = m[b].d => m[a].isLayer = m[b].isLayer

UrlLists == {<<>>, <<1>>, <<2, 3>>}
\* (operators with an argument so that TLC does not evaluate the families a config does not use)
FullManifests(ml) ==
    UNION {{m \in [1..n -> [d : 1..MaxD, urls : UrlLists, isLayer : BOOLEAN, pre : {<<>>}]] : Canonical(m) /\ TypeByDigest(m)}
           : n \in 0..ml}

Patterns == {"own", "none", "alt", "big1", "huge2"}
PatUrls(p, i) ==
    CASE p = "own"   -> <<10 + i>>
      [] p = "none"  -> <<>>
      [] p = "alt"   -> IF i % 2 = 1 THEN <<10 + i>> ELSE <<>>
      [] p = "big1"  -> IF i = 1 THEN <<2, 3>> ELSE <<10 + i>>
      [] p = "huge2" -> IF i = 2 THEN <<4, 1>> ELSE <<10 + i>>
PatternManifests(n) ==
    LET base == {m \in [1..n -> [d : 1..MaxD, isLayer : BOOLEAN]] : Canonical(m) /\ TypeByDigest(m)}
    IN {[i \in 1..n |-> Entry(b[i].d, PatUrls(p, i), b[i].isLayer)] : b \in base, p \in Patterns}

LongPatterns == {"none", "own", "many", "nonlayer3", "repeat", "mixed"}
LongEntry(p, i) ==
    CASE p = "none"      -> Entry(i, <<>>, TRUE)
      [] p = "own"       -> Entry(i, <<100 + i>>, TRUE)
      [] p = "many"      -> Entry(i, IF i <= 2 THEN [k \in 1..40 |-> 1000 * i + k] ELSE <<100 + i>>, TRUE)
      [] p = "nonlayer3" -> Entry(i, <<100 + i>>, i # 3)
      [] p = "repeat"    -> Entry(((i - 1) % 50) + 1, <<100 + ((i - 1) % 50) + 1>>, TRUE)
      \* mixed digest lengths: 55 sha256 layers leave 93 bytes in the layers label of layer 1; entry 56 is a sha512
      \* digest (136 with ',': the first misfit), the entries after it are sha256 again (72: would still fit)
      [] p = "mixed"     -> Entry(IF i = 56 THEN BigDigestFrom + i ELSE i, <<100 + i>>, TRUE)
LongManifests(ns) == {[i \in 1..n |-> LongEntry(p, i)] : n \in ns, p \in LongPatterns}
LongTargets(n) == {t \in {1, 2, 3, 4, n - 57, n - 56, n - 55, n - 54, n} : t >= 1 /\ t <= n}

TamperManifests ==
    { <<Entry(1, <<11>>, TRUE), Entry(2, <<12>>, TRUE)>>,
      <<Entry(1, <<>>, TRUE), Entry(2, <<12>>, TRUE), Entry(1, <<11>>, TRUE)>>,
      \* four distinct layers, each with its own URL: removing urls.2 / urls.3 leaves a neighbour without URLs while an
      \* EARLIER neighbour has some (urls.0 is the target's own entry and urls.1 always the first neighbour's)
      <<Entry(1, <<11>>, TRUE), Entry(2, <<12>>, TRUE), Entry(3, <<13>>, TRUE), Entry(4, <<14>>, TRUE)>> }

\* ---- family "edge", part 1: URL lists that land exactly on / next to the label size limit.
\* For a URL-carrying key of klen bytes the list is chosen so that key + joined value would be T bytes,
\* T in MaxSize-2 .. MaxSize+1 (the code's own check counts one trailing ',', so it accepts T <= MaxSize-1).
Filler(n) == ExactFrom + n
BList(klen, shape, T) ==
    CASE shape = "one"   -> <<Filler(T - klen)>>
      [] shape = "two"   -> <<21, Filler(T - klen - ULenMid - 1)>>
      [] shape = "three" -> <<21, Filler(T - klen - ULenMid - 1), 22>>       \* 22 follows a (possible) cut
BoundaryManifests ==
    UNION {{ <<Entry(1, BList(kl, sh, T), TRUE), Entry(2, <<12>>, TRUE)>>,
             <<Entry(1, <<11>>, TRUE), Entry(2, BList(kl, sh, T), TRUE)>> }
           : kl \in {Len(UrlsKey), Len(UrlsIdxKey(1))}, sh \in {"one", "two", "three"},
             T \in (MaxSize - 2)..(MaxSize + 1)}
\* ---- family "edge", part 2: layer descriptors that already carry remote/* annotations with a foreign value
ForeignUrl == 9
PreKeys == <<UrlsKey, UrlsIdxKey(0), UrlsIdxKey(1), RefKey, DigestKey, LayersKey, PrefetchKey>>
PreSeqs == {<<[k |-> PreKeys[a], u |-> ForeignUrl]>> : a \in 1..Len(PreKeys)}
           \cup {<<[k |-> PreKeys[a], u |-> ForeignUrl], [k |-> PreKeys[b], u |-> ForeignUrl]>>
                 : a \in 1..Len(PreKeys), b \in 2..Len(PreKeys)}
PresetManifests ==
    UNION {{ <<EntryP(1, u1, TRUE, pre), Entry(2, u2, TRUE)>>,
             <<Entry(1, u1, TRUE), EntryP(2, u2, TRUE, pre)>> }
           : u1 \in {<<>>, <<11>>}, u2 \in {<<>>, <<12>>},
             pre \in {q \in PreSeqs : Len(q) = 1 \/ \E a, b \in 1..Len(PreKeys) : a < b /\ q[1].k = PreKeys[a] /\ q[2].k = PreKeys[b]}}

Manifests ==
    CASE Family = "full"    -> FullManifests(MaxLayers)
      [] Family = "pattern" -> PatternManifests(MaxLayers)
      [] Family = "long"    -> LongManifests(LongNs)
      [] Family = "tamper"  -> TamperManifests
      [] Family = "edge"    -> BoundaryManifests \cup PresetManifests

\* child indexes (1-based in Children(man); Go index = this - 1) of the layer children one may Pick
Targets(man) ==
    LET ch == Children(man)
        all == {t \in 1..Len(ch) : ch[t].isLayer}
    IN IF Family = "long" THEN {t \in all : (t - 1) \in LongTargets(Len(man))} ELSE all

\* ---------------------------------------------------------------- writer
\* appendWithValidation(key, values); acc is the string v with its trailing commas
RECURSIVE AWVLoop(_, _, _)
AWVLoop(klen, vals, acc) ==
    IF vals = <<>> THEN acc
    ELSE LET u == Head(vals) IN
         LET seen == IF CountSeparator THEN acc.len + ULen(u) + 1                              \* len(v + u + ",")
                     ELSE acc.len - (IF acc.len > 0 THEN 1 ELSE 0) + ULen(u)                  \* len(v' + u), v' without trailing ','
         IN
         IF ValidateUrls /\ klen + seen > MaxSize THEN acc                                     \* break
         ELSE AWVLoop(klen, Tail(vals), Val(Append(acc.items, u), acc.len + ULen(u) + 1))
\* strings.TrimSuffix(v, ","): v is empty or ends with ","
Trimmed(acc) == Val(acc.items, IF acc.len > 0 THEN acc.len - 1 ELSE 0)
AWV(key, urls) == Trimmed(AWVLoop(Len(key), urls, EmptyVal))

\* AppendDefaultLabelsHandlerWrapper: for i, l := range children[i:]
\*   rest = remaining part of children[i:], k = Go index into children[i:], nl = number of digests in `layers`
\*   acc = `layers` with trailing commas, ann = url annotations written so far
RECURSIVE DefLoop(_, _, _, _, _)
DefLoop(rest, k, nl, acc, ann) ==
    IF rest = <<>> THEN [acc |-> acc, ann |-> ann]
    ELSE LET l == Head(rest) IN
         IF ~l.isLayer THEN DefLoop(Tail(rest), k + 1, nl, acc, ann)
         ELSE IF ValidateLayers /\ Len(LayersKey) + acc.len + DLenOf(l.d) + 1 > MaxSize
              THEN IF ~StopAtFirstMisfit THEN DefLoop(Tail(rest), k + 1, nl, acc, ann)   \* (negative control) continue
                   ELSE IF WholeDigests THEN [acc |-> acc, ann |-> ann]        \* break
                   ELSE \* negative control: fill the remaining room with the head of the digest string
                        LET room == MaxSize - Len(LayersKey) - acc.len
                        IN [acc |-> IF room > 0 THEN Val(Append(acc.items, -l.d), acc.len + room + 1) ELSE acc,
                            ann |-> ann]
              ELSE LET key == UrlsIdxKey(IF UrlIdx = "layer" THEN nl ELSE k)
                   IN DefLoop(Tail(rest), k + 1, nl + 1,
                              Val(Append(acc.items, l.d), acc.len + DLenOf(l.d) + 1),
                              IF WriteEmptyUrlLabels \/ l.urls # <<>> THEN (key :> AWV(key, l.urls)) @@ ann ELSE ann)

\* the annotations a descriptor carries in the manifest (keys are distinct). Under a URL key the foreign value is
\* the URL u; under any other key the same bytes are not a well-formed reference / digest / number: token -u
IsUrlKey(k) == k = UrlsKey \/ k \in {UrlsIdxKey(i) : i \in 0..99}
PreItems(e) == IF IsUrlKey(e.k) THEN <<e.u>> ELSE <<0 - e.u>>
PreAnn(c) == [key \in {c.pre[i].k : i \in 1..Len(c.pre)} |->
                LET i == CHOOSE ii \in 1..Len(c.pre) : c.pre[ii].k = key IN Val(PreItems(c.pre[i]), ULen(c.pre[i].u))]

DefaultAnn(man, t, ref, pf) ==
    LET ch == Children(man)
        c == ch[t]
        loop == DefLoop(SubSeq(ch, t, Len(ch)), 0, 0, EmptyVal, <<>>)
    IN (RefKey :> Val(<<ref>>, RefLen(ref)))
       @@ (DigestKey :> Val(<<c.d>>, DLenOf(c.d)))
       @@ loop.ann
       @@ (LayersKey :> Trimmed(loop.acc))
       @@ (PrefetchKey :> Val(<<pf>>, PfTab[pf].len))
       @@ (IF WriteEmptyUrlLabels \/ c.urls # <<>> THEN (UrlsKey :> AWV(UrlsKey, c.urls)) ELSE <<>>)
       @@ PreAnn(c)          \* c.Annotations as it came with the manifest: every key written above overwrites it

\* containerd snapshotters.getLayers(key, children[i:], labels.Validate): no trailing comma
RECURSIVE CriLayersLoop(_, _)
CriLayersLoop(rest, acc) ==
    IF rest = <<>> THEN acc
    ELSE LET l == Head(rest) IN
         IF ~l.isLayer THEN CriLayersLoop(Tail(rest), acc)
         ELSE LET add == DLenOf(l.d) + (IF acc.len > 0 THEN 1 ELSE 0) IN
              IF ValidateLayers /\ Len(CriLayersKey) + acc.len + add > MaxSize THEN acc
              ELSE CriLayersLoop(Tail(rest), Val(Append(acc.items, l.d), acc.len + add))

\* layerFromDigest(children, d): FIRST child (of all children) with that digest
FirstWithDigest(ch, d) ==
    LET S == {i \in 1..Len(ch) : ch[i].d = d}
    IN IF S = {} THEN 0 ELSE CHOOSE i \in S : \A j \in S : i <= j

\* AppendExtraLabelsHandler(prefetchSize, snapshotters.AppendInfoHandlerWrapper(ref))
ExtraAnn(man, t, ref, pf) ==
    LET ch == Children(man)
        c == ch[t]
        nl == CriLayersLoop(SubSeq(ch, t, Len(ch)), EmptyVal)
        wrapper == (CriRefKey :> Val(<<ref>>, RefLen(ref)))
                   @@ (CriDigestKey :> Val(<<c.d>>, DLenOf(c.d)))
                   @@ (CriLayersKey :> nl)
                   @@ (CriManifestKey :> Val(<<ManifestDigest>>, DLen))
        \* for j, dstr := range strings.Split(nlayers, ","): l, ok := layerFromDigest(children, d); if !ok continue
        J == {j \in 1..Len(nl.items) :
                LET f == FirstWithDigest(ch, nl.items[j]) IN f # 0 /\ ch[f].isLayer}
        urlann == [key \in {UrlsIdxKey(j - 1) : j \in J} |->
                     LET j == CHOOSE jj \in J : UrlsIdxKey(jj - 1) = key
                     IN AWV(key, ch[FirstWithDigest(ch, nl.items[j])].urls)]
        \* "nop if this key is already set": what came with the manifest wins over the three below (pinned code);
        \* in the repaired design the manifest's urls / urls.<j> / prefetch annotations are dropped first
        pre == IF ExtraStripsPreset
               THEN [k \in {x \in DOMAIN PreAnn(c) : ~IsUrlKey(x) /\ x # PrefetchKey} |-> PreAnn(c)[k]]
               ELSE PreAnn(c)
    IN wrapper
       @@ pre
       @@ (UrlsKey :> AWV(UrlsKey, c.urls))
       @@ (PrefetchKey :> Val(<<pf>>, PfTab[pf].len))
       @@ urlann

Writer(man, t, ref, pf, fl) == IF fl = "default" THEN DefaultAnn(man, t, ref, pf) ELSE ExtraAnn(man, t, ref, pf)

\* ---------------------------------------------------------------- tampering
\* fixed order of the keys a tamper step may hit (steps go through it upwards, so every SUBSET is reached once)
TKeys == <<RefKey, DigestKey, LayersKey, PrefetchKey, UrlsKey, UrlsIdxKey(0), UrlsIdxKey(1), UrlsIdxKey(2),
           CriRefKey, CriDigestKey, CriLayersKey, UrlsIdxKey(3)>>
\* malformed reference spellings: 4 derived from the reference + host-less "ubuntu:22.04", "app:v1" and " "
RefVariants == IF NVariants >= 4 THEN 7 ELSE NVariants
TamperOps(lbl, from) ==
    {[op |-> "rm", key |-> p, j |-> 0, var |-> 0] : p \in {q \in from..Len(TKeys) : TKeys[q] \in DOMAIN lbl}}
    \cup {[op |-> "empty", key |-> p, j |-> 0, var |-> 0] : p \in {q \in from..Len(TKeys) : TKeys[q] \in DOMAIN lbl}}
    \cup UNION {{[op |-> "corrupt", key |-> p, j |-> 1, var |-> v] :
                    v \in 1..(IF TKeys[p] \in {RefKey, CriRefKey} THEN RefVariants ELSE NVariants)}
                : p \in {q \in from..Len(TKeys) : TKeys[q] \in DOMAIN lbl /\ TKeys[q] \in {RefKey, DigestKey, CriRefKey, CriDigestKey}}}
    \cup UNION {{[op |-> "corrupt", key |-> p, j |-> j, var |-> v] : j \in 1..Len(lbl[TKeys[p]].items), v \in 1..NVariants}
                : p \in {q \in from..Len(TKeys) : TKeys[q] \in DOMAIN lbl /\ TKeys[q] \in {LayersKey, CriLayersKey}}}

Neg(x) == IF x > 0 THEN 0 - x ELSE x
ApplyTamper(lbl, o) ==
    LET k == TKeys[o.key] IN
    CASE o.op = "rm"      -> [x \in DOMAIN lbl \ {k} |-> lbl[x]]
      [] o.op = "empty"   -> [lbl EXCEPT ![k] = EmptyVal]
      [] o.op = "corrupt" -> [lbl EXCEPT ![k] = Val([i \in 1..Len(@.items) |-> IF i = o.j THEN Neg(@.items[i]) ELSE @.items[i]], @.len)]
RECURSIVE ApplyTampers(_, _)
ApplyTampers(lbl, ops) == IF ops = <<>> THEN lbl ELSE ApplyTampers(ApplyTamper(lbl, Head(ops)), Tail(ops))

\* only the token lists matter to the reader (the length of a tampered value depends on the spelling chosen)
Items(lbl) == [k \in DOMAIN lbl |-> lbl[k].items]

\* ---------------------------------------------------------------- reader
\* strings.Split(s, ","): the empty string yields one empty token
Split(items) == IF items = <<>> THEN <<0>> ELSE items
Fail == [ok |-> FALSE, ref |-> 0, digest |-> 0, urls |-> <<>>, neigh |-> <<>>]
\* reference.Parse / digest.Parse of the whole value: exactly one well-formed token
TokOk(items) == Len(items) = 1 /\ items[1] > 0
TokVal(items) == IF Len(items) >= 1 THEN items[1] ELSE 0

\* FromDefaultLabels (K = DefK) and sourceFromCRILabels (K = CriK); it = Items(labels)
Read(it, K) ==
    IF ReaderChecksRef /\ (K.ref \notin DOMAIN it \/ ~TokOk(it[K.ref])) THEN Fail
    ELSE IF ReaderChecksDigest /\ (K.digest \notin DOMAIN it \/ ~TokOk(it[K.digest])) THEN Fail
    ELSE LET ref == IF K.ref \in DOMAIN it THEN TokVal(it[K.ref]) ELSE 0
             tgt == IF K.digest \in DOMAIN it THEN TokVal(it[K.digest]) ELSE 0
             toks == IF K.layers \in DOMAIN it THEN Split(it[K.layers]) ELSE <<>>
         IN IF ReaderChecksDigest /\ \E j \in 1..Len(toks) : toks[j] <= 0 THEN Fail
            ELSE LET idx == SelectSeq([j \in 1..Len(toks) |-> j], LAMBDA j : ~ReaderSkipsTarget \/ toks[j] # tgt)
                 IN [ok |-> TRUE, ref |-> ref, digest |-> tgt,
                     urls |-> IF UrlsKey \in DOMAIN it THEN Split(it[UrlsKey]) ELSE <<>>,
                     neigh |-> LET nu[n \in 1..Len(idx)] ==
                                       IF UrlsIdxKey(idx[n] - 1) \in DOMAIN it THEN Split(it[UrlsIdxKey(idx[n] - 1)])
                                       ELSE IF ReaderResetsUrls \/ n = 1 THEN <<>> ELSE nu[n - 1]
                               IN [n \in 1..Len(idx) |-> [d |-> toks[idx[n]], urls |-> nu[n]]]]

\* service.sources(sourceFromCRILabels, FromDefaultLabels): first reader that succeeds
ReadWith(it, rd) ==
    CASE rd = "default" -> Read(it, DefK)
      [] rd = "cri"     -> Read(it, CriK)
      [] rd = "chain"   -> LET a == Read(it, CriK) IN IF a.ok THEN a ELSE Read(it, DefK)

\* ---------------------------------------------------------------- property formulas (C20)
\* They are operators over recorded data so that the monitor evaluates the very same formulas on what the
\* implementation produced.

\* AllLabelsValid: every label the handler wrote passes labels.Validate
PAllLabelsValid(wl) == \A k \in DOMAIN wl : Len(k) + wl[k].len <= MaxSize

IsPrefix(a, b) == Len(a) <= Len(b) /\ \A i \in 1..Len(a) : a[i] = b[i]
RECURSIVE JoinedLen(_)
JoinedLen(urls) == IF urls = <<>> THEN 0 ELSE ULen(Head(urls)) + 1 + JoinedLen(Tail(urls))
\* the whole list passes the code's own size check under a key of klen bytes (the check counts one trailing ',':
\* a list that would fit exactly is cut by one element - transcribed, not idealised)
Fits(klen, urls) == klen + JoinedLen(urls) <= MaxSize
\* DECISION (DESIGN C20 note): an absent/empty URL list is written as "" and read back as [""] (strings.Split).
\* The only consumers of Descriptor.URLs below fs.Mount are ipfs.GetCID (looks for the prefix "ipfs://") and
\* user supplied remote.Handlers; an empty-string URL can never select a source, so the effective URL list is
\* the list without empty strings. The encoding artefact is allowed ONLY in the shape <<0>>.
Eff(urls) == SelectSeq(urls, LAMBDA u : u # 0)
EmptyOnlyAlone(urls) == urls = Eff(urls) \/ urls = <<0>>
\* "the same URLs": exactly the manifest's list whenever it fits in one label, otherwise a prefix of it
\* (labels.Validate has priority - AllLabelsValid - so a longer list cannot be represented)
UrlsSame(read, orig, klen) ==
    /\ EmptyOnlyAlone(read)
    /\ IsPrefix(Eff(read), orig)
    /\ Fits(klen, orig) => Eff(read) = orig
MaxUrlsIdxKeyLen == Len(UrlsIdxKey(99))

Matched(fl, rd) == (fl = "default" /\ rd \in {"default", "chain"}) \/ (fl = "extra" /\ rd \in {"cri", "chain"})

\* layers that follow child t, in manifest order, without occurrences of the target's own digest
Following(man, t) ==
    LET ch == Children(man) IN SelectSeq(SubSeq(ch, t + 1, Len(ch)), LAMBDA e : e.isLayer /\ e.d # ch[t].d)

\* RoundTrip: untampered labels, read by the reader that belongs to the flavour
PRoundTrip(man, t, ref, fl, res) ==
    LET ch == Children(man)
        c == ch[t]
        fol == Following(man, t)
    IN /\ res.ok
       /\ res.ref = ref
       /\ res.digest = c.d
       \* the descriptor's URLs - never those of an annotation that came with the manifest
       /\ UrlsSame(res.urls, c.urls, Len(UrlsKey))
       /\ Len(res.neigh) <= Len(fol)
       /\ \A k \in 1..Len(res.neigh) :
            /\ k <= Len(fol) => res.neigh[k].d = fol[k].d
            \* its own URLs, never another layer's: the URLs of a manifest layer with this very digest
            /\ \E i \in 1..Len(ch) : /\ ch[i].isLayer /\ ch[i].d = res.neigh[k].d
                                     /\ UrlsSame(res.neigh[k].urls, ch[i].urls, MaxUrlsIdxKeyLen)

\* stronger, positional pairing: neighbour k carries the URLs of the k-th following layer ENTRY. Holds for the
\* default handler; the extra handler looks URLs up by digest (layerFromDigest: first child with the digest), so
\* for it the formula is claimed only where equal digests carry equal URL lists.
UrlsByDigest(man) == \A a, b \in 1..Len(man) : man[a].d = man[b].d => man[a].urls = man[b].urls
PNeighbourUrlsPositional(man, t, fl, res) ==
    LET fol == Following(man, t) IN
    (res.ok /\ (fl = "default" \/ UrlsByDigest(man))) =>
        \A k \in 1..Len(res.neigh) : k <= Len(fol) => UrlsSame(res.neigh[k].urls, fol[k].urls, MaxUrlsIdxKeyLen)

\* PrefetchSizeRoundTrips: the prefetch label is present and carries exactly the size given to the handler
PPrefetch(man, t, fl, wl, pf) == PrefetchKey \in DOMAIN wl /\ wl[PrefetchKey].items = <<pf>>

\* Design invariant of the PINNED code (not a C20 formula; it is the mechanism of the known finding): the extra
\* handler keeps a pre-set annotation of the target child for every key that containerd's wrapper does not own
PExtraKeepsPreset(man, t, fl, wl) ==
    (fl = "extra" /\ ~ExtraStripsPreset) =>
        \A i \in 1..Len(Children(man)[t].pre) :
            LET e == Children(man)[t].pre[i] IN
            e.k \in DOMAIN wl /\ wl[e.k].items = PreItems(e)

\* UrlsOwnOrNone ("each paired with its own URLs and never with another layer's", under EVERY label subset, tampered
\* or not): in an accepted read the target's URLs are a prefix of the target descriptor's, and every neighbour's
\* URLs are a prefix of the URLs of a manifest layer with that neighbour's digest - in particular a neighbour whose
\* urls.<i> label is missing or empty has none (or the empty-string encoding), never another layer's
PUrlsOwnOrNone(man, t, res) ==
    LET ch == Children(man) IN
    res.ok =>
        /\ EmptyOnlyAlone(res.urls) /\ IsPrefix(Eff(res.urls), ch[t].urls)
        /\ \A k \in 1..Len(res.neigh) :
             /\ EmptyOnlyAlone(res.neigh[k].urls)
             /\ \E i \in 1..Len(ch) : ch[i].isLayer /\ ch[i].d = res.neigh[k].d /\ IsPrefix(Eff(res.neigh[k].urls), ch[i].urls)

\* MalformedMandatoryRejected: a reader whose mandatory labels (reference, digest) are missing or malformed
\* rejects; and whatever was tampered with, an accepted read names the original ref and digest, never another
MandatoryBad(it, K) == K.ref \notin DOMAIN it \/ ~TokOk(it[K.ref]) \/ K.digest \notin DOMAIN it \/ ~TokOk(it[K.digest])
PMalformedRejected(man, t, ref, it, rd, res) ==
    /\ (rd = "default" /\ MandatoryBad(it, DefK)) => ~res.ok
    /\ (rd = "cri" /\ MandatoryBad(it, CriK)) => ~res.ok
    /\ (rd = "chain" /\ MandatoryBad(it, CriK) /\ MandatoryBad(it, DefK)) => ~res.ok
    /\ res.ok => /\ res.ref = ref /\ res.digest = Children(man)[t].d
                 /\ \A k \in 1..Len(res.neigh) : res.neigh[k].d > 0

\* ---------------------------------------------------------------- state machine
\* lbl2 = the label map after the first read, res2 = what a SECOND read of that same map returns (the snapshotter
\* stores the map it passed to fs.Mount and resolves from it again: Check refresh, re-mount after restart)
VARIABLES phase, cs, tgt, wl, lbl, tam, rd, res, lbl2, res2
vars == <<phase, cs, tgt, wl, lbl, tam, rd, res, lbl2, res2>>

NoCase == [man |-> <<>>, ref |-> 0, pf |-> 0, fl |-> "none"]
CaseRec == [family |-> Family, man |-> cs.man, ref |-> cs.ref, pf |-> cs.pf, fl |-> cs.fl, t |-> tgt, tam |-> tam, rd |-> rd]

Init ==
    /\ phase = "start" /\ cs = NoCase /\ tgt = 0 /\ wl = <<>> /\ lbl = <<>> /\ tam = <<>> /\ rd = "none" /\ res = Fail /\ lbl2 = <<>> /\ res2 = Fail
    /\ Emit => PrintT("VTAB " \o ToJson([ulen |-> ULenTab, ulenmid |-> ULenMid, ulenbig |-> ULenBig, bigfrom |-> BigFrom, exactfrom |-> ExactFrom,
                                        manifestdigest |-> ManifestDigest, reflen |-> RefLenTab, refstr |-> RefStr, refvariants |-> RefVariants, pf |-> PfTab, dlen |-> DLen, dlenbig |-> DLenBig, bigdigestfrom |-> BigDigestFrom,
                                        tkeys |-> TKeys, nvariants |-> NVariants, maxsize |-> MaxSize]))

Choose(m, rp, fl) ==
    /\ phase = "start"
    /\ cs' = [man |-> m, ref |-> rp \div 10, pf |-> rp % 10, fl |-> fl]
    /\ phase' = "chosen"
    /\ UNCHANGED <<tgt, wl, lbl, tam, rd, res, lbl2, res2>>

\* the handler annotates child t while containerd walks Children(manifest)
Pick(t) ==
    /\ phase = "chosen"
    /\ tgt' = t
    /\ wl' = Writer(cs.man, t, cs.ref, cs.pf, cs.fl)
    /\ lbl' = wl'
    /\ phase' = "picked"
    /\ UNCHANGED <<cs, tam, rd, res, lbl2, res2>>

Tamper(o) ==
    /\ phase = "picked"
    /\ Len(tam) < MaxTamper
    /\ lbl' = ApplyTamper(lbl, o)
    /\ tam' = Append(tam, o)
    /\ UNCHANGED <<phase, cs, tgt, wl, rd, res, lbl2, res2>>

ReadBack(r) ==
    /\ phase = "picked"
    /\ (MatchedOnly /\ tam = <<>>) => Matched(cs.fl, r)
    /\ rd' = r
    /\ res' = ReadWith(Items(lbl), r)
    /\ lbl2' = IF ReaderPure THEN lbl ELSE [k \in {x \in DOMAIN lbl : ~IsUrlKey(x)} |-> lbl[k]]
    /\ res2' = ReadWith(Items(lbl2'), r)
    /\ phase' = "read"
    /\ UNCHANGED <<cs, tgt, wl, lbl, tam>>
    /\ Emit => PrintT("VCASE " \o ToJson(CaseRec'))

Next ==
    \/ phase = "start" /\ \E m \in Manifests, rp \in RefPfs, fl \in Flavours : Choose(m, rp, fl)
    \/ phase = "chosen" /\ \E t \in Targets(cs.man) : Pick(t)
    \/ phase = "picked" /\ Len(tam) < MaxTamper
         /\ \E o \in TamperOps(lbl, IF tam = <<>> THEN 1 ELSE tam[Len(tam)].key + 1) : Tamper(o)
    \/ phase = "picked" /\ \E r \in Readers : ReadBack(r)

Spec == Init /\ [][Next]_vars

\* ---------------------------------------------------------------- invariants
AllLabelsValid == phase \in {"picked", "read"} => PAllLabelsValid(wl)
RoundTrip == (phase = "read" /\ tam = <<>> /\ Matched(cs.fl, rd)) => PRoundTrip(cs.man, tgt, cs.ref, cs.fl, res)
NeighbourUrlsPositional ==
    (phase = "read" /\ tam = <<>> /\ Matched(cs.fl, rd)) => PNeighbourUrlsPositional(cs.man, tgt, cs.fl, res)
PrefetchSizeRoundTrips == phase \in {"picked", "read"} => PPrefetch(cs.man, tgt, cs.fl, wl, cs.pf)
ExtraKeepsPreset == phase \in {"picked", "read"} => PExtraKeepsPreset(cs.man, tgt, cs.fl, wl)
UrlsOwnOrNone == phase = "read" => PUrlsOwnOrNone(cs.man, tgt, res) /\ PUrlsOwnOrNone(cs.man, tgt, res2)
\* ReaderLeavesLabels: reading is pure - the label map is the same after the read
ReaderLeavesLabels == phase = "read" => lbl2 = lbl
\* RoundTripSecondRead: a second resolution from the same (stored) label map reproduces the source as well
RoundTripSecondRead == (phase = "read" /\ tam = <<>> /\ Matched(cs.fl, rd)) =>
                           (PRoundTrip(cs.man, tgt, cs.ref, cs.fl, res2) /\ PNeighbourUrlsPositional(cs.man, tgt, cs.fl, res2))
MalformedMandatoryRejected == phase = "read" => PMalformedRejected(cs.man, tgt, cs.ref, Items(lbl), rd, res)
\* internal consistency (not a property formula): the tamper log explains lbl
TamperLogExplains == phase \in {"picked", "read"} => lbl = ApplyTampers(wl, tam)
=============================================================================

\* edge family: (1) URL lists whose label would be MaxSize-2 .. MaxSize+1 bytes under the urls / urls.<i> keys
\* (one, two, three URLs); (2) layer descriptors that already carry one or two containerd.io/snapshot/remote/*
\* annotations with a foreign value
CONSTANTS
    MaxSize = 4096
    Family = "edge"
    MaxLayers = 0
    MaxD = 0
    LongNs = {}
    RefPfs = {12}
    Flavours = {"default", "extra"}
    Readers = {"default", "cri", "chain"}
    MatchedOnly = FALSE
    MaxTamper = 0
    NVariants = 4
    Emit = FALSE
    ValidateLayers = TRUE
    ValidateUrls = TRUE
    CountSeparator = TRUE
    WriteEmptyUrlLabels = TRUE
    ExtraStripsPreset = TRUE
    WholeDigests = TRUE
    UrlIdx = "layer"
    ReaderChecksRef = TRUE
    ReaderChecksDigest = TRUE
    StopAtFirstMisfit = TRUE
    ReaderPure = TRUE
    ReaderResetsUrls = TRUE
    ReaderSkipsTarget = TRUE
SPECIFICATION Spec
INVARIANTS AllLabelsValid RoundTrip NeighbourUrlsPositional PrefetchSizeRoundTrips UrlsOwnOrNone ReaderLeavesLabels RoundTripSecondRead MalformedMandatoryRejected TamperLogExplains ExtraKeepsPreset
CHECK_DEADLOCK FALSE

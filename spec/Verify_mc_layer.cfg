\* exhaustive, layer level: Verify / SkipVerify calls in any order reaching one cached layer object, reads and passthrough reads in between
CONSTANTS
    NC = 2
    NWk = 1
    NRd = 3
    MaxAlter = 2
    MaxVerify = 3
    Kinds = {"s", "k"}
    Tocs = {"D", "X"}
    Args = {"D", "W"}
    AtomicRead = TRUE
    AtomicVerify = TRUE
    WithSkip = TRUE
    WithPass = TRUE
    WithTry = FALSE
    DecideUnderLock = TRUE
    AbortWhenProhibited = TRUE
    VerifyBeforeCache = TRUE
    RecheckCachedLayer = TRUE
    PassVerifies = TRUE
    TocLabelFirst = TRUE
    WithMount = FALSE
    FsCfgs = {"--"}
INIT Init
NEXT Next
VIEW core
INVARIANTS MountImpliesToc ServedAreGood NoBadStaysCached FailedReadLeavesNothing TypeOK
CHECK_DEADLOCK FALSE

--------------------------- MODULE NamedMutexGen ---------------------------
(* Generation config: TLC prints every transition of the state graph of    *)
(* NamedMutex as JSON; tools/props/X_Mutex.py turns the edge list into     *)
(* walks covering every edge, which the Go driver replays on a real        *)
(* NamedMutex with one real goroutine per element of Gor, stepped through  *)
(* the gates namedmutex.lock.acquire / namedmutex.unlock.release.          *)
EXTENDS NamedMutex, Json

CoreRec  == [ent |-> ent,  refs |-> refs,  objs |-> objs,  pc |-> pc,  nm |-> nm,  mu |-> mu,  done |-> done, st |-> st]
CoreRecP == [ent |-> ent', refs |-> refs', objs |-> objs', pc |-> pc', nm |-> nm', mu |-> mu', done |-> done', st |-> st']

GenInit == Init /\ PrintT("VINIT " \o ToJson(CoreRec))
GenNext == Next /\ PrintT("VEDGE " \o ToJson([from |-> CoreRec, last |-> last', to |-> CoreRecP]))
=============================================================================

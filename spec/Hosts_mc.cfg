\* exhaustive: every config of <= 3 distinct mirrors x header yes/no, every set of hosts that have the blob
CONSTANTS
    Mirrors = {"m1", "m2", "m3"}
    MaxMirrors = 3
    HeaderPerEntry = TRUE
INIT Init
NEXT Next
VIEW core
INVARIANTS HostHeadersOwn ListShape
PROPERTIES SentHeadersOwn
CHECK_DEADLOCK FALSE

\* gated schedules, reader level: two readAndCache workers against one or two VerifyTOC calls, atomic reads, one alteration
CONSTANTS
    NC = 2
    NWk = 2
    NRd = 2
    MaxAlter = 1
    MaxVerify = 2
    Kinds = {"s", "k"}
    Tocs = {"D", "X"}
    Args = {"D", "W"}
    AtomicRead = TRUE
    AtomicVerify = FALSE
    WithSkip = FALSE
    WithPass = FALSE
    WithTry = TRUE
    DecideUnderLock = TRUE
    AbortWhenProhibited = TRUE
    VerifyBeforeCache = TRUE
    RecheckCachedLayer = TRUE
    PassVerifies = TRUE
    TocLabelFirst = TRUE
    WithMount = FALSE
    FsCfgs = {"--"}
INIT GenInit
NEXT GenNext
VIEW core
CHECK_DEADLOCK FALSE

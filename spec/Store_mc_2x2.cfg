\* exhaustive: 2 images x 2 layers, manager level, no registry failures, counts up to 1
CONSTANTS
    Images <- Img2x2
    Fuse = FALSE
    Kinds = {"diff"}
    Errors = FALSE
    AllTargets = FALSE
    MaxCnt = 1
    MaxNeg = 1
    DeleteInnerCounter = TRUE
    ForgetMemoOfReleased = TRUE
    ResetMemoAtLastRelease = TRUE
    DropOnlyAtZero = TRUE
    DoneDuplicate = TRUE
    ResolveDetached = TRUE
    Cancels = TRUE
INIT Init
NEXT Next
VIEW core
INVARIANTS CountNonNegative HeldWhileCached HandlesMatchLayers TypeOK OnlyOwnCached MemoOkMeansCached TrackedPositive NoCancelRemembered
PROPERTIES NeverDoneWhileUsed UnknownDigestFails LookupSucceedsIffTocInImage SuccessMeansCached LastReleaseDropsBookkeeping NextLookupResolvesAgain
CHECK_DEADLOCK FALSE

CONSTANTS
    Gor = {1, 2, 3}
    Names = {"a", "b"}
    Rounds = 1000000
    DeleteOnlyAtZero = TRUE
    CountWaiters = TRUE
    OuterMutex = TRUE
    UnlockOrder = "dec_first"
    AllowAbsent = TRUE
    NilMapGuard = TRUE
SPECIFICATION MonSpec
INVARIANTS MutualExclusionPerName MapNeverLeaks RefsAccount MonSameObject PairedUnlockNeverPanics OuterNeverStuck MonInSectionCounter MonMapSizes MonLockReturnsWhenFree
PROPERTIES UnlockOfUnheldPanicsOrIsNoop
CHECK_DEADLOCK FALSE

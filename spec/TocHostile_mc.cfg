\* structure: every TOC of up to MaxEntries default entries
CONSTANTS
    HNames = {"", "a", "a/b"}
    HKinds = {"dir", "reg", "chunk", "symlink", "hardlink", "fifo", "bogus"}
    HLinks = {"", "a", "a/b"}
    MaxEntries = 3
    FocusMax = 0
    NumVals = {"m1", "0", "1", "S", "big"}
    ChainBound = 4
SPECIFICATION Spec
INVARIANTS DirectLinkResolves ResolvedIsSource SelfLinkRejected TwoCycleRejected PlainAccepted
CHECK_DEADLOCK FALSE

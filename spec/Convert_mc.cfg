\* exhaustive: one converter instance, NConv parallel conversions, all pairs of the chosen source layers
CONSTANTS
    Mode = "ext"
    NConv = 2
    SrcIds = {1, 2, 3, 4}
    SpareCap = TRUE
    MaxIntr = 1
    MayDeviate = TRUE
    MapLock = TRUE
    CopyOpts = TRUE
    DiffIDCheck = TRUE
    UpdateLabel = TRUE
    MediaTypeFollowsBlob = TRUE
INIT Init
NEXT Next
VIEW core
INVARIANTS DescDescribesBlob TocImageMapsEveryLayer NoConversionPanics LosslessKeepsDiffID MapWritesMutuallyExclusive TypeOK RefExclusive
CHECK_DEADLOCK FALSE

\* exhaustive: 2 mountpoints, 2 label sets, 3 Init requests (config generations), 3 manager processes, all failure injections and crash points
CONSTANTS
    NMp = 2
    Labs = {"la", "lb"}
    MaxInit = 3
    MaxEpoch = 3
    InitFails = {"none", "badcfg", "cfgfunc", "newfs"}
    ReadyGate = TRUE
    NilFsCheck = TRUE
    SkipServed = TRUE
    RecordOnlyMounted = TRUE
    KeepOnFailedUnmount = TRUE
    ForgetOnUnmount = TRUE
    UseCreator = TRUE
    AdoptNewFs = TRUE
    RestoreOnInit = TRUE
    UnknownUnmountOK_G = TRUE
    OverwriteRecord = TRUE
INIT Init
NEXT Next
VIEW core
INVARIANTS RecordedLabelsServed RecordEqualsServing NoSecondMount MapMatchesLive NoPanic TypeOK
PROPERTIES NoRemountCall ServedByCreator NewMountsUseNewConfig RestartRemountsRecordedWithLabels UnknownUnmountOK BeforeInitFails NoFsMountFails
CHECK_DEADLOCK FALSE

\* monitor: the C07 formulas alone on recorded call results
CONSTANTS
    RawU = {"a", ".wh.a", ".wh..wh..opq", ".prefetch.landmark", ".no.prefetch.landmark", "stargz.index.json", ".wh..wh.foo", "l", "c13", "c00"}
    LookupU = {"a", ".wh.a", "foo", ".wh.foo", ".wh..wh.foo", ".wh..opq", ".wh..wh..opq", ".prefetch.landmark", ".no.prefetch.landmark", "stargz.index.json", "zz", ".stargz-snapshotter", "l", "c13", "c00"}
    MaxChildren = 100
    ExtraContents = {}
    Modes = {"trusted", "user", "all"}
    RootChoices = {TRUE, FALSE}
    MaxFetched = 1000
    MaxReports = 1000
    StatOnlyEmpty = FALSE
    RealWins = TRUE
    LandmarkHiding = "root"
    MemoComplete = TRUE
    PrefixedWhiteoutLookup = TRUE
    OpaqueByMode = TRUE
    WhiteoutAttr = TRUE
    MemWhiteoutAttr = TRUE
    WriterDropsToc = TRUE
    HardLinkSharesInode = TRUE
SPECIFICATION MonSpec
INVARIANTS MonListingIsTranslation MonListedIffLookup MonEntryAttr MonChildAttr MonInodesUniqueStable MonHardLinks MonOpaqueXattr MonStateFileJSON MonStateDirHidden
CHECK_DEADLOCK FALSE

CONSTANTS
    EPaths = {"/a", "/a/b"}
    ETypes = {"dir", "reg", "symlink", "hardlink", "char", "block", "fifo"}
    MaxEntries = 2
    FocusMax = 1
    Sizes = {1}
    Lays = {"one"}
    Digs = {"both"}
    Attrs = {"z", "f"}
    Spells = {"tdot", "tdotdot", "idot", "dslash", "updown"}
    WsSet = {0}
    AllowDupDir = TRUE
    AllowUnsorted = TRUE
    AllowLinkFirst = TRUE
    DupDirCountsTwice = FALSE
    LastChunkToEnd = TRUE
INIT GenInit
NEXT GenNext
INVARIANTS TreeOK LeavesHaveNoKids SameIsEquivalence LinkCountsAddUp ChunksCover StreamsOK HardLinksResolve
CHECK_DEADLOCK FALSE

---------------------------- MODULE WriterTrace ----------------------------
(* Trace validation for C03: every recorded blob (one "Blob" event per     *)
(* real Build / Writer run, layout observed by the independent reader)     *)
(* must be the layout WriterRun computes for that input and those options, *)
(* with the model's free parameters bound from the observation:            *)
(*   enough  = the data rows whose innerOffset is 0 (min-chunk decision)   *)
(*   csize   = compressed length of every payload member (D1)              *)
(*   hdr     = length of every tar header in the decompressed payload (D2) *)
(* Deterministic: one successor per event.                                 *)
EXTENDS Writer, Json, TLCExt

VARIABLE l
tvars == <<vars, l>>
TraceLog == ndJsonDeserialize("trace.ndjson")
Ev == TraceLog[l]

TraceInit == Init /\ l = 1 /\ TLCSet(1, 0)

Idx(o, name) == CHOOSE i \in 1..Len(o) : o[i].name = name

TraceBlob ==
    /\ l <= Len(TraceLog) /\ Ev.ev = "Blob" /\ l' = l + 1
    /\ Ev.err \in {"", "refused"}
    /\ (Ev.err = "refused") <=> Refuses(Ev.opt.mode, Ev.input)
    /\ (Ev.opt.mode # "lossless") => Ev.tartail = 0      \* the end-of-archive blocks of the input are kept in lossless mode only
    /\ input' = Ev.input /\ opt' = Ev.opt /\ phase' = "done"
    /\ (Ev.err = "refused") \/
       LET o == Written(Ev.opt.mode, Ev.input)
           M == Ev.members
       IN  /\ Ev.order = o
           /\ Len(Ev.hdr) = Len(o)
           /\ LET enough == {<<Idx(o, Ev.toc[j].name), Ev.toc[j].o>> : j \in {j \in 1..Len(Ev.toc) : Ev.toc[j].data /\ Ev.toc[j].inner = 0}}
                  r == WriterRun(Sorted(Ev.opt.mode, Ev.input), Ev.hdr, Ev.opt, enough, [g \in 1..Len(M) |-> M[g].e - M[g].s], Ev.tartail)
              IN  /\ Len(r.members) = Len(M)
                  /\ \A g \in 1..Len(M) :
                       /\ r.members[g].s = M[g].s /\ r.members[g].e = M[g].e
                       /\ ULen(r.members[g].items) = M[g].ulen
                  /\ r.payloadEnd = Ev.payloadEnd
                  /\ Len(r.toc) = Len(Ev.toc)
                  /\ \A j \in 1..Len(r.toc) :
                       LET a == r.toc[j]  b == Ev.toc[j] IN
                       /\ o[a.i].name = b.name /\ a.type = b.type /\ a.size = b.size /\ a.o = b.o /\ a.cs = b.cs
                       /\ (a.type # "chunk") => (o[a.i].meta = b.meta /\ o[a.i].link = b.link)
                       /\ a.off = b.off /\ a.inner = b.inner
    /\ lay' = [refused |-> Ev.err = "refused", order |-> Ev.order, members |-> Ev.members, toc |-> Ev.toc, expected |-> Expected(Ev.opt.mode, Ev.input),
               diffid |-> Ev.diffid, shaAll |-> Ev.shaAll, tocdigest |-> Ev.tocdigest, shaToc |-> Ev.shaToc,
               shaPayload |-> Ev.shaPayload, shaInput |-> Ev.shaInput]

TraceNext == TraceBlob
TraceSpec == TraceInit /\ [][TraceNext]_tvars
HighWater == IF l - 1 > TLCGet(1) THEN TLCSet(1, l - 1) ELSE TRUE
TraceAccepted ==
    IF TLCGet(1) = Len(TraceLog) THEN TRUE
    ELSE /\ PrintT("VREJECT " \o ToString(TLCGet(1)) \o " " \o ToString(Len(TraceLog)))
         /\ FALSE
=============================================================================

\* exhaustive: two directory levels, hard links inside one sub-directory and across sub-directories (u/, u/v/, u/v/x, u/v/y->u/v/x, u/w/z->/u/v/x)
CONSTANTS
    UseEntries = {17, 18, 19, 20, 21}
    PrioAlphabet = {"u/v/y", "./u/w/z", "/u/v/x", "u/v/"}
    MaxTar = 4
    MaxPrio = 2
    WithLayout = FALSE
    LayoutOpts <- OptsNone
    ImplicitParents = TRUE
    ParentsFirst = TRUE
    TargetFirst = TRUE
    PickedGuard = TRUE
    SkipPickedInRest = TRUE
    LandmarkAfterMoves = TRUE
    LandmarkByList = TRUE
    ReportMissing = TRUE
    DropInputLandmarks = TRUE
    LastDupWins = TRUE
    LandmarkOwnStream = TRUE
    VisitingIsPath = TRUE
INIT Init
NEXT Next
INVARIANTS ExactlyOneLandmark EachAtMostOnce NothingLostOrDuplicated PrioritizedFirstInOrder ParentsAndTargetsBefore RestKeepsRelativeOrder MissingAbortsOrIsReported ImportIsEff
CHECK_DEADLOCK FALSE

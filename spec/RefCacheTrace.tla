--------------------------- MODULE RefCacheTrace ---------------------------
(* TraceLog validation (implementation -> specification) for RefCache.        *)
(* Input: trace.ndjson, one event per linearization point of the real      *)
(* TTLCache / LRUCache (hook under c.mu), recorded either while replaying  *)
(* TLC-generated walks or from free-running goroutines. Several traces are *)
(* concatenated, separated by "Reset" events.                              *)
(*                                                                         *)
(* Event fields: ev, and per event                                         *)
(*   Add/Get   k, v (value id returned, 0 = miss), added/ok, h             *)
(*   Remove    k                                                           *)
(*   Release   h, evict                                                    *)
(*   TimerFire v          (replay only; unobservable in free runs)         *)
(*   TimerEvict v         (replay)      Timer k, v  (free run)             *)
(*   cb        callback counts per value id AFTER the event (always)       *)
(*   live      key -> value id AFTER the event (optional)                  *)
(*   n         number of cached entries AFTER the event (optional)         *)
EXTENDS RefCache, Json, TLCExt

VARIABLE l
tvars == <<vars, l>>

TraceLog == ndJsonDeserialize("trace.ndjson")
Ev == TraceLog[l]
Has(f) == f \in DOMAIN Ev

IsEvent(e) == l <= Len(TraceLog) /\ Ev.ev = e /\ l' = l + 1

\* what the implementation showed after the step must equal the specification's state
ObsOK ==
    /\ Len(Ev.cb) = Len(vals')
    /\ \A v \in 1..Len(vals') : vals'[v].cb = Ev.cb[v]
    /\ Has("live") => \A k \in Keys : live'[k] = Ev.live[k]
    /\ Has("n") => Cardinality({k \in Keys : live'[k] # NoVal}) = Ev.n

TraceInit == Init /\ l = 1 /\ TLCSet(1, 0)

TraceReset ==
    /\ IsEvent("Reset")
    /\ live' = [k \in Keys |-> NoVal] /\ order' = <<>> /\ vals' = <<>> /\ handles' = <<>>
    /\ last' = [act |-> "Init"]

TraceAdd ==
    /\ IsEvent("Add") /\ Add(Ev.k)
    /\ last'.v = Ev.v /\ last'.added = Ev.added /\ last'.h = Ev.h
    /\ ObsOK
TraceGet ==
    /\ IsEvent("Get") /\ Get(Ev.k)
    /\ last'.v = Ev.v /\ last'.ok = Ev.ok /\ last'.h = Ev.h
    /\ ObsOK
TraceRemove == IsEvent("Remove") /\ Remove(Ev.k) /\ ObsOK
TraceClear == IsEvent("Clear") /\ Clear /\ ObsOK
TraceRelease == IsEvent("Release") /\ Release(Ev.h, Ev.evict) /\ ObsOK
TraceTimerFire == IsEvent("TimerFire") /\ TimerFire(Ev.v) /\ ObsOK
TraceTimerEvict == IsEvent("TimerEvict") /\ TimerEvict(Ev.v) /\ ObsOK
\* free run: the timer function of value v (key k) ran. Whether the runtime had fired it before a Stop is not
\* observable, so the unlogged TimerFire is composed in: any timer whose function has not run yet may run
TraceTimer ==
    /\ IsEvent("Timer")
    /\ Ev.v \in ValIds
    /\ vals[Ev.v].key = Ev.k
    /\ TimerEvictG(Ev.v, {"armed", "fired", "stopped"})
    /\ ObsOK

TraceNext ==
    \/ TraceReset \/ TraceAdd \/ TraceGet \/ TraceRemove \/ TraceClear \/ TraceRelease
    \/ TraceTimerFire \/ TraceTimerEvict \/ TraceTimer

TraceSpec == TraceInit /\ [][TraceNext]_tvars

\* high-water mark of consumed lines (register 1) and acceptance
HighWater == IF l - 1 > TLCGet(1) THEN TLCSet(1, l - 1) ELSE TRUE
TraceAccepted ==
    IF TLCGet(1) = Len(TraceLog) THEN TRUE
    ELSE /\ PrintT("VREJECT " \o ToString(TLCGet(1)) \o " " \o ToString(Len(TraceLog)))
         /\ FALSE
=============================================================================

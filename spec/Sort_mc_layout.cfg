\* exhaustive with the stream layout: chunking, min-chunk-size decisions (every subset of chunks that finds enough compressed bytes), 1..3 sub-blobs
CONSTANTS
    UseEntries = {2, 3, 4, 5}
    PrioAlphabet = {"a/b", "d", "./a/c"}
    MaxTar = 3
    MaxPrio = 2
    WithLayout = TRUE
    LayoutOpts <- OptsStd
    ImplicitParents = TRUE
    ParentsFirst = TRUE
    TargetFirst = TRUE
    PickedGuard = TRUE
    SkipPickedInRest = TRUE
    LandmarkAfterMoves = TRUE
    LandmarkByList = TRUE
    ReportMissing = TRUE
    DropInputLandmarks = TRUE
    LastDupWins = TRUE
    LandmarkOwnStream = TRUE
    VisitingIsPath = TRUE
INIT Init
NEXT Next
INVARIANTS ExactlyOneLandmark EachAtMostOnce NothingLostOrDuplicated PrioritizedFirstInOrder ParentsAndTargetsBefore RestKeepsRelativeOrder MissingAbortsOrIsReported LandmarkStartsOwnStream PrioritizedDataBeforeLandmark NoOtherDataBefore DataAccountedFor ImportIsEff
CHECK_DEADLOCK FALSE

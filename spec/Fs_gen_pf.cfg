\* generation, one caller, prefetch on: Mount / Check (waits for the prefetch, bounded) / Unmount of one layer
CONSTANTS
    MPs = {"m1"}
    Blobs = {"b1"}
    Labs = {"ok"}
    Ops = {"Mount", "Check", "Unmount"}
    MaxCalls = 3
    MaxConc = 1
    MaxObj = 2
    SameMp = FALSE
    OneMount = TRUE
    AllowNoVerif = TRUE
    DisableVerif = FALSE
    NoPrefetch = FALSE
    NoBgFetch = TRUE
    PreRes = FALSE
    Expiry = FALSE
    ReleaseOnFail = TRUE
    EraseOnFail = TRUE
    VerifyFirst = TRUE
    SkipNeedsAllow = TRUE
    UnmountCloses = TRUE
    CheckOwnKey = TRUE
    DoneAlways = TRUE
    BgRespectsPrio = TRUE
INIT GenInit
NEXT GenNext
VIEW core
CHECK_DEADLOCK FALSE

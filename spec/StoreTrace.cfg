CONSTANTS
    Images <- Img1x2
    Fuse = FALSE
    Kinds = {"diff", "blob", "info"}
    Errors = TRUE
    AllTargets = TRUE
    MaxCnt = 1000000
    MaxNeg = 1000000
    DeleteInnerCounter = TRUE
    ForgetMemoOfReleased = TRUE
    ResetMemoAtLastRelease = TRUE
    DropOnlyAtZero = TRUE
    DoneDuplicate = TRUE
    ResolveDetached = TRUE
    Cancels = TRUE
SPECIFICATION TraceSpec
CONSTRAINT HighWater
INVARIANTS CountNonNegative HeldWhileCached HandlesMatchLayers
POSTCONDITION TraceAccepted
CHECK_DEADLOCK FALSE

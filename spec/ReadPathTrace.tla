--------------------------- MODULE ReadPathTrace ---------------------------
(* Trace validation for ReadPath: events recorded while the Go driver      *)
(* (harness/fs/layer/verif_readpath.go) steps a really served layer        *)
(* (estargz.Build -> metadata store -> reader.Reader -> node layer)        *)
(* through TLC-generated walks. One event = one spec action.               *)
(*   Reset  sizes, chunks, prefetch : layout read from the REAL table of   *)
(*          contents of the blob that was built (so the spec follows the   *)
(*          builder, not the other way round)                              *)
(*   Read   f, off, len, res [n, err, bytes], cache                        *)
(*   Evict  f, off, size, cache                                            *)
(*   Prefetch / BackgroundFetch  cache                                     *)
(* cache = content of the chunk cache after the step: [f, off, size, bytes]*)
(* for every key a Get would hit (node ids mapped back to model files).    *)
EXTENDS ReadPath, Json

VARIABLE l
tvars == <<vars, l>>
TraceLog == ndJsonDeserialize("trace.ndjson")
Ev == TraceLog[l]
IsEvent(e) == l <= Len(TraceLog) /\ Ev.ev = e /\ l' = l + 1

TraceInit ==
    /\ L = [sizes |-> <<>>, chunks |-> <<>>, prefetch |-> FALSE]
    /\ cache = {} /\ last = [act |-> "Init"] /\ l = 1 /\ TLCSet(1, 0)

TraceReset ==
    /\ IsEvent("Reset")
    /\ L' = [sizes |-> Ev.sizes, chunks |-> Ev.chunks, prefetch |-> Ev.prefetch]
    /\ cache' = {}
    /\ last' = [act |-> "Init"]

TraceRead ==
    /\ IsEvent("Read")
    /\ Read(Ev.f, Ev.off, Ev.len)
    /\ last'.err = Ev.res.err
    /\ last'.n = Ev.res.n
    /\ last'.bytes = Ev.res.bytes
    /\ cache' = Range(Ev.cache)

TraceEvict == IsEvent("Evict") /\ Evict(<<Ev.f, Ev.off, Ev.size>>) /\ cache' = Range(Ev.cache)
TracePrefetch == IsEvent("Prefetch") /\ Prefetch /\ cache' = Range(Ev.cache)
TraceBackgroundFetch == IsEvent("BackgroundFetch") /\ BackgroundFetch /\ cache' = Range(Ev.cache)

TraceNext == TraceReset \/ TraceRead \/ TraceEvict \/ TracePrefetch \/ TraceBackgroundFetch

TraceSpec == TraceInit /\ [][TraceNext]_tvars

HighWater == IF l - 1 > TLCGet(1) THEN TLCSet(1, l - 1) ELSE TRUE
TraceAccepted ==
    IF TLCGet(1) = Len(TraceLog) THEN TRUE
    ELSE /\ PrintT("VREJECT " \o ToString(TLCGet(1)) \o " " \o ToString(Len(TraceLog)))
         /\ FALSE
=============================================================================

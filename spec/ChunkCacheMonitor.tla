------------------------- MODULE ChunkCacheMonitor -------------------------
(* Monitor for property C11: only history bookkeeping (which writer opened  *)
(* which key with which length, whose Commit has begun, who aborted) and    *)
(* the recorded read results / final file contents of the IMPLEMENTATION.   *)
(* Works on replay traces (events = spec actions) and on free-running       *)
(* traces (events Open / CommitBegin / Abort / Read, ordered by a sequence  *)
(* number the driver takes BEFORE it calls Commit and AFTER a read          *)
(* returned, so "commit begun" is never assumed too late).                  *)
EXTENDS ChunkCache, Json

VARIABLE l
mvars == <<vars, l>>
TraceLog == ndJsonDeserialize("trace.ndjson")
Ev == TraceLog[l]
Has(f) == f \in DOMAIN Ev

W0 == [w \in Writers |-> [key |-> "", len |-> 0, written |-> 0, st |-> "none", buf |-> None,
                          wip |-> None, cached |-> None, direct |-> FALSE]]
MonInit == Init /\ l = 1

MonNext ==
    /\ l <= Len(TraceLog)
    /\ l' = l + 1
    /\ UNCHANGED <<B, dmap, dlru, I, path, F, fmap, flru, R, shut>>
    /\ W' = CASE Ev.ev = "Reset" -> W0
              [] Ev.ev = "AddOpen" -> [W EXCEPT ![Ev.w].key = Ev.k, ![Ev.w].len = Ev.len, ![Ev.w].st = "open"]
              [] Ev.ev \in {"CommitPublish", "CommitDirect", "CommitBegin"} -> [W EXCEPT ![Ev.w].st = "published"]
              [] Ev.ev = "Abort" -> [W EXCEPT ![Ev.w].st = "aborted"]
              [] OTHER -> W
    /\ last' = IF Ev.ev \in {"ReadAt", "Read"}
               THEN [act |-> "ReadAt", k |-> Ev.k, res |-> Ev.res, files |-> IF Has("files") THEN Ev.files ELSE <<>>]
               ELSE [act |-> Ev.ev, files |-> IF Has("files") THEN Ev.files ELSE <<>>]

MonSpec == MonInit /\ [][MonNext]_mvars

\* the final file of a key, when the driver looked, held a complete committed value
MonFilesComplete ==
    ("files" \in DOMAIN last /\ DOMAIN last.files # {}) =>
        \A k \in DOMAIN last.files :
            last.files[k][1] = 1 =>
                \E w \in CommitBegun(k) : last.files[k][3] = W[w].len /\ (W[w].len = 0 \/ last.files[k][2] = w)
=============================================================================

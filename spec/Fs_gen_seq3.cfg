\* generation, one caller, three calls, two label kinds (Mount; Mount/Check/Unmount; any third call)
CONSTANTS
    MPs = {"m1", "m2"}
    Blobs = {"b1"}
    Labs = {"ok", "bad"}
    Ops = {"Mount", "Check", "Unmount"}
    MaxCalls = 3
    MaxConc = 1
    MaxObj = 2
    SameMp = FALSE
    OneMount = TRUE
    AllowNoVerif = TRUE
    DisableVerif = FALSE
    NoPrefetch = TRUE
    NoBgFetch = TRUE
    PreRes = FALSE
    Expiry = FALSE
    ReleaseOnFail = TRUE
    EraseOnFail = TRUE
    VerifyFirst = TRUE
    SkipNeedsAllow = TRUE
    UnmountCloses = TRUE
    CheckOwnKey = TRUE
    DoneAlways = TRUE
    BgRespectsPrio = TRUE
INIT GenInit
NEXT GenNext
VIEW core
CHECK_DEADLOCK FALSE

-------------------------------- MODULE Sort --------------------------------
(* C14 - prioritized files are laid out first, in order, ahead of a single *)
(* landmark.                                                               *)
(*                                                                         *)
(* Transcription of estargz/build.go:                                      *)
(*   importTar     landmarks of the input dropped (compared after          *)
(*                 cleanEntryName), an entry whose CLEANED name is already *)
(*                 there replaces it and goes to the end (last duplicate   *)
(*                 wins)                                                   *)
(*   moveRec       root special case, not-found test, parents first, hard  *)
(*                 link target before the link, `picked` bookkeeping       *)
(*   sortEntries   loop over the prioritized list, allow-not-found,        *)
(*                 landmark chosen by len(prioritized), sorted ++ rest     *)
(*   divideEntries + the stream decision of Writer.appendTar               *)
(*                 (needsOpenGz \/ cw.n - prevOffset >= MinChunkSize) as   *)
(*                 far as C14 needs it: which data chunk lands in which    *)
(*                 compressed stream (byte positions: Writer.tla, C03)     *)
(*                                                                         *)
(* TLC enumerates input tar x prioritized list x allow-not-found (actions  *)
(* AddEntry/EndTar/AddPrio/DoSort), computes the result with the           *)
(* transcribed algorithm and checks the C14 formulas, which are written    *)
(* declaratively (they do not call the transcription).                     *)
(*                                                                         *)
(* Deliberate deviations / limits (named):                                 *)
(*  D1 strings cannot be taken apart in TLC: cleanEntryName and path.Split *)
(*     are the tables Clean / Parent over a fixed universe of spellings;   *)
(*     the driver feeds the real spellings to the real code, so a wrong    *)
(*     table shows up as spec drift.                                       *)
(*  D2 hard-link cycles are kept out of the universe (moveRec recurses     *)
(*     without bound on them: that is C04's finding, not C14's).           *)
(*  D3 a listed hard link whose target chain is dangling is "not found"    *)
(*     for the code although the link entry exists; the parents moved      *)
(*     before the failure stay ahead of the landmark (directories only).   *)
(*     The formulas read "exists" as "resolves" (Resolves).                *)
(*  D4 ImplicitParents = FALSE is the pinned code: a listed file whose     *)
(*     parent directory has no tar entry of its own is reported "not       *)
(*     found" (moveRec(parent) fails). TRUE is the repaired code (nearest  *)
(*     ancestor that has an entry is moved instead). The C14 formulas hold *)
(*     only for TRUE; FALSE is kept as a negative control and to validate  *)
(*     traces of the unrepaired tree.                                      *)
(*  D6 an abort of the build that is not "a listed path was not found"     *)
(*     (why = "loop": moveRecVisiting's hard-link-loop detector) counts as *)
(*     an abort in MissingAbortsOrIsReported: on the acyclic universe it   *)
(*     is never justified.                                                 *)
(*  D5 compressed sizes are not modelled here: "enough compressed bytes    *)
(*     since the last stream start" is a nondeterministic decision per     *)
(*     data chunk (dec), bound from the observation in the trace spec.     *)
EXTENDS Integers, Sequences, FiniteSets, TLC

CONSTANTS
    UseEntries,        \* subset of DOMAIN U: the tar entries TLC may use
    PrioAlphabet,      \* set of spellings TLC may put into the prioritized list
    MaxTar, MaxPrio,   \* bounds
    WithLayout,        \* enumerate the stream layout as well (smaller configs)
    LayoutOpts,        \* set of [chunk, minOn, workers] records
    \* the code under its guards; each FALSE is a negative control (except ImplicitParents, see D4)
    ImplicitParents,   \* D4
    ParentsFirst,      \* moveRec moves the parent directories before the entry
    TargetFirst,       \* moveRec moves a hard link's target before the link
    PickedGuard,       \* `if _, done := picked[name]; done { return nil }`
    SkipPickedInRest,  \* intar.dump(picked)
    LandmarkAfterMoves,\* the landmark is added after the loop over the prioritized list
    LandmarkByList,    \* prefetch landmark iff len(prioritized) > 0
    ReportMissing,     \* errNotFound is appended to *missedPrioritized (allow) / returned (no allow)
    DropInputLandmarks,\* importTar ignores landmark entries of the input
    LastDupWins,       \* importTar removes an existing entry of the same cleaned name
    LandmarkOwnStream, \* needsOpenGzEntries holds both landmark names
    VisitingIsPath     \* moveRecVisiting: `defer delete(visiting, name)` - the loop detector looks at the current recursion path only

Root  == ""
PLm   == ".prefetch.landmark"
NoPLm == ".no.prefetch.landmark"
Landmarks == {PLm, NoPLm}

\* D1: cleanEntryName as a table (spelling -> cleaned name)
Clean ==
    [s \in {"", "/", "./", ".", "..", "../"} |-> Root] @@
    [s \in {"a", "a/", "/a", "./a", "./a/", "../a"} |-> "a"] @@
    [s \in {"a/b", "/a/b", "./a/b", "../a/b", "a//b", "a/./b"} |-> "a/b"] @@
    [s \in {"a/c", "/a/c", "./a/c", "../a/c"} |-> "a/c"] @@
    [s \in {"a/x", "/a/x", "./a/x"} |-> "a/x"] @@
    [s \in {"d", "/d", "./d", "../d"} |-> "d"] @@
    [s \in {"l", "/l", "./l"} |-> "l"] @@
    [s \in {"l2", "/l2", "./l2"} |-> "l2"] @@
    [s \in {"x", "/x", "./x"} |-> "x"] @@
    [s \in {"e/f", "/e/f", "./e/f"} |-> "e/f"] @@
    [s \in {"e", "e/"} |-> "e"] @@
    [s \in {"u", "u/", "/u", "./u/"} |-> "u"] @@
    [s \in {"u/v", "u/v/", "/u/v", "./u/v/"} |-> "u/v"] @@
    [s \in {"u/w", "u/w/", "/u/w"} |-> "u/w"] @@
    [s \in {"u/v/x", "/u/v/x", "./u/v/x", "../u/v/x"} |-> "u/v/x"] @@
    [s \in {"u/v/y", "/u/v/y", "./u/v/y"} |-> "u/v/y"] @@
    [s \in {"u/w/z", "/u/w/z", "./u/w/z"} |-> "u/w/z"] @@
    [s \in {PLm, "./.prefetch.landmark", "/.prefetch.landmark", "../.prefetch.landmark"} |-> PLm] @@
    [s \in {NoPLm, "./.no.prefetch.landmark", "/.no.prefetch.landmark"} |-> NoPLm]

\* D1: path.Split(strings.TrimSuffix(name, "/")) then cleaned, on cleaned names
Parent ==
    [n \in {Root, "a", "d", "l", "l2", "x", "e", "u", PLm, NoPLm} |-> Root] @@
    [n \in {"u/v", "u/w"} |-> "u"] @@
    [n \in {"u/v/x", "u/v/y"} |-> "u/v"] @@
    [n \in {"u/w/z"} |-> "u/w"] @@
    [n \in {"a/b", "a/c", "a/x"} |-> "a"] @@
    [n \in {"e/f"} |-> "e"]

Ent(name, type, link, size) == [name |-> name, type |-> type, link |-> link, size |-> size]

\* the universe of tar entries (D2: acyclic). e/f has no directory entry of its own anywhere (D4).
U == <<
    Ent("./",   "dir",  "",    0),      \*  1 root entry, as `tar -C dir .` emits it
    Ent("a/",   "dir",  "",    0),      \*  2
    Ent("a/b",  "reg",  "",    3),      \*  3
    Ent("a/c",  "reg",  "",    0),      \*  4 empty file
    Ent("d",    "reg",  "",    5),      \*  5
    Ent("l",    "link", "a/b", 0),      \*  6 hard link
    Ent("l2",   "link", "/l",  0),      \*  7 hard link to a hard link, target spelled absolute
    Ent("./a/b","reg",  "",    1),      \*  8 second entry for a/b under another spelling
    Ent(PLm,    "reg",  "",    1),      \*  9 landmark already in the input
    Ent("./.no.prefetch.landmark", "reg", "", 1),  \* 10 the other one, spelled with ./
    Ent("e/f",  "reg",  "",    2),      \* 11 file in a directory that has no entry (D4)
    Ent("a/b",  "reg",  "",    4),      \* 12 same spelling as 3, other content
    Ent("./.prefetch.landmark", "reg", "", 1),     \* 13 input landmark as `tar -C rootfs -c .` of an optimized rootfs spells it
    Ent("/.prefetch.landmark",  "reg", "", 1),     \* 14 absolute spelling
    Ent("/.no.prefetch.landmark", "reg", "", 1),   \* 15
    Ent("./a/", "dir",  "",    0),      \* 16 the directory a recorded a second time (other spelling)
    Ent("u/",   "dir",  "",    0),      \* 17 two directory levels:
    Ent("u/v/", "dir",  "",    0),      \* 18
    Ent("u/v/x","reg",  "",    2),      \* 19
    Ent("u/v/y","link", "u/v/x", 0),    \* 20 hard link to a file in the same sub-directory
    Ent("u/w/z","link", "/u/v/x", 0)    \* 21 hard link from another sub-directory (u/w has no entry of its own)
>>

VARIABLES
    phase,    \* "tar" -> "prio" -> "sorted" -> "laid"
    tar,      \* input tar: sequence of entries
    prio,     \* prioritized list: sequence of spellings
    allow,    \* WithAllowPrioritizeNotFound given
    eff,      \* auxiliary: EffOf(tar), the effective input by its declarative definition (set when the tar is complete)
    res,      \* [err, why, out, missed]: result of sortEntries; why = "" | "notfound" | "loop"
    opt,      \* layout options [chunk, minOn, workers]
    lay       \* [lm, streams, toc]: where the data went

vars == <<phase, tar, prio, allow, eff, res, opt, lay>>

N(e) == Clean[e.name]
IsLm(e) == N(e) \in Landmarks
Range(s) == {s[i] : i \in 1..Len(s)}
NoRes == [err |-> FALSE, why |-> "", out |-> <<>>, missed |-> <<>>]
NoOpt == [chunk |-> 0, minOn |-> FALSE, workers |-> 0]
NoLay == [lm |-> [off |-> 0, inner |-> 0], streams |-> <<>>, toc |-> <<>>]

-----------------------------------------------------------------------------
(* importTar                                                               *)
RECURSIVE ImportFrom(_, _)
ImportFrom(t, acc) ==
    IF t = <<>> THEN acc
    ELSE LET e == Head(t) IN
         IF DropInputLandmarks /\ IsLm(e) THEN ImportFrom(Tail(t), acc)
         ELSE ImportFrom(Tail(t),
                Append(IF LastDupWins THEN SelectSeq(acc, LAMBDA x : N(x) # N(e)) ELSE acc, e))
Import(t) == ImportFrom(t, <<>>)

InHas(in, n) == \E i \in 1..Len(in) : N(in[i]) = n
\* tarFile.index: the LAST entry added under a cleaned name
InGet(in, n) == in[CHOOSE i \in 1..Len(in) : N(in[i]) = n /\ \A j \in (i+1)..Len(in) : N(in[j]) # n]

(* moveRec: st = [out, picked, err] is threaded through; on an error the   *)
(* moves made so far stay (the Go code mutates `sorted`/`picked` in place) *)
RECURSIVE NearestPresent(_, _)
NearestPresent(n, in) ==   \* D4, repaired code: first ancestor that has an entry (or the root)
    LET p == Parent[n] IN IF p = Root \/ InHas(in, p) THEN p ELSE NearestPresent(p, in)

\* st = [out, picked, err, why, visiting]; visiting = the names moveRecVisiting (the hard-link-loop detector added for C04)
\* has entered and not left. The universe is acyclic (D2), so "loop" can only come out with VisitingIsPath = FALSE.
RECURSIVE MoveRec(_, _, _)
MoveRec(spelling, in, st) ==
    LET name == Clean[spelling] IN
    IF name = Root THEN
        IF InHas(in, Root) /\ (Root \notin st.picked)
        THEN [st EXCEPT !.out = Append(@, InGet(in, Root)), !.picked = @ \cup {Root}]
        ELSE st
    ELSE IF ~InHas(in, name) /\ ~InHas(st.out, name) /\ name \notin st.picked
    THEN [st EXCEPT !.err = TRUE, !.why = "notfound"]
    ELSE IF name \in st.visiting
    THEN [st EXCEPT !.err = TRUE, !.why = "loop"]
    ELSE
        LET Leave(s) == IF VisitingIsPath THEN [s EXCEPT !.visiting = @ \ {name}] ELSE s
            st0 == [st EXCEPT !.visiting = @ \cup {name}]
            par == IF ImplicitParents THEN NearestPresent(name, in) ELSE Parent[name]
            s1  == IF ParentsFirst THEN MoveRec(par, in, st0) ELSE st0
        IN  IF s1.err THEN Leave(s1) ELSE
        LET s2 == IF TargetFirst /\ InHas(in, name) /\ InGet(in, name).type = "link"
                  THEN MoveRec(InGet(in, name).link, in, s1) ELSE s1
        IN  IF s2.err THEN Leave(s2) ELSE
            IF PickedGuard /\ name \in s2.picked THEN Leave(s2)
            ELSE IF InHas(in, name)
                 THEN Leave([s2 EXCEPT !.out = Append(@, InGet(in, name)), !.picked = @ \cup {name}])
                 ELSE Leave(s2)

LmEntry(nonEmptyList) ==
    Ent(IF (IF LandmarkByList THEN nonEmptyList ELSE TRUE) THEN PLm ELSE NoPLm, "reg", "", 1)

(* sortEntries *)
RECURSIVE SortLoop(_, _, _, _, _)
SortLoop(ps, in, st, missed, alw) ==
    IF ps = <<>> THEN [err |-> FALSE, why |-> "", st |-> st, missed |-> missed]
    ELSE LET r == MoveRec(Head(ps), in, [st EXCEPT !.visiting = {}]) IN     \* moveRec: a fresh `visiting` per listed path
         IF r.err
         THEN IF r.why = "notfound" /\ ~ReportMissing
              THEN SortLoop(Tail(ps), in, [r EXCEPT !.err = FALSE, !.why = ""], missed, alw)
              ELSE IF r.why = "notfound" /\ alw       \* errors.Is(err, errNotFound) && missedPrioritized != nil
              THEN SortLoop(Tail(ps), in, [r EXCEPT !.err = FALSE, !.why = ""], Append(missed, Head(ps)), alw)
              ELSE [err |-> TRUE, why |-> r.why, st |-> r, missed |-> missed]
         ELSE SortLoop(Tail(ps), in, r, missed, alw)

SortEntries(t, ps, alw) ==
    LET in == Import(t)
        st0 == [out |-> IF LandmarkAfterMoves THEN <<>> ELSE <<LmEntry(ps # <<>>)>>, picked |-> {}, err |-> FALSE, why |-> "", visiting |-> {}]
        r  == SortLoop(ps, in, st0, <<>>, alw)
    IN  IF r.err THEN [err |-> TRUE, why |-> r.why, out |-> <<>>, missed |-> <<>>]
        ELSE [err |-> FALSE, why |-> "",
              out |-> (IF LandmarkAfterMoves THEN Append(r.st.out, LmEntry(ps # <<>>)) ELSE r.st.out)
                      \o SelectSeq(in, LAMBDA e : ~(SkipPickedInRest /\ N(e) \in r.st.picked)),
              missed |-> r.missed]

-----------------------------------------------------------------------------
(* Layout: divideEntries and the stream decision of appendTar.             *)
(* o = sequence of entries (the sorted order); result in the shape the     *)
(* driver records: streams [s, e, segs], segs [i, o, n, u]; here s/e are   *)
(* stream ordinals and u the number of data segments before it in the      *)
(* stream (0 = the stream begins with this chunk's data; the tar header of *)
(* an entry is written before the decision and stays in the old stream).   *)
Min(a, b) == IF a < b THEN a ELSE b
RECURSIVE SumSizes(_)
SumSizes(o) == IF o = <<>> THEN 0 ELSE Head(o).size + SumSizes(Tail(o))

\* divideEntries(entries, minPartsNum): sequence of sequences of indices into o
RECURSIVE Divide(_, _, _, _, _, _)
Divide(o, i, offset, nextEnd, unit, set) ==
    IF i > Len(o) THEN set
    ELSE LET set1 == [set EXCEPT ![Len(set)] = Append(@, i)]
             off1 == offset + o[i].size
         IN  IF off1 > nextEnd THEN Divide(o, i + 1, off1, nextEnd + unit, unit, Append(set1, <<>>))
             ELSE Divide(o, i + 1, off1, nextEnd, unit, set1)
DivideEntries(o, parts) ==
    LET unit == SumSizes(o) \div parts IN Divide(o, 1, 0, unit, unit, << <<>> >>)

\* data chunks of entry i: sequence of [i, o, n]
RECURSIVE ChunksFrom(_, _, _, _)
ChunksFrom(i, size, c, written) ==
    IF written >= size THEN <<>>
    ELSE <<[i |-> i, o |-> written, n |-> Min(c, size - written)]>> \o ChunksFrom(i, size, c, written + Min(c, size - written))
RECURSIVE PartChunks(_, _, _)
PartChunks(o, idxs, c) ==
    IF idxs = <<>> THEN <<>>
    ELSE (IF o[Head(idxs)].type = "reg" THEN ChunksFrom(Head(idxs), o[Head(idxs)].size, c, 0) ELSE <<>>)
         \o PartChunks(o, Tail(idxs), c)

\* needsOpenGz: type "reg" (first chunk) and the exact name is in needsOpenGzEntries
NeedsOpenGz(o, ch) == LandmarkOwnStream /\ ch.o = 0 /\ o[ch.i].name \in Landmarks

\* the writer of one part: fold over its data chunks; cur = data segments of the open stream,
\* started = the open stream was begun by a chunk (or holds data); done = closed streams
RECURSIVE PartStreams(_, _, _, _, _, _)
PartStreams(o, chs, minOn, enough, cur, done) ==
    IF chs = <<>> THEN (IF cur = <<>> THEN done ELSE Append(done, cur))
    ELSE LET ch == Head(chs)
             new == NeedsOpenGz(o, ch) \/ ~minOn \/ (<<ch.i, ch.o>> \in enough)
         IN  IF new
             THEN PartStreams(o, Tail(chs), minOn, enough, <<ch @@ [u |-> 0]>>,
                              \* the stream open so far is closed; it exists even without data (it holds tar headers),
                              \* but only streams with data are listed
                              IF cur = <<>> THEN done ELSE Append(done, cur))
             ELSE PartStreams(o, Tail(chs), minOn, enough, Append(cur, ch @@ [u |-> Len(cur) + 1]), done)
    \* note: u of a chunk that does not start a stream is > 0 even when it is the first data in the
    \* stream, because at least the entry's own tar header precedes it in that stream

RECURSIVE ConcatAll(_)
ConcatAll(ss) == IF ss = <<>> THEN <<>> ELSE Head(ss) \o ConcatAll(Tail(ss))

LayoutOf(o, op, enough) ==
    LET parts == IF op.minOn THEN <<[i \in 1..Len(o) |-> i]>> ELSE DivideEntries(o, op.workers)
        segss == ConcatAll([p \in 1..Len(parts) |-> PartStreams(o, PartChunks(o, parts[p], op.chunk), op.minOn, enough, <<>>, <<>>)])
        streams == [k \in 1..Len(segss) |-> [s |-> k, e |-> k + 1, segs |-> segss[k]]] \o <<>>   \* \o <<>>: evaluated once
        toc == ConcatAll([k \in 1..Len(streams) |->
                    [j \in 1..Len(streams[k].segs) |->
                        [i |-> streams[k].segs[j].i, o |-> streams[k].segs[j].o, n |-> streams[k].segs[j].n,
                         off |-> k, inner |-> streams[k].segs[j].u]]])
        lmi == CHOOSE i \in 1..Len(o) : IsLm(o[i])
        lmt == CHOOSE j \in 1..Len(toc) : toc[j].i = lmi
    IN  [lm |-> [off |-> toc[lmt].off, inner |-> toc[lmt].inner], streams |-> streams, toc |-> toc]

AllChunks(o, c) == Range(PartChunks(o, [i \in 1..Len(o) |-> i], c))

-----------------------------------------------------------------------------
\* effective input, declaratively: landmarks dropped, of several entries with one cleaned name the last one, in tar order
EffOf(t) ==
    LET marked == [i \in 1..Len(t) |-> [e |-> t[i], keep |-> ~IsLm(t[i]) /\ \A j \in (i+1)..Len(t) : N(t[j]) # N(t[i])]]
        kept == SelectSeq(marked, LAMBDA x : x.keep)
    IN  [i \in 1..Len(kept) |-> kept[i].e]

(* The state machine that makes TLC enumerate the cases *)
Init ==
    /\ phase = "tar" /\ tar = <<>> /\ prio = <<>> /\ allow = FALSE /\ eff = <<>>
    /\ res = NoRes /\ opt = NoOpt /\ lay = NoLay

AddEntry(k) ==
    /\ phase = "tar" /\ Len(tar) < MaxTar
    /\ U[k] \notin Range(tar)
    /\ tar' = Append(tar, U[k])
    /\ UNCHANGED <<phase, prio, allow, eff, res, opt, lay>>

EndTar ==
    /\ phase = "tar" /\ phase' = "prio"
    /\ eff' = EffOf(tar)
    /\ UNCHANGED <<tar, prio, allow, res, opt, lay>>

AddPrio(p) ==
    /\ phase = "prio" /\ Len(prio) < MaxPrio
    /\ prio' = Append(prio, p)
    /\ UNCHANGED <<phase, tar, allow, eff, res, opt, lay>>

DoSort(alw) ==
    /\ phase = "prio" /\ phase' = "sorted"
    /\ allow' = alw
    /\ res' = SortEntries(tar, prio, alw)
    /\ UNCHANGED <<tar, prio, eff, opt, lay>>

DoLayout(op, enough) ==
    /\ WithLayout /\ phase = "sorted" /\ ~res.err
    /\ phase' = "laid" /\ opt' = op
    /\ lay' = LayoutOf(res.out, op, enough)
    /\ UNCHANGED <<tar, prio, allow, eff, res>>

Next ==
    \/ \E k \in UseEntries : AddEntry(k)
    \/ EndTar
    \/ \E p \in PrioAlphabet : AddPrio(p)
    \/ \E alw \in BOOLEAN : DoSort(alw)
    \/ \E op \in LayoutOpts :
         \E enough \in (IF op.minOn /\ phase = "sorted" /\ ~res.err
                        THEN SUBSET {<<ch.i, ch.o>> : ch \in AllChunks(res.out, op.chunk)} ELSE {{}}) :
            DoLayout(op, enough)

Spec == Init /\ [][Next]_vars

\* values for the constant LayoutOpts (a cfg file cannot write records)
Opt(c, m, w) == [chunk |-> c, minOn |-> m, workers |-> w]
OptsNone == {}
OptsStd == {Opt(3, FALSE, 1), Opt(3, FALSE, 2), Opt(3, FALSE, 3), Opt(3, TRUE, 1), Opt(2, FALSE, 2)}
OptsBig == OptsStd \cup {Opt(2, TRUE, 1), Opt(2, FALSE, 3), Opt(1, FALSE, 2), Opt(4, FALSE, 2)}

-----------------------------------------------------------------------------
(* The C14 formulas: declarative, over (tar, prio, allow, res, lay) only.  *)
(* The monitor evaluates the very same definitions on what the real        *)
(* estargz.Build produced.                                                 *)

E == eff
Present(n) == \E i \in 1..Len(E) : N(E[i]) = n
EntOf(n) == E[CHOOSE i \in 1..Len(E) : N(E[i]) = n]

RECURSIVE Anc(_)
Anc(n) == IF n = Root THEN {} ELSE {Parent[n]} \cup Anc(Parent[n])
AncP(n) == {a \in Anc(n) : Present(a)}

\* D3: a listed path exists if it is the root, or has an entry and, being a hard link, its target chain ends in an entry
RECURSIVE Resolves(_)
Resolves(n) == n = Root \/ (Present(n) /\ (EntOf(n).type = "link" => Resolves(Clean[EntOf(n).link])))

\* what has to be ahead of the landmark because n was listed
RECURSIVE Need(_)
Need(n) ==
    IF n = Root THEN {x \in {Root} : Present(Root)}
    ELSE IF ~Present(n) THEN {}
    ELSE AncP(n) \cup (IF EntOf(n).type = "link" THEN Need(Clean[EntOf(n).link]) ELSE {})
                 \cup (IF Resolves(n) THEN {n} ELSE {})
Listed(k) == Clean[prio[k]]
Upto(k) == UNION {Need(Listed(j)) : j \in 1..k}

Done == phase \in {"sorted", "laid"}
Ok == Done /\ ~res.err
out == res.out
LmIdxs == {i \in 1..Len(out) : IsLm(out[i])}
LmIdx == CHOOSE i \in LmIdxs : TRUE
Lead == {N(out[i]) : i \in 1..(LmIdx - 1)}

ExactlyOneLandmark ==
    Ok => /\ Cardinality(LmIdxs) = 1
          /\ out[LmIdx] = Ent(IF Len(prio) > 0 THEN PLm ELSE NoPLm, "reg", "", 1)

EachAtMostOnce ==
    Ok => \A i, j \in 1..Len(out) : i # j => N(out[i]) # N(out[j])

NothingLostOrDuplicated ==
    Ok => /\ Len(out) = Len(E) + Cardinality(LmIdxs)
          /\ \A i \in 1..Len(E) : Cardinality({j \in 1..Len(out) : out[j] = E[i]}) = 1

PrioritizedFirstInOrder ==
    (Ok /\ Cardinality(LmIdxs) = 1) =>
        /\ Lead = Upto(Len(prio))
        /\ \A k \in 1..Len(prio) :
             /\ Cardinality(Upto(k)) < LmIdx
             /\ {N(out[i]) : i \in 1..Cardinality(Upto(k))} = Upto(k)
             /\ (Listed(k) \in Need(Listed(k)) /\ Listed(k) \notin Upto(k - 1))
                    => N(out[Cardinality(Upto(k))]) = Listed(k)

ParentsAndTargetsBefore ==
    (Ok /\ Cardinality(LmIdxs) = 1) =>
        \A i \in 1..(LmIdx - 1) :
            /\ \A a \in AncP(N(out[i])) : \E j \in 1..(i - 1) : N(out[j]) = a
            /\ (out[i].type = "link" /\ Present(Clean[out[i].link]))
                    => \E j \in 1..(i - 1) : N(out[j]) = Clean[out[i].link]

RestKeepsRelativeOrder ==
    (Ok /\ Cardinality(LmIdxs) = 1) =>
        SubSeq(out, LmIdx + 1, Len(out)) = SelectSeq(E, LAMBDA e : N(e) \notin Lead)

MissingAbortsOrIsReported ==
    Done => LET Miss == SelectSeq(prio, LAMBDA p : ~Resolves(Clean[p])) IN
            IF allow THEN ~res.err /\ res.missed = Miss
            ELSE (res.err <=> Miss # <<>>) /\ res.missed = <<>>

\* layout (model: stream ordinals; monitor: byte offsets of the built blob)
Laid == phase = "laid" /\ Cardinality(LmIdxs) = 1
L == lay.lm.off
LandmarkStartsOwnStream ==
    Laid => /\ lay.lm.inner = 0
            /\ \E k \in 1..Len(lay.streams) :
                 /\ lay.streams[k].s = L
                 /\ lay.streams[k].segs # <<>>
                 /\ lay.streams[k].segs[1].i = LmIdx /\ lay.streams[k].segs[1].u = 0
PrioritizedDataBeforeLandmark ==
    Laid => /\ \A k \in 1..Len(lay.streams) : \A j \in 1..Len(lay.streams[k].segs) :
                 lay.streams[k].segs[j].i < LmIdx => lay.streams[k].e <= L
            /\ \A t \in 1..Len(lay.toc) : lay.toc[t].i < LmIdx => lay.toc[t].off < L
NoOtherDataBefore ==
    Laid => /\ \A k \in 1..Len(lay.streams) : \A j \in 1..Len(lay.streams[k].segs) :
                 lay.streams[k].segs[j].i >= LmIdx => lay.streams[k].s >= L
            /\ \A t \in 1..Len(lay.toc) : lay.toc[t].i >= LmIdx => lay.toc[t].off >= L
\* every byte of every non-empty regular file is in exactly one stream, in file order (so "the data of a file" is all of it)
DataAccountedFor ==
    Laid => \A i \in 1..Len(out) : (out[i].type = "reg" /\ out[i].size > 0) =>
              LET segs == SelectSeq(ConcatAll([k \in 1..Len(lay.streams) |-> lay.streams[k].segs]), LAMBDA s : s.i = i) IN
              /\ segs # <<>> /\ segs[1].o = 0
              /\ \A j \in 1..(Len(segs) - 1) : segs[j].o + segs[j].n = segs[j + 1].o
              /\ segs[Len(segs)].o + segs[Len(segs)].n = out[i].size

\* internal consistency of the model (not a C14 formula): the transcribed import equals the declarative one
ImportIsEff == Done => Import(tar) = E
=============================================================================

------------------------------ MODULE Overlay ------------------------------
(***************************************************************************)
(* Pure operators for property C07: what an OCI layer MEANS (ApplyOCI),    *)
(* what its overlayfs lower directory must look like (Translate) and what  *)
(* overlayfs makes of a stack of lower directories (OverlayMerge).         *)
(* No variables: Node.tla (the code of fs/layer/node.go), OverlayCheck.tla *)
(* (TLC: OverlayMerge(Translate(stack)) = ApplyOCI(stack) for all small    *)
(* stacks) and OverlayMonitor.tla (the same equation on trees served by    *)
(* the real nodes) are built on these definitions.                         *)
(*                                                                         *)
(* Names are TLC strings, which cannot be taken apart; the whiteout        *)
(* relation is therefore defined by concatenation over a finite table of   *)
(* stems: w is a whiteout file name iff w = ".wh." \o x for a stem x.      *)
(***************************************************************************)
EXTENDS Integers, Sequences, FiniteSets

WhPrefix   == ".wh."
Opq        == ".wh..wh..opq"              \* opaque marker (whiteoutOpaqueDir)
PrefetchLM == ".prefetch.landmark"
NoPrefetchLM == ".no.prefetch.landmark"
Landmarks  == {PrefetchLM, NoPrefetchLM}
TocName    == "stargz.index.json"
StateDir   == ".stargz-snapshotter"

\* every name that may follow the whiteout prefix in this model
Stems == {"a", "b", "d", "foo", "zz", ".wh.foo", ".wh..opq", ".opq", PrefetchLM, NoPrefetchLM, TocName, StateDir,
          ".wh.a", ".wh..wh.foo", Opq}
WhOf(x) == WhPrefix \o x
\* (constant-level definitions without parameters are evaluated once by TLC)
WhNames == {WhOf(x) : x \in Stems}
TargetF == [w \in WhNames |-> CHOOSE x \in Stems : w = WhOf(x)]
HasWhPrefix(n) == n \in WhNames
Target(w) == TargetF[w]
\* a whiteout FILE of the layer tar: prefixed, but not the opaque marker
IsWhiteoutFile(n) == HasWhPrefix(n) /\ n # Opq

OpaqueKeys == {"trusted.overlay.opaque", "user.overlay.opaque"}
KeysOf(mode) == CASE mode = "trusted" -> {"trusted.overlay.opaque"}
                  [] mode = "user"    -> {"user.overlay.opaque"}
                  [] mode = "all"     -> OpaqueKeys

SeqToSet(s) == {s[i] : i \in 1..Len(s)}
Min(S) == CHOOSE x \in S : \A y \in S : x <= y
Max(S) == CHOOSE x \in S : \A y \in S : x >= y
Empty == [x \in {} |-> 0]

----------------------------------------------------------------------------
(* One directory.  raw : raw child name -> kind ("reg", "dir") as the TOC   *)
(* has it.  The translation demanded by the statement of C07:               *)
(*   - a whiteout file .wh.X appears as a char device named X, unless the   *)
(*     same directory carries a real X;                                     *)
(*   - whiteout files, the opaque marker and (in the root) the prefetch     *)
(*     landmarks never appear.                                              *)
(* realWins = FALSE is the negative control (the whiteout shadows a real X) *)

NormalNames(raw, isRoot) == {n \in DOMAIN raw : ~HasWhPrefix(n) /\ ~(isRoot /\ n \in Landmarks)}
WhTargets(raw) == {Target(w) : w \in {n \in DOMAIN raw : IsWhiteoutFile(n)}}

TranslateG(raw, isRoot, realWins) ==
    LET nn == NormalNames(raw, isRoot)
        wt == WhTargets(raw)
        shown == IF realWins THEN wt \ nn ELSE wt
    IN [x \in (nn \cup shown) |->
            IF x \in shown THEN [kind |-> "chr", rdev |-> 0]
            ELSE [kind |-> raw[x], rdev |-> 0]]
Translate(raw, isRoot) == TranslateG(raw, isRoot, TRUE)
IsOpaqueRaw(raw) == Opq \in DOMAIN raw

----------------------------------------------------------------------------
(* Layers of depth two.  A layer tar:  [top : raw name -> kind,             *)
(*                                      sub : dir name -> (raw name -> kind)]*)
(* with sub defined for exactly the directories of top.                     *)
(* A served lower directory: [top : name -> [kind, rdev], opq : set of      *)
(*   xattr keys, sub : dir name -> [ents : name -> [kind, rdev], opq : ..]]  *)
(* A root filesystem: [top : name -> [kind, from], sub : dir -> (name ->    *)
(*   [kind, from])], from = position (1 = lowest) of the layer an entry is  *)
(*   taken from (stands for content and attributes).                        *)

DirsOf(f) == {x \in DOMAIN f : f[x].kind = "dir"}
RawDirs(raw) == {x \in DOMAIN raw : raw[x] = "dir" /\ ~HasWhPrefix(x)}

\* the statement excludes layers with a whiteout for a name and a directory of that same name
\* (plain overlayfs lower directories cannot express them).  Deviation named here: a layer whose ROOT carries the
\* opaque marker is left out of the stack comparison as well - overlayfs ignores the opaque xattr on the root of a
\* lower directory, for any snapshotter; the xattr itself on a root is covered by Node.tla (OpaqueXattr).
Excluded(layer) ==
    \/ \E x \in RawDirs(layer.top) : WhOf(x) \in DOMAIN layer.top
    \/ IsOpaqueRaw(layer.top)

ServedG(layer, mode, realWins, opaqueOn) ==
    LET t == TranslateG(layer.top, TRUE, realWins) IN
    [top |-> t,
     opq |-> IF IsOpaqueRaw(layer.top) /\ opaqueOn THEN KeysOf(mode) ELSE {},
     sub |-> [x \in DirsOf(t) |->
                [ents |-> TranslateG(layer.sub[x], FALSE, realWins),
                 opq  |-> IF IsOpaqueRaw(layer.sub[x]) /\ opaqueOn THEN KeysOf(mode) ELSE {}]]]
Served(layer, mode) == ServedG(layer, mode, TRUE, TRUE)

\* ---- applying layer tars in order (OCI image-spec, "applying changesets"): whiteouts and opaque markers
\* ---- remove entries of the LOWER result only, then the layer's own entries are added
ApplyDir(lower, raw, isRoot, pos) ==
    \* lower : name -> [kind, from];  result : name -> [kind, from]
    LET opq  == IsOpaqueRaw(raw)
        kept == {x \in DOMAIN lower : ~opq /\ WhOf(x) \notin DOMAIN raw}
        new  == NormalNames(raw, isRoot)
    IN [x \in (kept \cup new) |-> IF x \in new THEN [kind |-> raw[x], from |-> pos] ELSE lower[x]]

Apply1(fs, layer, pos) ==
    LET top  == ApplyDir(fs.top, layer.top, TRUE, pos)
        newd == RawDirs(layer.top)
    IN [top |-> top,
        sub |-> [x \in DirsOf(top) |->
                   LET lowerKept == /\ x \in DirsOf(fs.top)
                                    /\ ~IsOpaqueRaw(layer.top)
                                    /\ WhOf(x) \notin DOMAIN layer.top
                       base == IF lowerKept THEN fs.sub[x] ELSE Empty
                   IN IF x \in newd THEN ApplyDir(base, layer.sub[x], FALSE, pos) ELSE base]]

RECURSIVE ApplyFrom(_, _, _)
ApplyFrom(fs, stack, i) == IF i > Len(stack) THEN fs ELSE ApplyFrom(Apply1(fs, stack[i], i), stack, i + 1)
\* stack[1] is the lowest layer
ApplyOCI(stack) == ApplyFrom([top |-> Empty, sub |-> Empty], stack, 1)

\* ---- overlayfs over served lower directories; S[1] lowest, key = the opaque xattr the mount honours
IsWhiteoutNode(e) == e.kind = "chr" /\ e.rdev = 0

OverlayMerge(S, key) ==
    LET N == Len(S)
        \* every lower directory contributes to "/": overlayfs builds the root's lower stack at mount time and
        \* does not look at an opaque xattr on the ROOT of a lower directory (see Excluded)
        contrib == 1..N
        prov(x) == {i \in contrib : x \in DOMAIN S[i].top}
        names == UNION {DOMAIN S[i].top : i \in contrib}
        vis == {x \in names : ~IsWhiteoutNode(S[Max(prov(x))].top[x])}
        \* layers whose directory x is merged: below the topmost provider until something that is not a
        \* directory blocks, or an opaque directory ends the merge
        dirLayers(x) ==
            LET t == Max(prov(x))
                blockers == {i \in prov(x) : i < t /\ S[i].top[x].kind # "dir"}
                lo == IF blockers = {} THEN 0 ELSE Max(blockers)
                ds == {i \in prov(x) : i > lo}
                oq == {i \in ds : key \in S[i].sub[x].opq}
            IN IF oq = {} THEN ds ELSE {i \in ds : i >= Max(oq)}
        subOf(x) ==
            LET dl == dirLayers(x)
                sprov(y) == {i \in dl : y \in DOMAIN S[i].sub[x].ents}
                snames == UNION {DOMAIN S[i].sub[x].ents : i \in dl}
                svis == {y \in snames : ~IsWhiteoutNode(S[Max(sprov(y))].sub[x].ents[y])}
            IN [y \in svis |-> [kind |-> S[Max(sprov(y))].sub[x].ents[y].kind, from |-> Max(sprov(y))]]
        top == [x \in vis |-> [kind |-> S[Max(prov(x))].top[x].kind, from |-> Max(prov(x))]]
    IN [top |-> top, sub |-> [x \in DirsOf(top) |-> subOf(x)]]

=============================================================================

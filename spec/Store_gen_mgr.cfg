\* generation: 1 image x 2 layers, manager level, registry failures, any digest
CONSTANTS
    Images <- Img1x2
    Fuse = FALSE
    Kinds = {"diff"}
    Errors = TRUE
    AllTargets = FALSE
    MaxCnt = 2
    MaxNeg = 1
    DeleteInnerCounter = TRUE
    ForgetMemoOfReleased = TRUE
    ResetMemoAtLastRelease = TRUE
    DropOnlyAtZero = TRUE
    DoneDuplicate = TRUE
    ResolveDetached = TRUE
    Cancels = TRUE
INIT GenInit
NEXT GenNext
VIEW core
CHECK_DEADLOCK FALSE

-------------------------------- MODULE Toc --------------------------------
(* Reference semantics of an eStargz TOC (properties C05 and C04).           *)
(*                                                                         *)
(* (a) the SPACE of small spec-conforming TOCs: a TOC is a sequence of      *)
(*     logical entries over a fixed universe of cleaned paths; a regular    *)
(*     file carries a chunk layout (one chunk, two chunks in two gzip       *)
(*     streams with explicit / omitted last chunkSize, two chunks in one    *)
(*     stream (innerOffset), one chunk appended to the previous file's      *)
(*     stream), a digest profile, an attribute profile and a spelling of    *)
(*     its name ("a", "./a", "../a", "a/", and with inner / trailing dot       *)
(*     elements: "a/.", "a/zz/..", "a/./b", "a//b", "a/b/../b").  AddEntry is the only action;   *)
(*     every reachable state whose hard links resolve is one TOC.           *)
(* (b) the REFERENCE SEMANTICS as operators over a TOC L: the set of paths  *)
(*     (explicit + implicit parents), identity of nodes (hard links),       *)
(*     children, attributes, link counts, chunk table and                   *)
(*     ChunkEntryForOffset for every offset 0..size, bytes, pre-read        *)
(*     callbacks of shared streams, TOC digest label, accept.               *)
(* Both metadata stores (metadata/memory = estargz.Reader.initFields +      *)
(* assignIDs, cmd/.../db = initNodes) are interpreters of the same TOC; the *)
(* trace spec TocTrace compares what each store showed with (b), the        *)
(* monitor TocMonitor compares the two stores with each other (C05).        *)
(*                                                                         *)
(* Deliberate deviations from the code, by name:                            *)
(*   - path arithmetic (path.Clean, parentDir, path.Base) is tabulated for  *)
(*     the finite universe AllPaths (Par, BaseOf, Anc, Rank);               *)
(*   - byte offsets in the blob are abstracted to the index of the gzip     *)
(*     stream (1 = first payload stream), bytes to small integers,          *)
(*     digests to labels ("D" = digest of the file, "C<k>" = of chunk k);   *)
(*   - DupDirCountsTwice: both stores count a repeated directory entry      *)
(*     once per entry in the parent's link count (estargz addChild /        *)
(*     db setChild); TRUE models that, FALSE is the ideal nlink.            *)
EXTENDS Integers, Sequences, FiniteSets, TLC

CONSTANTS
    EPaths,          \* cleaned paths an entry may carry
    ETypes,          \* entry types generated
    MaxEntries,      \* number of logical entries
    FocusMax,        \* how many entries may carry non-default features
    Sizes, Lays, Digs, Attrs, Spells,   \* feature domains of a focus entry
    WsSet,           \* bytes of white space after the TOC JSON
    AllowDupDir,     \* repeated directory entries
    AllowUnsorted,   \* a directory entry after entries below it (implicit parent first)
    AllowLinkFirst,  \* a hard link before its target
    DupDirCountsTwice,   \* deviation flag, see above
    LastChunkToEnd       \* guard: chunkSize 0 of a last chunk means "to the end of the file"

VARIABLES toc, ws
vars == <<toc, ws>>

-----------------------------------------------------------------------------
(* path tables *)
AllPaths == {"/", "/a", "/a/b", "/a/b/c", "/d", "/e"}
Par(p) == CASE p = "/a/b" -> "/a" [] p = "/a/b/c" -> "/a/b" [] OTHER -> "/"
BaseOf(p) == CASE p = "/a" -> "a" [] p = "/a/b" -> "b" [] p = "/a/b/c" -> "c"
               [] p = "/d" -> "d" [] p = "/e" -> "e" [] OTHER -> ""
Anc(p) == CASE p = "/" -> {} [] p = "/a/b" -> {"/", "/a"} [] p = "/a/b/c" -> {"/", "/a", "/a/b"}
            [] OTHER -> {"/"}
Rank(p) == CASE p = "/" -> 1 [] p = "/a" -> 2 [] p = "/a/b" -> 3 [] p = "/a/b/c" -> 4
             [] p = "/d" -> 5 [] OTHER -> 6

Max(S) == CHOOSE x \in S : \A y \in S : y <= x
Half(n) == n \div 2
Min(a, b) == IF a < b THEN a ELSE b

(* "many chunks" layouts: n chunks of ChunkLen bytes, each in its own gzip stream. 40-byte chunks give chunk      *)
(* offsets 40*k whose zig-zag varint encodings (keys of the db store's chunksExtra bucket) do not sort like the   *)
(* numbers; "m9k" crosses the 2->3 byte boundary (8192) as well.                                                  *)
ManyLays == {"m3", "m10", "m12", "m9k"}
ChunkLen(y) == IF y = "m9k" THEN 2100 ELSE 40
ManyCount(y) == CASE y = "m3" -> 3 [] y = "m10" -> 10 [] y = "m12" -> 12 [] OTHER -> 9
ManySize(y) == ChunkLen(y) * ManyCount(y)

-----------------------------------------------------------------------------
(* (b) reference semantics over a TOC L (sequence of logical entries) *)
Idx(L, p) == {i \in DOMAIN L : L[i].p = p}
Explicit(L, p) == Idx(L, p) # {}
LastIdx(L, p) == Max(Idx(L, p))
PathsOf(L) == {"/"} \cup {L[i].p : i \in DOMAIN L} \cup UNION {Anc(L[i].p) : i \in DOMAIN L}

RECURSIVE SrcN(_, _, _)
SrcN(L, i, n) ==            \* the entry a (chain of) hard link(s) stands for; 0 = dangling or too long
    IF L[i].t # "hardlink" THEN i
    ELSE IF n = 0 \/ ~Explicit(L, L[i].tgt) THEN 0
    ELSE SrcN(L, LastIdx(L, L[i].tgt), n - 1)
Src(L, i) == SrcN(L, i, Len(L))

(* identity of the node a path names: index of the source entry, or -Rank for an implicit directory *)
Ident(L, p) == IF Explicit(L, p) THEN Src(L, LastIdx(L, p)) ELSE 0 - Rank(p)
Same(L, p) == {q \in PathsOf(L) : Ident(L, q) = Ident(L, p)}
TypeOf(L, p) == IF Ident(L, p) <= 0 THEN "dir" ELSE L[Ident(L, p)].t
KidPaths(L, p) == {q \in PathsOf(L) : q # "/" /\ Par(q) = p}
KidsOf(L, p) == {BaseOf(q) : q \in KidPaths(L, p)}

NLink(L, p) ==
    IF TypeOf(L, p) = "dir"
    THEN 2 + (IF DupDirCountsTwice
              THEN Cardinality({i \in DOMAIN L : L[i].t = "dir" /\ L[i].p # "/" /\ Par(L[i].p) = p})
                   + Cardinality({q \in KidPaths(L, p) : ~Explicit(L, q)})
              ELSE Cardinality({q \in KidPaths(L, p) : TypeOf(L, q) = "dir"}))
    ELSE 1 + Cardinality({j \in DOMAIN L : L[j].t = "hardlink" /\ Src(L, j) = Ident(L, p)})

SymTarget == "../x"
(* modification time a node shows (UTC, RFC 3339 with nano seconds; "" = zero time) per attribute profile. The     *)
(* "t..." profiles carry nothing but a modtime: years outside 1678..2262 (not representable as int64 nano seconds  *)
(* since 1970), a +09:00 zone offset ("2020-01-02T12:04:05+09:00"), sub-second precision, the zero time.          *)
MTimeOf(at) ==
    CASE at = "f" -> "2020-01-02T03:04:05Z"
      [] at = "t1600" -> "1600-01-01T00:00:00Z"
      [] at = "t1677" -> "1677-09-21T00:00:00Z"
      [] at = "t2263" -> "2263-01-01T00:00:00Z"
      [] at = "t2500" -> "2500-06-15T12:00:00Z"
      [] at = "t2999" -> "2999-12-31T23:59:59Z"
      [] at = "tz9" -> "2020-01-02T03:04:05Z"
      [] at = "tsub" -> "2020-01-02T03:04:05.123456789Z"
      [] OTHER -> ""                                   \* "z", "e", "t0001" (explicit zero time)
ImplicitAttr == [ty |-> "dir", perm |-> 493, sb |-> 0, size |-> 0, uid |-> 0, gid |-> 0, link |-> "",
                 maj |-> 0, min |-> 0, mt |-> "", xa |-> <<>>]
EntryAttr(e) ==
    [ty |-> e.t,
     perm |-> CASE e.at = "f" -> 493 [] e.at = "e" -> 384 [] OTHER -> 0,
     sb |-> IF e.at = "f" THEN 4 ELSE 0,
     size |-> IF e.t = "reg" THEN e.sz ELSE 0,
     uid |-> CASE e.at = "f" -> 1000 [] e.at = "e" -> 1 [] OTHER -> 0,
     gid |-> IF e.at = "f" THEN 1001 ELSE 0,
     link |-> IF e.t = "symlink" THEN SymTarget ELSE "",
     maj |-> IF e.t \in {"char", "block"} THEN 1 ELSE 0,
     min |-> IF e.t \in {"char", "block"} THEN 2 ELSE 0,
     mt |-> MTimeOf(e.at),
     xa |-> CASE e.at = "f" -> << <<"k1", "v1">> >>
              [] e.at = "e" -> << <<"k1", "">>, <<"k2", "">> >>
              [] OTHER -> <<>>]
AttrOf(L, p) == IF Ident(L, p) <= 0 THEN ImplicitAttr ELSE EntryAttr(L[Ident(L, p)])

(* gzip streams: n = streams written so far, len = uncompressed length of the last one *)
HasData(e) == e.t = "reg" /\ e.sz > 0
RECURSIVE LayAfter(_, _)
LayAfter(L, i) ==
    IF i = 0 THEN [n |-> 0, len |-> 0]
    ELSE LET prev == LayAfter(L, i - 1)
             e == L[i]
         IN IF ~HasData(e) THEN prev
            ELSE CASE e.lay = "one" -> [n |-> prev.n + 1, len |-> e.sz]
                   [] e.lay \in {"two", "twoz"} -> [n |-> prev.n + 2, len |-> e.sz - Half(e.sz)]
                   [] e.lay = "inner" -> [n |-> prev.n + 1, len |-> e.sz]
                   [] e.lay \in ManyLays -> [n |-> prev.n + ManyCount(e.lay), len |-> ChunkLen(e.lay)]
                   [] OTHER -> [n |-> prev.n, len |-> prev.len + e.sz]       \* "share"

(* chunk table of entry i: co/cs = chunkOffset/chunkSize, st = stream, io = innerOffset, k = ordinal *)
ChunksOf(L, i) ==
    LET e == L[i]
        prev == LayAfter(L, i - 1)
        h == Half(e.sz)
        lastcs == IF LastChunkToEnd \/ e.lay # "twoz" THEN e.sz - h ELSE 0
    IN IF ~HasData(e) THEN <<>>
       ELSE CASE e.lay = "one" -> << [k |-> 1, co |-> 0, cs |-> e.sz, st |-> prev.n + 1, io |-> 0] >>
              [] e.lay \in {"two", "twoz"} ->
                    << [k |-> 1, co |-> 0, cs |-> h, st |-> prev.n + 1, io |-> 0],
                       [k |-> 2, co |-> h, cs |-> lastcs, st |-> prev.n + 2, io |-> 0] >>
              [] e.lay = "inner" ->
                    << [k |-> 1, co |-> 0, cs |-> h, st |-> prev.n + 1, io |-> 0],
                       [k |-> 2, co |-> h, cs |-> e.sz - h, st |-> prev.n + 1, io |-> h] >>
              [] e.lay \in ManyLays ->
                    [k \in 1..ManyCount(e.lay) |->
                        [k |-> k, co |-> (k - 1) * ChunkLen(e.lay), cs |-> ChunkLen(e.lay), st |-> prev.n + k, io |-> 0]]
              [] OTHER -> << [k |-> 1, co |-> 0, cs |-> e.sz, st |-> prev.n, io |-> prev.len] >>

DgLabel(L, i, c, n) ==         \* "D<i>" = digest of the whole file of entry i, "C<i>.<k>" = of its k-th chunk
    CASE L[i].dg \in {"both", "chunk"} -> (IF n = 1 THEN "D" \o ToString(i) ELSE "C" \o ToString(i) \o "." \o ToString(c.k))
      [] L[i].dg = "file" -> "D" \o ToString(i)     \* no chunkDigest: the digest of the (single-chunk) file stands in
      [] OTHER -> ""

(* ChunkEntryForOffset(o) of entry i, for 0 <= o <= size *)
ChunkAt(L, i, o) ==
    LET cs == ChunksOf(L, i)
        hit == {k \in DOMAIN cs : cs[k].co <= o /\ o < cs[k].co + cs[k].cs}
    IN IF hit = {} THEN [ok |-> FALSE, co |-> 0, cs |-> 0, dg |-> ""]
       ELSE LET c == cs[CHOOSE k \in hit : TRUE]
            IN [ok |-> TRUE, co |-> c.co, cs |-> c.cs, dg |-> DgLabel(L, i, c, Len(cs))]
(* offsets at which a file is probed: every offset 0..size of a small file; of a larger one 21 evenly spaced     *)
(* offsets, the offset just before each of them, and the size (the Go driver uses the same rule)                   *)
ProbeSeq(sz) ==
    IF sz <= 64 THEN [j \in 1..(sz + 1) |-> j - 1]
    ELSE LET step == sz \div 20 IN
         [j \in 1..43 |-> IF j = 43 THEN sz
                          ELSE IF j % 2 = 1 THEN ((j - 1) \div 2) * step
                          ELSE Min(sz, ((j - 1) \div 2) * step + step - 1)]
ChunkTable(L, i) == [j \in DOMAIN ProbeSeq(L[i].sz) |-> ChunkAt(L, i, ProbeSeq(L[i].sz)[j])]

ByteOf(i, j) == 97 + (i - 1) * 4 + (j % 23)   \* byte j (from 0) of the file of entry i
BytesOf(L, i) == [j \in 1..L[i].sz |-> ByteOf(i, j - 1)]
ReadTable(L, i) == [j \in DOMAIN ProbeSeq(L[i].sz) |->     \* one byte read at each probed offset; -2 = not read (offset = size)
                       IF ProbeSeq(L[i].sz)[j] < L[i].sz THEN ByteOf(i, ProbeSeq(L[i].sz)[j]) ELSE 0 - 2]
OffsetOf(L, i) == IF HasData(L[i]) THEN ChunksOf(L, i)[1].st ELSE 0

(* chunks some read of file i hands to the pre-read callback: every other chunk of a stream file i has a chunk in *)
PreRead(L, i) ==
    LET mine == {ChunksOf(L, i)[k] : k \in DOMAIN ChunksOf(L, i)}
        all == UNION {{[i |-> j, c |-> ChunksOf(L, j)[k]] : k \in DOMAIN ChunksOf(L, j)} : j \in DOMAIN L}
    IN {x \in all : \E m \in mine : m.st = x.c.st /\ ~(x.i = i /\ x.c.k = m.k)}

(* BigToc(n): a fixed family outside the enumerated space - one directory "big" with n empty regular files - used *)
(* for the clone-early stage: Clone is called immediately after NewReader returned (the db store may still be     *)
(* parsing the TOC in the background) and the CLONE is walked. What it must show:                                 *)
EarlyCloneRef(n) == [open |-> "ok", clone |-> "ok", rootkids |-> 1, bigkids |-> n, nodes |-> n + 2]

DigestLabel(L, w) == "J"        \* TOC digest = hash of all bytes of the TOC JSON file
Accept(L) == TRUE               \* every TOC of the conforming space is a valid layer

-----------------------------------------------------------------------------
(* (a) the conforming space *)
DefaultFeat(e) == e.sp = "plain" /\ e.at = "z" /\ (e.t = "reg" => e.sz = 1 /\ e.lay = "one" /\ e.dg = "both")
Budget == FocusMax - Cardinality({i \in DOMAIN toc : ~DefaultFeat(toc[i])})
Feat(S, d) == IF Budget > 0 THEN S ELSE {d}

StructOK(p, t) ==
    /\ p = "/" => t = "dir"
    /\ \A q \in Anc(p) : \A i \in Idx(toc, q) : toc[i].t = "dir"             \* parents are directories
    /\ t # "dir" => \A i \in DOMAIN toc : p \notin Anc(toc[i].p)              \* nothing below a non-directory
    /\ Explicit(toc, p) => (AllowDupDir /\ t = "dir" /\ \A i \in Idx(toc, p) : toc[i].t = "dir")
    /\ (t = "dir" /\ ~AllowUnsorted) => \A i \in DOMAIN toc : p \notin Anc(toc[i].p)

LinkTargets(p) ==
    {q \in EPaths \ {p, "/"} :
        IF Explicit(toc, q) THEN toc[LastIdx(toc, q)].t # "dir" /\ Src(toc, LastIdx(toc, q)) # 0
        ELSE AllowLinkFirst /\ \A i \in DOMAIN toc : q \notin Anc(toc[i].p)}

LaysFor(sz) ==
    {y \in Lays : /\ (y \in {"two", "twoz", "inner"} => (sz >= 2 /\ sz <= 64))
                  /\ (y \in ManyLays => sz = ManySize(y))
                  /\ (y \in {"one", "share"} => sz <= 64)
                  /\ y = "share" => (sz >= 1 /\ Len(toc) > 0 /\ HasData(toc[Len(toc)]))}
DigsFor(y) == {d \in Digs : d = "file" => y \in {"one", "share"}}

Init == toc = <<>> /\ ws \in WsSet

AddEntry ==
    /\ Len(toc) < MaxEntries
    /\ \E p \in EPaths, t \in ETypes :
        /\ StructOK(p, t)
        /\ \E tgt \in (IF t = "hardlink" THEN LinkTargets(p) ELSE {""}) :
           \E sp \in Feat({s \in Spells : /\ (s = "slash" => t = "dir")
                                             /\ (p = "/" => s \in {"plain", "slash", "dot"})
                                             /\ (s \in {"idot", "dslash", "updown"} => p \in {"/a/b", "/a/b/c"})}, "plain"),
              at \in (IF t = "hardlink" THEN {"z"} ELSE Feat(Attrs, "z")),
              sz \in (IF t = "reg" THEN Feat(Sizes, 1) ELSE {0}) :
           \E lay \in (IF t = "reg" /\ sz > 0 THEN Feat(LaysFor(sz), "one") ELSE {"one"}) :
           \E dg \in (IF t = "reg" /\ sz > 0 THEN Feat(DigsFor(lay), "both") ELSE {"both"}) :
              LET e == [p |-> p, t |-> t, tgt |-> tgt, sp |-> sp, sz |-> sz, lay |-> lay, dg |-> dg, at |-> at]
              IN /\ (DefaultFeat(e) \/ Budget > 0)
                 /\ toc' = Append(toc, e)
    /\ UNCHANGED ws

Next == AddEntry
Spec == Init /\ [][Next]_vars

(* a TOC is complete (= one element of the space) when every hard link resolves to a non-directory *)
Complete(L) == \A i \in DOMAIN L : L[i].t = "hardlink" =>
                   (Src(L, i) # 0 /\ L[Src(L, i)].t \notin {"dir", "hardlink"})

-----------------------------------------------------------------------------
(* sanity of the reference, checked exhaustively on the space (M) *)
TreeOK ==           \* every non-root path has exactly one parent, which is a directory; depth is bounded by the table
    Complete(toc) => \A p \in PathsOf(toc) \ {"/"} :
        /\ Par(p) \in PathsOf(toc)
        /\ TypeOf(toc, Par(p)) = "dir"
        /\ BaseOf(p) \in KidsOf(toc, Par(p))
        /\ Rank(Par(p)) < Rank(p)
LeavesHaveNoKids ==
    Complete(toc) => \A p \in PathsOf(toc) : TypeOf(toc, p) # "dir" => KidsOf(toc, p) = {}
SameIsEquivalence ==
    Complete(toc) => \A p \in PathsOf(toc) : p \in Same(toc, p) /\ \A q \in Same(toc, p) : Same(toc, q) = Same(toc, p)
LinkCountsAddUp ==  \* nlink of a file = number of names; of a directory = 2 + number of sub-directories
    Complete(toc) => \A p \in PathsOf(toc) :
        IF TypeOf(toc, p) = "dir"
        THEN NLink(toc, p) = 2 + Cardinality({q \in KidPaths(toc, p) : TypeOf(toc, q) = "dir"})
        ELSE NLink(toc, p) = Cardinality(Same(toc, p))
ChunksCover ==      \* the chunk table of a file tiles [0, size) without gap or overlap; offset = size has no chunk
    \A i \in DOMAIN toc : toc[i].t = "reg" =>
        /\ \A o \in 0..(toc[i].sz - 1) :
              LET c == ChunkAt(toc, i, o) IN c.ok /\ c.co <= o /\ o < c.co + c.cs
        /\ ~ChunkAt(toc, i, toc[i].sz).ok
        /\ Len(ChunksOf(toc, i)) > 0 =>
              LET cs == ChunksOf(toc, i) IN
              /\ cs[1].co = 0
              /\ cs[Len(cs)].co + cs[Len(cs)].cs = toc[i].sz
              /\ \A k \in 1..(Len(cs) - 1) : cs[k].co + cs[k].cs = cs[k + 1].co
StreamsOK ==        \* chunks sharing a stream lie back to back in it; a stream is started by innerOffset 0
    \A i \in DOMAIN toc : \A k \in DOMAIN ChunksOf(toc, i) :
        LET c == ChunksOf(toc, i)[k] IN
        /\ c.st >= 1 /\ c.st <= LayAfter(toc, Len(toc)).n
        /\ c.io > 0 => \E x \in PreRead(toc, i) \cup {[i |-> i, c |-> ChunksOf(toc, i)[kk]] : kk \in DOMAIN ChunksOf(toc, i)} :
                           x.c.st = c.st /\ x.c.io + x.c.cs = c.io
HardLinksResolve ==
    Complete(toc) => \A p \in PathsOf(toc) : TypeOf(toc, p) # "hardlink"

core == <<toc, ws>>
=============================================================================

----------------------------- MODULE TarMetaMC -----------------------------
(* The tar for the exhaustive / generation configs of TarMeta (a .cfg file *)
(* cannot hold records). tools/props/C02.py replaces this module in its    *)
(* scratch copy by each tar shape of its input space; this default shape:  *)
(* directory, file below an implicit parent, symlink, hard link, device,   *)
(* a duplicated name (last wins).                                          *)
EXTENDS TarMetaGen
E0 == [path |-> <<>>, type |-> "reg", size |-> 0, mode |-> 420, uid |-> 0, gid |-> 0, target |-> "", link |-> <<>>,
       major |-> 0, minor |-> 0, xattrs |-> <<>>, mtime |-> 1000]
MCTar == <<
    [E0 EXCEPT !.path = <<"a">>, !.type = "dir", !.mode = 493, !.uid = 1, !.xattrs = <<<<"user.k", "v">>>>],
    [E0 EXCEPT !.path = <<"a", "f">>, !.size = 3, !.mode = 2468],
    [E0 EXCEPT !.path = <<"a", "s">>, !.type = "symlink", !.target = "../x/y", !.mode = 511],
    [E0 EXCEPT !.path = <<"h">>, !.type = "hardlink", !.link = <<"a", "f">>],
    [E0 EXCEPT !.path = <<"c">>, !.type = "char", !.major = 259, !.minor = 4000, !.mode = 400],
    [E0 EXCEPT !.path = <<"p", "q", "g">>, !.size = 2, !.mode = 384, !.uid = 1000],
    [E0 EXCEPT !.path = <<"sb">>, !.size = 1, !.mode = 3565],           \* 6755: setuid + setgid
    [E0 EXCEPT !.path = <<"x">>, !.size = 2],
    [E0 EXCEPT !.path = <<"x">>, !.size = 4, !.mode = 493, !.mtime = 2000]
>>
=============================================================================

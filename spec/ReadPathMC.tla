---------------------------- MODULE ReadPathMC -----------------------------
(* Layout of the layer for the exhaustive / generation configs (TLC .cfg   *)
(* files cannot hold tuples). tools/props/C02.py replaces this module in   *)
(* its scratch copy by the layouts the REAL builder produced for its grid  *)
(* of build options; this file is the default for stand-alone runs:        *)
(* files 1 (7 bytes, chunk size 3), 2 (2 bytes, prioritized), 3 (empty);   *)
(* min-chunk-size build: file 2 alone in stream 1, landmark + file 1 share *)
(* stream 2.                                                               *)
EXTENDS ReadPathGen
MCSizes == <<<<2, 2>>, <<9, 1>>, <<1, 7>>, <<3, 0>>>>
MCChunkTab == <<<<2, 0, 2, 1, 1>>, <<9, 0, 1, 2, 1>>, <<1, 0, 3, 2, 3>>, <<1, 3, 3, 2, 6>>, <<1, 6, 1, 2, 9>>>>
MCPrefetch == TRUE
=============================================================================

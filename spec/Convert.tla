------------------------------ MODULE Convert ------------------------------
(***************************************************************************)
(* Native image conversion (property C19): one converter instance, NConv   *)
(* layer conversions running in parallel against one content store, the    *)
(* way containerd's converter (convertManifest, errgroup) calls the        *)
(* ConvertFunc.                                                            *)
(*                                                                         *)
(*   nativeconverter/estargz/estargz.go          Mode "esgz"               *)
(*   nativeconverter/zstdchunked/zstdchunked.go  Mode "zstd"               *)
(*   nativeconverter/estargz/externaltoc/converter.go                      *)
(*        layerConvert + estargz.LayerConvertFunc      Mode "ext"          *)
(*        layerConvert + layerLossLessConvertFunc      Mode "extll"        *)
(*                                                                         *)
(* One action per segment of the ConvertFunc between two points at which   *)
(* it touches state shared with the other conversions:                     *)
(*   Begin(c)        compressor object made, WithCompression(c) appended   *)
(*                   to the option slice (zstd: `opts = append(opts, ..)`, *)
(*                   ext: `append(esgzOpts, ..)`); source read (Info)      *)
(*   Build(c)        estargz.Build applies the option list it SEES NOW:    *)
(*                   the effective compressor is the last WithCompression; *)
(*                   the TOC goes into that compressor object (ext: buf,   *)
(*                   zstd: Metadata map)                                   *)
(*   OpenStream(c)   content.OpenWriter(ref of the SOURCE digest),         *)
(*                   Truncate(0), io.Copy (lossless: build + DiffID check) *)
(*   CommitBlob(c)   w.Commit with the labels (AlreadyExists swallowed)    *)
(*   Interrupt(c)    the conversion dies before Commit, the ingest stays   *)
(*   Annotate(c)     descriptor from the Blob accessors; ext: writeTOCTo   *)
(*                   from the conversion's OWN compressor object           *)
(*   MapWriteBegin/End(c)   esgzDigest2TOC[layer] = toc                    *)
(*   Finalize        TOC image from the map                                *)
(*                                                                         *)
(* Blob bytes are abstract ids; what is true of the bytes of a blob        *)
(* (size, compression, SHA-256 and length of the decompression, the TOC    *)
(* digest it verifies under) is the function `facts`. In the design model  *)
(* the ids are computed from the source (OutBlob); in trace validation     *)
(* they are arguments taken from what the driver read back from the store. *)
(*                                                                         *)
(* Deliberate deviations: `opts = append(opts, x)` is modelled as one      *)
(* atomic step (a torn read-modify-write yields the same set of effective  *)
(* compressors); the unsynchronised map write is two steps and overlapping *)
(* writers are the failure (the Go runtime may crash or lose an entry);    *)
(* byte sizes are abstract.                                                *)
(***************************************************************************)
EXTENDS Integers, Sequences, FiniteSets, TLC

CONSTANTS
    Mode,         \* "esgz" | "zstd" | "ext" | "extll"
    NConv,        \* conversions run by the one converter instance
    SrcIds,       \* subset of DOMAIN Catalogue: the source layers to choose from
    SpareCap,     \* environment: the caller's option slice has len < cap (e.g. built with append)
    MaxIntr,      \* bound: interrupted conversions
    MayDeviate,   \* environment: the lossless writer may not reproduce the source stream
    MapLock,      \* guard: mutex around the esgzDigest2TOC write
    CopyOpts,     \* guard: option slice copied before WithCompression is appended
    DiffIDCheck,  \* guard: lossless path compares DiffID and size before committing
    UpdateLabel,  \* guard: containerd.io/uncompressed label set from the built blob
    MediaTypeFollowsBlob  \* guard: a zstd source layer converted to (gzip) eStargz gets the gzip media type

VARIABLES
    src,      \* [Convs -> source layer record]
    pc,       \* [Convs -> program counter]
    slot,     \* compressor id in the shared option slot (0 = none)
    cmp,      \* [Convs -> compressor object Build(c) used] (0 = not built)
    tocbuf,   \* [compressor id -> blob whose TOC / zstd manifest info it holds] (0 = empty)
    out,      \* [Convs -> blob id built] (0 = none)
    wholder,  \* [source blob id -> conversion holding the writer ref] (0 = free)
    wdata,    \* [source blob id -> bytes sitting in the ingest of that ref] (0 = empty)
    store,    \* committed blobs: blob id -> [label]      (label: diffid id, 0 = absent)
    pre,      \* blobs in the store before the converter ran
    facts,    \* blob id -> [size, comp, diffid, usize, toc]   what is true of the bytes
    desc,     \* [Convs -> returned descriptor]
    res,      \* [Convs -> "none" | "desc" | "error" | "panic"]
    tocmap,   \* esgzDigest2TOC: layer blob id -> toc id held by the TOC blob
    inmap,    \* conversions between MapWriteBegin and MapWriteEnd
    img,      \* finalize result: <<>> = not run, else <<set of [layer, toc]>>
    nintr,
    last      \* observation

core == <<src, pc, slot, cmp, tocbuf, out, wholder, wdata, store, pre, facts, desc, res, tocmap, inmap, img, nintr>>
vars == <<src, pc, slot, cmp, tocbuf, out, wholder, wdata, store, pre, facts, desc, res, tocmap, inmap, img, nintr, last>>

Convs == 1..NConv
Ext == Mode \in {"ext", "extll"}
Lossless == Mode = "extll"

(* source layers: tar = content of the uncompressed stream, comp = how it is stored, fam = media type family,   *)
(* lbl = the store already carries a (correct) containerd.io/uncompressed label on it (as after an unpack)        *)
Catalogue == <<
    [tar |-> 1, comp |-> "none", fam |-> "oci",    lbl |-> FALSE],
    [tar |-> 1, comp |-> "gzip", fam |-> "oci",    lbl |-> TRUE],
    [tar |-> 2, comp |-> "gzip", fam |-> "docker", lbl |-> FALSE],
    [tar |-> 2, comp |-> "zstd", fam |-> "oci",    lbl |-> TRUE],
    [tar |-> 2, comp |-> "none", fam |-> "docker", lbl |-> FALSE],
    [tar |-> 1, comp |-> "esgz", fam |-> "oci",    lbl |-> FALSE],
    \* every layer media type the converters accept: Docker zstd/foreign, OCI non-distributable
    [tar |-> 1, comp |-> "zstd", fam |-> "docker", lbl |-> FALSE],
    [tar |-> 2, comp |-> "gzip", fam |-> "ocind",  lbl |-> FALSE],
    [tar |-> 1, comp |-> "none", fam |-> "dockerforeign", lbl |-> FALSE],
    [tar |-> 2, comp |-> "zstd", fam |-> "ocind",  lbl |-> FALSE],
    [tar |-> 1, comp |-> "gzip", fam |-> "dockerforeign", lbl |-> TRUE],
    [tar |-> 2, comp |-> "none", fam |-> "ocind",  lbl |-> FALSE] >>

CompIdx(c) == CASE c = "none" -> 0 [] c = "gzip" -> 1 [] c = "zstd" -> 2 [] c = "esgz" -> 3
\* a source layer as the conversions see it: the catalogue entry plus the id of its bytes in the store
WithBlob(s) == [tar |-> s.tar, comp |-> s.comp, fam |-> s.fam, lbl |-> s.lbl, blob |-> 100 + 10 * s.tar + CompIdx(s.comp)]
SrcBlob(s) == s.blob
SrcDiff(s) == IF s.comp = "esgz" THEN 1010 + s.tar ELSE 1000 + s.tar      \* SHA-256 id of the uncompressed source stream
OutComp == IF Mode = "zstd" THEN "zstd" ELSE "gzip"
\* design model: the blob a conversion of source s builds, and what is true of it
OutBlob(s) == 200 + 10 * s.tar + (IF Lossless THEN 5 + CompIdx(s.comp) ELSE 0)
OutFacts(s, deviates) ==
    [size |-> 2000 + s.tar, comp |-> OutComp,
     diffid |-> IF Lossless /\ ~deviates THEN SrcDiff(s) ELSE 1100 + s.tar,
     usize |-> 3000 + s.tar, toc |-> 4000 + OutBlob(s), zinfo |-> IF Mode = "zstd" THEN 5000 + OutBlob(s) ELSE 0]
SrcFacts(s) == [size |-> 500 + s.tar, comp |-> IF s.comp = "esgz" THEN "gzip" ELSE s.comp, diffid |-> SrcDiff(s),
                usize |-> 600 + s.tar, toc |-> 0, zinfo |-> 0]

NoDesc == [digest |-> 0, size |-> 0, mtcomp |-> "", mtfam |-> "", toc |-> 0, usize |-> 0, zinfo |-> 0]

\* is the option slot shared between the conversions of this instance?
Shared == ~CopyOpts /\ (Mode = "zstd" \/ (Mode = "ext" /\ SpareCap))

\* lossless conversion cannot parse these sources (appendTar only sniffs gzip; an eStargz source loses its TOC entry)
Unconvertible(s) == Lossless /\ s.comp \in {"zstd", "esgz"}

Upd(f, k, v) == [x \in (DOMAIN f) \cup {k} |-> IF x = k THEN v ELSE f[x]]

----------------------------------------------------------------------------
Init ==
    /\ src \in [Convs -> {WithBlob(Catalogue[i]) : i \in SrcIds}]
    /\ pc = [c \in Convs |-> "idle"]
    /\ slot = 0
    /\ cmp = [c \in Convs |-> 0]
    /\ tocbuf = [c \in Convs |-> 0]
    /\ out = [c \in Convs |-> 0]
    /\ wholder = [b \in {SrcBlob(src[c]) : c \in Convs} |-> 0]
    /\ wdata = [b \in {SrcBlob(src[c]) : c \in Convs} |-> 0]
    /\ store = [b \in {SrcBlob(src[c]) : c \in Convs} |->
                  [label |-> LET s == CHOOSE s \in {src[c] : c \in Convs} : SrcBlob(s) = b
                             IN IF \E c \in Convs : SrcBlob(src[c]) = b /\ src[c].lbl THEN SrcDiff(s) ELSE 0]]
    /\ pre = {SrcBlob(src[c]) : c \in Convs}
    /\ facts = [b \in {SrcBlob(src[c]) : c \in Convs} |->
                  SrcFacts(CHOOSE s \in {src[c] : c \in Convs} : SrcBlob(s) = b)]
    /\ desc = [c \in Convs |-> NoDesc]
    /\ res = [c \in Convs |-> "none"]
    /\ tocmap = <<>>
    /\ inmap = {}
    /\ img = <<>>
    /\ nintr = 0
    /\ last = [act |-> "Init"]

\* the goroutine of conversion c starts: compressor object c exists and its option is appended
Begin(c) ==
    /\ pc[c] = "idle"
    /\ pc' = [pc EXCEPT ![c] = "opts"]
    /\ slot' = IF Shared THEN c ELSE slot
    /\ UNCHANGED <<src, cmp, tocbuf, out, wholder, wdata, store, pre, facts, desc, res, tocmap, inmap, img, nintr>>
    /\ last' = [act |-> "Begin", c |-> c]

\* estargz.Build (lossless: nothing is built yet, the compressor is passed directly)
\* b, f: the blob built and what is true of its bytes
BuildG(c, b, f) ==
    /\ pc[c] = "opts"
    /\ LET k == IF Shared /\ ~Lossless THEN slot ELSE c IN
        /\ cmp' = [cmp EXCEPT ![c] = k]
        /\ IF Lossless
           THEN UNCHANGED <<tocbuf, out, facts>>
           ELSE /\ tocbuf' = IF Mode = "esgz" THEN tocbuf ELSE [tocbuf EXCEPT ![k] = b]
                /\ out' = [out EXCEPT ![c] = b]
                /\ facts' = Upd(facts, b, f)
    /\ pc' = [pc EXCEPT ![c] = "built"]
    /\ UNCHANGED <<src, slot, wholder, wdata, store, pre, desc, res, tocmap, inmap, img, nintr>>
    /\ last' = [act |-> "Build", c |-> c]

Build(c) == BuildG(c, OutBlob(src[c]), OutFacts(src[c], FALSE))

\* OpenWriter(ref of the source digest) + Truncate(0) + copy. The ref is exclusive: a second conversion of the
\* same source digest waits in content.OpenWriter until the holder commits or closes.
\* lossless: the blob is built while streaming; a deviating stream is refused by the DiffID double check
OpenStreamG(c, b, f, ok) ==
    /\ pc[c] = "built"
    /\ LET r == SrcBlob(src[c]) IN
        /\ wholder[r] = 0
        /\ IF ~ok
           THEN \* lossless only: unparsable source or DiffID/size mismatch detected: error, writer closed, ingest stays
                /\ Lossless
                /\ pc' = [pc EXCEPT ![c] = "done"]
                /\ res' = [res EXCEPT ![c] = "error"]
                /\ wdata' = [wdata EXCEPT ![r] = b]
                /\ UNCHANGED <<wholder, out, facts, tocbuf>>
           ELSE /\ pc' = [pc EXCEPT ![c] = "streamed"]
                /\ wholder' = [wholder EXCEPT ![r] = c]
                /\ wdata' = [wdata EXCEPT ![r] = IF Lossless THEN b ELSE out[c]]     \* Truncate(0): leftovers are gone
                /\ IF Lossless
                   THEN /\ out' = [out EXCEPT ![c] = b]
                        /\ facts' = Upd(facts, b, f)
                        /\ tocbuf' = [tocbuf EXCEPT ![cmp[c]] = b]
                   ELSE UNCHANGED <<out, facts, tocbuf>>
                /\ UNCHANGED res
    /\ UNCHANGED <<src, slot, cmp, store, pre, desc, tocmap, inmap, img, nintr>>
    /\ last' = [act |-> "OpenStream", c |-> c, ok |-> ok]

OpenStream(c) ==
    \/ /\ ~Unconvertible(src[c])
       /\ OpenStreamG(c, OutBlob(src[c]), OutFacts(src[c], FALSE), TRUE)
    \/ /\ Unconvertible(src[c])
       /\ OpenStreamG(c, 0, OutFacts(src[c], FALSE), FALSE)
    \/ /\ Lossless /\ MayDeviate /\ ~Unconvertible(src[c])
       /\ IF DiffIDCheck
          THEN OpenStreamG(c, 900 + c, OutFacts(src[c], TRUE), FALSE)
          ELSE OpenStreamG(c, 900 + c, OutFacts(src[c], TRUE), TRUE)

\* w.Commit(ctx, n, "", WithLabels(labelz)); labelz = labels of the source + uncompressed label of the built blob
CommitBlob(c) ==
    /\ pc[c] = "streamed"
    /\ LET r == SrcBlob(src[c])
           b == wdata[r]
           lbl == IF UpdateLabel THEN facts[b].diffid ELSE store[r].label
       IN
        /\ store' = IF b \in DOMAIN store THEN store ELSE Upd(store, b, [label |-> lbl])   \* AlreadyExists: labels stay
        /\ wholder' = [wholder EXCEPT ![r] = 0]
        /\ wdata' = [wdata EXCEPT ![r] = 0]
    /\ pc' = [pc EXCEPT ![c] = "committed"]
    /\ UNCHANGED <<src, slot, cmp, tocbuf, out, pre, facts, desc, res, tocmap, inmap, img, nintr>>
    /\ last' = [act |-> "CommitBlob", c |-> c]

\* the conversion is interrupted after streaming: nothing committed, the ingest of the ref keeps its bytes
Interrupt(c) ==
    /\ pc[c] = "streamed"
    /\ nintr < MaxIntr
    /\ nintr' = nintr + 1
    /\ wholder' = [wholder EXCEPT ![SrcBlob(src[c])] = 0]
    /\ pc' = [pc EXCEPT ![c] = "done"]
    /\ res' = [res EXCEPT ![c] = "error"]
    /\ UNCHANGED <<src, slot, cmp, tocbuf, out, wdata, store, pre, facts, desc, tocmap, inmap, img>>
    /\ last' = [act |-> "Interrupt", c |-> c]

MtComp(s) == IF Mode = "zstd" THEN "zstd"
             ELSE IF s.comp \in {"none", "gzip", "esgz"} \/ MediaTypeFollowsBlob THEN "gzip"
             ELSE s.comp       \* pinned tree: "Media type is unchanged" (+gzip only if uncompressed)
\* zstd:chunked converts Docker types to OCI (foreign -> non-distributable)
MtFam(s) == IF Mode = "zstd"
            THEN (IF s.fam \in {"docker", "oci"} THEN "oci" ELSE "ocind")
            ELSE s.fam

\* descriptor from the Blob accessors of the conversion's own blob; ext: writeTOCTo from the OWN compressor object
Annotate(c) ==
    /\ pc[c] = "committed"
    /\ LET b == out[c]
           d == [digest |-> b, size |-> facts[b].size, mtcomp |-> MtComp(src[c]), mtfam |-> MtFam(src[c]),
                 toc |-> facts[b].toc, usize |-> facts[b].usize,
                 \* zstd: manifest checksum/position from the OWN Metadata map (empty if Build used another compressor)
                 zinfo |-> IF Mode = "zstd" /\ tocbuf[c] # 0 THEN facts[tocbuf[c]].zinfo ELSE 0]
       IN
        /\ desc' = [desc EXCEPT ![c] = d]
        /\ IF Ext
           THEN IF tocbuf[c] = 0
                THEN \* gc.buf is nil: WriteTOCTo dereferences it
                     /\ res' = [res EXCEPT ![c] = "panic"]
                     /\ pc' = [pc EXCEPT ![c] = "done"]
                ELSE /\ UNCHANGED res
                     /\ pc' = [pc EXCEPT ![c] = "mapready"]
           ELSE /\ res' = [res EXCEPT ![c] = "desc"]
                /\ pc' = [pc EXCEPT ![c] = "done"]
    /\ UNCHANGED <<src, slot, cmp, tocbuf, out, wholder, wdata, store, pre, facts, tocmap, inmap, img, nintr>>
    /\ last' = [act |-> "Annotate", c |-> c]

MapWriteBegin(c) ==
    /\ pc[c] = "mapready"
    /\ MapLock => inmap = {}
    /\ inmap' = inmap \cup {c}
    /\ pc' = [pc EXCEPT ![c] = "inmap"]
    /\ UNCHANGED <<src, slot, cmp, tocbuf, out, wholder, wdata, store, pre, facts, desc, res, tocmap, img, nintr>>
    /\ last' = [act |-> "MapWriteBegin", c |-> c]

\* t: the TOC (id) held by the TOC blob this conversion wrote = what its own compressor object held at writeTOCTo
MapWriteEndG(c, t) ==
    /\ pc[c] = "inmap"
    /\ tocmap' = Upd(tocmap, out[c], t)
    /\ inmap' = inmap \ {c}
    /\ res' = [res EXCEPT ![c] = "desc"]
    /\ pc' = [pc EXCEPT ![c] = "done"]
    /\ UNCHANGED <<src, slot, cmp, tocbuf, out, wholder, wdata, store, pre, facts, desc, img, nintr>>
    /\ last' = [act |-> "MapWriteEnd", c |-> c]

MapWriteEnd(c) == MapWriteEndG(c, facts[tocbuf[c]].toc)

Finalize ==
    /\ img = <<>>
    /\ \A c \in Convs : pc[c] = "done"
    /\ Ext
    /\ img' = << {[layer |-> b, toc |-> tocmap[b]] : b \in DOMAIN tocmap} >>
    /\ UNCHANGED <<src, pc, slot, cmp, tocbuf, out, wholder, wdata, store, pre, facts, desc, res, tocmap, inmap, nintr>>
    /\ last' = [act |-> "Finalize"]

Next ==
    \/ \E c \in Convs : Begin(c)
    \/ \E c \in Convs : Build(c)
    \/ \E c \in Convs : OpenStream(c)
    \/ \E c \in Convs : CommitBlob(c)
    \/ \E c \in Convs : Interrupt(c)
    \/ \E c \in Convs : Annotate(c)
    \/ \E c \in Convs : MapWriteBegin(c)
    \/ \E c \in Convs : MapWriteEnd(c)
    \/ Finalize

Spec == Init /\ [][Next]_vars

----------------------------------------------------------------------------
(* Property C19, over observables: store, pre, facts, desc, res, src, img, inmap                                  *)

Returned == {c \in Convs : res[c] = "desc"}

\* the descriptor describes the committed blob
DescDigestCommitted == \A c \in Returned : desc[c].digest \in DOMAIN store /\ desc[c].digest \in DOMAIN facts
DescSize            == \A c \in Returned : desc[c].digest \in DOMAIN facts => desc[c].size = facts[desc[c].digest].size
DescTocVerifies     == \A c \in Returned : desc[c].digest \in DOMAIN facts =>
                            (facts[desc[c].digest].toc # 0 /\ desc[c].toc = facts[desc[c].digest].toc)
DescUncompressedSize == \A c \in Returned : desc[c].digest \in DOMAIN facts => desc[c].usize = facts[desc[c].digest].usize
\* the store's containerd.io/uncompressed label is the SHA-256 of the decompression; it may be absent only on a
\* blob that was in the store before the converter ran (Commit answered AlreadyExists)
StoreLabelIsDiffID  == \A c \in Returned : (desc[c].digest \in DOMAIN facts /\ desc[c].digest \in DOMAIN store) =>
                            LET b == desc[c].digest IN
                            \/ store[b].label = facts[b].diffid
                            \/ (store[b].label = 0 /\ b \in pre)
MediaTypeMatches    == \A c \in Returned : desc[c].digest \in DOMAIN facts => desc[c].mtcomp = facts[desc[c].digest].comp
\* zstd:chunked: the manifest checksum/position annotations are those of this blob's TOC frame
ZstdManifestInfo    == \A c \in Returned : desc[c].digest \in DOMAIN facts => desc[c].zinfo = facts[desc[c].digest].zinfo
DescDescribesBlob ==
    /\ DescDigestCommitted /\ DescSize /\ DescTocVerifies /\ DescUncompressedSize
    /\ StoreLabelIsDiffID /\ MediaTypeMatches /\ ZstdManifestInfo

\* every layer blob this converter instance committed and finished with is mapped by the TOC image to the TOC that
\* verifies it (a conversion that died after committing its layer leaves the layer unmapped)
Finished == {c \in Convs : res[c] \in {"desc", "panic"} /\ out[c] # 0}
TocImageMapsEveryLayer ==
    (Ext /\ img # <<>>) =>
        \A c \in Finished : \E e \in img[1] : e.layer = out[c] /\ out[c] \in DOMAIN facts /\ e.toc = facts[out[c]].toc
\* no conversion of a healthy layer crashes the converter
NoConversionPanics == \A c \in Convs : res[c] # "panic"

LosslessKeepsDiffID ==
    Lossless => \A c \in Returned : desc[c].digest \in DOMAIN facts =>
                    facts[desc[c].digest].diffid = facts[SrcBlob(src[c])].diffid

MapWritesMutuallyExclusive == Cardinality(inmap) <= 1

(* internal consistency *)
TypeOK ==
    /\ \A c \in Convs : pc[c] \in {"idle", "opts", "built", "streamed", "committed", "mapready", "inmap", "done"}
    /\ \A b \in DOMAIN wholder : wholder[b] \in 0..NConv
    /\ nintr \in 0..MaxIntr
RefExclusive == \A b \in DOMAIN wholder : wholder[b] # 0 => pc[wholder[b]] = "streamed"
=============================================================================

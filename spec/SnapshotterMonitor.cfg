CONSTANTS
    Keys = {"k1", "k2"}
    CNames = {"c1", "c2"}
    MaxId = 1000000
    MaxOps = 1000000
    MaxRestarts = 1000000
    Async = FALSE
    AnyOrder = TRUE
    UnmountFaults = TRUE
    InitCommitted = FALSE
    SurviveModes = {TRUE, FALSE}
    LabelOnlyIfMounted = TRUE
    CheckWholeChain = TRUE
    UnmountFirst = TRUE
    NearestFirst = TRUE
    RestoreMkdir = TRUE
    RestoreStoredLabels = TRUE
    HonourAllowInvalid = TRUE
    RenameBeforeCommit = TRUE
    CleanupScansTemps = TRUE
    RestoreMkdirOnlyIfParentMissing = FALSE
SPECIFICATION MonSpec
CHECK_DEADLOCK FALSE

\* exhaustive: every sequence of adds of regions over positions 0..7
CONSTANTS
    MaxPos = 7
    Variant = "code"
INIT RInit
NEXT RNext
VIEW rcore
INVARIANTS RegionSetIsUnion RegionSetNormal TotalIsDistinctBytes
PROPERTIES TotalMonotone
CHECK_DEADLOCK FALSE

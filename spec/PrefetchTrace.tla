---------------------------- MODULE PrefetchTrace ----------------------------
(* Trace validation for Prefetch.tla. One event per step the Go driver     *)
(* executed on a real layer (harness/fs/layer/verif_prefetch.go): ev = the *)
(* spec action, its arguments and observed results, req = the registry     *)
(* chunks requested during the step, obs = projection of the               *)
(* implementation state after the step (fetched: registry chunks served so *)
(* far; lst: chunk-cache state of every regular file probed on disk;       *)
(* wclosed: waiter channel closed; pinfo: Info().PrefetchSize).            *)
(* "Reset" starts a new layer and carries its measured layout (sc).        *)
EXTENDS Prefetch, Json

VARIABLE l
tvars == <<vars, l>>
TraceLog == ndJsonDeserialize("trace.ndjson")
Ev == TraceLog[l]
IsEvent(e) == l <= Len(TraceLog) /\ Ev.ev = e /\ l' = l + 1

Dummy == [id |-> "-", nf |-> 0, off |-> <<>>, span |-> <<>>, pre |-> <<>>, prf |-> <<>>, prio |-> <<>>, lm |-> "none", loff |-> 0,
          size |-> 1, cs |-> 1, cfg |-> 0, thr |-> 0, f0 |-> <<>>, rd |-> <<>>, ro |-> 2, pt |-> <<>>, free |-> FALSE, np |-> 0, nw |-> 0, nb |-> 0, haslst |-> FALSE]

ObsFetched == ToSet(Ev.obs.fetched)
Got == ObsFetched \ fetched
Rq == ToSet(Ev.req)
\* chunk-cache state: observed where the cache is a directory, else the canonical value
L2(canon) == IF sc.haslst THEN Ev.obs.lst ELSE canon

\* the observable part of the state after the step equals the projection of the implementation
ObsOK ==
    /\ (waiter' = "closed") = Ev.obs.wclosed
    /\ pinfo' = Ev.obs.pinfo
    /\ fetched' = ObsFetched
    /\ sc.haslst => lst' = Ev.obs.lst

TraceInit ==
    /\ sc = Dummy /\ pc = <<>> /\ runner = 0 /\ pf = "none" /\ pfres = "none" /\ psize = -1 /\ pinfo = 0
    /\ waiter = "open" /\ wc = <<>> /\ bc = <<>> /\ brunner = 0 /\ bg = "none" /\ bgres = "none" /\ prio = 0
    /\ fetched = {} /\ lst = <<>> /\ reg = "on" /\ last = [act |-> "Init", req |-> {}]
    /\ l = 1 /\ TLCSet(1, 0)

TraceReset ==
    /\ IsEvent("Reset")
    /\ sc' = Ev.sc
    /\ pc' = [p \in 1..Ev.sc.np |-> "idle"] /\ runner' = 0
    /\ pf' = "none" /\ pfres' = "none" /\ psize' = -1 /\ pinfo' = 0
    /\ waiter' = "open"
    /\ wc' = [w \in 1..Ev.sc.nw |-> "idle"]
    /\ bc' = [b \in 1..Ev.sc.nb |-> "idle"] /\ brunner' = 0
    /\ bg' = "none" /\ bgres' = "none" /\ prio' = 0
    /\ fetched' = ToSet(Ev.sc.f0)
    /\ lst' = [f \in 1..Ev.sc.nf |-> 0]
    /\ reg' = "on"
    /\ last' = [act |-> "Init", req |-> {}]

TracePrefetchCall == IsEvent("PrefetchCall") /\ PrefetchCall(Ev.p) /\ last'.won = Ev.won /\ ObsOK
TraceRange == IsEvent("Range") /\ Range /\ (pf' = "ranged" => psize' = Ev.size) /\ (pf' = "finishing" => Ev.size = -1) /\ ObsOK
TraceAsyncThreshold == IsEvent("AsyncThreshold") /\ AsyncThreshold /\ ObsOK
TraceBlobCacheStall == IsEvent("BlobCacheStall") /\ BlobCacheStall /\ Rq \subseteq Hull(Cover(psize) \ fetched) /\ ObsOK
\* the result is the one the driver imposed - unless it imposed a failure and no request was made that could fail
\* (a failure imposed through the chunk cache is the environment choice "cachefail")
Cause == IF "cause" \in DOMAIN Ev /\ Ev.cause = "cache" THEN "cachefail" ELSE Ev.r
Imposed == Ev.r = Ev.want \/ (Ev.want = "fail" /\ Ev.r = "ok" /\ Rq = {})
TraceBlobCache == IsEvent("BlobCache") /\ Imposed /\ BlobCacheG(Ev.r, Got, Rq) /\ ObsOK
TraceReaderCache == IsEvent("ReaderCache") /\ Imposed /\ ReaderCacheG(Cause, Got, L2(MarkFull(lst, RangeFiles(psize))), Rq) /\ ObsOK
TracePrefetchEnd == IsEvent("PrefetchEnd") /\ PrefetchEndG(L2(IF BgResumes(prio > 0) THEN BgLocal ELSE lst)) /\ Ev.res = pfres /\ Ev.p = runner /\ ObsOK
TracePrefetchReturn == IsEvent("PrefetchReturn") /\ PrefetchReturn(Ev.p) /\ Ev.res = "ok" /\ ObsOK
TraceWaitCall == IsEvent("WaitCall") /\ WaitCall(Ev.w) /\ ObsOK
TraceWaitReturn == IsEvent("WaitReturn") /\ WaitReturn(Ev.w) /\ ObsOK
TraceWaitTimeout == IsEvent("WaitTimeout") /\ WaitTimeout(Ev.w) /\ ObsOK
TraceBgCall == IsEvent("BgCall") /\ BgCall(Ev.b) /\ last'.won = Ev.won /\ ObsOK
TraceBgStall == IsEvent("BgStall") /\ BgStallG(L2(BgLocal)) /\ ObsOK
TraceBgFinish == IsEvent("BgFinish") /\ Imposed /\ BgFinishG(Cause, Got, L2(MarkFull(lst, BgFiles)), Rq) /\ Ev.b = brunner /\ ObsOK
TraceBgReturn == IsEvent("BgReturn") /\ BgReturn(Ev.b) /\ Ev.res = "ok" /\ ObsOK
TracePrioBegin == IsEvent("PrioBegin") /\ PrioBegin /\ ObsOK
TracePrioEnd == IsEvent("PrioEnd") /\ PrioEndG(L2(IF BgResumes(PfPrio) THEN BgLocal ELSE lst)) /\ ObsOK
\* Seen on the implementation (thorough tier): an on-demand read whose blob fetch joins the singleflight call of a
\* background fetch that a prioritized task (possibly this very read) has just cancelled shares its "context canceled"
\* error: the read fails without a request of its own. No C15 formula speaks about reads during a suspended
\* background fetch (it is a matter of C06); the trace spec accepts it as a failed read that changes nothing.
TraceReadCancelled ==
    /\ IsEvent("Read") /\ ~Ev.ok /\ bg \in {"stalled", "suspended"} /\ lst[Ev.f] # 2 /\ Rq = {}
    /\ UNCHANGED <<sc, pc, runner, pf, pfres, psize, pinfo, waiter, wc, bc, brunner, bg, bgres, prio, fetched, lst, reg>>
    /\ last' = [act |-> "Read", f |-> Ev.f, ok |-> FALSE, req |-> {}]
    /\ ObsOK
\* the same for a read of a single chunk (seen in a final regression run: ReadPart failing with "context canceled",
\* no request of its own, while a background fetch was stalled/suspended by the starting prefetch)
TraceReadPartCancelled ==
    /\ IsEvent("ReadPart") /\ ~Ev.ok /\ bg \in {"stalled", "suspended"} /\ lst[Ev.f] # 2 /\ Rq = {}
    /\ UNCHANGED <<sc, pc, runner, pf, pfres, psize, pinfo, waiter, wc, bc, brunner, bg, bgres, prio, fetched, lst, reg>>
    /\ last' = [act |-> "ReadPart", f |-> Ev.f, ok |-> FALSE, req |-> {}]
    /\ ObsOK
TraceRead == IsEvent("Read") /\ ReadG(Ev.f, Ev.ok, Got, L2(IF Ev.ok THEN MarkFull(lst, {Ev.f}) ELSE lst), Rq) /\ ObsOK
TraceReadPart == IsEvent("ReadPart") /\ ReadPartG(Ev.f, Ev.k, Ev.ok, Got, L2(PartState(lst, Ev.f)), Rq) /\ ObsOK
TraceRegistryOff == IsEvent("RegistryOff") /\ RegistryOff /\ ObsOK
TraceRegistryOn == IsEvent("RegistryOn") /\ RegistryOn /\ ObsOK

\* Not an event: while a background fetch is under way (its requests held back, or cancelled by a prioritized task)
\* its goroutines keep committing chunks they can serve without the registry, at their own pace. The base spec
\* applies all of that at BgStall / resume (BgLocal); here the part that shows up late is taken over from the next
\* observation, if it is monotone and confined to the files background fetch caches.
\* files whose chunk-cache state the next event itself may change (left to that event)
OwnFiles ==
    CASE Ev.ev \in {"Read", "ReadPart"} -> {Ev.f} \cup Pre(Ev.f) \cup Prf(Ev.f)
      [] Ev.ev = "ReaderCache" -> LET F == RangeFiles(psize) IN F \cup UNION {Pre(g) \cup Prf(g) : g \in F}
      [] Ev.ev \in {"BgFinish", "BgStall", "Reset", "Drain"} -> Files
      [] Ev.ev = "PrioEnd" -> IF BgResumes(PfPrio) THEN Files ELSE {}
      [] Ev.ev = "PrefetchEnd" -> IF BgResumes(prio > 0) THEN Files ELSE {}
      [] OTHER -> {}
LateTarget == [g \in Files |-> IF g \in OwnFiles THEN lst[g] ELSE Ev.obs.lst[g]]
TraceBgProgress ==
    /\ l <= Len(TraceLog) /\ UNCHANGED l
    /\ sc.haslst /\ bg \in {"stalled", "suspended"}
    /\ OwnFiles # Files
    /\ LateTarget # lst /\ Monotone(LateTarget, BgFiles)
    /\ lst' = LateTarget
    /\ UNCHANGED <<sc, pc, runner, pf, pfres, psize, pinfo, waiter, wc, bc, brunner, bg, bgres, prio, fetched, reg, last>>

\* the rest of a prefetch after the walk ended (only a Reset can follow): judged by the monitor, not followed here
TraceDrain == IsEvent("Drain") /\ UNCHANGED vars

TraceNext ==
    \/ TraceBgProgress \/ TraceDrain
    \/ TraceReset \/ TracePrefetchCall \/ TraceRange \/ TraceAsyncThreshold \/ TraceBlobCacheStall \/ TraceBlobCache
    \/ TraceReaderCache \/ TracePrefetchEnd \/ TracePrefetchReturn \/ TraceWaitCall \/ TraceWaitReturn \/ TraceWaitTimeout
    \/ TraceBgCall \/ TraceBgStall \/ TraceBgFinish \/ TraceBgReturn \/ TracePrioBegin \/ TracePrioEnd \/ TraceRead
    \/ TraceRegistryOff \/ TraceRegistryOn \/ TraceReadCancelled \/ TraceReadPartCancelled \/ TraceReadPart

TraceSpec == TraceInit /\ [][TraceNext]_tvars

HighWater == IF l - 1 > TLCGet(1) THEN TLCSet(1, l - 1) ELSE TRUE
TraceAccepted ==
    IF TLCGet(1) = Len(TraceLog) THEN TRUE
    ELSE /\ PrintT("VREJECT " \o ToString(TLCGet(1)) \o " " \o ToString(Len(TraceLog)))
         /\ FALSE
=============================================================================

CONSTANTS
    Procs = {"p1", "p2", "p3", "p4"}
    MaxOps = 1000000
    MaxEnv = 1000000
    Modes = {"direct", "redir"}
    AuthModes = {TRUE, FALSE}
    HeadModes = {TRUE, FALSE}
    HeaderReadUnderLock = TRUE
    RedirectDropsHeaders = TRUE
    StaleAuth = TRUE
SPECIFICATION MonSpec
PROPERTIES ConfinedHeaders ConfinedAuth
CHECK_DEADLOCK FALSE

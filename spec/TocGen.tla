------------------------------- MODULE TocGen -------------------------------
(* Generation: TLC prints every complete TOC of the conforming space as     *)
(* JSON ("VTOC {ws, ents}"); the Go driver concretises each as a real blob. *)
EXTENDS Toc, Json

Emit(L, w) == IF Complete(L) THEN PrintT("VTOC " \o ToJson([ws |-> w, ents |-> L])) ELSE TRUE
GenInit == Init /\ Emit(toc, ws)
GenNext == Next /\ Emit(toc', ws')
=============================================================================

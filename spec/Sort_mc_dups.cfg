\* exhaustive: files and a directory recorded twice (other spelling / other content), ../ ./ spellings, a missing path
CONSTANTS
    UseEntries = {2, 3, 5, 8, 12, 16}
    PrioAlphabet = {"a/b", "./a/b", "../d", "a/", "x"}
    MaxTar = 3
    MaxPrio = 2
    WithLayout = FALSE
    LayoutOpts <- OptsNone
    ImplicitParents = TRUE
    ParentsFirst = TRUE
    TargetFirst = TRUE
    PickedGuard = TRUE
    SkipPickedInRest = TRUE
    LandmarkAfterMoves = TRUE
    LandmarkByList = TRUE
    ReportMissing = TRUE
    DropInputLandmarks = TRUE
    LastDupWins = TRUE
    LandmarkOwnStream = TRUE
    VisitingIsPath = TRUE
INIT Init
NEXT Next
INVARIANTS ExactlyOneLandmark EachAtMostOnce NothingLostOrDuplicated PrioritizedFirstInOrder ParentsAndTargetsBefore RestKeepsRelativeOrder MissingAbortsOrIsReported ImportIsEff
CHECK_DEADLOCK FALSE

\* exhaustive: duplicates under several spellings, landmarks in the input, ../ ./ spellings, a missing path
CONSTANTS
    UseEntries = {3, 5, 8, 9, 10, 12}
    PrioAlphabet = {"a/b", "./a/b", "../d", ".prefetch.landmark", "x"}
    MaxTar = 3
    MaxPrio = 2
    WithLayout = FALSE
    LayoutOpts <- OptsNone
    ImplicitParents = TRUE
    ParentsFirst = TRUE
    TargetFirst = TRUE
    PickedGuard = TRUE
    SkipPickedInRest = TRUE
    LandmarkAfterMoves = TRUE
    LandmarkByList = TRUE
    ReportMissing = TRUE
    DropInputLandmarks = TRUE
    LastDupWins = TRUE
    LandmarkOwnStream = TRUE
INIT Init
NEXT Next
INVARIANTS ExactlyOneLandmark EachAtMostOnce NothingLostOrDuplicated PrioritizedFirstInOrder ParentsAndTargetsBefore RestKeepsRelativeOrder MissingAbortsOrIsReported ImportIsEff
CHECK_DEADLOCK FALSE

CONSTANTS
    EPaths = {"/a", "/d"}
    ETypes = {"reg"}
    MaxEntries = 2
    FocusMax = 1
    Sizes = {120, 400, 480, 18900}
    Lays = {"m3", "m10", "m12", "m9k"}
    Digs = {"both", "none"}
    Attrs = {"z"}
    Spells = {"plain"}
    WsSet = {0}
    AllowDupDir = TRUE
    AllowUnsorted = TRUE
    AllowLinkFirst = TRUE
    DupDirCountsTwice = FALSE
    LastChunkToEnd = TRUE
INIT GenInit
NEXT GenNext
INVARIANTS TreeOK LeavesHaveNoKids SameIsEquivalence LinkCountsAddUp ChunksCover StreamsOK HardLinksResolve
CHECK_DEADLOCK FALSE

------------------------- MODULE Snapshotter2Trace -------------------------
(* Trace validation and monitor for the two-caller configuration.          *)
(* trace.ndjson: one event per gate passage of the real snapshotter, in    *)
(* the order in which the driver let the two goroutines run (one at a      *)
(* time between gates), each with `who' (the caller's goroutine) and the   *)
(* projection of the implementation state while everybody is parked:       *)
(* meta (absent once the database is closed), dirs, tmps, mounts.          *)
EXTENDS Snapshotter2, Json, TLCExt

VARIABLES l, hmade, hcreated
tvars == <<vars, l, hmade, hcreated>>

TraceLog == ndJsonDeserialize("trace.ndjson")
Ev == TraceLog[l]
Fld(f) == f \in DOMAIN Ev
ToSet(s) == {s[i] : i \in DOMAIN s}
IsEvent(e, w) == l <= Len(TraceLog) /\ Ev.ev = e /\ Ev.who = w /\ l' = l + 1

ObsOK ==
    /\ Fld("meta") => \A n \in Names : meta'[n] = Ev.meta[n]
    /\ dirs' = ToSet(Ev.dirs)
    /\ atmp' = (Ev.tmps = 1) /\ Ev.tmps \in {0, 1}
    /\ mounts' = Ev.mounts

Res(x) == IF x THEN "ok" ELSE "fail"
NoHist == UNCHANGED <<hmade, hcreated>>

TraceInit == Init /\ l = 1 /\ hmade = FALSE /\ hcreated = FALSE /\ TLCSet(1, 0)

TReset ==
    /\ l <= Len(TraceLog) /\ Ev.ev = "Reset" /\ l' = l + 1
    /\ meta' = [n \in Names |-> IF n = "c1" THEN [id |-> 1, kind |-> "committed", parent |-> "", remote |-> TRUE, ref |-> "c1", u |-> 0] ELSE NoRec]
    /\ seq' = 1 /\ dirs' = {1} /\ atmp' = FALSE /\ mounts' = <<[d |-> 1, ref |-> "c1", u |-> 0]>>
    /\ wlock' = "none" /\ closed' = FALSE /\ a' = AIdle /\ b' = BIdle /\ last' = [act |-> "Init"]
    /\ hmade' = FALSE /\ hcreated' = FALSE

TCallA == IsEvent("Call", "A") /\ A_Call(Ev.op, Ev.p, Ev.tgt) /\ ObsOK
TCallB == IsEvent("Call", "B") /\ B_Call(Ev.op) /\ ObsOK
THookA ==
    /\ IsEvent("Hook", "A")
    /\ CASE Ev.name = "create.mktemp" -> A_MkTemp
         [] Ev.name = "create.rename" -> A_Rename
         [] Ev.name = "create.commit" -> A_Commit
         [] Ev.name = "create.failed" -> A_Fail
         [] Ev.name = "commit.return" -> A_CommitRemote
         [] Ev.name = "cleanupdir.done" -> a.cur = Ev.d /\ A_CD_Rmdir
         [] OTHER -> FALSE
    /\ ObsOK
THookB ==
    /\ IsEvent("Hook", "B")
    /\ CASE Ev.name = "cleanup.scan" -> B_Scan
         [] Ev.name = "cleanupdir.done" -> b.cur = Ev.d /\ B_CD_Rmdir
         [] OTHER -> FALSE
    /\ ObsOK
TMountA == IsEvent("FsMount", "A") /\ A_Mount(Res(Ev.ok)) /\ last'.d = Ev.d /\ last'.ref = Ev.ref /\ ObsOK
TUnmountA == IsEvent("FsUnmount", "A") /\ A_CD_Unmount(Ev.d) /\ last'.hit = Ev.hit /\ ObsOK
TUnmountB == IsEvent("FsUnmount", "B") /\ B_CD_Unmount(Ev.d) /\ last'.hit = Ev.hit /\ ObsOK
TBlockedB == IsEvent("Blocked", "B") /\ B_Blocked /\ ObsOK
TReturnA ==
    /\ IsEvent("Return", "A") /\ (A_Return \/ A_ClosedFail)
    /\ last'.err = Ev.err /\ last'.lower = Ev.lower /\ ObsOK
TReturnB == IsEvent("Return", "B") /\ B_Return /\ last'.err = Ev.err /\ ObsOK

TraceNext ==
    /\ \/ TReset \/ TCallA \/ TCallB \/ THookA \/ THookB \/ TMountA \/ TUnmountA \/ TUnmountB \/ TBlockedB \/ TReturnA \/ TReturnB
    /\ (Ev.ev # "Reset" => NoHist)
TraceSpec == TraceInit /\ [][TraceNext]_tvars

HighWater == IF l - 1 > TLCGet(1) THEN TLCSet(1, l - 1) ELSE TRUE
TraceAccepted ==
    IF TLCGet(1) = Len(TraceLog) THEN TRUE
    ELSE /\ PrintT("VREJECT " \o ToString(TLCGet(1)) \o " " \o ToString(Len(TraceLog)))
         /\ FALSE

----------------------------------------------------------------------------
(* Monitor: no enabling conditions; the recorded observation is loaded and the formulas of Snapshotter2 are        *)
(* evaluated on it.  History: did A's create commit (hcreated), did the target not exist when A was called (hmade) *)

MonInit == TraceInit
NewMeta == IF Fld("meta") THEN [n \in Names |-> Ev.meta[n]] ELSE meta
IsA == Fld("who") /\ Ev.who = "A"
IsB == Fld("who") /\ Ev.who = "B"
HookIs(n) == Ev.ev = "Hook" /\ Ev.name = n

MonLast ==
    CASE Ev.ev = "Call" -> [act |-> "Call", who |-> Ev.who, op |-> Ev.op, k |-> Ev.k, p |-> Ev.p, tgt |-> Ev.tgt]
      [] Ev.ev = "Hook" -> [act |-> "Hook", who |-> Ev.who, name |-> Ev.name, d |-> IF Fld("d") THEN Ev.d ELSE -1]
      [] Ev.ev = "FsMount" -> [act |-> "FsMount", who |-> Ev.who, d |-> Ev.d, ok |-> Ev.ok, ref |-> Ev.ref, u |-> 0]
      [] Ev.ev = "FsUnmount" -> [act |-> "FsUnmount", who |-> Ev.who, d |-> Ev.d, hit |-> Ev.hit, ok |-> Ev.ok, op |-> Ev.op]
      [] Ev.ev = "Blocked" -> [act |-> "Blocked", who |-> Ev.who]
      [] Ev.ev = "Return" ->
            [act |-> "Return", who |-> Ev.who, op |-> Ev.op, k |-> Ev.k, p |-> Ev.p, tgt |-> Ev.tgt, err |-> Ev.err, lower |-> Ev.lower,
             created |-> (Ev.who = "A" /\ hcreated), made |-> (Ev.who = "A" /\ hmade /\ Ev.tgt # "" /\ Has(NewMeta, Ev.tgt))]
      [] OTHER -> [act |-> "Init"]

MonNext ==
    /\ l <= Len(TraceLog) /\ l' = l + 1
    /\ IF Ev.ev = "Reset" THEN TReset
       ELSE
        /\ last' = MonLast
        /\ meta' = NewMeta /\ dirs' = ToSet(Ev.dirs) /\ atmp' = (Ev.tmps > 0) /\ mounts' = Ev.mounts
        /\ seq' = seq
        /\ wlock' = IF IsA /\ HookIs("create.mktemp") THEN "A"
                    ELSE IF IsA /\ (HookIs("create.commit") \/ HookIs("create.failed") \/ Ev.ev = "Return") THEN "none" ELSE wlock
        /\ closed' = (closed \/ (IsB /\ Ev.ev = "Return" /\ Ev.op = "Close"))
        /\ a' = IF IsA /\ Ev.ev = "Call" THEN [AIdle EXCEPT !.pc = "start", !.op = Ev.op, !.p = Ev.p, !.tgt = Ev.tgt]
                ELSE IF IsA /\ Ev.ev = "Return" THEN [a EXCEPT !.pc = "done"] ELSE a
        /\ b' = IF IsB /\ Ev.ev = "Call" THEN [BIdle EXCEPT !.pc = "start", !.op = Ev.op]
                ELSE IF IsB /\ Ev.ev = "Return" THEN [b EXCEPT !.pc = "done"] ELSE b
        /\ hcreated' = (hcreated \/ (IsA /\ HookIs("create.commit")))
        /\ hmade' = IF IsA /\ Ev.ev = "Call" THEN (Ev.tgt # "" /\ ~Has(meta, Ev.tgt)) ELSE hmade

Chk(name, ok) == ok \/ PrintT("VVIOL " \o name \o " " \o ToString(l))
MonChecks ==
    /\ Chk("MetaHasDirs", MetaHasDirs')
    /\ Chk("PrepareTargetOutcome", PrepareTargetOutcome')
    /\ Chk("ValidCreateSucceeds", ValidCreateSucceeds')
    /\ Chk("AfterCleanupDirsAreLive", AfterCleanupDirsAreLive')
    /\ Chk("UnmountOnlyAfterRemovedOrClosing", UnmountOnlyAfterRemovedOrClosing')
    /\ Chk("ScanExcludesCreate", ScanExcludesCreate')
MonSpec == MonInit /\ [][MonNext /\ MonChecks]_tvars
=============================================================================

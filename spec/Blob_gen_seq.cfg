\* generation (R): sequential, all personalities; sizes/chunks overridden by the check
CONSTANTS
    Sizes = {0, 1, 2, 3}
    Chunks = {1, 2}
    Readers = {"r1"}
    Ops = {"read", "cache"}
    Pers = {"multi", "multirev", "first", "super", "whole", "short", "shift", "half", "e400", "e403", "e403f", "err"}
    MaxLen = 4
    MaxOps = 2
    MaxReq = 2
    MaxLoss = 1
    MaxCFail = 1
    MaxInflight = 1
    LossMidCall = FALSE
    Segment = FALSE
    AllSeenCheck = TRUE
    AlignCheck = TRUE
    WriterVariant = "code"
    RetryFreshWriter = FALSE
INIT GenInit
NEXT GenNext
VIEW core
CHECK_DEADLOCK FALSE

-------------------------- MODULE ReadPathMonitor --------------------------
(* Monitor for property C02 (byte half): no enabling conditions. Each       *)
(* recorded observation of the IMPLEMENTATION (read result, content of the  *)
(* chunk cache) is loaded and only the property formulas are evaluated:     *)
(* the source is the model's file table logged by Reset (sizes; byte i of   *)
(* file f is 16*f+i+1). Used for replayed walks and for free-running        *)
(* concurrent readers (events Read in completion order, Snapshot at the     *)
(* end).                                                                    *)
EXTENDS ReadPath, Json

VARIABLE l
mvars == <<vars, l>>
TraceLog == ndJsonDeserialize("trace.ndjson")
Ev == TraceLog[l]

MonInit ==
    /\ L = [sizes |-> <<>>, chunks |-> <<>>, prefetch |-> FALSE]
    /\ cache = {} /\ last = [act |-> "Init"] /\ l = 1

MonNext ==
    /\ l <= Len(TraceLog)
    /\ l' = l + 1
    /\ L' = IF Ev.ev = "Reset" THEN [sizes |-> Ev.sizes, chunks |-> Ev.chunks, prefetch |-> Ev.prefetch] ELSE L
    /\ cache' = IF "cache" \in DOMAIN Ev THEN Range(Ev.cache) ELSE IF Ev.ev = "Reset" THEN {} ELSE cache
    /\ last' = IF Ev.ev = "Read"
               THEN [act |-> "Read", f |-> Ev.f, off |-> Ev.off, len |-> Ev.len,
                     n |-> Ev.res.n, bytes |-> Ev.res.bytes, err |-> Ev.res.err]
               ELSE [act |-> Ev.ev]

MonSpec == MonInit /\ [][MonNext]_mvars
=============================================================================

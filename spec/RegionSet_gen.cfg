\* generation: every (slice, region) pair over positions 0..MaxPos
CONSTANTS
    MaxPos = 7
    Variant = "code"
INIT GenInit
NEXT GenNext
VIEW rcore
CHECK_DEADLOCK FALSE

\* generation: cases for the replay
CONSTANTS
    UseEntries = {1, 2, 3, 6, 7}
    PrioAlphabet = {"l2", "l", "/a/b", ""}
    MaxTar = 3
    MaxPrio = 2
    WithLayout = FALSE
    LayoutOpts <- OptsNone
    ImplicitParents = TRUE
    ParentsFirst = TRUE
    TargetFirst = TRUE
    PickedGuard = TRUE
    SkipPickedInRest = TRUE
    LandmarkAfterMoves = TRUE
    LandmarkByList = TRUE
    ReportMissing = TRUE
    DropInputLandmarks = TRUE
    LastDupWins = TRUE
    LandmarkOwnStream = TRUE
INIT GenInit
NEXT GenNext
CHECK_DEADLOCK FALSE

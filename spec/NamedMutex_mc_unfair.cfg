\* negative control of the liveness formulas: holders need not unlock
CONSTANTS
    Gor = {1, 2, 3}
    Names = {"a", "b"}
    Rounds = 2
    DeleteOnlyAtZero = TRUE
    CountWaiters = TRUE
    OuterMutex = TRUE
    UnlockOrder = "dec_first"
    AllowAbsent = FALSE
    NilMapGuard = TRUE
SPECIFICATION UnfairSpec
INVARIANTS MutualExclusionPerName
PROPERTIES LockReturns
CHECK_DEADLOCK FALSE

CONSTANTS
    AKinds = {"Prepare", "View"}
    AParents = {"", "c1"}
    ATargets = {"", "c2"}
    BOps = {"Cleanup", "Close"}
    MountFaults = TRUE
    CleanupScanExcludesWriters = TRUE
INIT GenInit
NEXT GenNext
VIEW GenView
CHECK_DEADLOCK FALSE

---------------------------- MODULE TocHostileGen ----------------------------
EXTENDS TocHostile, Json
Emit(H) == PrintT("VHTOC " \o ToJson([ents |-> H, must |-> IF MustReject(H) THEN "reject" ELSE IF Plain(H) THEN "accept" ELSE "any",
                                      cyc |-> TreeCycle(H)]))
GenInit == Init /\ Emit(toc)
GenNext == Next /\ Emit(toc')
=============================================================================

---------------------------- MODULE LayerMonitor ----------------------------
(* Monitor (soundness rule, DESIGN 2.5): no enabling conditions. The next   *)
(* recorded projection of the IMPLEMENTATION is loaded into the observable  *)
(* variables and only the formulas of property C12 are evaluated on it.     *)
(* hs is history bookkeeping of the driver (which call is parked at which   *)
(* gate with which object in hand / which Layer a caller got and has not    *)
(* released).                                                               *)
(*                                                                          *)
(* Replay traces: events = spec actions (see LayerTrace). Free-running      *)
(* traces: "Sample" (a holder looks at its own layer: a local projection    *)
(* holding just that layer, its blob and their directories), "Burst" (k     *)
(* goroutines resolved one uncached name at once: ids they got, number of   *)
(* metadata opens), "Again" (Resolve after everything was released and      *)
(* evicted), "Quiesce" (complete projection with nobody holding anything).  *)
EXTENDS Layer, Json, TLCExt

VARIABLE l
mvars == <<vars, l>>

TraceLog == ndJsonDeserialize("trace.ndjson")
Ev == TraceLog[l]
Has(f) == f \in DOMAIN Ev

MonInit == Init /\ l = 1

EmptyObs == [lc |-> [n \in Names |-> 0], bc |-> [n \in Names |-> 0], layers |-> <<>>, blobs |-> <<>>,
             fsd |-> <<>>, hd |-> <<>>, hs |-> [h \in H |-> Idle]]

MonNext ==
    /\ l <= Len(TraceLog)
    /\ l' = l + 1
    /\ LET o == IF Has("obs") THEN Ev.obs ELSE EmptyObs IN
        /\ lc' = [n \in Names |-> o.lc[n]] /\ bc' = [n \in Names |-> o.bc[n]]
        /\ layers' = [i \in 1..Len(o.layers) |->
                        [name |-> o.layers[i].name, blob |-> o.layers[i].blob, bheld |-> TRUE, refs |-> 0, fin |-> FALSE,
                         closed |-> o.layers[i].closed, meta |-> o.layers[i].meta, fsd |-> o.layers[i].fsd,
                         files |-> o.layers[i].files, cerr |-> FALSE]]
        \* bad is history: a check of this blob failed although layer and blob were open (so the probe failed), and
        \* no check has passed and no Refresh has succeeded since
        /\ blobs' = [i \in 1..Len(o.blobs) |->
                        [name |-> o.blobs[i].name, refs |-> 0, fin |-> FALSE, closed |-> o.blobs[i].closed,
                         hd |-> o.blobs[i].hd,
                         conn |-> IF "conn" \in DOMAIN o.blobs[i] THEN o.blobs[i].conn ELSE TRUE,
                         fresh |-> IF "fresh" \in DOMAIN o.blobs[i] THEN o.blobs[i].fresh ELSE TRUE,
                         bad |-> IF Has("cb") /\ Ev.cb = i /\ Ev.ev \in CheckActs \cup {"Refresh"}
                                 THEN (IF Ev.ok THEN FALSE
                                       ELSE \/ Ev.ev # "Refresh" /\ ~(i <= Len(blobs) /\ blobs[i].closed)
                                            \/ i <= Len(blobs) /\ blobs[i].bad)
                                 ELSE \* ... and lastCheck was not stamped by a data fetch that succeeded
                                      /\ Ev.ev # "Reset" /\ i <= Len(blobs) /\ blobs[i].bad
                                      /\ ~("fresh" \in DOMAIN o.blobs[i] /\ o.blobs[i].fresh /\ ~blobs[i].fresh),
                         fetched |-> TRUE,
                         files |-> o.blobs[i].files]]
        /\ fsd' = o.fsd /\ hd' = o.hd
        /\ hs' = [h \in H |-> [pc |-> o.hs[h].pc, n |-> o.hs[h].n, l |-> o.hs[h].l, b |-> o.hs[h].b,
                               fd |-> o.hs[h].fd, hdp |-> o.hs[h].hdp]]
    /\ lock' = lock /\ nres' = 0 /\ nfault' = 0 /\ nbreak' = 0
    /\ last' = [act |-> Ev.ev,
                h |-> IF Has("h") THEN Ev.h ELSE 0,
                n |-> IF Has("n") THEN Ev.n ELSE NoName,
                arg |-> IF Has("arg") THEN Ev.arg ELSE TRUE,
                ok |-> IF Has("ok") THEN Ev.ok ELSE TRUE,
                ret |-> IF Has("ret") THEN Ev.ret ELSE "",
                cb |-> IF Has("cb") THEN Ev.cb ELSE 0,
                ids |-> IF Has("ids") THEN Ev.ids ELSE <<>>,
                opens |-> IF Has("opens") THEN Ev.opens ELSE 1,
                reads |-> IF Has("reads") THEN Ev.reads ELSE [h \in H |-> TRUE]]

MonSpec == MonInit /\ [][MonNext]_mvars

\* free run: the goroutines that resolved one uncached name at the same time all got one instance, built once
BurstSharesOneInstance ==
    last.act = "Burst" =>
        /\ \A i, j \in 1..Len(last.ids) : last.ids[i] = last.ids[j]
        /\ last.opens = 1
\* replay: after every step the driver reads through the Layer of every caller that holds one
HeldReadsWork == \A h \in H : hs[h].pc = "held" => last.reads[h]
\* free run: what a holder observed through its own Layer
SampleServes == last.act = "Sample" => last.ok
=============================================================================

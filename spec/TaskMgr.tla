------------------------------ MODULE TaskMgr ------------------------------
(***************************************************************************)
(* Background task manager of task/task.go (property C13).                 *)
(*                                                                         *)
(* One action per critical section / linearization point of the code:      *)
(*                                                                         *)
(*  DoPrioritizedTask    Do          under notifyMu: prio++, close+replace *)
(*                                   the notify channel (= epoch++)        *)
(*  DonePrioritizedTask  Done        spawns the delayed-decrement goroutine*)
(*     goroutine         Expire      time.Sleep(silence period) is over    *)
(*                       DecrAdd     atomic.AddInt64(&prio, -1)  (no lock) *)
(*                       Broadcast   cond.Broadcast under cond.L           *)
(*  InvokeBackgroundTask LoadOuter   for atomic.Load(prio) > 0 (no lock)   *)
(*                       CondCheck   cond.L: if Load(prio) > 0 { Wait() }  *)
(*                       AcquireSem  backgroundSem.Acquire, a slot is free *)
(*                       AcquireBlock  ... no slot free: queued inside     *)
(*                                   Acquire; the slot is handed over by   *)
(*                                   the ReleaseSem of another invocation  *)
(*                       AcquireTimeout  exists only with                  *)
(*                                   AcquireIgnoresTimeout = FALSE: the    *)
(*                                   timeout ctx is passed to Acquire, it  *)
(*                                   expires while queued, Acquire fails   *)
(*                                   without a slot and the result is      *)
(*                                   ignored (pc "decidex")                *)
(*                       Decide      under notifyMu: ch := notify channel, *)
(*                                   tasks := prio; tasks>0 => give up,    *)
(*                                   else go do(ctx)                       *)
(*                       SelNotify   select arm <-ch : cancel()            *)
(*                       SelDone     select arm <-done                     *)
(*                       AwaitBody   <-done after cancel()  (only with     *)
(*                                   WaitBodyOnCancel; the pinned code does*)
(*                                   NOT have it)                          *)
(*                       ReleaseSem  deferred backgroundSem.Release        *)
(*                       Return      the call returns                      *)
(*  the body (caller's)  BodyBegin / BodyEnd: takes arbitrary time, reacts *)
(*                       to cancellation arbitrarily late                  *)
(*  context.WithTimeout  Timeout     environment: the deadline of the ctx  *)
(*                                   given to the body passes (ctx.Done()  *)
(*                                   becomes ready; the body notices       *)
(*                                   arbitrarily late). The code's select  *)
(*                                   has NO <-ctx.Done() arm, so the       *)
(*                                   invocation still goes on only after   *)
(*                                   <-done (or a notify)                  *)
(*                       SelCtxDone  exists only with AwaitBodyOnTimeout = *)
(*                                   FALSE: a select arm <-ctx.Done() that *)
(*                                   returns without waiting for the body  *)
(*                                                                         *)
(* The notify channel is represented by `epoch` (number of Do so far): the *)
(* channel read at Decide is closed iff epoch > seen[i].  Prioritized      *)
(* clients are anonymous in the code (a counter), so they are counters     *)
(* here: active = Do without Done, dg = the delayed-decrement goroutines   *)
(* by stage.                                                               *)
(*                                                                         *)
(* Deliberate deviations: semaphore.Acquire is FIFO in the code, any       *)
(* waiter here; goroutine creation of the body is the state "spawned"; the *)
(* deadline of a body whose ctx is already cancelled (cancel() after a     *)
(* notify) is not a step (nothing observable changes).                     *)
(***************************************************************************)
EXTENDS Integers, Sequences, FiniteSets, TLC

CONSTANTS
    Invs,              \* set of invocation ids (small integers)
    Concurrency,       \* weight of backgroundSem
    MaxDo,             \* bound on the number of DoPrioritizedTask calls
    WaitBodyOnCancel,  \* TRUE = wait for the body after cancel() (repaired code); FALSE = pinned code
    RecheckUnderLock,  \* TRUE = Decide gives up when tasks > 0 (as in the code)
    DecrAfterSilence,  \* TRUE = the counter is decremented after the silence period (as in the code)
    UseSem,            \* TRUE = bodies are started under the semaphore (as in the code)
    NotifyArm,         \* TRUE = select has the <-ch arm (as in the code)
    AwaitBodyOnTimeout,\* TRUE = no <-ctx.Done() arm: after the deadline the invocation still waits for the body (as in the code)
    AcquireIgnoresTimeout, \* TRUE = Acquire(context.Background()) (as in the code); FALSE = Acquire(timeout ctx), result ignored
    Timeouts,          \* TRUE = the deadline of a body's ctx may pass while it runs
    BroadcastAll       \* TRUE = cond.Broadcast (as in the code); FALSE = Signal (wakes one)

VARIABLES
    prio,     \* the atomic counter prioritizedTasks
    epoch,    \* number of Do so far = identity of the current notify channel
    sem,      \* units of backgroundSem taken
    active,   \* prioritized tasks begun and not ended (environment bookkeeping)
    ndo,      \* Do calls so far (bound)
    dg,       \* delayed-decrement goroutines: [sleep, awake, bcast] counts
    pc,       \* per invocation
    seen,     \* per invocation: epoch read at Decide (= which channel `ch` is)
    bodies,   \* per invocation: Seq of [st \in {"spawned","running","done"}, cx \in BOOLEAN]
    last      \* observation: the step just taken

core == <<prio, epoch, sem, active, ndo, dg, pc, seen, bodies>>
vars == <<prio, epoch, sem, active, ndo, dg, pc, seen, bodies, last>>

Cur(i) == bodies[i][Len(bodies[i])]
CurDone(i) == Len(bodies[i]) > 0 /\ Cur(i).st = "done"
Running(i) == {n \in 1..Len(bodies[i]) : bodies[i][n].st = "running"}
Unfinished(i) == {n \in 1..Len(bodies[i]) : bodies[i][n].st # "done"}
\* no prioritized task in progress, none inside its silence period
Quiet == active = 0 /\ dg.sleep = 0

RECURSIVE SumRunning(_)
SumRunning(S) == IF S = {} THEN 0
                 ELSE LET i == CHOOSE x \in S : TRUE IN Cardinality(Running(i)) + SumRunning(S \ {i})

----------------------------------------------------------------------------
Init ==
    /\ prio = 0 /\ epoch = 0 /\ sem = 0 /\ active = 0 /\ ndo = 0
    /\ dg = [sleep |-> 0, awake |-> 0, bcast |-> 0]
    /\ pc = [i \in Invs |-> "wait"]
    /\ seen = [i \in Invs |-> 0]
    /\ bodies = [i \in Invs |-> <<>>]
    /\ last = [act |-> "Init"]

(* ---- prioritized side ---- *)
Do ==
    /\ ndo < MaxDo
    /\ prio' = prio + 1 /\ epoch' = epoch + 1 /\ active' = active + 1 /\ ndo' = ndo + 1
    /\ UNCHANGED <<sem, dg, pc, seen, bodies>>
    /\ last' = [act |-> "Do"]

Done ==
    /\ active > 0
    /\ active' = active - 1
    /\ dg' = [dg EXCEPT !.sleep = @ + 1]
    /\ prio' = IF DecrAfterSilence THEN prio ELSE prio - 1
    /\ UNCHANGED <<epoch, sem, ndo, pc, seen, bodies>>
    /\ last' = [act |-> "Done"]

Expire ==
    /\ dg.sleep > 0
    /\ dg' = [dg EXCEPT !.sleep = @ - 1, !.awake = @ + 1]
    /\ UNCHANGED <<prio, epoch, sem, active, ndo, pc, seen, bodies>>
    /\ last' = [act |-> "Expire"]

DecrAdd ==
    /\ dg.awake > 0
    /\ dg' = [dg EXCEPT !.awake = @ - 1, !.bcast = @ + 1]
    /\ prio' = IF DecrAfterSilence THEN prio - 1 ELSE prio
    /\ UNCHANGED <<epoch, sem, active, ndo, pc, seen, bodies>>
    /\ last' = [act |-> "DecrAdd"]

Sleepers == {i \in Invs : pc[i] = "sleeping"}
Broadcast ==
    /\ dg.bcast > 0
    /\ dg' = [dg EXCEPT !.bcast = @ - 1]
    /\ IF BroadcastAll \/ Sleepers = {}
       THEN pc' = [i \in Invs |-> IF pc[i] = "sleeping" THEN "wait" ELSE pc[i]]
       ELSE \E w \in Sleepers : pc' = [pc EXCEPT ![w] = "wait"]
    /\ UNCHANGED <<prio, epoch, sem, active, ndo, seen, bodies>>
    /\ last' = [act |-> "Broadcast"]

(* ---- InvokeBackgroundTask ---- *)
Goto(i, l) == pc' = [pc EXCEPT ![i] = l]

LoadOuter(i) ==
    /\ pc[i] = "wait"
    /\ Goto(i, IF prio > 0 THEN "condchk" ELSE "acquire")
    /\ UNCHANGED <<prio, epoch, sem, active, ndo, dg, seen, bodies>>
    /\ last' = [act |-> "LoadOuter", i |-> i, pos |-> prio > 0]

CondCheck(i) ==
    /\ pc[i] = "condchk"
    /\ Goto(i, IF prio > 0 THEN "sleeping" ELSE "wait")
    /\ UNCHANGED <<prio, epoch, sem, active, ndo, dg, seen, bodies>>
    /\ last' = [act |-> "CondCheck", i |-> i, pos |-> prio > 0]

AcquireSem(i) ==
    /\ pc[i] = "acquire"
    /\ UseSem => sem < Concurrency
    /\ sem' = sem + 1
    /\ Goto(i, "decide")
    /\ UNCHANGED <<prio, epoch, active, ndo, dg, seen, bodies>>
    /\ last' = [act |-> "AcquireSem", i |-> i]

\* no slot is free: the invocation is queued inside Acquire
Waiters == {i \in Invs : pc[i] = "acquiring"}
AcquireBlock(i) ==
    /\ pc[i] = "acquire"
    /\ UseSem /\ sem >= Concurrency
    /\ Goto(i, "acquiring")
    /\ UNCHANGED <<prio, epoch, sem, active, ndo, dg, seen, bodies>>
    /\ last' = [act |-> "AcquireBlock", i |-> i]

\* NOT in the code: the ctx given to Acquire expires while queued; Acquire returns an error that is ignored
AcquireTimeout(i) ==
    /\ ~AcquireIgnoresTimeout /\ Timeouts
    /\ pc[i] = "acquiring"
    /\ Goto(i, "decidex")
    /\ UNCHANGED <<prio, epoch, sem, active, ndo, dg, seen, bodies>>
    /\ last' = [act |-> "AcquireTimeout", i |-> i]

\* t = the value of `tasks` the code read under notifyMu
DecideRead(i, t) ==
    /\ pc[i] \in {"decide", "decidex"}
    /\ seen' = [seen EXCEPT ![i] = epoch]
    /\ IF t > 0 /\ RecheckUnderLock
       THEN /\ Goto(i, "relretry") /\ UNCHANGED bodies
       ELSE /\ Goto(i, "select")
            /\ bodies' = [bodies EXCEPT ![i] = Append(@, [st |-> "spawned", cx |-> pc[i] = "decidex"])]
    /\ UNCHANGED <<prio, epoch, sem, active, ndo, dg>>
    /\ last' = [act |-> "Decide", i |-> i, tasks |-> t, start |-> ~(t > 0 /\ RecheckUnderLock)]
\* the read is atomic with respect to Do (notifyMu); here also with respect to the lock-free decrement
DecideT(i, t) == t = prio /\ DecideRead(i, t)
Decide(i) == DecideT(i, prio)

SelNotify(i) ==
    /\ pc[i] = "select"
    /\ NotifyArm
    /\ epoch > seen[i]
    /\ bodies' = [bodies EXCEPT ![i][Len(bodies[i])].cx = TRUE]
    /\ Goto(i, IF WaitBodyOnCancel THEN "awaitbody" ELSE "relretry")
    /\ UNCHANGED <<prio, epoch, sem, active, ndo, dg, seen>>
    /\ last' = [act |-> "SelNotify", i |-> i]

\* the deadline of the ctx of the current body passes (the ctx is derived per Decide, so only the current body)
Timeout(i) ==
    /\ Timeouts
    /\ pc[i] = "select"
    /\ ~Cur(i).cx /\ Cur(i).st # "done"
    /\ bodies' = [bodies EXCEPT ![i][Len(bodies[i])].cx = TRUE]
    /\ UNCHANGED <<prio, epoch, sem, active, ndo, dg, pc, seen>>
    /\ last' = [act |-> "Timeout", i |-> i]

\* NOT in the code: a select arm <-ctx.Done() falling through to `return true`
SelCtxDone(i) ==
    /\ ~AwaitBodyOnTimeout
    /\ pc[i] = "select"
    /\ Cur(i).cx
    /\ Goto(i, "relfinish")
    /\ UNCHANGED <<prio, epoch, sem, active, ndo, dg, seen, bodies>>
    /\ last' = [act |-> "SelCtxDone", i |-> i]

SelDone(i) ==
    /\ pc[i] = "select"
    /\ CurDone(i)
    /\ Goto(i, "relfinish")
    /\ UNCHANGED <<prio, epoch, sem, active, ndo, dg, seen, bodies>>
    /\ last' = [act |-> "SelDone", i |-> i]

AwaitBody(i) ==
    /\ pc[i] = "awaitbody"
    /\ CurDone(i)
    /\ Goto(i, "relretry")
    /\ UNCHANGED <<prio, epoch, sem, active, ndo, dg, seen, bodies>>
    /\ last' = [act |-> "AwaitBody", i |-> i]

\* w = the queued invocation the slot is handed to (0 = nobody is queued: the slot becomes free)
ReleaseW(i, w) ==
    /\ pc[i] \in {"relretry", "relfinish"}
    /\ LET nxt == IF pc[i] = "relretry" THEN "wait" ELSE "exit" IN
       IF w = 0
       THEN /\ Waiters = {} /\ sem' = sem - 1 /\ Goto(i, nxt)
       ELSE /\ w \in Waiters /\ sem' = sem /\ pc' = [pc EXCEPT ![i] = nxt, ![w] = "decide"]
    /\ UNCHANGED <<prio, epoch, active, ndo, dg, seen, bodies>>
    /\ last' = [act |-> "ReleaseSem", i |-> i, fin |-> pc[i] = "relfinish", w |-> w]
ReleaseSem(i) == \E w \in (IF Waiters = {} THEN {0} ELSE Waiters) : ReleaseW(i, w)

Return(i) ==
    /\ pc[i] = "exit"
    /\ Goto(i, "returned")
    /\ UNCHANGED <<prio, epoch, sem, active, ndo, dg, seen, bodies>>
    /\ last' = [act |-> "Return", i |-> i]

(* ---- the caller's body ---- *)
BodyBegin(i, n) ==
    /\ n \in 1..Len(bodies[i])
    /\ bodies[i][n].st = "spawned"
    /\ bodies' = [bodies EXCEPT ![i][n].st = "running"]
    /\ UNCHANGED <<prio, epoch, sem, active, ndo, dg, pc, seen>>
    /\ last' = [act |-> "BodyBegin", i |-> i, n |-> n]

BodyEnd(i, n) ==
    /\ n \in 1..Len(bodies[i])
    /\ bodies[i][n].st = "running"
    /\ bodies' = [bodies EXCEPT ![i][n].st = "done"]
    /\ UNCHANGED <<prio, epoch, sem, active, ndo, dg, pc, seen>>
    /\ last' = [act |-> "BodyEnd", i |-> i, n |-> n]

Bn == 1..(MaxDo + 1)     \* a body is abandoned only after a new Do, so at most MaxDo+1 bodies per invocation

Next ==
    \/ Do \/ Done \/ Expire \/ DecrAdd \/ Broadcast
    \/ \E i \in Invs : LoadOuter(i)
    \/ \E i \in Invs : CondCheck(i)
    \/ \E i \in Invs : AcquireSem(i)
    \/ \E i \in Invs : AcquireBlock(i)
    \/ \E i \in Invs : AcquireTimeout(i)
    \/ \E i \in Invs : Decide(i)
    \/ \E i \in Invs : SelNotify(i)
    \/ \E i \in Invs : SelDone(i)
    \/ \E i \in Invs : Timeout(i)
    \/ \E i \in Invs : SelCtxDone(i)
    \/ \E i \in Invs : AwaitBody(i)
    \/ \E i \in Invs : ReleaseSem(i)
    \/ \E i \in Invs : Return(i)
    \/ \E i \in Invs, n \in Bn : BodyBegin(i, n)
    \/ \E i \in Invs, n \in Bn : BodyEnd(i, n)

Spec == Init /\ [][Next]_vars

\* fairness of everything but the environment's Do/Done
Fair ==
    /\ WF_vars(Expire) /\ WF_vars(DecrAdd) /\ WF_vars(Broadcast)
    /\ \A i \in Invs :
        /\ WF_vars(LoadOuter(i)) /\ WF_vars(CondCheck(i)) /\ WF_vars(AcquireSem(i)) /\ WF_vars(AcquireBlock(i)) /\ WF_vars(Decide(i))
        /\ WF_vars(SelNotify(i)) /\ WF_vars(SelDone(i)) /\ WF_vars(AwaitBody(i)) /\ WF_vars(SelCtxDone(i))
        /\ WF_vars(ReleaseSem(i)) /\ WF_vars(Return(i))
        /\ \A n \in Bn : WF_vars(BodyBegin(i, n)) /\ WF_vars(BodyEnd(i, n))
LiveSpec == Spec /\ Fair
\* for CancelOnPrioritized a body may run for ever unless it is cancelled: no fairness of BodyEnd
FairNoBodyEnd ==
    /\ WF_vars(Expire) /\ WF_vars(DecrAdd) /\ WF_vars(Broadcast)
    /\ \A i \in Invs :
        /\ WF_vars(LoadOuter(i)) /\ WF_vars(CondCheck(i)) /\ WF_vars(AcquireSem(i)) /\ WF_vars(AcquireBlock(i)) /\ WF_vars(Decide(i))
        /\ WF_vars(SelNotify(i)) /\ WF_vars(SelDone(i)) /\ WF_vars(AwaitBody(i)) /\ WF_vars(SelCtxDone(i))
        /\ WF_vars(ReleaseSem(i)) /\ WF_vars(Return(i))
CancelSpec == Spec /\ FairNoBodyEnd

----------------------------------------------------------------------------
(* Property C13. The safety formulas use only observables: body begin/end, *)
(* the start decision, prioritized begin/end (+silence), returns.          *)

\* a body is started only when no prioritized task is in progress or inside its silence period
StartOnlyWhenQuiet ==
    [][\A i \in Invs : (pc[i] \in {"decide", "decidex"} /\ pc'[i] = "select") => Quiet]_vars
\* at most `Concurrency` bodies run at once
Bounded == SumRunning(Invs) <= Concurrency
\* two executions of one invoked task never overlap
NoSelfOverlap == \A i \in Invs : Cardinality(Running(i)) <= 1
\* none is still running (or about to run) when the invocation returns
NoneRunningAtReturn == \A i \in Invs : pc[i] = "returned" => Unfinished(i) = {}

\* liveness (model only, under Fair)
CancelOnPrioritized ==
    \* the invocation leaves its select: by the notify arm (cancel()) or because the body is done
    \A i \in Invs : (pc[i] = "select" /\ epoch > seen[i]) ~> (pc[i] # "select")
EventuallyCompletes ==
    \A i \in Invs : (<>[](prio = 0)) => <>(pc[i] = "returned")

(* internal consistency (documents the design, not part of the property) *)
TypeOK ==
    /\ prio \in Int /\ sem \in 0..Cardinality(Invs) /\ active \in 0..MaxDo
    /\ \A i \in Invs : pc[i] \in {"wait", "condchk", "sleeping", "acquire", "acquiring", "decide", "decidex", "select", "awaitbody",
                                   "relretry", "relfinish", "exit", "returned"}
PrioAccount == DecrAfterSilence => prio = active + dg.sleep + dg.awake
SemAccount == sem = Cardinality({i \in Invs : pc[i] \in {"decide", "select", "awaitbody", "relretry", "relfinish"}})
SemBound == UseSem => sem <= Concurrency
=============================================================================

CONSTANTS
    TarIn <- MCTar
    LastWins = TRUE
    ImplicitDirMode755 = TRUE
    LinksCountOnSource = TRUE
    SymlinkSizeFromTarget = TRUE
    SpecialBitsIndependent = TRUE
    MkdevSplit = TRUE
    MemoOnlyHidesAbsent = TRUE
    AttrOpsEverywhere = FALSE
INIT GenInit
NEXT GenNext
VIEW core
INVARIANTS TarOK
PROPERTIES MetaEqualsTarStep
CHECK_DEADLOCK FALSE

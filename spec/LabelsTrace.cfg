CONSTANTS
    MaxSize = 4096
    Family = "tamper"
    MaxLayers = 0
    MaxD = 0
    LongNs = {}
    RefPfs = {}
    Flavours = {}
    Readers = {}
    MatchedOnly = FALSE
    MaxTamper = 0
    NVariants = 4
    Emit = FALSE
    ValidateLayers = TRUE
    ValidateUrls = TRUE
    CountSeparator = TRUE
    WriteEmptyUrlLabels = TRUE
    ExtraStripsPreset = FALSE
    WholeDigests = TRUE
    UrlIdx = "layer"
    ReaderChecksRef = TRUE
    ReaderChecksDigest = TRUE
    StopAtFirstMisfit = TRUE
    ReaderPure = TRUE
    ReaderResetsUrls = TRUE
    ReaderSkipsTarget = TRUE
SPECIFICATION TraceSpec
CONSTRAINT TraceConstraint
CHECK_DEADLOCK FALSE

-------------------------------- MODULE Fs --------------------------------
(***************************************************************************)
(* The filesystem front-end fs/fs.go (snapshot.FileSystem backend of the   *)
(* remote snapshotter): Mount / Check / Unmount over the layer map.        *)
(*                                                                         *)
(* One action per step of fs.go between two observable effects.  A call c  *)
(* is a record with a program counter; several calls may be in flight.     *)
(*                                                                         *)
(*  Mount   MDo        DoPrioritizedTask                    (task.Do hook) *)
(*          MSources   fs.getSources(labels)           (GetSources seam)   *)
(*          MResolve   resolver.Resolve(source i): layer cache hit, stale  *)
(*                     hit (evicted) or new layer object; the resolving    *)
(*                     goroutine hands the layer over and kicks prefetch + *)
(*                     background fetch      (gate layer.resolve.locked)   *)
(*          MVerify    the verification decision: SkipVerify (disabled),   *)
(*                     Verify(label digest), SkipVerify (label + allowed), *)
(*                     refuse                  (gate fs.mount.verified)    *)
(*          MInsert    RootNode + layerMu{layer[mp] = l} (event fs.map.insert) *)
(*          MFuse      fuse.NewServer + WaitMount  (gate fs.mount.fuse,    *)
(*                     fault = the mountpoint does not exist)              *)
(*          MFail      the deferred l.Done() of an error return            *)
(*          Ret        deferred DonePrioritizedTask + return (task.Done)   *)
(*  Check   CDo, CLookup (layerMu, event fs.map.lookup), CLayerCheck       *)
(*          (FetchedSize<Size => layer.Check), CRefresh (getSources +      *)
(*          layer.Refresh), CWait (WaitForPrefetchCompletion, bounded by   *)
(*          prefetchTimeout), Ret                                          *)
(*  Unmount UDelete (layerMu{lookup, delete, l.Close()}, event             *)
(*          fs.map.delete), USys (unix.Unmount, gate fs.unmount.deleted),  *)
(*          Ret                                                            *)
(*  background: PreResolve (neighbouring layer of the manifest: Resolve,   *)
(*          kick, Done), PfStart/PfEnd (layer.Prefetch), BgQueue/BgStart/  *)
(*          BgEnd (layer.BackgroundFetch through InvokeBackgroundTask),    *)
(*          Expire (TTL eviction of the resolver's layer cache)            *)
(*                                                                         *)
(* Fs.tla sits ON TOP of the other modules and ASSUMES their contracts:    *)
(*  Layer.tla / RefCache.tla (C12, C10): Resolve returns a handle on the   *)
(*     cached layer object of that (ref, digest) or on a new one; a handle *)
(*     is released at most once (Done/Close are once-guarded); Close also  *)
(*     evicts; the object is closed exactly when it is evicted and no      *)
(*     handle is held (closed(o) below is DERIVED from that contract).     *)
(*  Verify.tla (C01, with the aa2ebb2 fix): Verify(D) succeeds iff the     *)
(*     TOC digest is D and the object was not used unverified; SkipVerify  *)
(*     is a no-op on a verified object.  verif is one field per object.    *)
(*  Prefetch.tla (C15): a started prefetch ends and releases the waiter;   *)
(*     WaitForPrefetchCompletion returns by the timeout at the latest and  *)
(*     then releases the waiter for everybody.                             *)
(*  TaskMgr.tla (C13): a background body starts only when the prioritized  *)
(*     counter is 0 and is cancelled by every Do (BgRespectsPrio).  Here   *)
(*     `pri' counts only fs.go's own Do/Done brackets.                     *)
(*  Snapshotter.tla (C08): the caller never has two calls on the SAME      *)
(*     mountpoint in flight (a snapshot directory is mounted by the        *)
(*     Prepare that created it, checked/unmounted only afterwards):        *)
(*     constant SameMp = FALSE.  With SameMp = TRUE fs.go itself does NOT  *)
(*     keep MountedIffInMap (config Fs_mc_samemp: counterexample kept as   *)
(*     a negative control of that assumption).                             *)
(*                                                                         *)
(* DEVIATIONS: the transient handle of PreResolve is not modelled (taken   *)
(* and released in one step); the kick of prefetch/background fetch is     *)
(* folded into the step that creates the handle (the code does it in the   *)
(* resolving goroutine right after the hand-over); cancellation of a       *)
(* running background body is immediate at Do (TaskMgr.tla has the         *)
(* window); the 30 s resolve time-out of Mount is not modelled; metrics    *)
(* controller calls are not modelled.                                      *)
(***************************************************************************)
EXTENDS Integers, Sequences, FiniteSets, TLC

CONSTANTS
    MPs, Blobs,
    Labs,        \* label variants given to Mount: subset of {"ok","bad","skip","none","malformed","mirror"}
    Ops,         \* subset of {"Mount","Check","Unmount"}
    MaxCalls, MaxConc, MaxObj,
    SameMp,      \* may two calls on one mountpoint be in flight (FALSE = the snapshotter's contract)
    OneMount,    \* at most one Mount in flight (generation for the gated replay only; the exhaustive configs say FALSE)
    AllowNoVerif, DisableVerif, NoPrefetch, NoBgFetch,     \* config.Config of the filesystem
    PreRes,      \* labels carry a neighbouring layer (pre-resolution in the background)
    Expiry,      \* the resolver's TTL may evict a cached layer object at any time
    \* negative controls: TRUE = what the code does
    ReleaseOnFail,   \* error return after the resolve releases the layer (deferred l.Done())
    EraseOnFail,     \* a failed FUSE mount removes the map entry again (fix: commit in wt-Fs; pinned code: FALSE)
    VerifyFirst,     \* the verification decision precedes the map insert
    SkipNeedsAllow,  \* the skip-verify label counts only with allow_no_verification
    UnmountCloses,   \* Unmount closes (releases + evicts) the layer it unregisters
    CheckOwnKey,     \* Check looks its own mountpoint up
    DoneAlways,      \* DonePrioritizedTask on every return path
    BgRespectsPrio   \* TaskMgr contract: no background body starts while prioritized work is in progress

VARIABLES
    lmap,    \* [MPs -> handle id | 0]            fs.layer, guarded by layerMu
    hs,      \* Seq of handles (layerRef): [o, st \in {"held","released"}, lab]
    objs,    \* Seq of layer objects: [b, verif, pf, wdone, bg, cached]
    fuse,    \* [MPs -> number of FUSE mounts on that directory]
    pri,     \* fs.go's own prioritized tasks in progress
    calls,   \* Seq of call records
    last     \* observation

core == <<lmap, hs, objs, fuse, pri, calls>>
vars == <<lmap, hs, objs, fuse, pri, calls, last>>

HIds == 1..Len(hs)
OIds == 1..Len(objs)
CIds == 1..Len(calls)
InFlight == {c \in CIds : calls[c].pc # "returned"}
Busy(mp) == \E c \in InFlight : calls[c].mp = mp
Refs(o) == Cardinality({h \in HIds : hs[h].o = o /\ hs[h].st = "held"})
Closed(o) == ~objs[o].cached /\ Refs(o) = 0
CachedObj(b) == IF \E o \in OIds : objs[o].b = b /\ objs[o].cached
                THEN CHOOSE o \in OIds : objs[o].b = b /\ objs[o].cached ELSE 0
Sources(lab) == IF lab = "mirror" THEN <<"dead", "good">> ELSE <<"good">>
OtherMp(mp) == IF \E m \in MPs : m # mp THEN CHOOSE m \in MPs : m # mp ELSE mp

NewObj(b) == [b |-> b, verif |-> "none", pf |-> IF NoPrefetch THEN "none" ELSE "kicked", wdone |-> FALSE,
              bg |-> IF NoBgFetch THEN "none" ELSE "kicked", cached |-> TRUE]
\* fs.prefetch on an existing object: sync.Once inside the layer makes a second kick a no-op
Kick(ob) == [ob EXCEPT !.pf = IF ~NoPrefetch /\ @ = "none" THEN "kicked" ELSE @,
                       !.bg = IF ~NoBgFetch /\ @ = "none" THEN "kicked" ELSE @]

Init ==
    /\ lmap = [mp \in MPs |-> 0] /\ hs = <<>> /\ objs = <<>> /\ fuse = [mp \in MPs |-> 0]
    /\ pri = 0 /\ calls = <<>> /\ last = [act |-> "Init"]

Step(c, pc) == c \in CIds /\ calls[c].pc = pc
Set(c, pc) == [calls EXCEPT ![c].pc = pc]
Obs(act, c) == [act |-> act, c |-> c, op |-> calls[c].op, mp |-> calls[c].mp]

----------------------------------------------------------------------------
Call(op, mp, b, lab) ==
    /\ Len(calls) < MaxCalls /\ Cardinality(InFlight) < MaxConc
    /\ SameMp \/ ~Busy(mp)
    /\ (op = "Mount" /\ OneMount) => ~\E c \in InFlight : calls[c].op = "Mount"
    /\ (op = "Mount" /\ ~SameMp) => (lmap[mp] = 0 /\ fuse[mp] = 0)   \* contract: a mountpoint is a fresh snapshot directory
    /\ calls' = Append(calls, [op |-> op, mp |-> mp, b |-> b, lab |-> lab, pc |-> "start", h |-> 0, src |-> 1,
                               err |-> "", dos |-> 0, dones |-> 0, f0 |-> fuse[mp], pre |-> FALSE])
    /\ last' = [act |-> "Call", c |-> Len(calls) + 1, op |-> op, mp |-> mp, b |-> b, lab |-> lab]
    /\ UNCHANGED <<lmap, hs, objs, fuse, pri>>

CallMount   == "Mount" \in Ops /\ \E mp \in MPs, b \in Blobs, lab \in Labs : Call("Mount", mp, b, lab)
CallCheck   == "Check" \in Ops /\ \E mp \in MPs : Call("Check", mp, "-", "ok")
CallUnmount == "Unmount" \in Ops /\ \E mp \in MPs : Call("Unmount", mp, "-", "ok")

\* DoPrioritizedTask: every running background body is cancelled (TaskMgr contract)
Do(c) ==
    /\ Step(c, "start") /\ calls[c].op \in {"Mount", "Check"}
    /\ pri' = pri + 1
    /\ calls' = [calls EXCEPT ![c].pc = "do", ![c].dos = @ + 1]
    /\ objs' = [o \in OIds |-> [objs[o] EXCEPT !.bg = IF @ = "running" THEN "queued" ELSE @]]
    /\ last' = Obs("Do", c)
    /\ UNCHANGED <<lmap, hs, fuse>>

Fail(c, err) == [calls EXCEPT ![c].pc = "fail", ![c].err = err]

(* ---- Mount ---- *)
MSources(c) ==
    /\ Step(c, "do") /\ calls[c].op = "Mount"
    /\ calls' = IF calls[c].lab = "malformed" THEN Fail(c, "sources") ELSE Set(c, "resolve")
    /\ last' = Obs("Sources", c) @@ [ok |-> calls[c].lab # "malformed"]
    /\ UNCHANGED <<lmap, hs, objs, fuse, pri>>

\* resolver.Resolve of source number calls[c].src.  ok: the registry answers for this source.
MResolve(c, ok) ==
    /\ Step(c, "resolve")
    /\ LET b == calls[c].b
           srcs == Sources(calls[c].lab)
           i == calls[c].src
           o == CachedObj(b)
       IN /\ (srcs[i] = "dead") => ~ok
          /\ IF ok
             THEN /\ o = 0 => Len(objs) < MaxObj
                  /\ objs' = IF o = 0 THEN Append(objs, NewObj(b)) ELSE [objs EXCEPT ![o] = Kick(@)]
                  /\ hs' = Append(hs, [o |-> IF o = 0 THEN Len(objs) + 1 ELSE o, st |-> "held", lab |-> calls[c].lab])
                  /\ calls' = [calls EXCEPT ![c].pc = "resolved", ![c].h = Len(hs) + 1]
             ELSE \* a cached object whose connectivity check fails is evicted (only a "good" source has a cached object)
                  /\ objs' = IF o # 0 /\ srcs[i] = "good" THEN [objs EXCEPT ![o].cached = FALSE] ELSE objs
                  /\ hs' = hs
                  /\ calls' = IF i < Len(srcs) THEN [calls EXCEPT ![c].src = i + 1] ELSE Fail(c, "resolve")
          /\ last' = Obs("Resolve", c) @@ [ok |-> ok, src |-> i, hit |-> (o # 0 /\ srcs[i] = "good")]
    /\ UNCHANGED <<lmap, fuse, pri>>

\* what the verification step does to the object, and whether Mount goes on
Decision(lab, verif) ==
    IF DisableVerif THEN "skip"
    ELSE IF lab \in {"ok", "mirror"} THEN (IF verif \in {"none", "verified"} THEN "verify" ELSE "refuse")
    ELSE IF lab = "bad" THEN "refuse"
    ELSE IF lab = "skip" /\ (AllowNoVerif \/ ~SkipNeedsAllow) THEN "skip"
    ELSE "refuse"

VerifyEffect(c) ==
    LET h == calls[c].h
        o == hs[h].o
        d == Decision(calls[c].lab, objs[o].verif)
    IN /\ objs' = [objs EXCEPT ![o].verif = IF d = "verify" THEN "verified"
                                            ELSE IF d = "skip" /\ @ = "none" THEN "skipped" ELSE @]
       /\ last' = Obs("Verify", c) @@ [d |-> d]

MVerify(c) ==
    /\ VerifyFirst
    /\ Step(c, "resolved")
    /\ VerifyEffect(c)
    /\ calls' = IF last'.d = "refuse" THEN Fail(c, "verify") ELSE Set(c, "verified")
    /\ UNCHANGED <<lmap, hs, fuse, pri>>

\* negative control VerifyFirst = FALSE: the map entry is made before the decision
MVerifyLate(c) ==
    /\ ~VerifyFirst
    /\ Step(c, "inserted0")
    /\ VerifyEffect(c)
    /\ calls' = IF last'.d = "refuse" THEN Fail(c, "verify") ELSE Set(c, "inserted")
    /\ UNCHANGED <<lmap, hs, fuse, pri>>

MInsert(c) ==
    /\ IF VerifyFirst THEN Step(c, "verified") ELSE Step(c, "resolved")
    /\ lmap' = [lmap EXCEPT ![calls[c].mp] = calls[c].h]
    /\ calls' = Set(c, IF VerifyFirst THEN "inserted" ELSE "inserted0")
    /\ last' = Obs("Insert", c) @@ [h |-> calls[c].h]
    /\ UNCHANGED <<hs, objs, fuse, pri>>

MFuse(c, ok) ==
    /\ Step(c, "inserted")
    /\ IF ok
       THEN /\ fuse' = [fuse EXCEPT ![calls[c].mp] = @ + 1]
            /\ calls' = [calls EXCEPT ![c].pc = "ret", ![c].err = "nil"]
            /\ lmap' = lmap
       ELSE /\ fuse' = fuse
            /\ calls' = Fail(c, "fuse")
            /\ lmap' = lmap
    /\ last' = Obs("Fuse", c) @@ [ok |-> ok]
    /\ UNCHANGED <<hs, objs, pri>>

\* the deferred function of an error return: unregister the layer if this call registered it (EraseOnFail), l.Done()
\* (nothing to release before the layer was resolved)
MFail(c) ==
    /\ Step(c, "fail") /\ calls[c].op = "Mount"
    /\ lmap' = IF EraseOnFail /\ calls[c].h # 0 /\ lmap[calls[c].mp] = calls[c].h THEN [lmap EXCEPT ![calls[c].mp] = 0] ELSE lmap
    /\ hs' = IF calls[c].h # 0 /\ ReleaseOnFail THEN [hs EXCEPT ![calls[c].h].st = "released"] ELSE hs
    /\ calls' = Set(c, "ret")
    /\ last' = Obs("Release", c) @@ [h |-> calls[c].h]
    /\ UNCHANGED <<objs, fuse, pri>>

(* ---- Check ---- *)
CLookup(c) ==
    /\ Step(c, "do") /\ calls[c].op = "Check"
    /\ LET key == IF CheckOwnKey THEN calls[c].mp ELSE OtherMp(calls[c].mp)
           h == lmap[key]
       IN /\ calls' = IF h = 0 THEN [calls EXCEPT ![c].pc = "ret", ![c].err = "notreg"]
                      ELSE [calls EXCEPT ![c].pc = "looked", ![c].h = h]
          /\ last' = Obs("Lookup", c) @@ [h |-> h, key |-> key]
    /\ UNCHANGED <<lmap, hs, objs, fuse, pri>>

\* res: "full" (everything fetched, no connectivity check), "ok", "fail" (layer.Check fails; always on a closed layer)
CLayerCheck(c, res) ==
    /\ Step(c, "looked")
    /\ LET o == hs[calls[c].h].o IN
         /\ res = "full" => objs[o].bg = "done"
         /\ (Closed(o) /\ res # "full") => res = "fail"
    /\ calls' = Set(c, IF res = "fail" THEN "refresh" ELSE "wait")
    /\ last' = Obs("LayerCheck", c) @@ [res |-> res]
    /\ UNCHANGED <<lmap, hs, objs, fuse, pri>>

\* fs.check: getSources(labels) again, then layer.Refresh against every source
CRefresh(c, ok) ==
    /\ Step(c, "refresh")
    /\ Closed(hs[calls[c].h].o) => ~ok
    /\ calls' = IF ok THEN Set(c, "wait") ELSE [calls EXCEPT ![c].pc = "ret", ![c].err = "check"]
    /\ last' = Obs("Refresh", c) @@ [ok |-> ok]
    /\ UNCHANGED <<lmap, hs, objs, fuse, pri>>

\* WaitForPrefetchCompletion: how = "skip" (noprefetch), "closed" (layer closed: error, logged only),
\* "done" (waiter already released), "timeout" (prefetchTimeout passed: releases the waiter for everybody)
CWait(c, how) ==
    /\ Step(c, "wait")
    /\ LET o == hs[calls[c].h].o IN
         /\ how = "skip" <=> NoPrefetch
         /\ (~NoPrefetch /\ Closed(o)) <=> how = "closed"
         /\ how = "done" => objs[o].wdone
         /\ how = "timeout" => ~objs[o].wdone
         /\ objs' = IF how = "timeout" THEN [objs EXCEPT ![o].wdone = TRUE] ELSE objs
    /\ calls' = [calls EXCEPT ![c].pc = "ret", ![c].err = "nil"]
    /\ last' = Obs("Wait", c) @@ [how |-> how]
    /\ UNCHANGED <<lmap, hs, fuse, pri>>

(* ---- Unmount ---- *)
UDelete(c) ==
    /\ Step(c, "start") /\ calls[c].op = "Unmount"
    /\ LET mp == calls[c].mp
           h == lmap[mp]
       IN IF h = 0
          THEN /\ calls' = [calls EXCEPT ![c].pc = "ret", ![c].err = "notmp"]
               /\ UNCHANGED <<lmap, hs, objs>>
               /\ last' = Obs("Delete", c) @@ [h |-> 0]
          ELSE /\ lmap' = [lmap EXCEPT ![mp] = 0]
               /\ hs' = IF UnmountCloses THEN [hs EXCEPT ![h].st = "released"] ELSE hs
               /\ objs' = IF UnmountCloses THEN [objs EXCEPT ![hs[h].o].cached = FALSE] ELSE objs
               /\ calls' = [calls EXCEPT ![c].pc = "deleted", ![c].h = h]
               /\ last' = Obs("Delete", c) @@ [h |-> h]
    /\ UNCHANGED <<fuse, pri>>

USys(c) ==
    /\ Step(c, "deleted")
    /\ LET mp == calls[c].mp IN
         IF fuse[mp] > 0
         THEN /\ fuse' = [fuse EXCEPT ![mp] = @ - 1]
              /\ calls' = [calls EXCEPT ![c].pc = "ret", ![c].err = "nil"]
         ELSE /\ fuse' = fuse
              /\ calls' = [calls EXCEPT ![c].pc = "ret", ![c].err = "einval"]
    /\ last' = Obs("Sys", c) @@ [ok |-> fuse[calls[c].mp] > 0]
    /\ UNCHANGED <<lmap, hs, objs, pri>>

(* ---- return (deferred DonePrioritizedTask) ---- *)
Ret(c) ==
    /\ Step(c, "ret")
    /\ LET bracket == calls[c].dos > calls[c].dones /\ (DoneAlways \/ calls[c].err = "nil") IN
         /\ pri' = IF bracket THEN pri - 1 ELSE pri
         /\ calls' = [calls EXCEPT ![c].pc = "returned", ![c].dones = IF bracket THEN @ + 1 ELSE @]
    /\ last' = Obs("Return", c) @@ [err |-> calls[c].err, h |-> calls[c].h]
    /\ UNCHANGED <<lmap, hs, objs, fuse>>

(* ---- background ---- *)
\* pre-resolution of the neighbouring layer nb of Mount call c: Resolve, kick, Done (once per call, any time
\* after the sources are known, also after the call returned)
PreResolve(c, nb, ok) ==
    /\ PreRes /\ c \in CIds /\ calls[c].op = "Mount" /\ ~calls[c].pre
    /\ calls[c].pc \notin {"start", "do"} /\ calls[c].err # "sources" /\ calls[c].lab # "malformed"
    /\ nb \in Blobs /\ nb # calls[c].b
    /\ LET o == CachedObj(nb) IN
         IF ok THEN /\ o = 0 => Len(objs) < MaxObj
                    /\ objs' = IF o = 0 THEN Append(objs, NewObj(nb)) ELSE [objs EXCEPT ![o] = Kick(@)]
         ELSE objs' = IF o # 0 THEN [objs EXCEPT ![o].cached = FALSE] ELSE objs
    /\ calls' = [calls EXCEPT ![c].pre = TRUE]
    /\ last' = [act |-> "PreResolve", c |-> c, b |-> nb, ok |-> ok]
    /\ UNCHANGED <<lmap, hs, fuse, pri>>

\* layer.Prefetch (sync.Once): on a closed layer it fails at once; either way the waiter is released at the end
PfStart(o) ==
    /\ o \in OIds /\ objs[o].pf = "kicked"
    /\ objs' = IF Closed(o) THEN [objs EXCEPT ![o].pf = "done", ![o].wdone = TRUE] ELSE [objs EXCEPT ![o].pf = "started"]
    /\ last' = [act |-> "PfStart", o |-> o, closed |-> Closed(o)]
    /\ UNCHANGED <<lmap, hs, fuse, pri, calls>>
PfEnd(o) ==
    /\ o \in OIds /\ objs[o].pf = "started"
    /\ objs' = [objs EXCEPT ![o].pf = "done", ![o].wdone = TRUE]
    /\ last' = [act |-> "PfEnd", o |-> o]
    /\ UNCHANGED <<lmap, hs, fuse, pri, calls>>

BgQueue(o) ==
    /\ o \in OIds /\ objs[o].bg = "kicked"
    /\ objs' = [objs EXCEPT ![o].bg = IF Closed(o) THEN "done" ELSE "queued"]
    /\ last' = [act |-> "BgQueue", o |-> o, closed |-> Closed(o)]
    /\ UNCHANGED <<lmap, hs, fuse, pri, calls>>
BgStart(o) ==
    /\ o \in OIds /\ objs[o].bg = "queued"
    /\ BgRespectsPrio => pri = 0
    /\ objs' = [objs EXCEPT ![o].bg = "running"]
    /\ last' = [act |-> "BgStart", o |-> o, pri |-> pri]
    /\ UNCHANGED <<lmap, hs, fuse, pri, calls>>
BgEnd(o) ==
    /\ o \in OIds /\ objs[o].bg = "running"
    /\ objs' = [objs EXCEPT ![o].bg = "done"]
    /\ last' = [act |-> "BgEnd", o |-> o]
    /\ UNCHANGED <<lmap, hs, fuse, pri, calls>>

Expire(o) ==
    /\ Expiry /\ o \in OIds /\ objs[o].cached
    /\ objs' = [objs EXCEPT ![o].cached = FALSE]
    /\ last' = [act |-> "Expire", o |-> o]
    /\ UNCHANGED <<lmap, hs, fuse, pri, calls>>

CallStep ==
    \E c \in CIds : \/ Do(c) \/ MSources(c) \/ (\E ok \in BOOLEAN : MResolve(c, ok)) \/ MVerify(c) \/ MVerifyLate(c)
                    \/ MInsert(c) \/ (\E ok \in BOOLEAN : MFuse(c, ok)) \/ MFail(c)
                    \/ CLookup(c) \/ (\E r \in {"full", "ok", "fail"} : CLayerCheck(c, r))
                    \/ (\E ok \in BOOLEAN : CRefresh(c, ok)) \/ (\E how \in {"skip", "closed", "done", "timeout"} : CWait(c, how))
                    \/ UDelete(c) \/ USys(c) \/ Ret(c)
Background ==
    \/ \E c \in CIds, nb \in Blobs, ok \in BOOLEAN : PreResolve(c, nb, ok)
    \/ \E o \in OIds : PfStart(o) \/ PfEnd(o) \/ BgQueue(o) \/ BgStart(o) \/ BgEnd(o) \/ Expire(o)

Next == CallMount \/ CallCheck \/ CallUnmount \/ CallStep \/ Background

Spec == Init /\ [][Next]_vars

----------------------------------------------------------------------------
(* Property formulas *)

MapHandles == {lmap[mp] : mp \in {m \in MPs : lmap[m] # 0}}
OwnedInFlight == {calls[c].h : c \in {x \in InFlight : calls[x].op = "Mount" /\ calls[x].h # 0}}

\* a mountpoint nobody is working on is FUSE-mounted iff it is in the layer map, its handle is held and is its own;
\* no handle is held by nobody (leak)
MountedIffInMap ==
    /\ \A mp \in MPs : ~Busy(mp) =>
          /\ fuse[mp] = (IF lmap[mp] # 0 THEN 1 ELSE 0)
          /\ lmap[mp] # 0 => /\ hs[lmap[mp]].st = "held"
                             /\ \A m2 \in MPs : m2 # mp => lmap[m2] # lmap[mp]
    /\ \A h \in HIds : hs[h].st = "held" => h \in MapHandles \cup OwnedInFlight

\* a mounted layer never closes under the mount (assumes RefCache's contract; here: it is held)
MountedLayerAlive == \A mp \in MPs : (lmap[mp] # 0 /\ ~Busy(mp)) => ~Closed(hs[lmap[mp]].o)

\* a failed Mount leaves no held layer, no map entry of its own, no additional mount
FailedMountLeavesNothing ==
    [][(last'.act = "Return" /\ last'.op = "Mount" /\ last'.err # "nil") =>
         LET c == last'.c IN
           /\ calls'[c].h # 0 => (hs'[calls'[c].h].st = "released" /\ calls'[c].h \notin {lmap'[mp] : mp \in MPs})
           /\ fuse'[calls'[c].mp] <= calls'[c].f0]_vars

\* what may be served at a mountpoint: verified against the digest of ITS labels, or unverified only where the
\* configuration allows it
Admitted(h) ==
    LET v == objs[hs[h].o].verif
        lab == hs[h].lab
    IN /\ v # "none"
       /\ lab \in {"ok", "mirror"} => (v = "verified" \/ DisableVerif)
       /\ lab = "skip" => (AllowNoVerif \/ DisableVerif)
       /\ lab \in {"bad", "none", "malformed"} => DisableVerif
       /\ v = "skipped" => (DisableVerif \/ AllowNoVerif)
NoUnverifiedMountUnlessAllowed ==
    \A mp \in MPs : (lmap[mp] # 0 \/ fuse[mp] > 0) => (lmap[mp] # 0 => Admitted(lmap[mp]))
\* stronger reading used when the map entry may exist only after the decision: nothing unverified is ever registered
NoUnverifiedInMap == \A mp \in MPs : lmap[mp] # 0 => Admitted(lmap[mp])

UnmountReleasesLayer ==
    [][(last'.act = "Return" /\ last'.op = "Unmount" /\ last'.h # 0) =>
         /\ hs'[last'.h].st = "released"
         /\ ~objs'[hs'[last'.h].o].cached
         /\ last'.h \notin {lmap'[mp] : mp \in MPs}]_vars

CheckReachesOwnLayer ==
    [][last'.act = "Lookup" => (last'.key = last'.mp /\ last'.h = lmap[last'.mp])]_vars

DoDoneBalanced ==
    /\ \A c \in CIds : calls[c].pc = "returned" =>
          (IF calls[c].op = "Unmount" THEN calls[c].dos = 0 /\ calls[c].dones = 0
           ELSE calls[c].dos = 1 /\ calls[c].dones = 1)
    /\ pri = Cardinality({c \in InFlight : calls[c].dos > calls[c].dones})

BackgroundFetchOnlyAfterMountReturns == \A o \in OIds : objs[o].bg = "running" => pri = 0
BackgroundFetchStartsIdle == [][last'.act = "BgStart" => pri = 0]_vars

\* internal consistency
TypeOK ==
    /\ \A mp \in MPs : lmap[mp] \in 0..Len(hs) /\ fuse[mp] \in 0..3
    /\ pri \in 0..MaxCalls
    /\ \A h \in HIds : hs[h].o \in OIds
=============================================================================

----------------------------- MODULE TocHostile -----------------------------
(* Hostile part of the TOC input space (property C04) and the reference     *)
(* that says which outcomes a TOC may have.                                  *)
(*                                                                         *)
(* A hostile TOC is a sequence of RAW entries: name (any spelling incl. ""  *)
(* and "."), type (all eight + one unknown), linkName over the same names   *)
(* (=> hard-link cycles a->b->a, links to directories, to the own parent,    *)
(* chains, dangling links), numeric fields size / offset / chunkOffset /     *)
(* chunkSize / innerOffset from {-1, 0, 1, S, P, 2^62} (symbolic: "m1" "0"   *)
(* "1" "S" "P" "big"; S = size of the real payload, for offset: the blob     *)
(* size; P = offset of the real payload stream), digests valid / empty /     *)
(* malformed. At most FocusMax entries carry non-default numbers / digests / *)
(* spellings (the structure is enumerated exhaustively, the numbers on one   *)
(* entry at a time, at most two fields off their default).                   *)
(*                                                                         *)
(* Reference: every TOC may be accepted or rejected (a plain conforming one  *)
(* must be accepted; one whose hard links do not resolve - cycle, dangling -  *)
(* is classified MustReject, which open is free to detect late); what        *)
(* is never allowed is a panic, a fatal error (stack overflow, out of        *)
(* memory), or a hang.  An accepted TOC must yield a tree whose bounded walk  *)
(* terminates; a hard link to an ancestor directory makes the tree cyclic -  *)
(* walkers must bound their depth (fs/reader maxWalkDepth).                   *)
EXTENDS Integers, Sequences, FiniteSets, TLC

CONSTANTS
    HNames,        \* raw names
    HKinds,        \* entry types
    HLinks,        \* raw link names of hardlink entries
    MaxEntries,
    FocusMax,
    NumVals,       \* symbolic numbers a deviating field may take
    ChainBound     \* guard of the reference: how far a chain of hard links is followed (0 = not at all: negative control)

VARIABLES toc
hvars == <<toc>>

Clean(n) == CASE n \in {"", ".", "/", "./"} -> "/"
              [] n \in {"a", "a/", "../a", "./a"} -> "/a"
              [] n = "a/b" -> "/a/b"
              [] OTHER -> "/b"                        \* "b"
Anc(p) == CASE p = "/" -> {} [] p = "/a/b" -> {"/", "/a"} [] OTHER -> {"/"}
Max(S) == CHOOSE x \in S : \A y \in S : y <= x

DefNum == [size |-> "S", off |-> "P", coff |-> "0", csize |-> "0", ioff |-> "0"]
NoNum == [size |-> "0", off |-> "0", coff |-> "0", csize |-> "0", ioff |-> "0"]
IsData(k) == k \in {"reg", "chunk"}
DefaultEntry(e) == e.dg = "valid" /\ e.num = (IF IsData(e.k) THEN DefNum ELSE NoNum) /\ e.n \in {"", "a", "a/b", "b"}

(* numeric profiles: at most two fields off the default *)
Fields == {"size", "off", "coff", "csize", "ioff"}
NumProfiles ==
    {DefNum} \cup {[DefNum EXCEPT ![f] = v] : f \in Fields, v \in NumVals}
    \cup {[DefNum EXCEPT ![p[1]] = v, ![p[2]] = w] :
            p \in {<<"size", "csize">>, <<"off", "ioff">>, <<"coff", "csize">>},
            v \in NumVals, w \in NumVals}

Budget == FocusMax - Cardinality({i \in DOMAIN toc : ~DefaultEntry(toc[i])})

Init == toc = <<>>
AddEntry ==
    /\ Len(toc) < MaxEntries
    /\ \E n \in HNames, k \in HKinds :
       \E l \in (IF k = "hardlink" THEN HLinks ELSE IF k = "symlink" THEN {"a"} ELSE {""}) :
       \E num \in (IF IsData(k) THEN (IF Budget > 0 THEN NumProfiles ELSE {DefNum}) ELSE {NoNum}),
          dg \in (IF IsData(k) /\ Budget > 0 THEN {"valid", "empty", "malformed"} ELSE {"valid"}) :
          LET e == [n |-> n, k |-> k, l |-> l, num |-> num, dg |-> dg]
          IN /\ (DefaultEntry(e) \/ Budget > 0)
             /\ ~(num # DefNum /\ dg # "valid")              \* one kind of deviation at a time
             /\ toc' = Append(toc, e)
Next == AddEntry
Spec == Init /\ [][Next]_hvars

-----------------------------------------------------------------------------
(* reference *)
Named(H, p) == {i \in DOMAIN H : H[i].k # "chunk" /\ Clean(H[i].n) = p}
RECURSIVE Resolve(_, _, _)
Resolve(H, i, n) ==        \* entry a hard link finally stands for; 0 = does not resolve
    IF H[i].k # "hardlink" THEN i
    ELSE IF n = 0 \/ Named(H, Clean(H[i].l)) = {} THEN 0
    ELSE Resolve(H, Max(Named(H, Clean(H[i].l))), n - 1)
(* entries a hard link may stand for under ANY rule of choosing among entries of one name (estargz: the last one, *)
(* db store: the latest so far): closure of "entry named by the linkName of a hardlink in the set"             *)
RECURSIVE Reach(_, _, _)
Reach(H, S, n) ==
    IF n = 0 THEN S
    ELSE Reach(H, S \cup UNION {Named(H, Clean(H[j].l)) : j \in {x \in S : H[x].k = "hardlink"}}, n - 1)
Resolvable(H, i) == \E j \in Reach(H, {i}, ChainBound) : H[j].k # "hardlink"
Unresolved(H) == \E i \in DOMAIN H : H[i].k = "hardlink" /\ ~Resolvable(H, i)
(* a hard link below the directory it links to: the tree contains itself *)
TreeCycle(H) == \E i \in DOMAIN H :
    /\ H[i].k = "hardlink" /\ Resolve(H, i, ChainBound) # 0
    /\ LET s == H[Resolve(H, i, ChainBound)] IN
       s.k = "dir" /\ Clean(s.n) \in (Anc(Clean(H[i].n)) \cup {Clean(H[i].n)})
MustReject(H) == Unresolved(H)
(* C04 does not demand that a TOC with unresolvable hard links is rejected at open (estargz.Open accepts a root   *)
(* entry that is a hard link to itself and fails the later Lookup with an error): open may return either; the      *)
(* classification MustReject only labels the input class in findings.                                               *)
Allowed(H) == {"ok", "error"}
Plain(H) ==    \* conforming, well-formed: must be accepted (keeps the harness honest: its blobs are not rejected wholesale)
    /\ \A i \in DOMAIN H : DefaultEntry(H[i]) /\ H[i].k \in {"dir", "reg", "symlink", "fifo"} /\ Clean(H[i].n) # "/"
    /\ \A i, j \in DOMAIN H : i # j => Clean(H[i].n) # Clean(H[j].n)
    /\ \A i, j \in DOMAIN H : Clean(H[i].n) \in Anc(Clean(H[j].n)) => H[i].k = "dir"
    /\ Cardinality({i \in DOMAIN H : H[i].k = "reg"}) <= 1

(* sanity of the reference (M) *)
ResolvedIsSource == \A i \in DOMAIN toc : (toc[i].k = "hardlink" /\ Resolve(toc, i, ChainBound) # 0) =>
                        (toc[Resolve(toc, i, ChainBound)].k # "hardlink" /\ Resolvable(toc, i))
SelfLinkRejected == \A i \in DOMAIN toc : (toc[i].k = "hardlink" /\ Clean(toc[i].l) = Clean(toc[i].n)
                        /\ Named(toc, Clean(toc[i].n)) = {i}) => MustReject(toc)
TwoCycleRejected == \A i, j \in DOMAIN toc :
    (/\ toc[i].k = "hardlink" /\ toc[j].k = "hardlink" /\ i # j
     /\ Clean(toc[i].l) = Clean(toc[j].n) /\ Clean(toc[j].l) = Clean(toc[i].n)
     /\ Named(toc, Clean(toc[i].n)) = {i} /\ Named(toc, Clean(toc[j].n)) = {j}) => MustReject(toc)
DirectLinkResolves == \A i \in DOMAIN toc :
    (toc[i].k = "hardlink" /\ Named(toc, Clean(toc[i].l)) # {} /\ toc[Max(Named(toc, Clean(toc[i].l)))].k # "hardlink")
        => Resolvable(toc, i)
PlainAccepted == Plain(toc) => ~MustReject(toc) /\ ~TreeCycle(toc)
=============================================================================

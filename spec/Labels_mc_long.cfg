\* long family: 55..60 layers (distinct / repeating digests, one non-layer entry) and URL lists of 40 x 120 bytes,
\* crossing the 4096 byte label limit; targets at both ends and around the cut-off
CONSTANTS
    MaxSize = 4096
    Family = "long"
    MaxLayers = 0
    MaxD = 0
    LongNs = {55, 56, 57, 58, 59, 60}
    RefPfs = {12, 21}
    Flavours = {"default", "extra"}
    Readers = {"default", "cri", "chain"}
    MatchedOnly = FALSE
    MaxTamper = 0
    NVariants = 4
    Emit = FALSE
    ValidateLayers = TRUE
    ValidateUrls = TRUE
    CountSeparator = TRUE
    WriteEmptyUrlLabels = TRUE
    ExtraStripsPreset = TRUE
    WholeDigests = TRUE
    UrlIdx = "layer"
    ReaderChecksRef = TRUE
    ReaderChecksDigest = TRUE
    StopAtFirstMisfit = TRUE
    ReaderPure = TRUE
    ReaderResetsUrls = TRUE
    ReaderSkipsTarget = TRUE
SPECIFICATION Spec
INVARIANTS AllLabelsValid RoundTrip NeighbourUrlsPositional PrefetchSizeRoundTrips UrlsOwnOrNone ReaderLeavesLabels RoundTripSecondRead MalformedMandatoryRejected TamperLogExplains ExtraKeepsPreset
CHECK_DEADLOCK FALSE

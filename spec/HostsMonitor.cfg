CONSTANTS
    Mirrors = {"m1", "m2", "m3"}
    MaxMirrors = 3
    HeaderPerEntry = TRUE
SPECIFICATION MonSpec
INVARIANTS HostHeadersOwn
PROPERTIES SentHeadersOwn
CHECK_DEADLOCK FALSE

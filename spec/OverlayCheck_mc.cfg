\* all stacks of <= MaxLayers layers; the check overrides the constants per tier (see tools/props/C07.py)
CONSTANTS
    MaxLayers = 2
    TopAChoices = {TRUE, FALSE}
    LmChoices = {".no.prefetch.landmark"}
    PfChoices = {FALSE}
    SubLmChoices = {FALSE}
    Modes = {"trusted", "user", "all"}
    RealWins = TRUE
    OpaqueOn = TRUE
    MountKeyMatches = TRUE
INIT Init
NEXT Next
INVARIANTS MergeEqualsApply SingleLayerSane
CHECK_DEADLOCK FALSE

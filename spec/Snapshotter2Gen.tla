-------------------------- MODULE Snapshotter2Gen --------------------------
(* Generation for the two-caller configuration: every transition as JSON.  *)
EXTENDS Snapshotter2, Json
CoreRec  == [meta |-> meta,  seq |-> seq,  dirs |-> dirs,  atmp |-> atmp,  mounts |-> mounts,  wlock |-> wlock,
             closed |-> closed,  a |-> a,  b |-> b]
CoreRecP == [meta |-> meta', seq |-> seq', dirs |-> dirs', atmp |-> atmp', mounts |-> mounts', wlock |-> wlock',
             closed |-> closed', a |-> a', b |-> b']
GenInit == Init /\ PrintT("VINIT " \o ToJson(CoreRec))
GenNext == Next /\ PrintT("VEDGE " \o ToJson([from |-> CoreRec, last |-> last', to |-> CoreRecP]))
GenView == <<meta, seq, dirs, atmp, mounts, wlock, closed, a, b>>
=============================================================================

\* exhaustive: TTL cache, 2 keys, 3 values, 4 handles
CONSTANTS
    Keys = {"k1", "k2"}
    Kind = "ttl"
    Cap = 0
    MaxV = 3
    MaxH = 4
    OnceGuards = TRUE
    IdentityCheck = TRUE
    CallbackAtZero = TRUE
INIT Init
NEXT Next
VIEW core
INVARIANTS AtMostOnce NotWhileHeld NoLeak KeyOfLive RefsAccount
PROPERTIES DoubleReleaseHarmless AddExistingReturnsCached CbMonotone
CHECK_DEADLOCK FALSE

\* exhaustive: min-chunk-size, every subset of chunks that finds enough compressed bytes
CONSTANTS
    Sizes = {0, 1, 4, 9}
    MaxEntries = 2
    ChunkSz = 4
    Modes = {"build", "writer", "lossless"}
    WorkerSet = {1}
    MinOnSet = {TRUE}
    OffsetAfterClose = TRUE
    InnerFromStreamStart = TRUE
    RebaseChunks = TRUE
    KeepChunkSize = TRUE
    DivideKeepsAll = TRUE
    LandmarkOwnStream = TRUE
    KeepLastDup = TRUE
    ReservedByFullName = TRUE
    RefuseUnknownType = TRUE
INIT Init
NEXT Next
INVARIANTS TocAddressesRightBytes ChunksTileFile OffsetsUniquePerStreamStart EntriesPreserved DiffIDIsHashOfDecompressed TocDigestIsHashOfTocJSON LosslessIdentity
CHECK_DEADLOCK FALSE

CONSTANTS
    Scenarios <- GenScen
    StrictFilter = TRUE
    CloseOnFailure = TRUE
    HonourNoPrefetch = TRUE
    CapAtBlobSize = TRUE
    BgAllFiles = TRUE
    WaitHonoursTimeout = TRUE
    ThresholdOnEffective = TRUE
    FailOnCacheError = TRUE
    AllowReg = TRUE
INIT GenInit
NEXT GenNext
VIEW core
CHECK_DEADLOCK FALSE

-------------------------- MODULE RefCacheMonitor --------------------------
(* Monitor (soundness rule, DESIGN 2.5): no enabling conditions at all. The *)
(* next recorded observation is loaded into the observable variables and    *)
(* only the formulas of property C10 are evaluated on what the              *)
(* IMPLEMENTATION showed. handles is history bookkeeping (who obtained a    *)
(* handle and has not released it), reconstructed here from the events.     *)
EXTENDS RefCache, Json, TLCExt

VARIABLE l
mvars == <<vars, l>>

TraceLog == ndJsonDeserialize("trace.ndjson")
Ev == TraceLog[l]
Has(f) == f \in DOMAIN Ev

MonInit == Init /\ l = 1

MonNext ==
    /\ l <= Len(TraceLog)
    /\ l' = l + 1
    /\ last' = [act |-> Ev.ev]
    /\ order' = <<>>
    /\ IF Ev.ev = "Reset"
       THEN /\ live' = [k \in Keys |-> NoVal] /\ vals' = <<>> /\ handles' = <<>>
       ELSE /\ vals' = [v \in 1..Len(Ev.cb) |->
                           [key |-> "?", refs |-> 0, fin |-> FALSE, cb |-> Ev.cb[v], timer |-> "none"]]
            /\ handles' =
                 IF Ev.ev \in {"Add", "Get"} /\ Ev.h > 0
                 THEN Append(handles, [v |-> Ev.v, rel |-> FALSE])
                 ELSE IF Ev.ev = "Release" /\ Ev.h \in 1..Len(handles)
                      THEN [handles EXCEPT ![Ev.h].rel = TRUE]
                      ELSE handles
            /\ live' = [k \in Keys |->
                           IF Has("live") THEN Ev.live[k]
                           ELSE IF Ev.ev \in {"Add", "Get"} /\ Ev.k = k THEN Ev.v   \* known to be cached
                           ELSE NoVal]

MonSpec == MonInit /\ [][MonNext]_mvars

Loaded == TraceLog[l - 1]
\* NoLeak needs the complete cache content: only where the driver recorded it (quiescent points)
MonNoLeak == (l > 1 /\ "live" \in DOMAIN Loaded /\ Loaded.ev # "Reset") => NoLeak
\* a hit must not hand out a value whose callback already ran (holder would see it closed/recycled)
MonNoHitAfterCallback ==
    (l > 1 /\ Loaded.ev \in {"Add", "Get"} /\ Loaded.v # NoVal /\ Loaded.v <= Len(vals))
        => (vals[Loaded.v].cb = 0)
\* adding an existing key returns the cached value: with the full content recorded, an Add that
\* reports added=FALSE returned what was cached before, and the cache still holds it
MonAddReturnsCached ==
    [][(Ev.ev = "Add" /\ Has("live") /\ \E k \in Keys : live[k] # NoVal /\ k = Ev.k /\ l > 1 /\ "live" \in DOMAIN Loaded)
         => (~Ev.added /\ Ev.v = live[Ev.k] /\ live'[Ev.k] = live[Ev.k])]_mvars
=============================================================================

CONSTANTS
    NC = 2
    NWk = 2
    NRd = 2
    MaxAlter = 1
    MaxVerify = 2
    Kinds = {"s", "k"}
    Tocs = {"D", "X"}
    Args = {"D", "W"}
    AtomicRead = TRUE
    AtomicVerify = FALSE
    WithSkip = FALSE
    WithPass = FALSE
    WithTry = TRUE
    DecideUnderLock = TRUE
    AbortWhenProhibited = TRUE
    VerifyBeforeCache = TRUE
    RecheckCachedLayer = TRUE
    PassVerifies = TRUE
    TocLabelFirst = TRUE
    WithMount = FALSE
    FsCfgs = {"--"}
SPECIFICATION TraceSpec
CONSTRAINT HighWater
INVARIANTS MountImpliesToc ServedAreGood NoBadStaysCached FailedReadLeavesNothing
POSTCONDITION TraceAccepted
CHECK_DEADLOCK FALSE

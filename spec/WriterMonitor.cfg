CONSTANTS
    Sizes = {0}
    MaxEntries = 0
    ChunkSz = 4
    Modes = {}
    WorkerSet = {}
    MinOnSet = {}
    OffsetAfterClose = TRUE
    InnerFromStreamStart = TRUE
    RebaseChunks = TRUE
    KeepChunkSize = TRUE
    DivideKeepsAll = TRUE
    LandmarkOwnStream = TRUE
    KeepLastDup = TRUE
    ReservedByFullName = TRUE
    RefuseUnknownType = TRUE
SPECIFICATION MonSpec
INVARIANTS TocAddressesRightBytes ChunksTileFile OffsetsUniquePerStreamStart EntriesPreserved DiffIDIsHashOfDecompressed TocDigestIsHashOfTocJSON LosslessIdentity
CHECK_DEADLOCK FALSE

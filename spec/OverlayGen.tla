----------------------------- MODULE OverlayGen -----------------------------
(* Prints the layer space of OverlayCheck as JSON ("VLAYER {top, sub}") so  *)
(* that the Go driver builds exactly the layers TLC reasons about.          *)
EXTENDS OverlayCheck, Json
GenInit == /\ Init
           /\ \A x \in LayerSpace : PrintT("VLAYER " \o ToJson(x))
GenNext == FALSE /\ UNCHANGED vars
=============================================================================

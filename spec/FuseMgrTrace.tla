--------------------------- MODULE FuseMgrTrace ---------------------------
(* Trace validation (implementation -> specification) for FuseMgr.         *)
(* Input: trace.ndjson, one event per request executed by the Go driver     *)
(* (harness/fusemanager/verif_fusemgr_test.go) against the real             *)
(* fusemanager.Server; several traces concatenated, separated by "Reset".   *)
(* Event fields: act, the arguments that were imposed (c, fail, rf / mp,    *)
(* lab, fsok), what the implementation returned (res) and which filesystem  *)
(* calls it made (calls), and the projection of the implementation state    *)
(* AFTER the request: status (Status RPC), cfg (fm.config), cur (fm.curFs), *)
(* fsMap, store (bolt bucket), insts, live (mount tables of the recording   *)
(* filesystems), liveLab (labels of the live mount), epoch, extra (records under unknown keys).                 *)
EXTENDS FuseMgr, Json, TLCExt

VARIABLE l
tvars == <<vars, l>>

TraceLog == ndJsonDeserialize("trace.ndjson")
Ev == TraceLog[l]

IsEvent(e) == l <= Len(TraceLog) /\ Ev.act = e /\ l' = l + 1

ObsOK ==
    /\ status' = Ev.status /\ cfg' = Ev.cfg /\ cur' = Ev.cur
    /\ \A m \in Mps : fsMap'[m] = Ev.fsMap[m] /\ store'[m] = Ev.store[m] /\ live'[m] = Ev.live[m]
                    /\ liveLab'[m] = Ev.liveLab[m]
    /\ insts' = Ev.insts
    /\ epoch' = Ev.epoch
    /\ Ev.extra = 0
ResOK == last'.res = Ev.res /\ last'.calls = Ev.calls

TraceInit == Init /\ l = 1 /\ TLCSet(1, 0)

TraceReset ==
    /\ IsEvent("Reset")
    /\ status' = "wait" /\ cfg' = 0 /\ cur' = 0
    /\ fsMap' = [m \in Mps |-> 0] /\ store' = [m \in Mps |-> NoRec]
    /\ insts' = <<>> /\ live' = [m \in Mps |-> <<>>] /\ liveLab' = [m \in Mps |-> "none"]
    /\ epoch' = 1 /\ ninit' = 0 /\ hist' = NoHist
    /\ last' = [act |-> "Start", res |-> "ok", calls |-> <<>>]

ToSet(s) == {s[i] : i \in 1..Len(s)}

TraceInitReq == IsEvent("Init") /\ InitReq(Ev.fail, ToSet(Ev.rf)) /\ last'.c = Ev.c /\ ResOK /\ ObsOK
TraceMount   == IsEvent("Mount") /\ MountReq(Ev.mp, Ev.lab, Ev.fsok) /\ ResOK /\ ObsOK
TraceCheck   == IsEvent("Check") /\ CheckReq(Ev.mp, Ev.fsok) /\ ResOK /\ ObsOK
TraceUnmount == IsEvent("Unmount") /\ UnmountReq(Ev.mp, Ev.fsok) /\ ResOK /\ ObsOK
TraceRestart == IsEvent("Restart") /\ ManagerRestart /\ ObsOK
TraceMountCrash   == IsEvent("MountCrash") /\ MountCrash(Ev.mp, Ev.lab) /\ ResOK /\ ObsOK
TraceUnmountCrash == IsEvent("UnmountCrash") /\ UnmountCrash(Ev.mp) /\ ResOK /\ ObsOK
TraceClose   == IsEvent("Close") /\ CloseReq /\ ResOK /\ ObsOK

TraceNext ==
    \/ TraceReset \/ TraceInitReq \/ TraceMount \/ TraceCheck \/ TraceUnmount \/ TraceRestart \/ TraceClose
    \/ TraceMountCrash \/ TraceUnmountCrash

TraceSpec == TraceInit /\ [][TraceNext]_tvars

HighWater == IF l - 1 > TLCGet(1) THEN TLCSet(1, l - 1) ELSE TRUE
TraceAccepted ==
    IF TLCGet(1) = Len(TraceLog) THEN TRUE
    ELSE /\ PrintT("VREJECT " \o ToString(TLCGet(1)) \o " " \o ToString(Len(TraceLog)))
         /\ FALSE
=============================================================================

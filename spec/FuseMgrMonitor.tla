-------------------------- MODULE FuseMgrMonitor --------------------------
(* Monitor (soundness rule, DESIGN 2.5): no enabling conditions. The next   *)
(* recorded observation is loaded into the variables and only the formulas  *)
(* of property C17 are evaluated on what the IMPLEMENTATION showed. hist is *)
(* history bookkeeping, reconstructed from the recorded results with the    *)
(* same operator (HistAfterInit) the specification uses.                    *)
EXTENDS FuseMgr, Json, TLCExt

VARIABLE l
mvars == <<vars, l>>

TraceLog == ndJsonDeserialize("trace.ndjson")
Ev == TraceLog[l]

MonInit == Init /\ l = 1

MonNext ==
    /\ l <= Len(TraceLog)
    /\ l' = l + 1
    /\ last' = Ev
    /\ IF Ev.act = "Reset"
       THEN /\ status' = "wait" /\ cfg' = 0 /\ cur' = 0
            /\ fsMap' = [m \in Mps |-> 0] /\ store' = [m \in Mps |-> NoRec]
            /\ insts' = <<>> /\ live' = [m \in Mps |-> <<>>] /\ liveLab' = [m \in Mps |-> "none"]
            /\ epoch' = 1 /\ ninit' = 0 /\ hist' = NoHist
       ELSE /\ status' = Ev.status /\ cfg' = Ev.cfg /\ cur' = Ev.cur
            /\ fsMap' = [m \in Mps |-> Ev.fsMap[m]]
            /\ store' = [m \in Mps |-> Ev.store[m]]
            /\ live' = [m \in Mps |-> Ev.live[m]]
            /\ insts' = Ev.insts
            /\ epoch' = Ev.epoch
            /\ ninit' = IF Ev.act = "Init" THEN Ev.c ELSE ninit
            /\ liveLab' = [m \in Mps |-> Ev.liveLab[m]]
            /\ hist' = IF Ev.act \in {"Restart", "MountCrash", "UnmountCrash"} THEN NoHist
                       ELSE LET lv1 == [m \in Mps |-> Ev.live[m]]
                                h1  == IF Ev.act = "Init"
                                       THEN HistAfterInit(hist, Ev.c, Ev.res, Len(Ev.insts) > Len(insts),
                                                          [m \in Mps |-> Ev.store[m]], lv1)
                                       ELSE hist
                            IN WithReqLab(h1, Ev, live, lv1)

MonSpec == MonInit /\ [][MonNext]_mvars
=============================================================================

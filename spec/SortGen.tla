------------------------------ MODULE SortGen ------------------------------
(* Generation: TLC prints every enumerated case (input tar, prioritized    *)
(* list, allow-not-found) together with the result the specification       *)
(* computes; the Go driver materialises each case as a real tar and runs   *)
(* the real estargz.Build on it.                                           *)
EXTENDS Sort, Json

GenInit == Init
GenNext ==
    /\ Next
    /\ (phase' = "sorted") =>
         PrintT("VCASE " \o ToJson([tar |-> tar', prio |-> prio', allow |-> allow',
                                    err |-> res'.err, order |-> [i \in 1..Len(res'.out) |-> res'.out[i].name],
                                    missed |-> res'.missed]))
=============================================================================

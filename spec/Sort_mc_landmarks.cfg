\* exhaustive: landmarks already in the input, spelled plain, ./x and /x, with and without a prioritized list, also listed themselves
CONSTANTS
    UseEntries = {3, 9, 10, 13, 14, 15}
    PrioAlphabet = {"a/b", "./.prefetch.landmark", ".no.prefetch.landmark"}
    MaxTar = 3
    MaxPrio = 2
    WithLayout = FALSE
    LayoutOpts <- OptsNone
    ImplicitParents = TRUE
    ParentsFirst = TRUE
    TargetFirst = TRUE
    PickedGuard = TRUE
    SkipPickedInRest = TRUE
    LandmarkAfterMoves = TRUE
    LandmarkByList = TRUE
    ReportMissing = TRUE
    DropInputLandmarks = TRUE
    LastDupWins = TRUE
    LandmarkOwnStream = TRUE
    VisitingIsPath = TRUE
INIT Init
NEXT Next
INVARIANTS ExactlyOneLandmark EachAtMostOnce NothingLostOrDuplicated PrioritizedFirstInOrder ParentsAndTargetsBefore RestKeepsRelativeOrder MissingAbortsOrIsReported ImportIsEff
CHECK_DEADLOCK FALSE

----------------------------- MODULE RegionSet -----------------------------
(***************************************************************************)
(* fs/remote/util.go: region, superRegion, regionSet.add, totalSize.       *)
(*                                                                         *)
(* RSAddG is a TRANSCRIPTION of the loop of regionSet.add (not a           *)
(* re-statement of "set union"): the slice is walked from the tail, one    *)
(* recursion step per loop iteration, the branches are the code's `if`s in *)
(* the code's order. RegionSetCheck.tla checks it exhaustively against set *)
(* union; Blob.tla uses it for fetchedRegionSet and for squashing the      *)
(* ranges of a request (httpFetcher.fetch).                                *)
(*                                                                         *)
(* A region is a record [b, e] (both inclusive, as in HTTP ranges).        *)
(* variant = "code" is the code; the other variants are negative controls. *)
(***************************************************************************)
EXTENDS Integers, Sequences, FiniteSets

Reg(b, e) == [b |-> b, e |-> e]
RegSize(r) == r.e - r.b + 1
RegPos(r) == r.b .. r.e

\* append(rs[:i], rs[i+1:]...)
RemoveAt(rs, i) == SubSeq(rs, 1, i - 1) \o SubSeq(rs, i + 1, Len(rs))
\* append(rs[:i+1], append([]region{r}, rs[i+1:]...)...)   (i is the 1-based index of l)
InsertAfter(rs, i, r) == SubSeq(rs, 1, i) \o <<r>> \o SubSeq(rs, i + 1, Len(rs))

RECURSIVE RSLoop(_, _, _, _)
RSLoop(rs, r, i, variant) ==
    IF i = 0
    THEN <<r>> \o rs                                   \* "r is the topmost region": prepend
    ELSE LET l == rs[i]
             adj == IF variant = "noadjacent" THEN 0 ELSE 1
         IN
         \* *) l contains r
         IF l.b <= r.b /\ r.e <= l.e THEN rs
         \* a) r overlaps (or touches) l on l's upper side: r grows downwards, l removed
         ELSE IF l.b <= r.b /\ r.b <= l.e + adj /\ l.e <= r.e
              THEN RSLoop(RemoveAt(rs, i), Reg(l.b, r.e), i - 1, variant)
         \*    r overlaps (or touches) l on l's lower side: r grows upwards, l removed
         ELSE IF r.b <= l.b /\ l.b <= r.e + adj /\ r.e <= l.e
              THEN RSLoop(RemoveAt(rs, i), Reg(r.b, l.e), i - 1, variant)
         \*    r contains l: l removed
         ELSE IF variant # "nocontain" /\ r.b <= l.b /\ l.e <= r.e
              THEN RSLoop(RemoveAt(rs, i), r, i - 1, variant)
         \* b) l lies completely below r: insert r after l, done
         ELSE IF l.e < r.b
              THEN InsertAfter(rs, i, r)
         \*    no overlap yet: next (lower) region
         ELSE RSLoop(rs, r, i - 1, variant)

RSAddG(rs, r, variant) == RSLoop(rs, r, Len(rs), variant)
RSAdd(rs, r) == RSAddG(rs, r, "code")

\* add a sequence of regions one after the other (httpFetcher.fetch: "for _, reg := range rs { s.add(reg) }")
RECURSIVE RSAddAll(_, _)
RSAddAll(rs, seq) == IF seq = <<>> THEN rs ELSE RSAddAll(RSAdd(rs, Head(seq)), Tail(seq))

\* regionSet.totalSize
RECURSIVE RSTotal(_)
RSTotal(rs) == IF rs = <<>> THEN 0 ELSE RegSize(Head(rs)) + RSTotal(Tail(rs))

\* superRegion(regs): regs non-empty
SuperRegion(rs) ==
    LET bs == {rs[i].b : i \in 1..Len(rs)}
        es == {rs[i].e : i \in 1..Len(rs)}
    IN Reg(CHOOSE x \in bs : \A y \in bs : x <= y, CHOOSE x \in es : \A y \in es : x >= y)

RSCovered(rs) == UNION {RegPos(rs[i]) : i \in 1..Len(rs)}
\* sorted, pairwise disjoint and never adjacent (touching regions are merged)
RSNormal(rs) == \A i \in 1..Len(rs) - 1 : rs[i].e + 1 < rs[i + 1].b
RSDisjointSorted(rs) == \A i \in 1..Len(rs) - 1 : rs[i].e < rs[i + 1].b
RSWellFormed(rs) == \A i \in 1..Len(rs) : rs[i].b <= rs[i].e
=============================================================================

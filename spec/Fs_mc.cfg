\* quick tier: two mountpoints, one blob (shared layer object), three calls, two in flight, prefetch on, bg fetch off
CONSTANTS
    MPs = {"m1", "m2"}
    Blobs = {"b1"}
    Labs = {"ok", "skip", "malformed"}
    Ops = {"Mount", "Check", "Unmount"}
    MaxCalls = 3
    MaxConc = 2
    MaxObj = 2
    SameMp = FALSE
    OneMount = FALSE
    AllowNoVerif = TRUE
    DisableVerif = FALSE
    NoPrefetch = FALSE
    NoBgFetch = TRUE
    PreRes = FALSE
    Expiry = FALSE
    ReleaseOnFail = TRUE
    EraseOnFail = TRUE
    VerifyFirst = TRUE
    SkipNeedsAllow = TRUE
    UnmountCloses = TRUE
    CheckOwnKey = TRUE
    DoneAlways = TRUE
    BgRespectsPrio = TRUE
SPECIFICATION Spec
VIEW core
INVARIANTS TypeOK MountedIffInMap MountedLayerAlive NoUnverifiedMountUnlessAllowed NoUnverifiedInMap DoDoneBalanced BackgroundFetchOnlyAfterMountReturns
PROPERTIES FailedMountLeavesNothing UnmountReleasesLayer CheckReachesOwnLayer BackgroundFetchStartsIdle
CHECK_DEADLOCK FALSE

\* exhaustive, arithmetic: every blob size 0..7, chunk 1..3, (off, len) incl. beyond EOF, one or two calls against honest replies,
\* every split of a chunk's bytes into Write calls
CONSTANTS
    Sizes = {0, 1, 2, 3, 4, 5, 6, 7}
    Chunks = {1, 2, 3}
    Readers = {"r1"}
    Ops = {"read", "cache"}
    Pers = {"multi", "super", "whole"}
    MaxLen = 9
    MaxOps = 2
    MaxReq = 2
    MaxLoss = 1
    MaxCFail = 0
    MaxInflight = 1
    LossMidCall = TRUE
    Segment = TRUE
    AllSeenCheck = TRUE
    AlignCheck = TRUE
    WriterVariant = "code"
    RetryFreshWriter = FALSE
INIT Init
NEXT Next
VIEW core
INVARIANTS RegionSetIsUnion FetchedSizeIsDistinctBytes FetchedSizeLeSize CacheExact CacheIsCommitted KeysAligned FlightsHaveLeader
PROPERTIES ReadExact ErrOrExact FetchedSizeMonotone HonestSucceeds
CHECK_DEADLOCK FALSE

----------------------------- MODULE WriterGen -----------------------------
(* Generation for C03: TLC prints every enumerated (input tar, mode,       *)
(* workers); the check multiplies them with compression schemes and        *)
(* min-chunk-size values and the Go driver runs the real builder on each.  *)
EXTENDS Writer, Json
GenInit == Init
GenNext ==
    /\ GenNextW
    /\ (phase' = "done") => PrintT("VCASE " \o ToJson([input |-> input', mode |-> opt'.mode, workers |-> opt'.workers]))
=============================================================================

CONSTANTS
    HNames = {""}
    HKinds = {"dir"}
    HLinks = {""}
    MaxEntries = 0
    FocusMax = 0
    NumVals = {"0"}
    ChainBound = 6
SPECIFICATION TraceSpec
INVARIANT Done
CHECK_DEADLOCK FALSE

CONSTANTS
    Scenarios = {}
    StrictFilter = TRUE
    CloseOnFailure = TRUE
    HonourNoPrefetch = TRUE
    CapAtBlobSize = TRUE
    BgAllFiles = TRUE
    WaitHonoursTimeout = TRUE
    ThresholdOnEffective = TRUE
    FailOnCacheError = TRUE
    AllowReg = TRUE
SPECIFICATION TraceSpec
CONSTRAINT HighWater
INVARIANTS AfterPrefetchPrioritizedReadsAreLocal NoPrefetchLandmarkNoTraffic ConfiguredSizeCapped PrefetchTrafficConfined AfterBackgroundFetchOfflineReadable SuccessMeansCached WaiterClosedAtEnd WaitNilOnlyIfEndedOrAsync WaitResult
POSTCONDITION TraceAccepted
CHECK_DEADLOCK FALSE

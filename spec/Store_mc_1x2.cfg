\* exhaustive: 1 image x 2 layers, manager level, registry failures, counts up to MaxCnt, any digest
CONSTANTS
    Images <- Img1x2
    Fuse = FALSE
    Kinds = {"diff"}
    Errors = TRUE
    AllTargets = TRUE
    MaxCnt = 2
    MaxNeg = 1
    DeleteInnerCounter = TRUE
    ForgetMemoOfReleased = TRUE
    ResetMemoAtLastRelease = TRUE
    DropOnlyAtZero = TRUE
    DoneDuplicate = TRUE
    ResolveDetached = TRUE
    Cancels = TRUE
INIT Init
NEXT Next
VIEW core
INVARIANTS CountNonNegative HeldWhileCached HandlesMatchLayers TypeOK OnlyOwnCached MemoOkMeansCached TrackedPositive NoCancelRemembered
PROPERTIES NeverDoneWhileUsed UnknownDigestFails LookupSucceedsIffTocInImage SuccessMeansCached LastReleaseDropsBookkeeping NextLookupResolvesAgain
CHECK_DEADLOCK FALSE

CONSTANTS
    Mirrors = {"m1", "m2", "m3"}
    MaxMirrors = 3
    HeaderPerEntry = TRUE
SPECIFICATION TraceSpec
CONSTRAINT HighWater
INVARIANTS HostHeadersOwn ListShape
PROPERTIES SentHeadersOwn
POSTCONDITION TraceAccepted
CHECK_DEADLOCK FALSE

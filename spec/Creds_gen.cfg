CONSTANTS
    Images = {"reg.example.com/app:1", "reg.example.com/app:2"}
    Hosts = {"reg.example.com", "docker.io", "registry-1.docker.io", "mirror.example.com"}
    Forms = {"up", "up@reg", "tok@dio", "b64@reg", "nil"}
    Chains = {"cri", "cri+static", "static+cri"}
    MaxPulls = 2
    ExactRefKey = TRUE
    ServerCheck = TRUE
    DeleteOnRemove = TRUE
    FirstWins = TRUE
INIT GenInit
NEXT GenNext
VIEW core
CHECK_DEADLOCK FALSE

-------------------------- MODULE SnapshotterGen --------------------------
(* Generation: TLC prints every transition of the state graph as JSON.     *)
(* tools/vlib.py turns the edge list into walks covering every edge; the   *)
(* Go driver (harness/snapshot/verif_snapshotter_test.go) replays them on  *)
(* a real snapshot.NewSnapshotter with a recording, really mounting        *)
(* backend.  Also used with `-simulate' to sample deeper behaviours.       *)
EXTENDS Snapshotter, Json

CoreRec  == [meta |-> meta,  seq |-> seq,  dirs |-> dirs,  tmps |-> tmps,  mounts |-> mounts,  stale |-> stale,
             up |-> up,  bsurv |-> bsurv,  op |-> op,  nops |-> nops,  nrs |-> nrs]
CoreRecP == [meta |-> meta', seq |-> seq', dirs |-> dirs', tmps |-> tmps', mounts |-> mounts', stale |-> stale',
             up |-> up', bsurv |-> bsurv', op |-> op', nops |-> nops', nrs |-> nrs']

GenInit == Init /\ PrintT("VINIT " \o ToJson(CoreRec))
GenNext == Next /\ PrintT("VEDGE " \o ToJson([from |-> CoreRec, last |-> last', to |-> CoreRecP]))
=============================================================================

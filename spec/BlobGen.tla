------------------------------ MODULE BlobGen ------------------------------
(* Generation config: TLC prints every transition of the sequential state  *)
(* graph; tools/props/C06.py turns the edge list into walks covering every *)
(* edge, the Go driver replays each walk on a real blob (Call = the call,  *)
(* Fetch.pers = the server's script, ReceiveChunk/commitfail = a failing   *)
(* cache commit, CacheLoss = the cache drops the chunk).                   *)
(* A node is identified by two 32-bit fingerprints of the core state.      *)
EXTENDS Blob, Json, TLCExt

Node  == <<TLCFP(core), TLCFP(<<"n", core>>)>>
NodeP == <<TLCFP(core'), TLCFP(<<"n", core'>>)>>

GenInit == Init /\ PrintT("VINIT " \o ToJson(Node))
GenNext == Next /\ PrintT("VEDGE " \o ToJson([from |-> Node, to |-> NodeP,
                                               last |-> [a |-> last', size |-> size, chunk |-> chunk]]))
=============================================================================

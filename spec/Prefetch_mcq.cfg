\* exhaustive (quick tier and negative controls): 8 abstract scenarios, 1 Prefetch caller, 2 waiters, 1 BackgroundFetch caller
CONSTANTS
    Scenarios <- ScenQuick
    StrictFilter = TRUE
    CloseOnFailure = TRUE
    HonourNoPrefetch = TRUE
    CapAtBlobSize = TRUE
    BgAllFiles = TRUE
    WaitHonoursTimeout = TRUE
    ThresholdOnEffective = TRUE
    FailOnCacheError = TRUE
    AllowReg = TRUE
INIT Init
NEXT Next
VIEW core
INVARIANTS AfterPrefetchPrioritizedReadsAreLocal NoPrefetchLandmarkNoTraffic ConfiguredSizeCapped PrefetchTrafficConfined AfterBackgroundFetchOfflineReadable SuccessMeansCached WaiterClosedAtEnd WaitNilOnlyIfEndedOrAsync WaitResult WaitNeverStuck TypeOK OnceRunsOnce
CHECK_DEADLOCK FALSE

\* generation: 1 name, 2 holders, 2 Resolve calls, 1 fault
CONSTANTS
    Names = {"a"}
    NH = 2
    MaxR = 2
    MaxFault = 1
    MaxBreak = 1
    TrackFiles = FALSE
    Extras = FALSE
    SymBreak = TRUE
    ResolveLock = TRUE
    CloseWaitsForHolders = TRUE
    LayerKeepsBlobRef = TRUE
    CleanupOnFailure = TRUE
    IdentityEvict = TRUE
    CloseReleasesBlob = TRUE
    CloseFiles = TRUE
    StampOnlyOnSuccess = TRUE
    BlobReleasedOnCloseError = TRUE
INIT GenInit
NEXT GenNext
VIEW core
CHECK_DEADLOCK FALSE

--------------------------- MODULE ChunkCacheGen ---------------------------
(* Generation config for ChunkCache: every transition printed as JSON.     *)
EXTENDS ChunkCache, Json
CoreRec  == [W |-> W,  B |-> B,  dmap |-> dmap,  dlru |-> dlru,  I |-> I,  path |-> path,
             F |-> F,  fmap |-> fmap,  flru |-> flru,  R |-> R, shut |-> shut]
CoreRecP == [W |-> W', B |-> B', dmap |-> dmap', dlru |-> dlru', I |-> I', path |-> path',
             F |-> F', fmap |-> fmap', flru |-> flru', R |-> R', shut |-> shut']
GenInit == Init /\ PrintT("VINIT " \o ToJson(CoreRec))
GenNext == Next /\ PrintT("VEDGE " \o ToJson([from |-> CoreRec, last |-> last', to |-> CoreRecP]))
=============================================================================

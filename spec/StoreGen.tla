----------------------------- MODULE StoreGen -----------------------------
(* Generation: TLC prints every transition of a (small) Store state graph  *)
(* as JSON; tools/vlib.py turns the edge list into walks covering every    *)
(* edge, which the Go driver executes call by call against the real        *)
(* LayerManager / FUSE handlers. The registry failures of a Lookup are an  *)
(* argument of the action and are imposed on the fake registry.            *)
EXTENDS Store, Json

CoreRec  == [layer |-> layer,  cnt |-> cnt,  memo |-> memo,  out |-> out,  pool |-> pool,  rc |-> rc,  kids |-> kids]
CoreRecP == [layer |-> layer', cnt |-> cnt', memo |-> memo', out |-> out', pool |-> pool', rc |-> rc', kids |-> kids']

GenInit == Init /\ PrintT("VINIT " \o ToJson(CoreRec))
GenNext == Next /\ PrintT("VEDGE " \o ToJson([from |-> CoreRec, last |-> last', to |-> CoreRecP]))
=============================================================================

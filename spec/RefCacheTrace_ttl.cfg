CONSTANTS
    Keys = {"k1", "k2", "k3"}
    Kind = "ttl"
    Cap = 0
    MaxV = 1000000
    MaxH = 1000000
    OnceGuards = TRUE
    IdentityCheck = TRUE
    CallbackAtZero = TRUE
SPECIFICATION TraceSpec
CONSTRAINT HighWater
INVARIANTS AtMostOnce NotWhileHeld NoLeak KeyOfLive
POSTCONDITION TraceAccepted
CHECK_DEADLOCK FALSE

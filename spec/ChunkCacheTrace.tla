-------------------------- MODULE ChunkCacheTrace --------------------------
(* Trace validation for ChunkCache: events recorded while the Go driver    *)
(* steps the real directoryCache through TLC-generated walks (persistence  *)
(* goroutines are held at the verifhook gates, so each event is one spec   *)
(* action). Fields: ev + the action's arguments; hit (Get); res [val,n,err]*)
(* (ReadAt); files: key -> <<exists, val, n>> = content of the final file  *)
(* of each key after the step.                                             *)
(* The buffer a writer gets from sync.Pool is not observable: AddOpen      *)
(* leaves that choice to TLC.                                              *)
EXTENDS ChunkCache, Json

VARIABLE l
tvars == <<vars, l>>
TraceLog == ndJsonDeserialize("trace.ndjson")
Ev == TraceLog[l]
IsEvent(e) == l <= Len(TraceLog) /\ Ev.ev = e /\ "apierr" \notin DOMAIN Ev /\ l' = l + 1

FilesOK ==
    \A k \in Keys :
        IF path'[k] = None THEN Ev.files[k][1] = 0
        ELSE /\ Ev.files[k][1] = 1
             /\ Ev.files[k][3] = I'[path'[k]].n
             /\ (I'[path'[k]].n > 0 => Ev.files[k][2] = I'[path'[k]].val)

TraceInit == Init /\ l = 1 /\ TLCSet(1, 0)

TraceReset ==
    /\ IsEvent("Reset")
    /\ W' = [w \in Writers |-> [key |-> "", len |-> 0, written |-> 0, st |-> "none", buf |-> None,
                                wip |-> None, cached |-> None, direct |-> FALSE]]
    /\ B' = <<>> /\ I' = <<>> /\ F' = <<>>
    /\ dmap' = [k \in Keys |-> None] /\ dlru' = <<>>
    /\ path' = [k \in Keys |-> None]
    /\ fmap' = [k \in Keys |-> None] /\ flru' = <<>>
    /\ R' = [r \in Readers |-> [key |-> "", src |-> "none", ref |-> None]]
    /\ shut' = FALSE
    /\ last' = [act |-> "Init"]

TraceAddOpen == IsEvent("AddOpen") /\ AddOpen(Ev.w, Ev.k, Ev.len, Ev.direct) /\ FilesOK
TraceWrite == IsEvent("Write") /\ Write(Ev.w) /\ FilesOK
TraceCommitPublish == IsEvent("CommitPublish") /\ CommitPublish(Ev.w) /\ FilesOK
TracePersistWrite == IsEvent("PersistWrite") /\ PersistWrite(Ev.w) /\ FilesOK
TracePersistRename == IsEvent("PersistRename") /\ PersistRename(Ev.w) /\ FilesOK
TraceCommitDirect == IsEvent("CommitDirect") /\ CommitDirect(Ev.w) /\ FilesOK
TraceAbort == IsEvent("Abort") /\ Abort(Ev.w) /\ FilesOK
TraceGet == IsEvent("Get") /\ Get(Ev.r, Ev.k, Ev.direct) /\ last'.hit = Ev.hit /\ FilesOK
TraceReadAt ==
    /\ IsEvent("ReadAt") /\ ReadAt(Ev.r)
    /\ last'.res.err = Ev.res.err
    /\ (~Ev.res.err => /\ last'.res.n = Ev.res.n
                       /\ (Ev.res.n > 0 => last'.res.val = Ev.res.val))
    /\ FilesOK
TraceCloseReader == IsEvent("CloseReader") /\ CloseReader(Ev.r) /\ FilesOK
TraceCloseCache == IsEvent("CloseCache") /\ CloseCache /\ FilesOK

TraceNext ==
    \/ TraceReset \/ TraceAddOpen \/ TraceWrite \/ TraceCommitPublish \/ TracePersistWrite
    \/ TracePersistRename \/ TraceCommitDirect \/ TraceAbort \/ TraceGet \/ TraceReadAt \/ TraceCloseReader \/ TraceCloseCache

TraceSpec == TraceInit /\ [][TraceNext]_tvars

HighWater == IF l - 1 > TLCGet(1) THEN TLCSet(1, l - 1) ELSE TRUE
TraceAccepted ==
    IF TLCGet(1) = Len(TraceLog) THEN TRUE
    ELSE /\ PrintT("VREJECT " \o ToString(TLCGet(1)) \o " " \o ToString(Len(TraceLog)))
         /\ FALSE
=============================================================================

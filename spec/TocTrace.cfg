CONSTANTS
    EPaths = {"/"}
    ETypes = {"dir"}
    MaxEntries = 0
    FocusMax = 0
    Sizes = {0}
    Lays = {"one"}
    Digs = {"both"}
    Attrs = {"z"}
    Spells = {"plain"}
    WsSet = {0}
    AllowDupDir = TRUE
    AllowUnsorted = TRUE
    AllowLinkFirst = TRUE
    DupDirCountsTwice = FALSE
    LastChunkToEnd = TRUE
SPECIFICATION TraceSpec
INVARIANT Done
CHECK_DEADLOCK FALSE

\* numbers, digests and spellings: one deviating entry plus at most one default entry
CONSTANTS
    HNames = {"", ".", "a", "a/", "a/b", "../a"}
    HKinds = {"dir", "reg", "chunk", "hardlink", "char", "block"}
    HLinks = {"a", "../a", "."}
    MaxEntries = 2
    FocusMax = 1
    NumVals = {"m1", "0", "1", "S", "big"}
    ChainBound = 4
INIT GenInit
NEXT GenNext
INVARIANTS DirectLinkResolves ResolvedIsSource SelfLinkRejected TwoCycleRejected PlainAccepted
CHECK_DEADLOCK FALSE

------------------------------ MODULE FooterGen ------------------------------
EXTENDS Footer, Json
GenInit == Init /\ PrintT("VFOOT " \o ToJson([c EXCEPT !.kind = c.kind] @@ [valid |-> Valid(c), short |-> TooShort(c), ovf |-> Overflowing(c)]))
=============================================================================

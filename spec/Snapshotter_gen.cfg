\* generation (edge cover): small constants, ascending reclaim order
CONSTANTS
    Keys = {"k1", "k2"}
    CNames = {"c1", "c2"}
    MaxId = 2
    MaxOps = 2
    MaxRestarts = 1
    Async = FALSE
    AnyOrder = FALSE
    UnmountFaults = TRUE
    InitCommitted = FALSE
    SurviveModes = {TRUE, FALSE}
    LabelOnlyIfMounted = TRUE
    CheckWholeChain = TRUE
    UnmountFirst = TRUE
    NearestFirst = TRUE
    RestoreMkdir = TRUE
    RestoreStoredLabels = TRUE
    HonourAllowInvalid = TRUE
    RenameBeforeCommit = TRUE
    CleanupScansTemps = TRUE
    RestoreMkdirOnlyIfParentMissing = FALSE
INIT GenInit
NEXT GenNext
VIEW core
CHECK_DEADLOCK FALSE

\* exhaustive: every manifest of 0..MaxLayers entries (digests canonical, url lists from UrlLists, any isLayer),
\* both flavours, every layer child, at most MaxTamper tamper steps, every reader
CONSTANTS
    MaxSize = 4096
    Family = "full"
    MaxLayers = 3
    MaxD = 3
    LongNs = {}
    RefPfs = {12}
    Flavours = {"default", "extra"}
    Readers = {"default", "cri", "chain"}
    MatchedOnly = FALSE
    MaxTamper = 0
    NVariants = 4
    Emit = FALSE
    ValidateLayers = TRUE
    ValidateUrls = TRUE
    CountSeparator = TRUE
    WriteEmptyUrlLabels = TRUE
    ExtraStripsPreset = TRUE
    WholeDigests = TRUE
    UrlIdx = "layer"
    ReaderChecksRef = TRUE
    ReaderChecksDigest = TRUE
    StopAtFirstMisfit = TRUE
    ReaderPure = TRUE
    ReaderResetsUrls = TRUE
    ReaderSkipsTarget = TRUE
SPECIFICATION Spec
INVARIANTS AllLabelsValid RoundTrip NeighbourUrlsPositional PrefetchSizeRoundTrips UrlsOwnOrNone ReaderLeavesLabels RoundTripSecondRead MalformedMandatoryRejected TamperLogExplains ExtraKeepsPreset
CHECK_DEADLOCK FALSE

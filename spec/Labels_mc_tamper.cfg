\* tamper family: two fixed manifests (2 and 3 layers, one repeated digest), every set of at most MaxTamper labels
\* removed / emptied / corrupted (4 spellings per corruption), every reader
CONSTANTS
    MaxSize = 4096
    Family = "tamper"
    MaxLayers = 0
    MaxD = 0
    LongNs = {}
    RefPfs = {12, 23}
    Flavours = {"default", "extra"}
    Readers = {"default", "cri", "chain"}
    MatchedOnly = FALSE
    MaxTamper = 2
    NVariants = 4
    Emit = FALSE
    ValidateLayers = TRUE
    ValidateUrls = TRUE
    CountSeparator = TRUE
    WriteEmptyUrlLabels = TRUE
    ExtraStripsPreset = TRUE
    WholeDigests = TRUE
    UrlIdx = "layer"
    ReaderChecksRef = TRUE
    ReaderChecksDigest = TRUE
    StopAtFirstMisfit = TRUE
    ReaderPure = TRUE
    ReaderResetsUrls = TRUE
    ReaderSkipsTarget = TRUE
SPECIFICATION Spec
INVARIANTS AllLabelsValid RoundTrip NeighbourUrlsPositional PrefetchSizeRoundTrips UrlsOwnOrNone ReaderLeavesLabels RoundTripSecondRead MalformedMandatoryRejected TamperLogExplains ExtraKeepsPreset
CHECK_DEADLOCK FALSE

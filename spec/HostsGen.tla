------------------------------ MODULE HostsGen ------------------------------
(* Generation: every transition of the state graph of Hosts as JSON (sets  *)
(* are printed as sequences by ToJson).                                    *)
EXTENDS Hosts, Json

CoreRec  == [cfg |-> cfg,  out |-> out,  phase |-> phase,  up |-> up,  k |-> k,  step |-> step]
CoreRecP == [cfg |-> cfg', out |-> out', phase |-> phase', up |-> up', k |-> k', step |-> step']

GenInit == Init /\ PrintT("VINIT " \o ToJson(CoreRec))
GenNext == Next /\ PrintT("VEDGE " \o ToJson([from |-> CoreRec, last |-> last', to |-> CoreRecP]))
=============================================================================

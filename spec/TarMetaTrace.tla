---------------------------- MODULE TarMetaTrace ---------------------------
(* Trace validation for TarMeta: events recorded while the Go driver steps *)
(* the node layer of a really built and served layer through TLC-generated *)
(* walks (nodes are kept per path, as the kernel keeps inodes, so the      *)
(* memoised listing of a directory survives between calls).                *)
(*   Reset    tar (the entries the archive was written from)               *)
(*   Lookup   dir, name, res [errno, attr]      Readdir dir, res [errno, ents]*)
(*   Getattr  path, res [errno, attr]           Readlink path, res [errno, target]*)
(*   Getxattr path, key, res [errno, val]                                  *)
(* attr = [ino, mode, size, nlink, uid, gid, rdev (hex), major, minor (as   *)
(* unix.Major/unix.Minor decode rdev), mtime].                             *)
EXTENDS TarMeta, Json

VARIABLE l
tvars == <<vars, l>>
TraceLog == ndJsonDeserialize("trace.ndjson")
Ev == TraceLog[l]
IsEvent(e) == l <= Len(TraceLog) /\ Ev.ev = e /\ l' = l + 1

\* the code model predicts the served attributes (times of implicit parents are not predicted)
AttrMatches(c, a, p) ==
    /\ c.mode = a.mode /\ c.size = a.size /\ c.uid = a.uid /\ c.gid = a.gid
    /\ c.major = a.major /\ c.minor = a.minor
    /\ c.nlink = a.nlink
    /\ (CodeIdx(CodeSource(p, 6)) # 0 => c.mtime = a.mtime)

TraceInit == T = <<>> /\ P = {<<>>} /\ memo = {} /\ last = [act |-> "Init"] /\ l = 1 /\ TLCSet(1, 0)
TraceReset == IsEvent("Reset") /\ T' = Ev.tar /\ P' = PathsOf(Ev.tar) /\ memo' = {} /\ last' = [act |-> "Init"]
TraceLookup ==
    /\ IsEvent("Lookup") /\ Lookup(Ev.dir, Ev.name)
    /\ last'.errno = Ev.res.errno
    /\ (Ev.res.errno = 0 => AttrMatches(last'.attr, Ev.res.attr, Ev.dir \o <<Ev.name>>))
TraceReaddir ==
    /\ IsEvent("Readdir") /\ Readdir(Ev.dir)
    /\ Ev.res.errno = 0
    /\ {<<e[1], e[2]>> : e \in Range(Ev.res.ents)} = last'.ents
    /\ Len(Ev.res.ents) = last'.n
TraceGetattr ==
    /\ IsEvent("Getattr") /\ Getattr(Ev.path)
    /\ Ev.res.errno = 0 /\ AttrMatches(last'.attr, Ev.res.attr, Ev.path)
TraceReadlink == IsEvent("Readlink") /\ Readlink(Ev.path) /\ Ev.res.errno = 0 /\ Ev.res.target = last'.target
TraceGetxattr ==
    /\ IsEvent("Getxattr") /\ Getxattr(Ev.path, Ev.key)
    /\ Ev.res.errno = last'.errno /\ (last'.errno = 0 => Ev.res.val = last'.val)

TraceNext == TraceReset \/ TraceLookup \/ TraceReaddir \/ TraceGetattr \/ TraceReadlink \/ TraceGetxattr
TraceSpec == TraceInit /\ [][TraceNext]_tvars

HighWater == IF l - 1 > TLCGet(1) THEN TLCSet(1, l - 1) ELSE TRUE
TraceAccepted ==
    IF TLCGet(1) = Len(TraceLog) THEN TRUE
    ELSE /\ PrintT("VREJECT " \o ToString(TLCGet(1)) \o " " \o ToString(Len(TraceLog)))
         /\ FALSE
=============================================================================

CONSTANTS
    Keys = {"aa1", "bb2"}
    NW = 2
    NR = 1
    Lens = {2}
    DataCap = 1
    FdCap = 1
    MaxB = 2
    DirectMode = FALSE
    HoldWhileShared = TRUE
    RenameAfterWrite = TRUE
    ReadersHold = TRUE
INIT GenInit
NEXT GenNext
VIEW core
CHECK_DEADLOCK FALSE

------------------------------- MODULE Blob -------------------------------
(***************************************************************************)
(* fs/remote/blob.go + the reply handling of fs/remote/resolver.go         *)
(* (httpFetcher.fetch) - property C06.                                     *)
(*                                                                         *)
(* Blob byte i is identified with its POSITION i (0-based), so a buffer is *)
(* a sequence of positions; -1 is "garbage" (whatever the caller's buffer  *)
(* held before the call).                                                  *)
(*                                                                         *)
(* One action per critical section / linearization point of the code:      *)
(*   Call           ReadAt / Cache entered (args fixed); ReadAt's early    *)
(*                  return for len(p)=0 or offset > size                   *)
(*   Prepare        prepareChunksForRead / cacheAt: walkChunks over the    *)
(*                  chunk-aligned region, cache probe per chunk, copy on   *)
(*                  hit, bytesWriter (base/lowerUnread/upperUnread) on miss*)
(*   JoinOrLead     fetchedRegionGroup.Do(makeSyncKey(allData)): first     *)
(*                  caller of a key leads, later ones wait for its result  *)
(*   Fetch          httpFetcher.fetch: ranges squashed with regionSet.add, *)
(*                  super region in single-range mode; the server's        *)
(*                  personality is an argument; 400 -> single-range mode   *)
(*                  and one retry, 403 -> refreshURL and one retry         *)
(*   ReceiveChunk   fetchRegions loop body -> walkChunks(reply region) ->  *)
(*                  cacheChunkData: io.CopyN into MultiWriter(cache writer,*)
(*                  bytesWriter), Commit, fetchedRegionSet.add,            *)
(*                  fetched[chunk]=true. The split of the chunk's bytes    *)
(*                  into Write calls (seg) and a failing Commit (cok) are  *)
(*                  arguments                                              *)
(*   AllSeenOrFail  "Check all chunks are fetched"                         *)
(*   LeaderDone     singleflight: result published, key deleted, waiters   *)
(*                  released with shared=true                              *)
(*   SharedCopy     handleSharedFetch/copyFetchedChunks for one region     *)
(*                  (cache.Get + CopyN under fetchedRegionCopyMu); a miss  *)
(*                  is SharedRetry = fetchRange again WITH THE SAME        *)
(*                  bytesWriters                                           *)
(*   Finish         adjustBufferSize, return                               *)
(*   CacheLoss      the cache forgets a chunk (eviction, failed async      *)
(*                  persist)                                               *)
(* Deliberate deviations from the code are marked DEVIATION.               *)
(***************************************************************************)
EXTENDS RegionSet, TLC

CONSTANTS
    Sizes,          \* set of blob sizes tried (Init picks one)
    Chunks,         \* set of chunk sizes tried
    Readers,        \* set of caller ids (strings)
    Ops,            \* subset of {"read", "cache"}
    Pers,           \* server personalities that may be scripted
    MaxLen,         \* ReadAt/Cache length 0..MaxLen (offset 0..size+1)
    MaxOps,         \* bound: calls per behaviour
    MaxReq,         \* bound: HTTP range requests per behaviour (script length)
    MaxLoss,        \* bound: cache losses per behaviour
    MaxCFail,       \* bound: failing cache commits per behaviour
    MaxInflight,    \* bound: calls in flight at once (1 = sequential)
    LossMidCall,    \* TRUE: the cache may lose a chunk while calls are in flight (FALSE only in the sequential generation
                    \* config: the replay driver cannot place a loss inside a lone call, and there it is equivalent to one before/after)
    Segment,        \* TRUE: explore every split of a chunk's bytes into Write calls
    AllSeenCheck,   \* TRUE = "all requested chunks must be seen or the read fails" (as in the code)
    AlignCheck,     \* TRUE = walkChunks rejects a region not starting at a chunk boundary (as in the code)
    WriterVariant,  \* "code" | "pend1" (off-by-one in bytesWriter.Write) | "lower1" (off-by-one in lowerUnread)
    RetryFreshWriter\* FALSE = shared retry reuses the bytesWriters (as in the code)

VARIABLES
    size, chunk,    \* fixed by Init
    cache,          \* chunk key <<b,e>> -> Seq(position): what cache.Get(genID(chunk)) yields
    regions,        \* fetchedRegionSet.rs
    committed,      \* history: positions ever committed to the cache
    single,         \* httpFetcher.singleRange
    flights,        \* fetchedRegionGroup: key (set of chunk keys) -> [leader, dups]
    rd,             \* per caller: the frame of its ReadAt / Cache
    cnt,            \* [ops, req, loss, cfail] budgets used
    last            \* observation: the step just taken

core == <<size, chunk, cache, regions, committed, single, flights, rd, cnt>>
vars == <<size, chunk, cache, regions, committed, single, flights, rd, cnt, last>>

Garbage == -1
Pos(n) == IF n < 0 THEN 0 ELSE n
Min(a, b) == IF a < b THEN a ELSE b
Max(a, b) == IF a > b THEN a ELSE b
\* floor / ceil of blob.go (arguments are never negative here: TLA+ \div floors, Go truncates)
Floor(n, u) == (n \div u) * u
Ceil(n, u) == (n \div u + 1) * u
Iota(b, e) == [i \in 1..(e - b + 1) |-> b + i - 1]          \* positions b..e as a sequence
Key(r) == <<r.b, r.e>>
KReg(k) == Reg(k[1], k[2])
KSize(k) == k[2] - k[1] + 1
DropFirst(s, n) == SubSeq(s, n + 1, Len(s))

\* sort a set of chunk keys by begin
RECURSIVE SortKeys(_)
SortKeys(S) == IF S = {} THEN <<>>
               ELSE LET m == CHOOSE k \in S : \A o \in S : k[1] <= o[1]
                    IN <<m>> \o SortKeys(S \ {m})
SeqMap(s, Op(_)) == [i \in 1..Len(s) |-> Op(s[i])]
Reverse(s) == [i \in 1..Len(s) |-> s[Len(s) + 1 - i]]

\* walkChunks(reg): chunk keys visited, in order (alignment is checked by the caller of this operator)
WalkKeys(reg) ==
    LET starts == {i \in reg.b..reg.e : i < size /\ (i - reg.b) % chunk = 0}
    IN SortKeys({<<i, Min(i + chunk - 1, size - 1)>> : i \in starts})
Aligned(reg) == reg.b % chunk = 0

\* all ways to cut n bytes into consecutive Write calls
RECURSIVE Segs(_)
Segs(n) == IF n = 0 THEN {<<>>} ELSE UNION {{<<k>> \o s : s \in Segs(n - k)} : k \in 1..n}

----------------------------------------------------------------------------
(* bytesWriter                                                              *)

\* newBytesWriter(p[base:base+dlen], doff)
NewWriter(base, dlen, doff) == [base |-> base, dlen |-> dlen, doff |-> doff, cur |-> 0]

\* bytesWriter.Write(p): returns the writer and the caller's buffer afterwards
WWrite(wr, buf, p) ==
    LET destBase == Pos(wr.cur - wr.doff)
        pBegin   == Pos(wr.doff - wr.cur)
        pEnd0    == Pos(wr.doff + wr.dlen - wr.cur - (IF WriterVariant = "pend1" THEN 1 ELSE 0))
        pEnd     == Min(pEnd0, Len(p))
        skip     == destBase > wr.dlen \/ pBegin >= Len(p)
        ncopy    == Min(wr.dlen - destBase, pEnd - pBegin)           \* copy(dest[destBase:], p[pBegin:pEnd])
        lo       == wr.base + destBase
    IN [w   |-> [wr EXCEPT !.cur = @ + Len(p)],
        buf |-> IF skip \/ ncopy <= 0 THEN buf
                ELSE [i \in 1..Len(buf) |-> IF i > lo /\ i <= lo + ncopy THEN p[pBegin + (i - lo)] ELSE buf[i]]]

\* a chunk's bytes written in the pieces given by seg
RECURSIVE WWriteSeg(_, _, _, _)
WWriteSeg(wr, buf, p, seg) ==
    IF seg = <<>> THEN [w |-> wr, buf |-> buf]
    ELSE LET one == WWrite(wr, buf, SubSeq(p, 1, Head(seg)))
         IN WWriteSeg(one.w, one.buf, DropFirst(p, Head(seg)), Tail(seg))

----------------------------------------------------------------------------
Idle == [pc |-> "idle", op |-> "none", off |-> 0, len |-> 0, buf |-> <<>>, need |-> {}, w |-> <<>>,
         fetched |-> <<>>, copied |-> {}, retry |-> FALSE, parts |-> <<>>, err |-> "", role |-> "none"]

Init ==
    /\ size \in Sizes /\ chunk \in Chunks
    /\ cache = <<>> /\ regions = <<>> /\ committed = {} /\ single = FALSE
    /\ flights = <<>>
    /\ rd = [r \in Readers |-> Idle]
    /\ cnt = [ops |-> 0, req |-> 0, loss |-> 0, cfail |-> 0]
    /\ last = [act |-> "Init"]

InFlight == {r \in Readers : rd[r].pc # "idle"}

\* adjustBufferSize
Adjust(off, len) == IF len >= size - off THEN Pos(size - off) ELSE len

\* ReadAt / Cache entered
Call(r, op, off, len) ==
    /\ rd[r].pc = "idle"
    /\ cnt.ops < MaxOps
    /\ Cardinality(InFlight) < MaxInflight
    /\ op \in Ops
    /\ off \in 0..(size + 1) /\ len \in 0..MaxLen
    /\ op = "cache" => len >= 1                       \* DEVIATION: Cache(_, 0) is not modelled (Go's -1/unit truncates)
    /\ cnt' = [cnt EXCEPT !.ops = @ + 1]
    /\ LET early == op = "read" /\ (len = 0 \/ off > size)
       IN rd' = [rd EXCEPT ![r] = [Idle EXCEPT !.pc = IF early THEN "finish" ELSE "prep", !.op = op, !.off = off,
                                                !.len = len,
                                                !.buf = IF op = "read" THEN [i \in 1..len |-> Garbage] ELSE <<>>]]
    /\ UNCHANGED <<size, chunk, cache, regions, committed, single, flights>>
    /\ last' = [act |-> "Call", r |-> r, op |-> op, off |-> off, len |-> len]

\* the chunk-aligned region of a call: region{floor(offset), ceil(offset+len-1)-1}
AllRegion(off, len) == Reg(Floor(off, chunk), Ceil(off + len - 1, chunk) - 1)

\* per chunk arithmetic of prepareChunksForRead
ChunkPlan(k, off, len) ==
    LET lower0 == Pos(off - k[1])
        lower  == IF WriterVariant = "lower1" /\ lower0 > 0 THEN lower0 - 1 ELSE lower0
        upper  == Pos(k[2] + 1 - (off + len))
    IN [base |-> Pos(k[1] - off), lower |-> lower, upper |-> upper, exp |-> KSize(k) - upper - lower]

CacheHit(k, pl) == k \in DOMAIN cache /\ Len(cache[k]) >= pl.lower + pl.exp

Prepare(r) ==
    /\ rd[r].pc = "prep"
    /\ LET f    == rd[r]
           keys == WalkKeys(AllRegion(f.off, f.len))
           ks   == {keys[i] : i \in 1..Len(keys)}
           plan == [k \in ks |-> IF f.op = "read" THEN ChunkPlan(k, f.off, f.len)
                                 ELSE [base |-> 0, lower |-> 0, upper |-> 0, exp |-> 0]]   \* cacheAt: io.Discard
           hits == {k \in ks : CacheHit(k, plan[k])}
           miss == ks \ hits
           \* readFromCache: r.ReadAt(p[base:base+exp], lowerUnread)
           buf1 == [i \in 1..Len(f.buf) |->
                       IF \E k \in hits : i > plan[k].base /\ i <= plan[k].base + plan[k].exp
                       THEN LET k == CHOOSE k \in hits : i > plan[k].base /\ i <= plan[k].base + plan[k].exp
                            IN cache[k][plan[k].lower + (i - plan[k].base)]
                       ELSE f.buf[i]]
       IN rd' = [rd EXCEPT ![r].pc = IF miss = {} THEN "finish" ELSE "join",
                           ![r].buf = buf1,
                           ![r].need = miss,
                           ![r].w = [k \in miss |-> NewWriter(plan[k].base, plan[k].exp, plan[k].lower)]]
    /\ UNCHANGED <<size, chunk, cache, regions, committed, single, flights, cnt>>
    /\ last' = [act |-> "Prepare", r |-> r]

\* fetchedRegionGroup.Do(key, ...)
JoinOrLead(r) ==
    /\ rd[r].pc = "join"
    /\ LET key == rd[r].need IN
       IF key \in DOMAIN flights
       THEN /\ flights' = [flights EXCEPT ![key].dups = @ + 1]
            /\ rd' = [rd EXCEPT ![r].pc = "wait", ![r].role = "follower", ![r].fetched = <<>>, ![r].copied = {}]
       ELSE /\ flights' = flights @@ (key :> [leader |-> r, dups |-> 0])
            /\ rd' = [rd EXCEPT ![r].pc = "fetch", ![r].role = "leader", ![r].retry = TRUE,
                                ![r].fetched = [k \in key |-> FALSE], ![r].copied = {}]
    /\ UNCHANGED <<size, chunk, cache, regions, committed, single, cnt>>
    /\ last' = [act |-> "JoinOrLead", r |-> r, role |-> rd'[r].role]

\* what httpFetcher.fetch asks for: chunks squashed by regionSet.add; one super region in single-range mode
Request(need, sgl) ==
    LET sq == RSAddAll(<<>>, SeqMap(SortKeys(need), KReg))      \* DEVIATION: map iteration order fixed to sorted (RegionSetCheck: the result is order independent)
    IN IF sgl THEN <<SuperRegion(sq)>> ELSE sq

Part(b, e) == [b |-> b, e |-> e, data |-> Iota(b, e)]
\* the server's reply as the list of (Content-Range, body) the multipartReadCloser yields; honest about the bytes
Reply(pers, req) ==
    LET sup == SuperRegion(req) IN
    CASE pers = "multi"    -> SeqMap(req, LAMBDA g : Part(g.b, g.e))                    \* 206 multipart, one part per range
      [] pers = "multirev" -> Reverse(SeqMap(req, LAMBDA g : Part(g.b, g.e)))           \* ... parts in reverse order
      [] pers = "first"    -> <<Part(req[1].b, req[1].e)>>                              \* 206, only the first range
      [] pers = "super"    -> <<Part(sup.b, sup.e)>>                                    \* 206, one range covering all
      [] pers = "whole"    -> <<Part(0, size - 1)>>                                     \* 200, whole body
      [] pers = "short"    -> <<[b |-> sup.b, e |-> sup.e, data |-> Iota(sup.b, sup.e - 1)]>>   \* body one byte short
      [] pers = "half"     -> <<Part(sup.b, sup.b + ((sup.e - sup.b) \div 2))>>              \* 206, honest, but only the lower half of what was asked
      [] pers = "shift"    -> <<Part(sup.b + 1, sup.e)>>                                \* honest bytes of a range that is not chunk aligned
      [] OTHER             -> <<>>

FailLeader(r, why) == rd' = [rd EXCEPT ![r].pc = "leaderdone", ![r].err = why, ![r].parts = <<>>]

Fetch(r, pers) ==
    /\ rd[r].pc = "fetch"
    /\ pers \in Pers
    /\ cnt.req < MaxReq
    /\ LET f   == rd[r]
           req == Request(f.need, single)
       IN
        /\ pers \in {"shift", "half"} => SuperRegion(req).b < SuperRegion(req).e
        /\ pers = "e403f" => f.retry
        /\ cnt' = [cnt EXCEPT !.req = @ + 1]
        /\ CASE pers \in {"multi", "multirev", "first", "super", "whole", "short", "shift", "half"} ->
                    /\ rd' = [rd EXCEPT ![r].pc = "recv", ![r].parts = Reply(pers, req)]
                    /\ UNCHANGED single
             [] pers = "e400" ->                      \* 400: fall back to single-range mode and retry once
                    IF f.retry /\ ~single
                    THEN /\ single' = TRUE
                         /\ rd' = [rd EXCEPT ![r].retry = FALSE]
                    ELSE FailLeader(r, "err") /\ UNCHANGED single
             [] pers = "e403" ->                      \* 403: refreshURL (succeeds) and retry once
                    /\ IF f.retry THEN rd' = [rd EXCEPT ![r].retry = FALSE] ELSE FailLeader(r, "err")
                    /\ UNCHANGED single
             [] pers \in {"e403f", "err"} ->          \* 403 and the refresh fails; transport error / 5xx
                    FailLeader(r, "err") /\ UNCHANGED single
        /\ last' = [act |-> "Fetch", r |-> r, pers |-> pers, req |-> req, single |-> single]
    /\ UNCHANGED <<size, chunk, cache, regions, committed, flights>>

\* one iteration of walkChunks(reply region) inside the fetchRegions loop: cacheChunkData
ReceiveChunk(r, seg, cok) ==
    /\ rd[r].pc = "recv"
    /\ rd[r].parts # <<>>
    /\ LET f == rd[r]
           p == Head(f.parts)
       IN
       IF AlignCheck /\ p.b % chunk # 0
       THEN \* "region must be aligned by chunk size"
            /\ seg = <<>> /\ cok
            /\ FailLeader(r, "err")
            /\ UNCHANGED <<cache, regions, committed, cnt>>
            /\ last' = [act |-> "ReceiveChunk", r |-> r, k |-> <<p.b, p.e>>, res |-> "unaligned"]
       ELSE IF ~(p.b <= p.e /\ p.b < size)
       THEN \* walk of this part is over: mr.Next()
            /\ seg = <<>> /\ cok
            /\ rd' = [rd EXCEPT ![r].parts = Tail(@)]
            /\ UNCHANGED <<cache, regions, committed, cnt>>
            /\ last' = [act |-> "ReceiveChunk", r |-> r, k |-> <<p.b, p.e>>, res |-> "nextpart"]
       ELSE LET k     == <<p.b, Min(p.b + chunk - 1, size - 1)>>
                avail == Min(KSize(k), Len(p.data))
                d     == SubSeq(p.data, 1, avail)
                mine  == k \in DOMAIN f.fetched
                wr    == IF mine THEN WWriteSeg(f.w[k], f.buf, d, seg) ELSE [w |-> <<>>, buf |-> f.buf]
                rest  == [b |-> p.b + chunk, e |-> p.e, data |-> DropFirst(p.data, avail)]
            IN
            /\ seg \in (IF Segment /\ mine THEN Segs(avail) ELSE {IF avail = 0 THEN <<>> ELSE <<avail>>})
            /\ cok \/ (avail = KSize(k) /\ cnt.cfail < MaxCFail)
            /\ IF avail < KSize(k) \/ ~cok
               THEN \* io.CopyN hit EOF (cw.Abort) or Commit failed: fetchRegions returns the error
                    /\ rd' = [rd EXCEPT ![r].pc = "leaderdone", ![r].err = "err", ![r].parts = <<>>,
                                        ![r].buf = wr.buf, ![r].w = IF mine THEN [@ EXCEPT ![k] = wr.w] ELSE @]
                    /\ cnt' = IF cok THEN cnt ELSE [cnt EXCEPT !.cfail = @ + 1]
                    /\ UNCHANGED <<cache, regions, committed>>
               ELSE /\ cache' = [x \in DOMAIN cache \cup {k} |-> IF x = k THEN d ELSE cache[x]]
                    /\ regions' = RSAdd(regions, KReg(k))
                    /\ committed' = committed \cup (k[1]..k[2])
                    /\ rd' = [rd EXCEPT ![r].parts = <<rest>> \o Tail(@),
                                        ![r].buf = wr.buf,
                                        ![r].w = IF mine THEN [@ EXCEPT ![k] = wr.w] ELSE @,
                                        ![r].fetched = IF mine THEN [@ EXCEPT ![k] = TRUE] ELSE @]
                    /\ UNCHANGED cnt
            /\ last' = [act |-> "ReceiveChunk", r |-> r, k |-> k, res |-> IF avail < KSize(k) THEN "short" ELSE IF cok THEN "ok" ELSE "commitfail"]
    /\ UNCHANGED <<size, chunk, single, flights>>

\* "Check all chunks are fetched"
AllSeenOrFail(r) ==
    /\ rd[r].pc = "recv"
    /\ rd[r].parts = <<>>
    /\ LET unf == {k \in DOMAIN rd[r].fetched : ~rd[r].fetched[k]}
       IN rd' = [rd EXCEPT ![r].pc = "leaderdone", ![r].err = IF AllSeenCheck /\ unf # {} THEN "err" ELSE ""]
    /\ UNCHANGED <<size, chunk, cache, regions, committed, single, flights, cnt>>
    /\ last' = [act |-> "AllSeenOrFail", r |-> r, ok |-> rd'[r].err = ""]

\* singleflight: the leader's function returned; waiters of this key get (err, shared=true)
LeaderDone(r) ==
    /\ rd[r].pc = "leaderdone"
    /\ LET key == rd[r].need
           e   == rd[r].err
           fol == {q \in Readers : rd[q].pc = "wait" /\ rd[q].need = key}
       IN
        /\ flights' = [x \in DOMAIN flights \ {key} |-> flights[x]]
        /\ rd' = [q \in Readers |->
                    IF q = r THEN [rd[q] EXCEPT !.pc = "finish"]            \* leader: handleSharedFetch skips everything in `fetched`
                    ELSE IF q \in fol THEN [rd[q] EXCEPT !.pc = IF e = "" THEN "shared" ELSE "finish", !.err = e]
                    ELSE rd[q]]
        /\ last' = [act |-> "LeaderDone", r |-> r, shared |-> fol # {}]
    /\ UNCHANGED <<size, chunk, cache, regions, committed, single, cnt>>

\* handleSharedFetch: one region of allData (map order: any), copyFetchedChunks
SharedCopy(r, k) ==
    /\ rd[r].pc = "shared"
    /\ k \in rd[r].need \ rd[r].copied
    /\ LET f == rd[r] IN
       IF k \in DOMAIN cache /\ Len(cache[k]) >= KSize(k)
       THEN LET wr == WWrite(f.w[k], f.buf, SubSeq(cache[k], 1, KSize(k)))    \* DEVIATION: one Write per chunk here
            IN /\ rd' = [rd EXCEPT ![r].buf = wr.buf, ![r].w = [@ EXCEPT ![k] = wr.w], ![r].copied = @ \cup {k},
                                   ![r].pc = IF f.copied \cup {k} = f.need THEN "finish" ELSE "shared"]
               /\ last' = [act |-> "SharedCopy", r |-> r, k |-> k]
       ELSE \* cache miss after a shared fetch: fetchRange(allData, opts) again
            /\ rd' = [rd EXCEPT ![r].pc = "join",
                                ![r].w = IF RetryFreshWriter THEN [x \in DOMAIN @ |-> [@[x] EXCEPT !.cur = 0]] ELSE @]
            /\ last' = [act |-> "SharedRetry", r |-> r, k |-> k]
    /\ UNCHANGED <<size, chunk, cache, regions, committed, single, flights, cnt>>

Finish(r) ==
    /\ rd[r].pc = "finish"
    /\ LET f == rd[r]
           n == IF f.err # "" \/ f.op # "read" THEN 0 ELSE IF f.len = 0 \/ f.off > size THEN 0 ELSE Adjust(f.off, f.len)
       IN last' = [act |-> "Return", r |-> r, op |-> f.op, off |-> f.off, len |-> f.len, n |-> n, err |-> f.err,
                   buf |-> f.buf, fetched |-> RSTotal(regions), role |-> f.role]
    /\ rd' = [rd EXCEPT ![r] = Idle]
    /\ UNCHANGED <<size, chunk, cache, regions, committed, single, flights, cnt>>

CacheLoss(k) ==
    /\ k \in DOMAIN cache
    /\ cnt.loss < MaxLoss
    /\ LossMidCall \/ InFlight = {}
    /\ cache' = [x \in DOMAIN cache \ {k} |-> cache[x]]
    /\ cnt' = [cnt EXCEPT !.loss = @ + 1]
    /\ UNCHANGED <<size, chunk, regions, committed, single, flights, rd>>
    /\ last' = [act |-> "CacheLoss", k |-> k]

Next ==
    \/ \E r \in Readers, op \in Ops, off \in 0..(size + 1), len \in 0..MaxLen : Call(r, op, off, len)
    \/ \E r \in Readers : Prepare(r)
    \/ \E r \in Readers : JoinOrLead(r)
    \/ \E r \in Readers, p \in Pers : Fetch(r, p)
    \/ \E r \in Readers, seg \in UNION {Segs(n) : n \in 0..chunk}, cok \in BOOLEAN : ReceiveChunk(r, seg, cok)
    \/ \E r \in Readers : AllSeenOrFail(r)
    \/ \E r \in Readers : LeaderDone(r)
    \/ \E r \in Readers : \E k \in rd[r].need : SharedCopy(r, k)
    \/ \E r \in Readers : Finish(r)
    \/ \E k \in DOMAIN cache : CacheLoss(k)

Spec == Init /\ [][Next]_vars

----------------------------------------------------------------------------
(* Property C06. The Return formulas speak about the observation `last`     *)
(* only, so the monitor evaluates the same formulas on recorded results.    *)

WantN(off, len) == Max(0, Min(len, size - off))

\* The Return formulas are ACTION properties over the observation of the step just taken: under VIEW core the state
\* after a Return is identified with states reached otherwise, so a state invariant over `last` would not see it.
\* a read that returned without error returned n = max(0, min(len, size-off)) bytes and byte i is blob position off+i
ReadExactP(L) ==
    (L.act = "Return" /\ L.op = "read" /\ L.err = "")
        => /\ L.n = WantN(L.off, L.len)
           /\ \A i \in 1..L.n : L.buf[i] = L.off + i - 1
ReadExact == [][ReadExactP(last')]_vars
\* ... or it returned an error and no bytes
ErrOrExactP(L) == (L.act = "Return" /\ L.err # "") => L.n = 0
ErrOrExact == [][ErrOrExactP(last')]_vars
\* the region set denotes exactly the positions committed to the cache (transcribed algorithm = set union)
RegionSetIsUnion == RSCovered(regions) = committed /\ RSDisjointSorted(regions)
\* FetchedSize() = number of distinct blob bytes stored locally, never more than the blob
FetchedSizeIsDistinctBytes == RSTotal(regions) = Cardinality(committed)
FetchedSizeLeSize == RSTotal(regions) <= size
FetchedSizeMonotone == [][RSTotal(regions') >= RSTotal(regions)]_vars

(* internal consistency (documents the design; not property formulas)       *)
\* what the cache serves for chunk <<b,e>> is blob[b..e]: later reads are served from it
CacheExact == \A k \in DOMAIN cache : cache[k] = Iota(k[1], k[2])
CacheIsCommitted == \A k \in DOMAIN cache : (k[1]..k[2]) \subseteq committed
KeysAligned == \A k \in DOMAIN cache : k[1] % chunk = 0 /\ k[2] = Min(k[1] + chunk - 1, size - 1)
FlightsHaveLeader == \A key \in DOMAIN flights : rd[flights[key].leader].role = "leader" /\ rd[flights[key].leader].need = key
\* with an honest complete reply and no loss the read succeeds (guards against a vacuous "always error")
HonestSucceeds ==
    [][(last'.act = "Return" /\ last'.err # "") => (cnt.loss + cnt.cfail > 0 \/ Pers \ {"multi", "multirev", "super", "whole"} # {})]_vars
=============================================================================

----------------------------- MODULE VerifyGen -----------------------------
(* Generation config for Verify: every transition printed as JSON.         *)
EXTENDS Verify, Json
CoreRec  == [fscfg |-> fscfg, toc |-> toc, src |-> src, cache |-> cache, pf |-> pf, prohibit |-> prohibit, lastErr |-> lastErr,
             verify |-> verify, lr |-> lr, okArgs |-> okArgs, served |-> served, wk |-> wk, vt |-> vt, rd |-> rd,
             nalter |-> nalter, nverify |-> nverify]
CoreRecP == [fscfg |-> fscfg', toc |-> toc', src |-> src', cache |-> cache', pf |-> pf', prohibit |-> prohibit', lastErr |-> lastErr',
             verify |-> verify', lr |-> lr', okArgs |-> okArgs', served |-> served', wk |-> wk', vt |-> vt', rd |-> rd',
             nalter |-> nalter', nverify |-> nverify']
GenInit == Init /\ PrintT("VINIT " \o ToJson(CoreRec))
GenNext == Next /\ PrintT("VEDGE " \o ToJson([from |-> CoreRec, last |-> last', to |-> CoreRecP]))
=============================================================================

------------------------------ MODULE TarMeta ------------------------------
(* Property C02, metadata half: the tree and the attributes served lazily  *)
(* (Lookup, Readdir, Getattr, Readlink, Getxattr of the node layer) equal  *)
(* what the source tar describes, under any history of such calls.         *)
(*                                                                         *)
(* T is the tar: a sequence of entries                                     *)
(*   [path, type, size, mode, uid, gid, target, link, major, minor,        *)
(*    xattrs, mtime, ...]   path/link = sequences of CLEAN path components *)
(* (the driver writes the names in different spellings: a/b, ./a/b, /a/b,  *)
(* zz/../a/b - the archive describes the same path in every spelling).     *)
(*                                                                         *)
(* Two things are defined and compared:                                    *)
(*  Ref...  what the archive describes (reference semantics: the last      *)
(*          entry of a name wins, missing parents are directories 0755     *)
(*          root:root, a hard link is another name of its target's inode   *)
(*          and counts in its link count, a symlink has the size of its    *)
(*          target string, device numbers only on devices);                *)
(*  Code... what the code computes: estargz.initFields (estargz.go:202-319:*)
(*          r.m[name] = ent for every entry in order, getOrCreateDir,      *)
(*          getSource, NumLink counting), metadata attrFromTOCEntry,       *)
(*          node.go entryToAttr:733-760 / fileModeToSystemMode:839-873,    *)
(*          node.Lookup:282-370 with the memoised listing (entsCached),    *)
(*          node.readdir:188-278, Readlink, Getxattr.                      *)
(* The db store builds the same tree with a different algorithm            *)
(* (db/reader.go initNodes); it is not transcribed - it is bound by trace  *)
(* validation and the monitor like the memory store.                       *)
(* Deliberate deviations: mtime of implicit parents is not compared (a tar *)
(* does not describe it; uid/gid 0 required); the link count of a directory*)
(* is 2 + its sub-directories; whiteouts, opaque directories and the state *)
(* directory belong to C07; outside the input space (TarOK): a hard link   *)
(* whose name is overwritten by a later entry, a name that is a directory  *)
(* in one entry and something else in another, a root entry "./", device   *)
(* numbers beyond what the 32 bit rdev of FUSE can hold (major > 4095,     *)
(* minor > 1048575).                                                       *)
EXTENDS Integers, Sequences, FiniteSets, TLC

CONSTANTS
    TarIn,                  \* initial T
    \* negative controls (TRUE = as in the code)
    LastWins,               \* r.m[name] = ent overwrites an earlier entry of the same name
    ImplicitDirMode755,     \* getOrCreateDir creates missing parents with mode 0755
    LinksCountOnSource,     \* a hard link increments NumLink of its (resolved) source
    SymlinkSizeFromTarget,  \* entryToAttr: size of a symlink = len(LinkName)
    SpecialBitsIndependent, \* fileModeToSystemMode tests setuid, setgid and sticky each on its own (not "the first that is set")
    MkdevSplit,             \* entryToAttr packs rdev with unix.Mkdev (12+20 bit split), not major<<8|minor
    MemoOnlyHidesAbsent,    \* the memoised listing answers ENOENT only for names that are not children
    AttrOpsEverywhere       \* generation only: FALSE = Getattr/Readlink/Getxattr (independent of memo) only before any listing is memoised

VARIABLES T, P, memo, last          \* P = all paths of T (derived from T once, when T is set; evaluation cost only)
vars == <<T, P, memo, last>>
core == <<T, memo>>

ENOENT == 2
ENODATA == 61
Landmarks == {".prefetch.landmark", ".no.prefetch.landmark"}

\* TLC re-evaluates LET definitions and operator arguments at every use; Bind evaluates e ONCE and hands the value
\* to Body (evaluation plumbing only, no meaning of its own)
Bind(e, Body(_)) == CHOOSE r \in {Body(x) : x \in {e}} : TRUE
Range(s) == {s[i] : i \in DOMAIN s}
MaxOf(S0) == Bind(S0, LAMBDA S : CHOOSE x \in S : \A y \in S : y <= x)
MinOf(S0) == Bind(S0, LAMBDA S : CHOOSE x \in S : \A y \in S : x <= y)
Prefix(p, k) == SubSeq(p, 1, k)
IsChild(d, p) == Len(p) = Len(d) + 1 /\ Prefix(p, Len(d)) = d
PathsOf(t) == UNION {{Prefix(t[i].path, k) : k \in 0..Len(t[i].path)} : i \in DOMAIN t} \cup {<<>>}
AllPaths == P

Idx(p) == {i \in DOMAIN T : T[i].path = p}
TypeBits(t) == CASE t = "reg" -> 32768 [] t = "dir" -> 16384 [] t = "symlink" -> 40960
                 [] t = "char" -> 8192 [] t = "block" -> 24576 [] t = "fifo" -> 4096 [] OTHER -> 0
Implicit(m) == [path |-> <<>>, type |-> "dir", size |-> 0, mode |-> m, uid |-> 0, gid |-> 0, target |-> "", link |-> <<>>,
                major |-> 0, minor |-> 0, xattrs |-> <<>>, mtime |-> 0]
ChildNames(d) == {p[Len(p)] : p \in {q \in AllPaths : IsChild(d, q)}}
Dirs == {p \in AllPaths : \E q \in AllPaths : IsChild(p, q)} \cup {<<>>}

\* ---------------------------------------------------------------- what the archive describes
RefIdx(p) == Bind(Idx(p), LAMBDA S : IF S = {} THEN 0 ELSE MaxOf(S))
RefEnt(p) == Bind(RefIdx(p), LAMBDA i : IF i = 0 THEN Implicit(493) ELSE T[i])
RECURSIVE RefResolve(_, _)
RefResolve(p0, fuel) ==
    Bind(p0, LAMBDA p : Bind(RefEnt(p), LAMBDA e :
        IF fuel = 0 \/ e.type # "hardlink" THEN p ELSE RefResolve(e.link, fuel - 1)))
Ident(p) == RefResolve(p, 6)                      \* the path whose inode the name p denotes
RefNlink(p) == Bind(Ident(p), LAMBDA ip : Cardinality({q \in AllPaths : Ident(q) = ip}))
RefAttr(p) ==
    Bind(RefEnt(Ident(p)), LAMBDA e :
    [mode |-> TypeBits(e.type) + (e.mode % 4096),
     size |-> IF e.type = "reg" THEN e.size ELSE IF e.type = "symlink" THEN Len(e.target) ELSE 0,
     \* a directory: ".", its name in the parent, and ".." of every sub-directory (each counted once)
     nlink |-> IF e.type = "dir"
               THEN Bind(Ident(p), LAMBDA d : 2 + Cardinality({c \in AllPaths : IsChild(d, c) /\ RefEnt(c).type = "dir"}))
               ELSE RefNlink(p),
     uid |-> e.uid, gid |-> e.gid,
     major |-> IF e.type \in {"char", "block"} THEN e.major ELSE 0,
     minor |-> IF e.type \in {"char", "block"} THEN e.minor ELSE 0,
     mtime |-> e.mtime, isdir |-> e.type = "dir", implicit |-> RefIdx(Ident(p)) = 0])
RefXattr(p, k) ==
    LET xs == RefEnt(Ident(p)).xattrs
        hit == {i \in DOMAIN xs : xs[i][1] = k}
    IN IF hit = {} THEN [errno |-> ENODATA, val |-> ""] ELSE [errno |-> 0, val |-> xs[MaxOf(hit)][2]]

\* an attribute record a served for the name p
AttrOK(a, p) ==
    Bind(RefAttr(p), LAMBDA r :
    /\ a.mode = r.mode
    /\ a.size = r.size
    /\ a.nlink = r.nlink
    /\ a.uid = r.uid /\ a.gid = r.gid
    \* the pair the kernel decodes from the served rdev (unix.Major / unix.Minor of glibc's 12+20 bit split encoding);
    \* the raw rdev is recorded next to it as a hex string (it does not fit TLC's 32 bit integers)
    /\ a.major = r.major /\ a.minor = r.minor
    /\ (~r.implicit => a.mtime = r.mtime))

\* ---------------------------------------------------------------- what the code computes
CodeIdx(p) == Bind(Idx(p), LAMBDA S : IF S = {} THEN 0 ELSE IF LastWins THEN MaxOf(S) ELSE MinOf(S))
CodeEnt(p) == Bind(CodeIdx(p), LAMBDA i : IF i = 0 THEN Implicit(IF ImplicitDirMode755 THEN 493 ELSE 0) ELSE T[i])
RECURSIVE CodeSource(_, _)
CodeSource(p0, fuel) ==
    Bind(p0, LAMBDA p : Bind(CodeEnt(p), LAMBDA e :
        IF fuel = 0 \/ e.type # "hardlink" THEN p ELSE CodeSource(e.link, fuel - 1)))
\* NumLink of the object a non-directory path q resolves to: its own name + one per hardlink ENTRY whose source it is
CodeNumLink(q) ==
    1 + (IF LinksCountOnSource
         THEN Cardinality({j \in DOMAIN T : T[j].type = "hardlink" /\ CodeSource(T[j].link, 6) = q})
         ELSE 0)
CodeAttr(p) ==
    Bind(CodeSource(p, 6), LAMBDA q :
    Bind(CodeEnt(q), LAMBDA e :
    LET nl == IF e.type = "dir" THEN 2 + Cardinality({c \in AllPaths : IsChild(q, c) /\ CodeEnt(c).type = "dir"}) ELSE CodeNumLink(q)
        \* fileModeToSystemMode: permission bits, then S_ISUID / S_ISGID / S_ISVTX; the negative control keeps only
        \* the first special bit that is set (one switch instead of three ifs)
        sp == (e.mode % 4096) \div 512
        special == IF SpecialBitsIndependent THEN sp * 512
                   ELSE IF sp \div 4 = 1 THEN 2048 ELSE IF (sp \div 2) % 2 = 1 THEN 1024 ELSE IF sp % 2 = 1 THEN 512 ELSE 0
    IN [mode |-> TypeBits(e.type) + (e.mode % 512) + special,
        size |-> IF e.type = "symlink" THEN (IF SymlinkSizeFromTarget THEN Len(e.target) ELSE 0)
                 ELSE IF e.type = "reg" THEN e.size ELSE 0,
        nlink |-> IF nl = 0 THEN 1 ELSE nl,
        uid |-> e.uid, gid |-> e.gid,
        \* out.Rdev = unix.Mkdev(DevMajor, DevMinor), read back as the kernel does (unix.Major / unix.Minor);
        \* the negative control packs major<<8|minor, which decodes differently as soon as minor >= 256
        major |-> IF MkdevSplit THEN e.major ELSE ((e.major * 256 + e.minor) \div 256) % 4096,
        minor |-> IF MkdevSplit THEN e.minor
                  ELSE ((e.major * 256 + e.minor) % 256) + (((e.major * 256 + e.minor) \div 4096) \div 256) * 256,
        mtime |-> e.mtime]))
NoAttr == [mode |-> 0, size |-> 0, nlink |-> 0, uid |-> 0, gid |-> 0, major |-> 0, minor |-> 0, mtime |-> 0]
\* node.readdir: children without landmarks (root), plus "." and "..", sorted by name (order not modelled)
Listing(d) == {<<n, TypeBits(CodeEnt(CodeSource(d \o <<n>>, 6)).type)>> : n \in ChildNames(d)}
               \cup {<<".", 16384>>, <<"..", 16384>>}

\* ---------------------------------------------------------------- actions
Init == T = TarIn /\ P = PathsOf(TarIn) /\ memo = {} /\ last = [act |-> "Init"]

Lookup(d, name) ==
    LET hidden == d = <<>> /\ name \in Landmarks
        early == d \in memo /\ (IF MemoOnlyHidesAbsent THEN name \notin ChildNames(d) ELSE name \notin ChildNames(d) \/ CodeEnt(d \o <<name>>).type = "hardlink")
        found == name \in ChildNames(d)
    IN
    /\ last' = [act |-> "Lookup", dir |-> d, name |-> name,
                errno |-> IF hidden \/ early \/ ~found THEN ENOENT ELSE 0,
                attr |-> IF hidden \/ early \/ ~found THEN NoAttr ELSE CodeAttr(d \o <<name>>)]
    /\ memo' = IF ~hidden /\ ~early /\ ~found THEN memo \cup {d} ELSE memo      \* n.readdir() on the expensive miss path
    /\ UNCHANGED <<T, P>>

Readdir(d) ==
    /\ last' = [act |-> "Readdir", dir |-> d, errno |-> 0, ents |-> Listing(d), n |-> Cardinality(Listing(d))]
    /\ memo' = memo \cup {d}
    /\ UNCHANGED <<T, P>>

Getattr(p) ==
    /\ last' = [act |-> "Getattr", path |-> p, errno |-> 0, attr |-> CodeAttr(p)]
    /\ UNCHANGED <<T, P, memo>>

Readlink(p) ==
    /\ last' = [act |-> "Readlink", path |-> p, errno |-> 0, target |-> CodeEnt(p).target]
    /\ UNCHANGED <<T, P, memo>>

Getxattr(p, k) ==
    LET xs == CodeEnt(CodeSource(p, 6)).xattrs
        hit == {i \in DOMAIN xs : xs[i][1] = k}
    IN
    /\ last' = [act |-> "Getxattr", path |-> p, key |-> k,
                errno |-> IF hit = {} THEN ENODATA ELSE 0, val |-> IF hit = {} THEN "" ELSE xs[MaxOf(hit)][2]]
    /\ UNCHANGED <<T, P, memo>>

XattrKeys == UNION {{T[i].xattrs[j][1] : j \in DOMAIN T[i].xattrs} : i \in DOMAIN T} \cup {"user.none"}
ProbeNames(d) == ChildNames(d) \cup {"nope"} \cup (IF d = <<>> THEN {".prefetch.landmark", ".no.prefetch.landmark"} ELSE {})

Next ==
    \/ \E d \in Dirs : \E name \in ProbeNames(d) : Lookup(d, name)
    \/ \E d \in Dirs : Readdir(d)
    \/ (AttrOpsEverywhere \/ memo = {}) /\ \E p \in AllPaths : Getattr(p)
    \/ (AttrOpsEverywhere \/ memo = {}) /\ \E p \in AllPaths : RefEnt(p).type = "symlink" /\ Readlink(p)
    \/ (AttrOpsEverywhere \/ memo = {}) /\ \E p \in AllPaths, k \in XattrKeys : Getxattr(p, k)

Spec == Init /\ [][Next]_vars

\* ---------------------------------------------------------------- property formula
\* every answer (in last) equals what the archive describes
MetaEqualsTar ==
    CASE last.act = "Lookup" ->
            IF last.name \in ChildNames(last.dir)
            THEN last.errno = 0 /\ AttrOK(last.attr, last.dir \o <<last.name>>)
            ELSE last.errno = ENOENT
      [] last.act = "Getattr" -> last.errno = 0 /\ AttrOK(last.attr, last.path)
      [] last.act = "Readdir" ->
            /\ last.errno = 0
            /\ {e[1] : e \in last.ents} = ChildNames(last.dir) \cup {".", ".."}
            /\ \A e \in last.ents : e[1] \notin {".", ".."} =>
                    e[2] = TypeBits(RefEnt(Ident(last.dir \o <<e[1]>>)).type)
            /\ \A e1, e2 \in last.ents : e1[1] = e2[1] => e1 = e2
            /\ last.n = Cardinality(last.ents)                          \* no name listed twice
      [] last.act = "Readlink" -> last.errno = 0 /\ last.target = RefEnt(last.path).target
      [] last.act = "Getxattr" ->
            LET r == RefXattr(last.path, last.key) IN last.errno = r.errno /\ (r.errno = 0 => last.val = r.val)
      [] OTHER -> TRUE
MetaEqualsTarStep == [][MetaEqualsTar']_vars

\* the input space (checked on every tar handed in): links resolve, no overwritten hard-link names, no './' root entry
TarOK ==
    /\ \A i \in DOMAIN T : Len(T[i].path) > 0
    /\ \A i \in DOMAIN T : T[i].type = "hardlink" =>
          /\ T[i].link \in AllPaths /\ RefEnt(Ident(T[i].path)).type \notin {"hardlink", "dir"}
          /\ RefIdx(T[i].path) = i
          /\ \E j \in 1..(i - 1) : T[j].path = T[i].link
    /\ \A p \in AllPaths : (\E q \in AllPaths : IsChild(p, q)) => RefEnt(p).type = "dir"
    /\ \A i, j \in DOMAIN T : T[i].path = T[j].path => ((T[i].type = "dir") = (T[j].type = "dir"))
    /\ \A i \in DOMAIN T : T[i].major \in 0..4095 /\ T[i].minor \in 0..1048575       \* what a 32 bit rdev can hold
=============================================================================

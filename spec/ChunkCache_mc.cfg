\* exhaustive: 2 keys, 3 writers, 2 readers, values of 1 or 2 pieces, both LRUs of capacity 1
CONSTANTS
    Keys = {"aa1", "bb2"}
    NW = 3
    NR = 2
    Lens = {1, 2}
    DataCap = 1
    FdCap = 1
    MaxB = 2
    DirectMode = FALSE
    HoldWhileShared = TRUE
    RenameAfterWrite = TRUE
    ReadersHold = TRUE
INIT Init
NEXT Next
VIEW core
INVARIANTS HitIsCommitted ReadsAreCommitted NoRecycleWhileReferenced FinalFilesComplete TypeOK
CHECK_DEADLOCK FALSE

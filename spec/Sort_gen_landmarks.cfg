\* generation (special family, replayed in every run under two fixed option sets): input landmarks in plain, ./x and /x spellings
CONSTANTS
    UseEntries = {3, 9, 10, 13, 14, 15}
    PrioAlphabet = {"a/b", "./.prefetch.landmark", "x"}
    MaxTar = 2
    MaxPrio = 1
    WithLayout = FALSE
    LayoutOpts <- OptsNone
    ImplicitParents = TRUE
    ParentsFirst = TRUE
    TargetFirst = TRUE
    PickedGuard = TRUE
    SkipPickedInRest = TRUE
    LandmarkAfterMoves = TRUE
    LandmarkByList = TRUE
    ReportMissing = TRUE
    DropInputLandmarks = TRUE
    LastDupWins = TRUE
    LandmarkOwnStream = TRUE
    VisitingIsPath = TRUE
INIT GenInit
NEXT GenNext
CHECK_DEADLOCK FALSE

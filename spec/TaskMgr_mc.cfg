\* exhaustive: 2 invocations, 3 prioritized begin/end pairs, concurrency 1; the repaired design (WaitBodyOnCancel)
CONSTANTS
    Invs = {1, 2}
    Concurrency = 1
    MaxDo = 3
    WaitBodyOnCancel = TRUE
    RecheckUnderLock = TRUE
    DecrAfterSilence = TRUE
    UseSem = TRUE
    NotifyArm = TRUE
    AwaitBodyOnTimeout = TRUE
    Timeouts = TRUE
    AcquireIgnoresTimeout = TRUE
    BroadcastAll = TRUE
INIT Init
NEXT Next
VIEW core
INVARIANTS Bounded NoSelfOverlap NoneRunningAtReturn TypeOK PrioAccount SemAccount SemBound
PROPERTIES StartOnlyWhenQuiet
CHECK_DEADLOCK FALSE

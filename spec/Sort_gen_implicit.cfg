\* generation: cases for the replay
CONSTANTS
    UseEntries = {2, 3, 4, 5, 11}
    PrioAlphabet = {"e/f", "a/x", "/"}
    MaxTar = 3
    MaxPrio = 2
    WithLayout = FALSE
    LayoutOpts <- OptsNone
    ImplicitParents = TRUE
    ParentsFirst = TRUE
    TargetFirst = TRUE
    PickedGuard = TRUE
    SkipPickedInRest = TRUE
    LandmarkAfterMoves = TRUE
    LandmarkByList = TRUE
    ReportMissing = TRUE
    DropInputLandmarks = TRUE
    LastDupWins = TRUE
    LandmarkOwnStream = TRUE
    VisitingIsPath = TRUE
INIT GenInit
NEXT GenNext
CHECK_DEADLOCK FALSE

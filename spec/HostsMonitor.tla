---------------------------- MODULE HostsMonitor ----------------------------
(* Monitor (soundness rule, DESIGN 2.5): no enabling conditions. The       *)
(* config that was GIVEN, the host list the IMPLEMENTATION produced and    *)
(* every request the servers RECEIVED are loaded; only HostHeadersOwn and  *)
(* SentHeadersOwn are evaluated.                                           *)
EXTENDS Hosts, Json, TLCExt

VARIABLE l
mvars == <<vars, l>>

TraceLog == ndJsonDeserialize("trace.ndjson")
Ev == TraceLog[l]
ToSet(s) == {s[i] : i \in 1..Len(s)}

MonInit == Init /\ l = 1

MonNext ==
    /\ l <= Len(TraceLog)
    /\ l' = l + 1
    /\ UNCHANGED <<phase, up, k, step>>
    /\ cfg' = IF Ev.ev = "Reset" THEN <<>>
              ELSE IF Ev.ev = "Build" THEN [i \in 1..Len(Ev.cfg) |-> [host |-> Ev.cfg[i].host, hdr |-> Ev.cfg[i].hdr]]
              ELSE cfg
    /\ out' = IF Ev.ev = "Reset" THEN <<>>
              ELSE IF Ev.ev = "Build" THEN [i \in 1..Len(Ev.out) |-> [host |-> Ev.out[i].host, hdrs |-> ToSet(Ev.out[i].hdrs)]]
              ELSE out
    /\ last' = IF Ev.ev = "Send"
               THEN [act |-> "Send", host |-> Ev.host, hdrs |-> ToSet(Ev.hdrs), meth |-> Ev.meth, ok |-> Ev.ok]
               ELSE [act |-> Ev.ev]

MonSpec == MonInit /\ [][MonNext]_mvars
=============================================================================

CONSTANTS
    AKinds = {"Prepare", "View"}
    AParents = {"", "c1"}
    ATargets = {"", "c2"}
    BOps = {"Cleanup", "Close"}
    MountFaults = TRUE
    CleanupScanExcludesWriters = TRUE
SPECIFICATION MonSpec
CHECK_DEADLOCK FALSE

CONSTANTS
    Mirrors = {"m1", "m2"}
    MaxMirrors = 2
    HeaderPerEntry = TRUE
INIT GenInit
NEXT GenNext
VIEW core
CHECK_DEADLOCK FALSE

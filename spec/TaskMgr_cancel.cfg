\* CancelOnPrioritized: bodies may run for ever (no fairness of BodyEnd), the invoker is weakly fair
CONSTANTS
    Invs = {1, 2}
    Concurrency = 1
    MaxDo = 2
    WaitBodyOnCancel = TRUE
    RecheckUnderLock = TRUE
    DecrAfterSilence = TRUE
    UseSem = TRUE
    NotifyArm = TRUE
    AwaitBodyOnTimeout = TRUE
    Timeouts = TRUE
    AcquireIgnoresTimeout = TRUE
    BroadcastAll = TRUE
SPECIFICATION CancelSpec
PROPERTIES CancelOnPrioritized
CHECK_DEADLOCK FALSE

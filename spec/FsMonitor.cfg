SPECIFICATION MonSpec
INVARIANTS MonMountedIffInMap MonFailedMountLeavesNothing MonNoUnverifiedMountUnlessAllowed MonUnmountReleasesLayer MonCheckReachesOwnLayer MonDoDoneBalanced MonBackgroundFetchOnlyAfterMountReturns MonLazyReads MonFreeReads MonE2EMapEqualsRemoteSnapshots
CHECK_DEADLOCK FALSE

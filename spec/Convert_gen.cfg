CONSTANTS
    Mode = "ext"
    NConv = 2
    SrcIds = {2, 3}
    SpareCap = TRUE
    MaxIntr = 1
    MayDeviate = FALSE
    MapLock = TRUE
    CopyOpts = TRUE
    DiffIDCheck = TRUE
    UpdateLabel = TRUE
    MediaTypeFollowsBlob = TRUE
INIT GenInit
NEXT GenNext
VIEW core
CHECK_DEADLOCK FALSE

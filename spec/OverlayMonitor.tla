--------------------------- MODULE OverlayMonitor ---------------------------
(* The equation of C07 on REAL served trees.  trace.ndjson: one line per    *)
(* (model layer, opaque mode, metadata store): the model tar and the tree   *)
(* the real nodes served for it (listing + lookup of every listed entry +   *)
(* opaque xattrs, recorded through the node API).  stacks.ndjson: stacks of *)
(* lines (lowest first) with the xattr key the overlay mount honours.       *)
(* For every stack TLC evaluates                                            *)
(*     OverlayMerge(<<served trees>>, key) = ApplyOCI(<<model tars>>)        *)
(* and, for the layer on top, that the served tree is the translation.      *)
EXTENDS Overlay, Json, TLC, TLCExt

VARIABLE l
ServedLog == ndJsonDeserialize("trace.ndjson")
Stacks == ndJsonDeserialize("stacks.ndjson")

\* JSON -> the shapes of Overlay.tla
DirEnts(o) == [x \in DOMAIN o |-> [kind |-> o[x].kind, rdev |-> o[x].rdev]]
NormServed(s) ==
    [top |-> DirEnts(s.top),
     opq |-> SeqToSet(s.opq),
     sub |-> [d \in DOMAIN s.sub |-> [ents |-> DirEnts(s.sub[d].ents), opq |-> SeqToSet(s.sub[d].opq)]]]
NormModel(m) ==
    [top |-> [x \in DOMAIN m.top |-> m.top[x]],
     sub |-> [d \in DOMAIN m.sub |-> [x \in DOMAIN m.sub[d] |-> m.sub[d][x]]]]

Init == l = 1
Next == l <= Len(Stacks) /\ l' = l + 1
MonSpec == Init /\ [][Next]_l

Cur == Stacks[l - 1]
Lines == Cur.lines
S == [i \in 1..Len(Lines) |-> NormServed(ServedLog[Lines[i]].served)]
M == [i \in 1..Len(Lines) |-> NormModel(ServedLog[Lines[i]].model)]
TopLine == ServedLog[Lines[Len(Lines)]]

\* stacking the served layers with overlayfs rules yields the root filesystem of applying the tars in order
MonMergeEqualsApply ==
    l > 1 => OverlayMerge(S, Cur.key) = ApplyOCI(M)
\* the served tree of a layer is the overlayfs translation of its tar (kinds, 0/0 whiteouts, opaque xattrs)
MonServedIsTranslation ==
    l > 1 => NormServed(TopLine.served) = Served(NormModel(TopLine.model), TopLine.mode)
\* the listing and the lookup of a listed entry report the same kind
MonListedIsLookedUp ==
    l > 1 => LET s == TopLine.served IN
             /\ \A x \in DOMAIN s.top : s.top[x].lkind = s.top[x].kind
             /\ \A d \in DOMAIN s.sub : \A x \in DOMAIN s.sub[d].ents : s.sub[d].ents[x].lkind = s.sub[d].ents[x].kind
\* inode numbers are unique within the layer (all directories), in the layer's range, the same via readdir and lookup
MonLayerInodesUnique ==
    l > 1 => LET I == SeqToSet(TopLine.inos) IN
             \A x, y \in I : /\ x.hi = TopLine.base
                             /\ x.lo >= 3
                             /\ (x.p = y.p) <=> (x.lo = y.lo)
=============================================================================

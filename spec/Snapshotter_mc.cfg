\* exhaustive: 2 keys, 2 committed names, 3 ids, 3 calls, 1 restart (Async overridden per run)
CONSTANTS
    Keys = {"k1", "k2"}
    CNames = {"c1", "c2"}
    MaxId = 3
    MaxOps = 3
    MaxRestarts = 1
    Async = FALSE
    AnyOrder = TRUE
    UnmountFaults = TRUE
    InitCommitted = FALSE
    SurviveModes = {TRUE, FALSE}
    LabelOnlyIfMounted = TRUE
    CheckWholeChain = TRUE
    UnmountFirst = TRUE
    NearestFirst = TRUE
    RestoreMkdir = TRUE
    RestoreStoredLabels = TRUE
    HonourAllowInvalid = TRUE
    RenameBeforeCommit = TRUE
    CleanupScansTemps = TRUE
    RestoreMkdirOnlyIfParentMissing = FALSE
INIT Init
NEXT Next
VIEW core
INVARIANTS TypeOK IdsUnique MountsSorted ParentsCommitted
PROPERTIES AckedStayUntilRemoved LabelsStable NoRestoreKeepsMounts RestartPreservesSnapshots A_PrepareTargetOutcome A_RejectedCreateReportsError A_NoMountsIfRemoteUnavailable A_UnavailableOnlyIfCheckFailed A_LowerDirsNearestFirst A_UnmountOnlyAfterRemovedOrClosing A_UnmountBeforeRmdir A_AfterCleanupDirsAreLive A_AfterSyncRemoveDirsAreLive A_MetaHasDirs A_RestartSucceedsOrPrescribed A_RemountedExactly A_RestoredWithStoredLabels A_RemoveOfLeafSucceeds A_ReclaimedDirIsGone
CHECK_DEADLOCK FALSE

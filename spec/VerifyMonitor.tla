--------------------------- MODULE VerifyMonitor ---------------------------
(* Monitor for property C01: nothing but history bookkeeping over what the *)
(* IMPLEMENTATION was observed to do:                                      *)
(*   toc     - at Reset: does the TOC in the blob that was served hash to  *)
(*             the pinned digest "D" (ground truth of the driver's blob    *)
(*             concretiser, not the code's claim)                          *)
(*   okArgs  - digests for which layer.Verify / VerifyTOC returned success *)
(*   served  - values ("g" = the bytes the TOC records, "s" = other bytes) *)
(*             returned by reads issued after such a success               *)
(*   cache/pf- what the chunk cache held for each chunk when the driver    *)
(*             looked (after every step of a replay, at the end of a free  *)
(*             run); last.probe - the cache entry of the chunk right after *)
(*             a failed read                                               *)
(* Events of replays (= spec actions) and of free runs / alteration sweeps *)
(* (Verify, Read, PassRead, CacheState) are understood alike.              *)
EXTENDS Verify, Json

VARIABLE l
mvars == <<vars, l>>
TraceLog == ndJsonDeserialize("trace.ndjson")
Ev == TraceLog[l]
Has(f) == f \in DOMAIN Ev
AsFun(s) == [c \in Chunks |-> IF c <= Len(s) THEN s[c] ELSE "-"]

MonInit == Init /\ l = 1

IsVerifyEv == Ev.ev \in {"VTFinish", "LayerVerify", "Verify"}
IsReadEv == Ev.ev \in {"Read", "LateRead", "PassRead"}
ReadVals == IF Ev.ev \in {"Read", "LateRead"} THEN {Ev.v} ELSE {Ev.vals[i] : i \in 1..Len(Ev.vals)} \ {"-"}

MonNext ==
    /\ l <= Len(TraceLog)
    /\ l' = l + 1
    /\ UNCHANGED <<src, prohibit, lastErr, verify, lr, wk, vt, rd, nalter, nverify>>
    /\ toc' = IF Ev.ev = "Reset" THEN Ev.toc ELSE toc
    /\ fscfg' = IF Ev.ev = "Reset" THEN (IF Has("fscfg") THEN Ev.fscfg ELSE "--") ELSE fscfg
    /\ okArgs' = IF Ev.ev = "Reset" THEN {}
                 ELSE IF IsVerifyEv /\ Ev.res = "ok" THEN okArgs \cup {Ev.d}
                 \* a filesystem.Mount that was given a TOC digest label and returned success (unless disable_verification)
                 ELSE IF Ev.ev = "Mount" /\ Ev.res = "ok" /\ Ev.tl # "none" /\ ~DisableVerif THEN okArgs \cup {Ev.tl}
                 ELSE okArgs
    /\ served' = IF Ev.ev = "Reset" THEN {}
                 ELSE IF IsReadEv /\ Ev.res = "ok" /\ vmount THEN served \cup ReadVals ELSE served
    /\ cache' = IF Ev.ev = "Reset" THEN [c \in Chunks |-> "-"] ELSE IF Has("cache") THEN AsFun(Ev.cache) ELSE cache
    /\ pf' = IF Ev.ev = "Reset" THEN NoPf ELSE IF Has("pf") THEN AsFun(Ev.pf) ELSE pf
    /\ last' = IF Ev.ev \in {"Read", "LateRead"} THEN [act |-> "Read", res |-> Ev.res, probe |-> IF Has("probe") THEN Ev.probe ELSE "-"]
               ELSE [act |-> Ev.ev]

MonSpec == MonInit /\ [][MonNext]_mvars
=============================================================================

\* generation, two callers on different mountpoints (one Mount in flight at a time)
CONSTANTS
    MPs = {"m1", "m2"}
    Blobs = {"b1"}
    Labs = {"ok"}
    Ops = {"Mount", "Check", "Unmount"}
    MaxCalls = 3
    MaxConc = 2
    MaxObj = 2
    SameMp = FALSE
    OneMount = TRUE
    AllowNoVerif = TRUE
    DisableVerif = FALSE
    NoPrefetch = TRUE
    NoBgFetch = TRUE
    PreRes = FALSE
    Expiry = FALSE
    ReleaseOnFail = TRUE
    EraseOnFail = TRUE
    VerifyFirst = TRUE
    SkipNeedsAllow = TRUE
    UnmountCloses = TRUE
    CheckOwnKey = TRUE
    DoneAlways = TRUE
    BgRespectsPrio = TRUE
INIT GenInit
NEXT GenNext
VIEW core
CHECK_DEADLOCK FALSE

\* exhaustive, concurrent: 2 callers in flight on one blob (single-flight leader/follower, shared copy, cache loss between
\* fetch and copy, retry with the same bytesWriters), chunk 2
CONSTANTS
    Sizes = {3}
    Chunks = {2}
    Readers = {"r1", "r2"}
    Ops = {"read", "cache"}
    Pers = {"multi", "first", "half", "short", "err"}
    MaxLen = 4
    MaxOps = 2
    MaxReq = 3
    MaxLoss = 1
    MaxCFail = 0
    MaxInflight = 2
    LossMidCall = TRUE
    Segment = FALSE
    AllSeenCheck = TRUE
    AlignCheck = TRUE
    WriterVariant = "code"
    RetryFreshWriter = FALSE
INIT Init
NEXT Next
VIEW core
INVARIANTS RegionSetIsUnion FetchedSizeIsDistinctBytes FetchedSizeLeSize CacheExact CacheIsCommitted KeysAligned FlightsHaveLeader
PROPERTIES ReadExact ErrOrExact FetchedSizeMonotone
CHECK_DEADLOCK FALSE

CONSTANTS
    Sizes = 0
    ChunkTab = 0
    PrefetchOn = FALSE
    Lens = {1}
    Offs = {0, 1, 2, 3, 4, 5, 6, 7, 8, 9, 10}
    EvictOffs = {0, 1, 2, 3, 4, 5, 6, 7, 8, 9, 10}
    LocateOK = TRUE
    DiscardOK = TRUE
    InnerSkipOK = TRUE
    PreReadKeyOK = TRUE
SPECIFICATION MonSpec
INVARIANTS ReadEqualsSource CacheHoldsOnlySourceBytes
CHECK_DEADLOCK FALSE

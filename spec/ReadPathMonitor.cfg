CONSTANTS
    Sizes = 0
    ChunkTab = 0
    PrefetchOn = FALSE
    Lens = {1}
    LocateOK = TRUE
    DiscardOK = TRUE
    InnerSkipOK = TRUE
    PreReadKeyOK = TRUE
SPECIFICATION MonSpec
INVARIANTS ReadEqualsSource CacheHoldsOnlySourceBytes
CHECK_DEADLOCK FALSE

\* exhaustive: 2 workers x 2 operations (fetch or check), <= 3 personality changes, every initial personality (quick tier overrides MaxOps = 1, MaxEnv = 2)
CONSTANTS
    Procs = {"p1", "p2"}
    MaxOps = 2
    MaxEnv = 3
    Modes = {"direct", "redir"}
    AuthModes = {TRUE, FALSE}
    HeadModes = {TRUE, FALSE}
    HeaderReadUnderLock = TRUE
    RedirectDropsHeaders = TRUE
    StaleAuth = TRUE
INIT Init
NEXT Next
VIEW core
INVARIANTS PairConsistent TypeOK
PROPERTIES ConfinedHeaders ConfinedAuth HostHeadersDelivered
CHECK_DEADLOCK FALSE

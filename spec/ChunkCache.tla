----------------------------- MODULE ChunkCache -----------------------------
(***************************************************************************)
(* The directory-backed chunk cache of cache/cache.go (NewDirectoryCache). *)
(*                                                                         *)
(* Three stores: the in-memory LRU of *bytes.Buffer (dc.cache), the LRU of *)
(* open *os.File (dc.fileCache) and the directory (key -> file, written    *)
(* via a wip file + rename). The two LRUs are cacheutil.LRUCache; this     *)
(* module ASSUMES their contract (property C10, RefCache.tla): the         *)
(* eviction callback runs when the value has left the LRU and no holder    *)
(* is left - MaybeRecycle / MaybeCloseFd below - and checks what the chunk *)
(* cache builds on top of it.                                              *)
(*                                                                         *)
(* One action per step of the code that another goroutine can observe:     *)
(*   AddOpen        Add(): wip file created, buffer taken from the pool    *)
(*   Write          Writer.Write (one piece)                               *)
(*   CommitPublish  memW.commitFunc: dc.cache.Add(key, b) (buffer visible) *)
(*   PersistWrite   commit(): cached bytes written to the wip file         *)
(*   PersistRename  commit(): rename wip -> final path; done()             *)
(*   CommitDirect   direct writer: rename only                             *)
(*   Abort                                                                 *)
(*   Get*           Get(): memory hit / fd hit / file open / miss          *)
(*   ReadAt         Reader.ReadAt: whatever the buffer / inode holds NOW   *)
(*   CloseReader    done() / fileCache.Add(key, file)                      *)
(*   CloseCache     Close(): LRUs cleared, directory removed                *)
(* Bytes are abstracted to (writer id, number of pieces): a value is       *)
(* complete iff it has all pieces of its writer.                           *)
(***************************************************************************)
EXTENDS Integers, Sequences, FiniteSets, TLC

CONSTANTS
    Keys,          \* set of strings
    NW,            \* writers 1..NW
    NR,            \* readers 1..NR
    Lens,          \* possible value lengths in pieces, e.g. {1,2} or {0,1}
    DataCap,       \* capacity of the buffer LRU (>= 1)
    FdCap,         \* capacity of the fd LRU (>= 1)
    MaxB,          \* bound on buffers ever allocated by the pool
    DirectMode,    \* TRUE = cache configured Direct (no memory layer at all)
    HoldWhileShared,   \* TRUE = as the code/C10: a buffer/fd is recycled/closed only when no holder is left
    RenameAfterWrite,  \* TRUE = as the code: rename happens after the wip file is completely written
    ReadersHold        \* TRUE = as the code: a memory-hit reader keeps the LRU reference until Close

VARIABLES
    W,       \* [1..NW -> [key, len, written, st, buf, wip, cached, direct]]
    B,       \* Seq of [val, n, inLRU, holders, pooled]               buffers
    dmap,    \* [Keys -> buffer id | 0]                                dc.cache
    dlru,    \* Seq(Keys) most recent first
    I,       \* Seq of [val, n]                                        inodes (wip or final)
    path,    \* [Keys -> inode id | 0]                                 final files
    F,       \* Seq of [ino, inLRU, holders, closed]                   open *os.File objects
    fmap,    \* [Keys -> fd id | 0]                                    dc.fileCache
    flru,    \* Seq(Keys)
    R,       \* [1..NR -> [key, src, ref]]  src in {"none","mem","fd","file","dfile","closed"}
    shut,    \* dc.closed: Close() was called (directory removed, both LRUs cleared)
    last     \* observation of the last step

core == <<W, B, dmap, dlru, I, path, F, fmap, flru, R, shut>>
vars == <<W, B, dmap, dlru, I, path, F, fmap, flru, R, shut, last>>

Writers == 1..NW
Readers == 1..NR
None == 0

RemoveKey(s, k) == SelectSeq(s, LAMBDA x : x # k)
MoveFront(s, k) == <<k>> \o RemoveKey(s, k)

EmptyBuf == [val |-> 0, n |-> 0, inLRU |-> FALSE, holders |-> 0, pooled |-> FALSE]

\* dataCache.OnEvicted: Reset() and back to the pool - by the C10 contract only without holders
MaybeRecycle(bs, b) ==
    IF ~bs[b].inLRU /\ (bs[b].holders = 0 \/ ~HoldWhileShared) /\ ~bs[b].pooled
    THEN [bs EXCEPT ![b] = [EmptyBuf EXCEPT !.pooled = TRUE, !.holders = bs[b].holders]]
    ELSE bs
\* putBuffer: Reset() and back to the pool (own buffer of a writer, never shared)
PutBuffer(bs, b) == [bs EXCEPT ![b] = [EmptyBuf EXCEPT !.pooled = TRUE]]
\* fdCache.OnEvicted: Close()
MaybeCloseFd(fs, f) ==
    IF ~fs[f].inLRU /\ (fs[f].holders = 0 \/ ~HoldWhileShared) THEN [fs EXCEPT ![f].closed = TRUE] ELSE fs

----------------------------------------------------------------------------
Init ==
    /\ W = [w \in Writers |-> [key |-> "", len |-> 0, written |-> 0, st |-> "none", buf |-> None,
                               wip |-> None, cached |-> None, direct |-> FALSE]]
    /\ B = <<>> /\ I = <<>> /\ F = <<>>
    /\ dmap = [k \in Keys |-> None] /\ dlru = <<>>
    /\ path = [k \in Keys |-> None]
    /\ fmap = [k \in Keys |-> None] /\ flru = <<>>
    /\ R = [r \in Readers |-> [key |-> "", src |-> "none", ref |-> None]]
    /\ shut = FALSE
    /\ last = [act |-> "Init"]

\* Add(key): wip file + (unless direct) a buffer from the pool: any pooled one, or a new one
AddOpen(w, k, len, direct) ==
    /\ ~shut
    /\ W[w].st = "none"
    /\ \A v \in Writers : v < w => W[v].st # "none"      \* symmetry: writers start in order
    /\ (DirectMode => direct)
    /\ I' = Append(I, [val |-> 0, n |-> 0])
    /\ IF direct
       THEN /\ B' = B
            /\ W' = [W EXCEPT ![w] = [key |-> k, len |-> len, written |-> 0, st |-> "open", buf |-> None,
                                      wip |-> Len(I) + 1, cached |-> None, direct |-> TRUE]]
       ELSE \E b \in 1..(Len(B) + 1) :
            /\ IF b <= Len(B) THEN B[b].pooled ELSE Len(B) < MaxB
            /\ B' = IF b <= Len(B) THEN [B EXCEPT ![b].pooled = FALSE] ELSE Append(B, EmptyBuf)
            /\ W' = [W EXCEPT ![w] = [key |-> k, len |-> len, written |-> 0, st |-> "open", buf |-> b,
                                      wip |-> Len(I) + 1, cached |-> None, direct |-> FALSE]]
    /\ UNCHANGED <<dmap, dlru, path, F, fmap, flru, R, shut>>
    /\ last' = [act |-> "AddOpen", w |-> w, k |-> k, len |-> len, direct |-> direct]

Write(w) ==
    /\ W[w].st = "open" /\ W[w].written < W[w].len
    /\ W' = [W EXCEPT ![w].written = @ + 1]
    /\ IF W[w].direct
       THEN /\ I' = [I EXCEPT ![W[w].wip] = [val |-> w, n |-> @.n + 1]]
            /\ B' = B
       ELSE /\ B' = [B EXCEPT ![W[w].buf].val = w, ![W[w].buf].n = @ + 1]
            /\ I' = I
    /\ UNCHANGED <<dmap, dlru, path, F, fmap, flru, R, shut>>
    /\ last' = [act |-> "Write", w |-> w]

\* memW.Commit: dc.cache.Add(key, b); a duplicate keeps the cached buffer and recycles the writer's own
CommitPublish(w) ==
    /\ ~shut       \* after Close the memory writer's Commit fails ("cache is already closed") - not modelled further
    /\ W[w].st = "open" /\ ~W[w].direct /\ W[w].written = W[w].len
    /\ LET k == W[w].key
           b == W[w].buf
       IN IF dmap[k] # None
          THEN /\ B' = PutBuffer([B EXCEPT ![dmap[k]].holders = @ + 1], b)
               /\ dlru' = MoveFront(dlru, k)
               /\ dmap' = dmap
               /\ W' = [W EXCEPT ![w].st = "published", ![w].cached = dmap[k], ![w].buf = None]
          ELSE LET o1   == <<k>> \o dlru
                   over == Len(o1) > DataCap
                   ko   == o1[Len(o1)]
                   b1   == [B EXCEPT ![b].inLRU = TRUE, ![b].holders = 1]
               IN /\ dlru' = IF over THEN SubSeq(o1, 1, Len(o1) - 1) ELSE o1
                  /\ dmap' = IF over THEN [dmap EXCEPT ![k] = b, ![ko] = None] ELSE [dmap EXCEPT ![k] = b]
                  /\ B' = IF over THEN MaybeRecycle([b1 EXCEPT ![dmap[ko]].inLRU = FALSE], dmap[ko]) ELSE b1
                  /\ W' = [W EXCEPT ![w].st = "published", ![w].cached = b, ![w].buf = None]
    /\ UNCHANGED <<I, path, F, fmap, flru, R, shut>>
    /\ last' = [act |-> "CommitPublish", w |-> w]

\* commit(): w.Write(cached.Bytes()) into the wip file - whatever the cached buffer holds now
PersistWrite(w) ==
    /\ W[w].st = "published"
    /\ I' = [I EXCEPT ![W[w].wip] = [val |-> B[W[w].cached].val, n |-> B[W[w].cached].n]]
    /\ W' = [W EXCEPT ![w].st = "written"]
    /\ UNCHANGED <<B, dmap, dlru, path, F, fmap, flru, R, shut>>
    /\ last' = [act |-> "PersistWrite", w |-> w]

\* commit(): os.Rename(wip, final); then the deferred done() drops the reference on the cached buffer
PersistRename(w) ==
    /\ W[w].st = IF RenameAfterWrite THEN "written" ELSE "published"
    /\ path' = [path EXCEPT ![W[w].key] = W[w].wip]
    /\ IF RenameAfterWrite
       THEN /\ B' = MaybeRecycle([B EXCEPT ![W[w].cached].holders = @ - 1], W[w].cached)
            /\ W' = [W EXCEPT ![w].st = "done"]
       ELSE /\ B' = B
            /\ W' = [W EXCEPT ![w].st = "renamed"]
    /\ UNCHANGED <<dmap, dlru, I, F, fmap, flru, R, shut>>
    /\ last' = [act |-> "PersistRename", w |-> w]

\* only with the negative control RenameAfterWrite = FALSE: the write after the rename
LateWrite(w) ==
    /\ ~RenameAfterWrite /\ W[w].st = "renamed"
    /\ I' = [I EXCEPT ![W[w].wip] = [val |-> B[W[w].cached].val, n |-> B[W[w].cached].n]]
    /\ B' = MaybeRecycle([B EXCEPT ![W[w].cached].holders = @ - 1], W[w].cached)
    /\ W' = [W EXCEPT ![w].st = "done"]
    /\ UNCHANGED <<dmap, dlru, path, F, fmap, flru, R, shut>>
    /\ last' = [act |-> "LateWrite", w |-> w]

CommitDirect(w) ==
    /\ ~shut
    /\ W[w].st = "open" /\ W[w].direct /\ W[w].written = W[w].len
    /\ path' = [path EXCEPT ![W[w].key] = W[w].wip]
    /\ W' = [W EXCEPT ![w].st = "done"]
    /\ UNCHANGED <<B, dmap, dlru, I, F, fmap, flru, R, shut>>
    /\ last' = [act |-> "CommitDirect", w |-> w]

Abort(w) ==
    /\ W[w].st = "open"
    /\ B' = IF W[w].direct THEN B ELSE PutBuffer(B, W[w].buf)
    /\ W' = [W EXCEPT ![w].st = "aborted", ![w].buf = None]
    /\ UNCHANGED <<dmap, dlru, I, path, F, fmap, flru, R, shut>>
    /\ last' = [act |-> "Abort", w |-> w]

\* Get(key): memory layer, then descriptor cache, then the directory
Get(r, k, direct) ==
    /\ ~shut
    /\ R[r].src = "none"
    /\ \A q \in Readers : q < r => R[q].src # "none"
    /\ (DirectMode => direct)
    /\ IF ~direct /\ dmap[k] # None
       THEN /\ B' = IF ReadersHold THEN [B EXCEPT ![dmap[k]].holders = @ + 1] ELSE B
            /\ dlru' = MoveFront(dlru, k)
            /\ R' = [R EXCEPT ![r] = [key |-> k, src |-> "mem", ref |-> dmap[k]]]
            /\ UNCHANGED <<F, flru>>
            /\ last' = [act |-> "Get", r |-> r, k |-> k, direct |-> direct, hit |-> TRUE, src |-> "mem"]
       ELSE IF ~direct /\ fmap[k] # None
       THEN /\ F' = [F EXCEPT ![fmap[k]].holders = @ + 1]
            /\ flru' = MoveFront(flru, k)
            /\ R' = [R EXCEPT ![r] = [key |-> k, src |-> "fd", ref |-> fmap[k]]]
            /\ UNCHANGED <<B, dlru>>
            /\ last' = [act |-> "Get", r |-> r, k |-> k, direct |-> direct, hit |-> TRUE, src |-> "fd"]
       ELSE IF path[k] # None
       THEN /\ F' = Append(F, [ino |-> path[k], inLRU |-> FALSE, holders |-> 0, closed |-> FALSE])
            /\ R' = [R EXCEPT ![r] = [key |-> k, src |-> IF direct THEN "dfile" ELSE "file", ref |-> Len(F) + 1]]
            /\ UNCHANGED <<B, dlru, flru>>
            /\ last' = [act |-> "Get", r |-> r, k |-> k, direct |-> direct, hit |-> TRUE, src |-> "file"]
       ELSE /\ R' = [R EXCEPT ![r] = [key |-> k, src |-> "closed", ref |-> None]]
            /\ UNCHANGED <<B, dlru, F, flru>>
            /\ last' = [act |-> "Get", r |-> r, k |-> k, direct |-> direct, hit |-> FALSE, src |-> "miss"]
    /\ UNCHANGED <<W, dmap, I, path, fmap, shut>>

\* what a ReadAt of the whole value returns right now
Content(r) ==
    IF R[r].src = "mem" THEN [val |-> B[R[r].ref].val, n |-> B[R[r].ref].n, err |-> FALSE]
    ELSE IF F[R[r].ref].closed THEN [val |-> 0, n |-> 0, err |-> TRUE]
    ELSE [val |-> I[F[R[r].ref].ino].val, n |-> I[F[R[r].ref].ino].n, err |-> FALSE]

ReadAt(r) ==
    /\ R[r].src \in {"mem", "fd", "file", "dfile"}
    /\ UNCHANGED core
    /\ last' = [act |-> "ReadAt", r |-> r, k |-> R[r].key, res |-> Content(r)]

CloseReader(r) ==
    /\ R[r].src \in {"mem", "fd", "file", "dfile"}
    /\ LET k == R[r].key
           x == R[r].ref
       IN CASE R[r].src = "mem" ->
                 /\ B' = IF ReadersHold THEN MaybeRecycle([B EXCEPT ![x].holders = @ - 1], x) ELSE B
                 /\ UNCHANGED <<F, fmap, flru>>
            [] R[r].src = "fd" ->
                 /\ F' = MaybeCloseFd([F EXCEPT ![x].holders = @ - 1], x)
                 /\ UNCHANGED <<B, fmap, flru>>
            [] R[r].src = "dfile" ->
                 /\ F' = [F EXCEPT ![x].closed = TRUE]
                 /\ UNCHANGED <<B, fmap, flru>>
            [] R[r].src = "file" ->      \* fileCache.Add(key, file); done() at once
                 /\ B' = B
                 /\ IF fmap[k] # None
                    THEN /\ F' = [F EXCEPT ![x].closed = TRUE]
                         /\ flru' = MoveFront(flru, k)
                         /\ fmap' = fmap
                    ELSE LET o1   == <<k>> \o flru
                             over == Len(o1) > FdCap
                             ko   == o1[Len(o1)]
                             f1   == [F EXCEPT ![x].inLRU = TRUE]
                         IN /\ flru' = IF over THEN SubSeq(o1, 1, Len(o1) - 1) ELSE o1
                            /\ fmap' = IF over THEN [fmap EXCEPT ![k] = x, ![ko] = None] ELSE [fmap EXCEPT ![k] = x]
                            /\ F' = IF over THEN MaybeCloseFd([f1 EXCEPT ![fmap[ko]].inLRU = FALSE], fmap[ko]) ELSE f1
    /\ R' = [R EXCEPT ![r].src = "closed"]
    /\ UNCHANGED <<W, dmap, dlru, I, path, shut>>
    /\ last' = [act |-> "CloseReader", r |-> r]

\* Close(): dc.closed, both LRUs cleared (every entry leaves; buffers/files of open readers survive until released -
\* the C10 contract), directory removed (final files unlinked: descriptors that are open keep their inode).
\* Only enabled when no persistence goroutine is between publish and rename (a Close racing with it makes the rename
\* fail, which this model does not follow).
RECURSIVE RecycleAll(_, _)
RecycleAll(bs, S) ==
    IF S = {} THEN bs
    ELSE LET b == CHOOSE x \in S : TRUE IN RecycleAll(MaybeRecycle([bs EXCEPT ![b].inLRU = FALSE], b), S \ {b})
RECURSIVE CloseAllFds(_, _)
CloseAllFds(fs, S) ==
    IF S = {} THEN fs
    ELSE LET f == CHOOSE x \in S : TRUE IN CloseAllFds(MaybeCloseFd([fs EXCEPT ![f].inLRU = FALSE], f), S \ {f})
CloseCache ==
    /\ ~shut
    /\ \A w \in Writers : W[w].st \notin {"published", "written", "renamed"}
    /\ shut' = TRUE
    /\ B' = RecycleAll(B, {dmap[k] : k \in {x \in Keys : dmap[x] # None}})
    /\ F' = CloseAllFds(F, {fmap[k] : k \in {x \in Keys : fmap[x] # None}})
    /\ dmap' = [k \in Keys |-> None] /\ dlru' = <<>>
    /\ fmap' = [k \in Keys |-> None] /\ flru' = <<>>
    /\ path' = [k \in Keys |-> None]
    /\ UNCHANGED <<W, I, R>>
    /\ last' = [act |-> "CloseCache"]

Next ==
    \/ CloseCache
    \/ \E w \in Writers, k \in Keys, len \in Lens, d \in BOOLEAN : AddOpen(w, k, len, d)
    \/ \E w \in Writers : Write(w)
    \/ \E w \in Writers : CommitPublish(w)
    \/ \E w \in Writers : PersistWrite(w)
    \/ \E w \in Writers : PersistRename(w)
    \/ \E w \in Writers : LateWrite(w)
    \/ \E w \in Writers : CommitDirect(w)
    \/ \E w \in Writers : Abort(w)
    \/ \E r \in Readers, k \in Keys, d \in BOOLEAN : Get(r, k, d)
    \/ \E r \in Readers : ReadAt(r)
    \/ \E r \in Readers : CloseReader(r)

Spec == Init /\ [][Next]_vars

----------------------------------------------------------------------------
(* Property C11                                                            *)

\* writers of key k whose Commit has begun (published to memory or renamed into place)
CommitBegun(k) == {w \in Writers : W[w].key = k /\ W[w].st \in {"published", "written", "renamed", "done"}}

\* a read result is fine iff it is exactly the complete value of some writer of that key whose commit began
ResultOK(k, res) ==
    /\ ~res.err
    /\ \E w \in CommitBegun(k) : res.n = W[w].len /\ (res.n = 0 \/ res.val = w)

\* every hit returns exactly the bytes committed under that key (state form: what any open reader WOULD read)
HitIsCommitted ==
    \A r \in Readers : R[r].src \in {"mem", "fd", "file", "dfile"} => ResultOK(R[r].key, Content(r))
\* the same on the observation of actual reads
ReadsAreCommitted ==
    last.act = "ReadAt" => ResultOK(last.k, last.res)

\* a buffer in the pool or in a writer's hands is never visible through the LRU or a reader
NoRecycleWhileReferenced ==
    /\ \A k \in Keys : dmap[k] # None => ~B[dmap[k]].pooled
    /\ \A r \in Readers : R[r].src = "mem" => ~B[R[r].ref].pooled
    /\ \A w \in Writers : W[w].st \in {"published", "written", "renamed"} => ~B[W[w].cached].pooled
\* the final path never names a partially written file
FinalFilesComplete ==
    \A k \in Keys : path[k] # None =>
        \E w \in CommitBegun(k) : I[path[k]].n = W[w].len /\ (W[w].len = 0 \/ I[path[k]].val = w)

TypeOK ==
    /\ \A b \in 1..Len(B) : B[b].holders >= 0
    /\ \A f \in 1..Len(F) : F[f].holders >= 0
    /\ Len(dlru) <= DataCap /\ Len(flru) <= FdCap
=============================================================================

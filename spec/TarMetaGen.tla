---------------------------- MODULE TarMetaGen -----------------------------
(* Generation config for TarMeta: every transition printed as JSON. The    *)
(* state is the set of directories whose listing is memoised.              *)
EXTENDS TarMeta, Json
CoreRec  == [memo |-> memo]
CoreRecP == [memo |-> memo']
GenInit == Init /\ PrintT("VINIT " \o ToJson(CoreRec))
GenNext == Next /\ PrintT("VEDGE " \o ToJson([from |-> CoreRec, last |-> last', to |-> CoreRecP]))
=============================================================================

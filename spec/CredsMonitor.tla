---------------------------- MODULE CredsMonitor ----------------------------
(* Monitor (soundness rule, DESIGN 2.5): no enabling conditions. The next  *)
(* recorded request and the answer the IMPLEMENTATION gave are loaded into *)
(* the observable variables (request history pulls/removed, last); only    *)
(* the formulas of property C18 are evaluated. config is not used.         *)
EXTENDS Creds, Json, TLCExt

VARIABLE l
mvars == <<vars, l>>

TraceLog == ndJsonDeserialize("trace.ndjson")
Ev == TraceLog[l]

MonInit == Init /\ l = 1

AnsOf(p) == [user |-> p.user, secret |-> p.secret, err |-> p.err]

MonNext ==
    /\ l <= Len(TraceLog)
    /\ l' = l + 1
    /\ UNCHANGED config
    /\ connected' = (IF Ev.ev = "Reset" THEN FALSE ELSE IF Ev.ev = "Connect" THEN TRUE ELSE connected)
    /\ pulls' = IF Ev.ev = "Reset" THEN <<>>
                ELSE IF Ev.ev = "Pull" THEN Append(pulls, [ref |-> Norm(Ev.img), form |-> Ev.form])
                ELSE pulls
    /\ removed' = IF Ev.ev = "Reset" THEN [r \in Refs |-> FALSE]
                  ELSE IF Ev.ev = "Pull" THEN [removed EXCEPT ![Norm(Ev.img)] = FALSE]
                  \* the image is gone when the backend removed it (the proxy answered without error)
                  ELSE IF Ev.ev = "Remove" /\ ~Ev.err THEN [removed EXCEPT ![Norm(Ev.img)] = TRUE]
                  ELSE removed
    /\ last' = IF Ev.ev = "Query"
               THEN [act |-> "Query", host |-> Ev.host, ref |-> Ev.ref, chain |-> Ev.chain,
                     parts |-> [i \in 1..Len(Ev.parts) |-> AnsOf(Ev.parts[i])],
                     user |-> Ev.user, secret |-> Ev.secret, err |-> Ev.err]
               ELSE [act |-> Ev.ev]

MonSpec == MonInit /\ [][MonNext]_mvars

\* the driver names the secrets of the n-th pull request of a trace after n: the recorded id must be the position
MonPullIdsInOrder == [][(Ev.ev = "Pull") => Ev.n = Len(pulls) + 1]_mvars
=============================================================================

----------------------------- MODULE SortTrace -----------------------------
(* Trace validation for C14 (implementation -> specification).             *)
(* trace.ndjson: one "Build" event per real estargz.Build call made by     *)
(* harness/estargz/verif_sort_test.go. The event carries the case (tar,    *)
(* prio, allow, opt) and what the implementation produced (err class,      *)
(* missed, entry order of the decompressed tar, observed stream layout).   *)
(* The step is enabled only if the transcribed algorithm of Sort.tla       *)
(* computes exactly that result: deterministic, one successor per event.   *)
(* The only nondeterminism of the model, the min-chunk-size decision per   *)
(* data chunk (D5), is bound from the observation: a chunk "found enough   *)
(* compressed bytes" iff its TOC innerOffset is 0.                         *)
EXTENDS Sort, Json, TLCExt

VARIABLE l
tvars == <<vars, l>>

TraceLog == ndJsonDeserialize("trace.ndjson")
Ev == TraceLog[l]

TraceInit == Init /\ l = 1 /\ TLCSet(1, 0)

\* observed layout against the model's layout under the observed decisions
LayoutConforms(o, op, obs) ==
    LET enough == {<<obs.toc[j].i, obs.toc[j].o>> : j \in {j \in 1..Len(obs.toc) : obs.toc[j].inner = 0}}
        m == LayoutOf(o, op, enough)
    IN  /\ Len(m.streams) = Len(obs.streams)
        /\ \A k \in 1..Len(m.streams) :
             /\ Len(m.streams[k].segs) = Len(obs.streams[k].segs)
             /\ \A j \in 1..Len(m.streams[k].segs) :
                  LET a == m.streams[k].segs[j]  b == obs.streams[k].segs[j] IN
                  a.i = b.i /\ a.o = b.o /\ a.n = b.n /\ ((a.u = 0) <=> (b.u = 0))
        /\ Len(m.toc) = Len(obs.toc)
        /\ \A j \in 1..Len(m.toc) :
             LET a == m.toc[j]  b == obs.toc[j] IN
             /\ a.i = b.i /\ a.o = b.o /\ a.n = b.n /\ ((a.inner = 0) <=> (b.inner = 0))
             /\ b.off = obs.streams[a.off].s          \* the TOC offset is the start of the stream that holds the chunk
        /\ (m.lm.inner = 0) <=> (obs.lm.inner = 0)
        /\ obs.lm.off = obs.streams[m.lm.off].s

TraceBuild ==
    /\ l <= Len(TraceLog) /\ Ev.ev = "Build" /\ l' = l + 1
    /\ tar' = Ev.tar /\ prio' = Ev.prio /\ allow' = Ev.allow /\ eff' = EffOf(Ev.tar)
    /\ opt' = Ev.opt
    /\ LET r == SortEntries(Ev.tar, Ev.prio, Ev.allow) IN
       /\ Ev.err \in {"", "notfound", "loop"}
       /\ r.err = (Ev.err # "") /\ r.why = Ev.err
       /\ r.out = Ev.order
       /\ r.missed = Ev.missed
       /\ res' = r
       /\ IF r.err THEN phase' = "sorted" /\ lay' = NoLay
          ELSE /\ LayoutConforms(r.out, Ev.opt, Ev.lay)
               /\ phase' = "laid" /\ lay' = Ev.lay

TraceNext == TraceBuild
TraceSpec == TraceInit /\ [][TraceNext]_tvars

HighWater == IF l - 1 > TLCGet(1) THEN TLCSet(1, l - 1) ELSE TRUE
TraceAccepted ==
    IF TLCGet(1) = Len(TraceLog) THEN TRUE
    ELSE /\ PrintT("VREJECT " \o ToString(TLCGet(1)) \o " " \o ToString(Len(TraceLog)))
         /\ FALSE
=============================================================================

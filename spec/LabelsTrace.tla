---------------------------- MODULE LabelsTrace ----------------------------
(* Conformance (implementation -> specification) for Labels.tla.           *)
(* Input: trace.ndjson, ONE event per case executed by the Go driver       *)
(* (harness/fs/source/verif_labels.go):                                    *)
(*   id, case (the TLC-generated case, echoed), wl (labels the real handler *)
(*   wrote: key -> [len, klen, items, valid]), tl (tokens of the labels the *)
(*   reader received, after the case's tamper steps), res (what the real    *)
(*   reader returned, projected), head, pfread.                             *)
(* Every stage is compared with the specification's operator applied to     *)
(* the stage's RECORDED input, so that a drift is attributed to the writer, *)
(* the tamper bookkeeping of the driver, or the reader. The behaviour is    *)
(* deterministic (one successor per line); a mismatch does not block, it is *)
(* printed as VDRIFT and the run continues, so every drifting case is       *)
(* reported (a drift alone is never a violation - see LabelsMonitor).       *)
EXTENDS Labels, TLCExt

VARIABLE l
tvars == <<vars, l>>

TraceLog == ndJsonDeserialize("trace.ndjson")
Ev == TraceLog[l]
C == Ev.case

RecWL == [k \in DOMAIN Ev.wl |-> Val(Ev.wl[k].items, Ev.wl[k].len)]
ExpPf == IF PrefetchKey \in DOMAIN Ev.tl /\ TokOk(Ev.tl[PrefetchKey]) THEN Ev.tl[PrefetchKey][1] ELSE 0

\* the first few drifts are printed with expected and recorded value, the rest briefly (register 2 counts)
Drift(part, exp, got) ==
    /\ TLCSet(2, TLCGet(2) + 1)
    /\ IF TLCGet(2) <= 6
       THEN PrintT("VDRIFT " \o ToJson([line |-> l, id |-> Ev.id, part |-> part, exp |-> exp, got |-> got]))
       ELSE PrintT("VDRIFT " \o ToJson([line |-> l, id |-> Ev.id, part |-> part]))
Same(part, exp, got) == IF exp = got THEN TRUE ELSE Drift(part, exp, got)

TraceInit == Init /\ l = 1 /\ TLCSet(2, 0)

TraceCase ==
    /\ l <= Len(TraceLog)
    /\ l' = l + 1
    \* the specification's result for this case ...
    /\ phase' = "read"
    /\ cs' = [man |-> C.man, ref |-> C.ref, pf |-> C.pf, fl |-> C.fl]
    /\ tgt' = C.t /\ tam' = C.tam /\ rd' = C.rd
    /\ wl' = Writer(C.man, C.t, C.ref, C.pf, C.fl)
    /\ lbl' = ApplyTampers(RecWL, C.tam)
    /\ res' = ReadWith(Ev.tl, C.rd)
    /\ lbl2' = lbl'                               \* the specification's reader is pure
    /\ res2' = ReadWith(Ev.tla, C.rd)            \* second read: the operator applied to the map as recorded after the first
    \* ... compared with what the implementation produced (after the assignments: evaluated as plain predicates,
    \* IF keeps the step deterministic). Each stage is applied to the RECORDED input of that stage.
    /\ Same("writer", wl', RecWL)
    /\ Same("keylen", [k \in DOMAIN Ev.wl |-> Len(k)], [k \in DOMAIN Ev.wl |-> Ev.wl[k].klen])
    /\ Same("tamper", Items(lbl'), Ev.tl)
    /\ Same("reader", res', Ev.res)
    /\ Same("purity", Ev.tl, Ev.tla)
    /\ Same("reader2", res2', Ev.res2)
    /\ Same("head", IF Ev.res.ok THEN Ev.res.digest ELSE 0, Ev.head)
    /\ Same("prefetch", ExpPf, Ev.pfread)

TraceSpec == TraceInit /\ [][TraceCase]_tvars

TraceDone == IF l = Len(TraceLog) + 1 THEN PrintT("VDONE " \o ToString(Len(TraceLog))) ELSE TRUE
TraceConstraint == TraceDone
=============================================================================

----------------------------- MODULE BlobTrace -----------------------------
(* Trace validation (implementation -> specification) of recorded runs of  *)
(* a real fs/remote blob with a scripted in-memory registry and a          *)
(* recording cache. Events (trace.ndjson; "Reset" separates traces):       *)
(*   Reset   size, chunk                                                   *)
(*   Call    r, op, off, len                                               *)
(*   Req     ranges [[b,e]..] the registry saw, pers = how it answered     *)
(*   CFail   k = [b,e]: the cache refused the commit of this chunk         *)
(*   Loss    k = [b,e]: the cache dropped this chunk                       *)
(*   Return  r, n, err ("" | "err"), buf (positions, -1 = untouched),      *)
(*           fetched = FetchedSize(), regions = fetchedRegionSet.rs,       *)
(*           cached = chunk keys the cache serves, single = singleRange    *)
(* Everything between (Prepare, JoinOrLead, ReceiveChunk ok, AllSeenOrFail,*)
(* LeaderDone, SharedCopy) is composed in as unlogged internal steps; the  *)
(* split of a chunk into Write calls is fixed to one Write (Blob_mc_*      *)
(* shows the result does not depend on it).                                *)
EXTENDS Blob, Json, TLCExt

VARIABLE l
tvars == <<vars, l>>

TraceLog == ndJsonDeserialize("trace.ndjson")
Ev == TraceLog[l]
IsEvent(e) == l <= Len(TraceLog) /\ Ev.ev = e /\ l' = l + 1
Internal == UNCHANGED l
ToRegs(s) == [i \in 1..Len(s) |-> Reg(s[i][1], s[i][2])]
ToKeys(s) == {<<s[i][1], s[i][2]>> : i \in 1..Len(s)}

TraceInit == Init /\ l = 1 /\ TLCSet(1, 0)

TraceReset ==
    /\ IsEvent("Reset")
    /\ size' = Ev.size /\ chunk' = Ev.chunk
    /\ cache' = <<>> /\ regions' = <<>> /\ committed' = {} /\ single' = FALSE /\ flights' = <<>>
    /\ rd' = [r \in Readers |-> Idle]
    /\ cnt' = [ops |-> 0, req |-> 0, loss |-> 0, cfail |-> 0]
    /\ last' = [act |-> "Init"]

TraceCall == IsEvent("Call") /\ Call(Ev.r, Ev.op, Ev.off, Ev.len)
TraceReq == IsEvent("Req") /\ \E r \in Readers : Fetch(r, Ev.pers) /\ last'.req = ToRegs(Ev.ranges)
TraceCFail == IsEvent("CFail") /\ \E r \in Readers, n \in 1..chunk : ReceiveChunk(r, <<n>>, FALSE) /\ last'.k = <<Ev.k[1], Ev.k[2]>>
TraceLoss == IsEvent("Loss") /\ CacheLoss(<<Ev.k[1], Ev.k[2]>>)
TraceReturn ==
    /\ IsEvent("Return") /\ Finish(Ev.r)
    /\ last'.n = Ev.n /\ last'.err = Ev.err
    /\ Ev.err = "" => last'.buf = Ev.buf
    /\ RSTotal(regions) = Ev.fetched
    /\ regions = ToRegs(Ev.regions)
    /\ DOMAIN cache = ToKeys(Ev.cached)
    /\ single = Ev.single

TracePrepare == Internal /\ \E r \in Readers : Prepare(r)
TraceJoin == Internal /\ \E r \in Readers : JoinOrLead(r)
TraceReceive == Internal /\ \E r \in Readers, n \in 0..chunk : ReceiveChunk(r, IF n = 0 THEN <<>> ELSE <<n>>, TRUE)
TraceAllSeen == Internal /\ \E r \in Readers : AllSeenOrFail(r)
TraceLeaderDone == Internal /\ \E r \in Readers : LeaderDone(r)
TraceShared == Internal /\ \E r \in Readers : \E k \in rd[r].need : SharedCopy(r, k)

TraceNext ==
    \/ TraceReset \/ TraceCall \/ TraceReq \/ TraceCFail \/ TraceLoss \/ TraceReturn
    \/ TracePrepare \/ TraceJoin \/ TraceReceive \/ TraceAllSeen \/ TraceLeaderDone \/ TraceShared

TraceSpec == TraceInit /\ [][TraceNext]_tvars

HighWater == IF l - 1 > TLCGet(1) THEN TLCSet(1, l - 1) ELSE TRUE
TraceAccepted ==
    IF TLCGet(1) = Len(TraceLog) THEN TRUE
    ELSE /\ PrintT("VREJECT " \o ToString(TLCGet(1)) \o " " \o ToString(Len(TraceLog)))
         /\ FALSE
=============================================================================

\* generation, one caller: every step of Mount/Check/Unmount with every environment choice
CONSTANTS
    MPs = {"m1", "m2"}
    Blobs = {"b1", "b2"}
    Labs = {"ok", "bad", "skip", "none", "malformed", "mirror"}
    Ops = {"Mount", "Check", "Unmount"}
    MaxCalls = 3
    MaxConc = 1
    MaxObj = 3
    SameMp = FALSE
    OneMount = TRUE
    AllowNoVerif = TRUE
    DisableVerif = FALSE
    NoPrefetch = FALSE
    NoBgFetch = TRUE
    PreRes = FALSE
    Expiry = FALSE
    ReleaseOnFail = TRUE
    EraseOnFail = TRUE
    VerifyFirst = TRUE
    SkipNeedsAllow = TRUE
    UnmountCloses = TRUE
    CheckOwnKey = TRUE
    DoneAlways = TRUE
    BgRespectsPrio = TRUE
INIT GenInit
NEXT GenNext
VIEW core
CHECK_DEADLOCK FALSE

CONSTANTS
    Gor = {1, 2, 3}
    Names = {"a", "b"}
    Rounds = 1000000
    DeleteOnlyAtZero = TRUE
    CountWaiters = TRUE
    OuterMutex = TRUE
    UnlockOrder = "dec_first"
    AllowAbsent = TRUE
    NilMapGuard = TRUE
SPECIFICATION TraceSpec
CONSTRAINT HighWater
INVARIANTS MutualExclusionPerName MapNeverLeaks RefsAccount PairedUnlockNeverPanics OuterNeverStuck
POSTCONDITION TraceAccepted
CHECK_DEADLOCK FALSE

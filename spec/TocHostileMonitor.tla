-------------------------- MODULE TocHostileMonitor --------------------------
(* Monitor of property C04 (soundness rule, DESIGN 2.5): evaluated on what   *)
(* the implementation did with each hostile input, nothing else.             *)
(* trace.ndjson: one line per (case, entry point): [case, ep, out, msg];      *)
(* out is "ok" / "error" (returned), "panic" (recovered in the child),        *)
(* "fatal" (the child process died: stack overflow, out of memory, ...),      *)
(* "timeout" (no progress within the per-case deadline, child killed).        *)
(* Lines are independent: every line is a successor of the initial state, so  *)
(* with -continue TLC reports every line on which the formula is false.       *)
EXTENDS Integers, Sequences, TLC, Json
VARIABLE l
TraceLog == ndJsonDeserialize("trace.ndjson")
NoCrashNoHang == l >= 1 => TraceLog[l].out \in {"ok", "error"}
Report == (l >= 1 /\ ~NoCrashNoHang) => PrintT("VBAD " \o ToString(l) \o " " \o TraceLog[l].out)
MonInit == l = 0
MonNext == l = 0 /\ l' \in 1..Len(TraceLog)
MonSpec == MonInit /\ [][MonNext]_l
=============================================================================

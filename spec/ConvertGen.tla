----------------------------- MODULE ConvertGen -----------------------------
(* Generation: TLC prints every transition of the schedule graph as JSON;   *)
(* tools/vlib.py turns the edges into walks (= schedules of the segments of *)
(* the parallel conversions) that the Go driver imposes on real goroutines. *)
EXTENDS Convert, Json

GenRec  == [src |-> src,  pc |-> pc,  slot |-> slot,  wholder |-> wholder, wdata |-> wdata,
            res |-> res, inmap |-> inmap, img |-> Len(img), nintr |-> nintr, nstore |-> Cardinality(DOMAIN store)]
GenRecP == [src |-> src', pc |-> pc', slot |-> slot', wholder |-> wholder', wdata |-> wdata',
            res |-> res', inmap |-> inmap', img |-> Len(img'), nintr |-> nintr', nstore |-> Cardinality(DOMAIN store')]

\* conversions are symmetric: only ordered source pairs are generated
GenInit == Init /\ (\A c \in 1..(NConv-1) : src[c].blob <= src[c+1].blob) /\ PrintT("VINIT " \o ToJson(GenRec))
GenNext == Next /\ PrintT("VEDGE " \o ToJson([from |-> GenRec, last |-> last', to |-> GenRecP]))
=============================================================================
